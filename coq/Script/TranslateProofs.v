(* Facts about the converter model (Script/Translate.v): freshness of generated names, and
   stage S1 of the compiler-correctness theorem (straight-line programs). *)
From Coq Require Import List String ZArith Bool Arith Lia.
Require Import OV.Graph.Syntax OV.Graph.Sem OV.Graph.SemProofs OV.Graph.Wf OV.Graph.WfProofs.
Require Import OV.Script.Syntax OV.Script.Sets OV.Gen.Analysis OV.Gen.ScriptTables OV.Script.Translate OV.Script.PySem.
Import ListNotations.
Local Open Scope string_scope.
Local Open Scope list_scope.

(* ------------------------------------------------------------------ _generate_unique_name *)

Lemma gen_loop_fresh : forall fuel cand used next r n',
  gen_loop fuel cand used next = Some (r, n') -> ~ In r used /\ next < n'.
Proof.
  induction fuel as [|f IH]; intros cand used next r n' H; cbn [gen_loop] in H; [discriminate|].
  destruct (mem (cand ++ "_" ++ nat_to_string next)%string used) eqn:E.
  - apply IH in H. destruct H as [H1 H2]. split; [exact H1 | lia].
  - inversion H; subst. split; [apply mem_false_not_In; exact E | lia].
Qed.

(* the generated name is not in the used set, the used set only grows (by exactly that name), the counter
   never decreases, nothing else changes *)
Theorem gen_unique_fresh : forall cand st r st',
  gen_unique cand st = Some (r, st') ->
  ~ In r (ts_used st) /\ ts_used st' = r :: ts_used st /\ ts_next st <= ts_next st'
  /\ ts_castable st' = ts_castable st /\ ts_orders st' = ts_orders st.
Proof.
  intros cand st r st' H. unfold gen_unique in H.
  destruct (mem cand (ts_used st)) eqn:E.
  - destruct (gen_loop (S (List.length (ts_used st))) cand (ts_used st) (ts_next st)) as [[r0 n0]|] eqn:G; [|discriminate].
    inversion H; subst. apply gen_loop_fresh in G. destruct G as [G1 G2].
    cbn. repeat split; [exact G1 | lia].
  - inversion H; subst. cbn. repeat split; [apply mem_false_not_In; exact E | lia].
Qed.

(* ------------------------------------------------------------------ the monad *)

Lemma bind_some : forall A B (m : M A) (f : A -> M B) st b st2 ns,
  bind m f st = Some (b, st2, ns) ->
  exists a st1 n1 n2, m st = Some (a, st1, n1) /\ f a st1 = Some (b, st2, n2) /\ ns = n1 ++ n2.
Proof.
  intros A B m f st b st2 ns H. unfold bind in H.
  destruct (m st) as [[[a st1] n1]|]; [|discriminate].
  destruct (f a st1) as [[[b' st2'] n2]|] eqn:E; [|discriminate].
  inversion H; subst. exists a, st1, n1, n2. auto.
Qed.

Lemma ret_some : forall A (a : A) st b st' ns, ret a st = Some (b, st', ns) -> b = a /\ st' = st /\ ns = [].
Proof. intros A a st b st' ns H. unfold ret in H. inversion H; auto. Qed.

Lemma emit_some : forall n st u st' ns, emit n st = Some (u, st', ns) -> st' = st /\ ns = [n].
Proof. intros n st u st' ns H. unfold emit in H. inversion H; auto. Qed.

Lemma uniq_some : forall c st r st' ns, uniq c st = Some (r, st', ns) -> gen_unique c st = Some (r, st') /\ ns = [].
Proof.
  intros c st r st' ns H. unfold uniq in H. destruct (gen_unique c st) as [[r0 st0]|]; [|discriminate].
  inversion H; subst. auto.
Qed.

Lemma mark_castable_some : forall x st u st' ns,
  mark_castable x st = Some (u, st', ns) -> st' = add_castable x st /\ ns = [].
Proof. intros x st u st' ns H. unfold mark_castable in H. inversion H; auto. Qed.

(* the state only ever grows: used names are kept, castable names are kept *)
Definition st_le (st st' : tstate) : Prop :=
  incl (ts_used st) (ts_used st') /\ incl (ts_castable st) (ts_castable st').

Lemma st_le_refl st : st_le st st.
Proof. split; apply incl_refl. Qed.
Lemma st_le_trans a b c : st_le a b -> st_le b c -> st_le a c.
Proof. intros [H1 H2] [H3 H4]. split; eapply incl_tran; eassumption. Qed.

(* ------------------------------------------------------------------ S1: straight-line programs *)

(* the operators the converter emits for Python operators are ordinary kernels (neither If nor Loop) *)
Definition is_ctl (op : string) : bool := String.eqb op "If" || String.eqb op "Loop".

Lemma primop_not_ctl : forallb (fun p => negb (is_ctl (snd p))) primop_map = true.
Proof. vm_compute. reflexivity. Qed.

Lemma lookup_assoc_in : forall A x (l : list (string * A)) v, lookup_assoc x l = Some v -> In (x, v) l.
Proof.
  intros A x l. unfold lookup_assoc. induction l as [|[k w] t IH]; intros v H; [discriminate|].
  destruct (String.eqb k x) eqn:E.
  - inversion H; subst. apply String.eqb_eq in E. subst. left. reflexivity.
  - right. apply IH. exact H.
Qed.

Lemma primop_plain : forall op opname, lookup_assoc op primop_map = Some opname -> is_ctl opname = false.
Proof.
  intros op opname H. apply lookup_assoc_in in H.
  pose proof primop_not_ctl as P. rewrite forallb_forall in P. specialize (P _ H). cbn in P.
  apply negb_true_iff in P. exact P.
Qed.

(* expressions of the S1 class: operator calls never name the control-flow operators *)
Fixpoint expr_ok (e : expr) : bool :=
  match e with
  | EVar _ | ELit _ => true
  | EUn _ a => expr_ok a
  | EBin _ a b | ECmp _ a b => expr_ok a && expr_ok b
  | ECall f args _ =>
    match f with COp name => negb (is_ctl name) | CFun _ => true end &&
    (fix go (l : list (option expr)) : bool :=
       match l with [] => true | Some a :: t => expr_ok a && go t | None :: t => go t end) args
  end.

Section ExprInd.
  Variable P : expr -> Prop.
  Hypothesis HVar : forall x, P (EVar x).
  Hypothesis HLit : forall l, P (ELit l).
  Hypothesis HUn : forall op a, P a -> P (EUn op a).
  Hypothesis HBin : forall op a b, P a -> P b -> P (EBin op a b).
  Hypothesis HCmp : forall op a b, P a -> P b -> P (ECmp op a b).
  Hypothesis HCall : forall f args kws,
    Forall (fun o => match o with Some a => P a | None => True end) args -> P (ECall f args kws).
  Fixpoint expr_ind' (e : expr) : P e :=
    match e with
    | EVar x => HVar x
    | ELit l => HLit l
    | EUn op a => HUn op a (expr_ind' a)
    | EBin op a b => HBin op a b (expr_ind' a) (expr_ind' b)
    | ECmp op a b => HCmp op a b (expr_ind' a) (expr_ind' b)
    | ECall f args kws =>
      HCall f args kws
        ((fix go (l : list (option expr)) : Forall (fun o => match o with Some a => P a | None => True end) l :=
            match l with
            | [] => Forall_nil _
            | Some a :: t => Forall_cons (Some a) (expr_ind' a) (go t)
            | None :: t => Forall_cons None I (go t)
            end) args)
    end.
End ExprInd.

Section S1.
  Variable V : Type.
  Variable sem : string -> string -> list (string * attrv) -> list (option V) -> option (list V).
  Variable truth : V -> option bool.
  Variable trip : V -> option nat.
  Variable of_nat : nat -> V.
  Variable of_bool : bool -> V.
  Variable limit : nat.
  Variable while_limit : nat.
  Variable globals : list (string * lit).
  Variable ev : env V -> graph -> list V -> option (list V).     (* any evaluator of subgraphs: S1 graphs have none *)

  (* the one kernel law the translation relies on: Identity copies its input *)
  Hypothesis sem_identity : forall v, sem "" "Identity" [] [Some v] = Some [v].

  Notation run := (Sem.run V sem truth trip of_nat of_bool limit ev).
  Notation pval := (pval V).
  Notation eval_expr := (eval_expr V sem globals).

  Lemma run_plain : forall (ρ : env V) dom op ins outs attrs vs rs ρ',
    (dom = "" -> is_ctl op = false) ->
    lookup_opts ρ ins = Some vs -> sem dom op attrs vs = Some rs -> Sem.bind outs rs ρ = Some ρ' ->
    run ρ [Node dom op ins outs attrs []] = Some ρ'.
  Proof.
    intros ρ dom op ins outs attrs vs rs ρ' Hc Hl Hs Hb. cbn [Sem.run Sem.eval_node].
    assert (Hif : is_if dom op = false).
    { unfold is_if. destruct (String.eqb dom "") eqn:E; [|reflexivity]. apply String.eqb_eq in E.
      specialize (Hc E). unfold is_ctl in Hc. apply orb_false_iff in Hc. destruct Hc as [Hc _]. cbn. exact Hc. }
    assert (Hlp : is_loop dom op = false).
    { unfold is_loop. destruct (String.eqb dom "") eqn:E; [|reflexivity]. apply String.eqb_eq in E.
      specialize (Hc E). unfold is_ctl in Hc. apply orb_false_iff in Hc. destruct Hc as [_ Hc]. cbn. exact Hc. }
    rewrite Hif, Hlp, Hl, Hs, Hb. reflexivity.
  Qed.

  (* ---- the simulation relation *)

  Definition rel (ρ : env V) (cast : list string) (pv : pval) (n : vname) : Prop :=
    match pv with
    | PT _ v => lookup ρ n = Some v /\ ~ In n cast
    | PS _ l c => lookup ρ n = Some c /\ In n cast
    end.

  Lemma rel_lookup : forall ρ cast pv n, rel ρ cast pv n -> lookup ρ n = Some (tensor_of V pv).
  Proof. intros ρ cast [v|l c] n [H _]; exact H. Qed.

  Lemma rel_flag : forall ρ cast pv n, rel ρ cast pv n -> mem n cast = is_scalar V pv.
  Proof.
    intros ρ cast [v|l c] n [_ H]; cbn.
    - destruct (mem n cast) eqn:E; [apply mem_In in E; contradiction | reflexivity].
    - apply mem_In. exact H.
  Qed.

  Definition st_ok (ρ : env V) (st : tstate) : Prop :=
    (forall m v, lookup ρ m = Some v -> In m (ts_used st)) /\ incl (ts_castable st) (ts_used st).

  Definition grows (ρ ρ' : env V) (st st' : tstate) : Prop :=
    (forall m, In m (ts_used st) -> lookup ρ' m = lookup ρ m) /\
    incl (ts_used st) (ts_used st') /\
    (forall m, In m (ts_used st) -> (In m (ts_castable st') <-> In m (ts_castable st))) /\
    st_ok ρ' st'.

  Lemma grows_refl : forall ρ st, st_ok ρ st -> grows ρ ρ st st.
  Proof.
    intros ρ st H. split; [|split; [|split]].
    - reflexivity.
    - apply incl_refl.
    - intros m Hm. tauto.
    - exact H.
  Qed.

  Lemma grows_trans : forall ρ ρ1 ρ2 st st1 st2,
    grows ρ ρ1 st st1 -> grows ρ1 ρ2 st1 st2 -> grows ρ ρ2 st st2.
  Proof.
    intros ρ ρ1 ρ2 st st1 st2 (A1 & A2 & A3 & A4) (B1 & B2 & B3 & B4). split; [|split; [|split]].
    - intros m Hm. rewrite B1 by (apply A2; exact Hm). apply A1. exact Hm.
    - eapply incl_tran; eassumption.
    - intros m Hm. split.
      + intros H. apply A3; [exact Hm|]. apply B3; [apply A2; exact Hm | exact H].
      + intros H. apply B3; [apply A2; exact Hm|]. apply A3; [exact Hm | exact H].
    - exact B4.
  Qed.

  Lemma rel_grows : forall ρ ρ' st st' pv n,
    grows ρ ρ' st st' -> st_ok ρ st -> rel ρ (ts_castable st) pv n -> rel ρ' (ts_castable st') pv n.
  Proof.
    intros ρ ρ' st st' pv n (G1 & G2 & G3 & G4) [S1 S2] R.
    assert (Hn : In n (ts_used st)). { eapply S1. eapply rel_lookup. exact R. }
    destruct pv as [v|l c]; destruct R as [R1 R2]; split.
    - rewrite G1 by exact Hn. exact R1.
    - intros H. apply R2. apply G3; assumption.
    - rewrite G1 by exact Hn. exact R1.
    - apply G3; assumption.
  Qed.

  (* binding a freshly generated name *)
  Lemma grows_fresh : forall ρ st c r st' v,
    st_ok ρ st -> gen_unique c st = Some (r, st') -> grows ρ ((r, v) :: ρ) st st' /\ ~ In r (ts_castable st').
  Proof.
    intros ρ st c r st' v [S1 S2] H. apply gen_unique_fresh in H. destruct H as (F1 & F2 & _ & F4 & _).
    split; [split; [|split; [|split; [|split]]]|].
    - intros m Hm. cbn. destruct (String.eqb m r) eqn:E; [|reflexivity].
      apply String.eqb_eq in E. subst. contradiction.
    - rewrite F2. intros x Hx. right. exact Hx.
    - intros m Hm. rewrite F4. tauto.
    - intros m w Hl. rewrite F2. cbn in Hl. destruct (String.eqb m r) eqn:E.
      + apply String.eqb_eq in E. subst. left. reflexivity.
      + right. eapply S1. exact Hl.
    - rewrite F4, F2. intros x Hx. right. apply S2. exact Hx.
    - rewrite F4. intros Hc. apply F1. apply S2. exact Hc.
  Qed.

  (* ... and marking it castable *)
  Lemma grows_fresh_castable : forall ρ st c r st' v,
    st_ok ρ st -> gen_unique c st = Some (r, st') -> grows ρ ((r, v) :: ρ) st (add_castable r st').
  Proof.
    intros ρ st c r st' v Hok H. pose proof (gen_unique_fresh _ _ _ _ H) as (F1 & F2 & _ & F4 & _).
    destruct (grows_fresh ρ st c r st' v Hok H) as [(G1 & G2 & G3 & G4a & G4b) _].
    split; [|split; [|split; [|split]]]; cbn [add_castable ts_used ts_castable].
    - exact G1.
    - exact G2.
    - intros m Hm. split.
      + intros [E|Hc]; [subst; contradiction | apply G3; assumption].
      + intros Hc. right. apply G3; assumption.
    - exact G4a.
    - intros x [E|Hx]; [subst; rewrite F2; left; reflexivity | apply G4b; exact Hx].
  Qed.

  (* ---- arguments: names on the graph side, Python values on the source side *)

  Definition orel (ρ : env V) (cast : list string) (p : option pval) (n : option vname) : Prop :=
    match p, n with
    | None, None => True
    | Some pv, Some m => rel ρ cast pv m
    | _, _ => False
    end.

  Lemma orel_grows : forall ρ ρ' st st' pvs ns,
    grows ρ ρ' st st' -> st_ok ρ st ->
    Forall2 (orel ρ (ts_castable st)) pvs ns -> Forall2 (orel ρ' (ts_castable st')) pvs ns.
  Proof.
    intros ρ ρ' st st' pvs ns G Hok F. induction F as [|p n ps ns' R F IH]; constructor; [|exact IH].
    destruct p as [pv|], n as [m|]; cbn in *; try exact R. eapply rel_grows; eassumption.
  Qed.

  Lemma flags_eq : forall ρ cast pvs ns, Forall2 (orel ρ cast) pvs ns ->
    map (option_map (fun v => mem v cast)) ns = map (option_map (is_scalar V)) pvs.
  Proof.
    intros ρ cast pvs ns F. induction F as [|p n ps ns' R F IH]; [reflexivity|]. cbn [map]. f_equal; [|exact IH].
    destruct p as [pv|], n as [m|]; cbn in *; try contradiction; [|reflexivity].
    f_equal. eapply rel_flag. exact R.
  Qed.

  Lemma lookup_opts_rel : forall ρ cast pvs ns, Forall2 (orel ρ cast) pvs ns ->
    lookup_opts ρ ns = Some (map (option_map (tensor_of V)) pvs).
  Proof.
    intros ρ cast pvs ns F. induction F as [|p n ps ns' R F IH]; [reflexivity|].
    destruct p as [pv|], n as [m|]; cbn in *; try contradiction.
    - rewrite (rel_lookup _ _ _ _ R), IH. reflexivity.
    - rewrite IH. reflexivity.
  Qed.

  Lemma nth_orel : forall ρ cast allp alln, Forall2 (orel ρ cast) allp alln ->
    forall j, orel ρ cast (nth j allp None) (nth j alln None).
  Proof.
    intros ρ cast allp alln F. induction F as [|p n ps ns' R F IH]; intros [|j]; cbn; auto.
  Qed.

  Lemma castlike_plain : "" = "" -> is_ctl "CastLike" = false.
  Proof. reflexivity. Qed.

  Lemma cast_one_inv : forall (v y : vname) st (a' : option vname) st1 n1,
    (r <- uniq (v ++ "_cast")%string ;; emit (node1 "CastLike" [Some v; Some y] r []) ;;; ret (Some r)) st = Some (a', st1, n1) ->
    exists r, a' = Some r /\ n1 = [node1 "CastLike" [Some v; Some y] r []] /\ gen_unique (v ++ "_cast")%string st = Some (r, st1).
  Proof.
    intros v y st a' st1 n1 H.
    apply bind_some in H. destruct H as (r & st3 & n5 & n6 & Hu & He & E1).
    apply uniq_some in Hu. destruct Hu as (Hu & E2).
    apply bind_some in He. destruct He as (u & st4 & n7 & n8 & He & Hr & E3).
    apply emit_some in He. destruct He as (E4 & E5).
    apply ret_some in Hr. destruct Hr as (E6 & E7 & E8).
    subst. exists r. split; [reflexivity|]. split; [reflexivity|]. exact Hu.
  Qed.

  (* static casts on the graph side compute the promoted arguments of the Python reading *)
  Lemma apply_plan_sound : forall args plan alln allp pvs st args' st' nodes ρ vals,
    st_ok ρ st ->
    Forall2 (orel ρ (ts_castable st)) pvs args ->
    Forall2 (orel ρ (ts_castable st)) allp alln ->
    apply_plan args plan alln st = Some (args', st', nodes) ->
    promote_args V sem pvs plan allp = Some vals ->
    exists ρ', run ρ nodes = Some ρ' /\ lookup_opts ρ' args' = Some vals /\ grows ρ ρ' st st'.
  Proof.
    induction args as [|a t IH]; intros plan alln allp pvs st args' st' nodes ρ vals Hok Fa Fall Hap Hpr.
    - inversion Fa; subst. destruct plan; cbn in Hap; apply ret_some in Hap; destruct Hap as (-> & -> & ->);
        cbn in Hpr; inversion Hpr; subst; exists ρ; (split; [reflexivity | split; [reflexivity | apply grows_refl; exact Hok]]).
    - inversion Fa as [|p a0 ps t0 Rhd Ftl]; subst.
      destruct plan as [|pl pt].
      + (* no plan: arguments unchanged *)
        cbn in Hap. apply ret_some in Hap. destruct Hap as (-> & -> & ->).
        exists ρ. split; [reflexivity|]. split; [|apply grows_refl; exact Hok].
        rewrite (lookup_opts_rel _ _ _ _ Fa).
        assert (E : forall l, promote_args V sem l [] allp = Some (map (option_map (tensor_of V)) l)).
        { induction l as [|x l IHl]; [reflexivity|]. cbn [promote_args]. rewrite IHl. reflexivity. }
        rewrite E in Hpr. exact Hpr.
      + cbn [apply_plan] in Hap.
        apply bind_some in Hap. destruct Hap as (a' & st1 & n1 & n2 & Hhd & Hrest & ->).
        apply bind_some in Hrest. destruct Hrest as (t' & st2 & n3 & n4 & Htl & Hret & ->).
        apply ret_some in Hret. destruct Hret as (-> & -> & ->).
        cbn [promote_args] in Hpr.
        destruct (promote_args V sem ps pt allp) as [tv|] eqn:Etl; [|discriminate].
        (* the head *)
        assert (Hhead : exists ρ1 hv, run ρ n1 = Some ρ1 /\ grows ρ ρ1 st st1 /\
                  vals = hv :: tv /\ (forall ρ2 st2', grows ρ1 ρ2 st1 st2' -> lookup_opts ρ2 [a'] = Some [hv])).
        { destruct p as [pv|], a as [v|]; cbn in Rhd; try contradiction.
          - destruct pl as [j|].
            + pose proof (nth_orel _ _ _ _ Fall j) as Rj.
              destruct (nth j alln None) as [y|] eqn:Ey, (nth j allp None) as [py|] eqn:Epy; cbn in Rj; try contradiction.
              * (* a CastLike is emitted *)
                apply cast_one_inv in Hhd. destruct Hhd as (r & -> & -> & Hu).
                destruct (sem1 V sem "" "CastLike" [] [Some (tensor_of V pv); Some (tensor_of V py)]) as [res|] eqn:Es; [|discriminate].
                inversion Hpr; subst.
                destruct (grows_fresh ρ st _ r st1 res Hok Hu) as [G _].
                exists ((r, res) :: ρ), (Some res). split; [|split; [exact G | split; [reflexivity|]]].
                -- eapply run_plain.
                   ++ intros _. reflexivity.
                   ++ cbn [lookup_opts]. rewrite (rel_lookup _ _ _ _ Rhd), (rel_lookup _ _ _ _ Rj). reflexivity.
                   ++ unfold sem1 in Es. destruct (sem "" "CastLike" [] [Some (tensor_of V pv); Some (tensor_of V py)]) as [[|x [|]]|]; try discriminate.
                      inversion Es; subst. reflexivity.
                   ++ reflexivity.
                -- intros ρ2 st2' (G1 & _). cbn [lookup_opts].
                   rewrite G1; [cbn; rewrite String.eqb_refl; reflexivity|].
                   apply gen_unique_fresh in Hu. destruct Hu as (_ & -> & _). left. reflexivity.
              * (* no binding argument: unchanged *)
                apply ret_some in Hhd. destruct Hhd as (-> & -> & ->). inversion Hpr; subst.
                exists ρ, (Some (tensor_of V pv)). split; [reflexivity|]. split; [apply grows_refl; exact Hok|]. split; [reflexivity|].
                intros ρ2 st2' (G1 & _). cbn [lookup_opts]. rewrite G1; [rewrite (rel_lookup _ _ _ _ Rhd); reflexivity|].
                apply Hok with (v := tensor_of V pv). eapply rel_lookup. exact Rhd.
            + apply ret_some in Hhd. destruct Hhd as (-> & -> & ->). inversion Hpr; subst.
              exists ρ, (Some (tensor_of V pv)). split; [reflexivity|]. split; [apply grows_refl; exact Hok|]. split; [reflexivity|].
              intros ρ2 st2' (G1 & _). cbn [lookup_opts]. rewrite G1; [rewrite (rel_lookup _ _ _ _ Rhd); reflexivity|].
              apply Hok with (v := tensor_of V pv). eapply rel_lookup. exact Rhd.
          - assert (Hhd' : a' = None /\ st1 = st /\ n1 = []).
            { destruct pl; apply ret_some in Hhd; exact Hhd. }
            destruct Hhd' as (-> & -> & ->). inversion Hpr; subst.
            exists ρ, None. split; [reflexivity|]. split; [apply grows_refl; exact Hok|]. split; [reflexivity|].
            intros ρ2 st2' _. reflexivity. }
        destruct Hhead as (ρ1 & hv & Hrun1 & G1 & -> & Hlk).
        assert (Hok1 : st_ok ρ1 st1) by apply G1.
        destruct (IH pt alln allp ps st1 t' st2 n3 ρ1 tv Hok1
                    (orel_grows _ _ _ _ _ _ G1 Hok Ftl) (orel_grows _ _ _ _ _ _ G1 Hok Fall) Htl Etl)
          as (ρ2 & Hrun2 & Hlk2 & G2).
        exists ρ2. split; [|split].
        * rewrite app_nil_r. rewrite run_app, Hrun1. exact Hrun2.
        * specialize (Hlk ρ2 st2 G2). destruct a' as [m|]; cbn [lookup_opts] in *.
          -- destruct (lookup ρ2 m) as [w|]; [|discriminate]. inversion Hlk; subst. rewrite Hlk2. reflexivity.
          -- inversion Hlk; subst. rewrite Hlk2. reflexivity.
        * eapply grows_trans; eassumption.
  Qed.

  Lemma static_cast_sound : forall op args pvs st args' st' nodes ρ vals,
    st_ok ρ st -> Forall2 (orel ρ (ts_castable st)) pvs args ->
    static_cast op args st = Some (args', st', nodes) ->
    promoted V sem op pvs = Some vals ->
    exists ρ', run ρ nodes = Some ρ' /\ lookup_opts ρ' args' = Some vals /\ grows ρ ρ' st st'.
  Proof.
    intros op args pvs st args' st' nodes ρ vals Hok F Hs Hp. unfold static_cast in Hs. unfold promoted in Hp.
    destruct (lookup_assoc op op_typevars) as [tvs|].
    - rewrite (flags_eq _ _ _ _ F) in Hs.
      destruct (cast_plan tvs (map (option_map (is_scalar V)) pvs)) as [plan|]; [|discriminate].
      eapply apply_plan_sound; eassumption.
    - apply ret_some in Hs. destruct Hs as (-> & -> & ->). inversion Hp; subst.
      exists ρ. split; [reflexivity|]. split; [eapply lookup_opts_rel; exact F | apply grows_refl; exact Hok].
  Qed.

  (* ---- expressions *)

  Definition inv (pe : penv V) (sc : scopes) (ρ : env V) (st : tstate) : Prop :=
    (forall x pv, plookup V pe x = Some pv -> exists n, scopes_find x sc = Some (BV n) /\ rel ρ (ts_castable st) pv n) /\
    (forall x, plookup V pe x = None -> scopes_find x sc = None) /\
    st_ok ρ st.

  Lemma inv_grows : forall pe sc ρ ρ' st st', inv pe sc ρ st -> grows ρ ρ' st st' -> inv pe sc ρ' st'.
  Proof.
    intros pe sc ρ ρ' st st' (I1 & I2 & I3) G. split; [|split; [exact I2 | apply G]].
    intros x pv H. destruct (I1 x pv H) as (n & Hn & R). exists n. split; [exact Hn|]. eapply rel_grows; eassumption.
  Qed.

  Lemma emit_const_sound : forall l sugg st n st' nodes ρ c, st_ok ρ st ->
    emit_const l sugg st = Some (n, st', nodes) -> const_val V sem l = Some c ->
    exists ρ', run ρ nodes = Some ρ' /\ rel ρ' (ts_castable st') (PS V l c) n /\ grows ρ ρ' st st'.
  Proof.
    intros l sugg st n st' nodes ρ c Hok H Hc. unfold emit_const in H.
    apply bind_some in H. destruct H as (r & st1 & n1 & n2 & Hu & H & E1).
    apply uniq_some in Hu. destruct Hu as (Hu & E2).
    apply bind_some in H. destruct H as (u1 & st2 & n3 & n4 & Hm & H & E3).
    apply mark_castable_some in Hm. destruct Hm as (E4 & E5).
    apply bind_some in H. destruct H as (u2 & st3 & n5 & n6 & He & Hr & E6).
    apply emit_some in He. destruct He as (E7 & E8).
    apply ret_some in Hr. destruct Hr as (E9 & E10 & E11). subst. cbn [app].
    exists ((r, c) :: ρ). split; [|split].
    - eapply run_plain with (vs := []) (rs := [c]); [intros _; reflexivity | reflexivity | | reflexivity].
      unfold const_val in Hc. destruct (sem "" "Constant" [("value", lit_attr l)] []) as [[|x [|]]|]; try discriminate.
      inversion Hc; subst. reflexivity.
    - split; [cbn; rewrite String.eqb_refl; reflexivity | left; reflexivity].
    - eapply grows_fresh_castable; eassumption.
  Qed.

  (* the argument lists of calls, as standalone functions (the definitions use anonymous nested fixpoints) *)
  Definition tr_args (sc : scopes) : list (option expr) -> M (list (option vname)) :=
    fix go (l : list (option expr)) : M (list (option vname)) :=
      match l with
      | [] => ret []
      | None :: t => vs <- go t ;; ret (None :: vs)
      | Some a :: t => v <- tr_expr globals sc None a ;; vs <- go t ;; ret (Some v :: vs)
      end.

  Definition eval_args (pe : penv V) : list (option expr) -> option (list (option pval)) :=
    fix go (l : list (option expr)) : option (list (option pval)) :=
      match l with
      | [] => Some []
      | None :: t => option_map (cons None) (go t)
      | Some a :: t => match eval_expr pe a, go t with
                       | Some v, Some vs => Some (Some v :: vs)
                       | _, _ => None
                       end
      end.

  Lemma tr_expr_call_eq : forall sc target f args kws,
    tr_expr globals sc target (ECall f args kws) =
    (vals <- tr_args sc args ;;
     match f with
     | COp name =>
       vals' <- static_cast name vals ;;
       res <- uniq (target_or_tmp target) ;;
       emit (Node "" name vals' [res] (map kw_attr kws) []) ;;;
       ret res
     | CFun name =>
       res <- uniq (target_or_tmp target) ;;
       emit (Node "this" name vals [res] (map kw_attr kws) []) ;;;
       ret res
     end).
  Proof. intros. reflexivity. Qed.

  Lemma eval_expr_call_eq : forall pe f args kws,
    eval_expr pe (ECall f args kws) =
    match eval_args pe args with
    | None => None
    | Some vals =>
      match f with
      | COp name => match promoted V sem name vals with
                    | Some args' => option_map (PT V) (sem1 V sem "" name (map kw_attr kws) args')
                    | None => None
                    end
      | CFun name => option_map (PT V) (sem1 V sem "this" name (map kw_attr kws) (map (option_map (tensor_of V)) vals))
      end
    end.
  Proof. intros. reflexivity. Qed.

  Lemma run_cons1 : forall (ρ : env V) a l,
    run ρ (a :: l) = match run ρ [a] with Some e => run e l | None => None end.
  Proof. intros ρ a l. change (a :: l) with ([a] ++ l). apply run_app. Qed.

  Lemma run_two : forall (ρ : env V) a b ρ1 ρ2,
    run ρ [a] = Some ρ1 -> run ρ1 [b] = Some ρ2 -> run ρ [a; b] = Some ρ2.
  Proof. intros ρ a b ρ1 ρ2 H1 H2. rewrite run_cons1, H1. exact H2. Qed.

  Lemma finish_inv : forall dom opname args' attrs cand st (n : vname) st' nodes,
    (res <- uniq cand ;; emit (Node dom opname args' [res] attrs []) ;;; ret res) st = Some (n, st', nodes) ->
    gen_unique cand st = Some (n, st') /\ nodes = [Node dom opname args' [n] attrs []].
  Proof.
    intros dom opname args' attrs cand st n st' nodes H.
    apply bind_some in H. destruct H as (r & st1 & n1 & n2 & Hu & H & E1).
    apply uniq_some in Hu. destruct Hu as (Hu & E2).
    apply bind_some in H. destruct H as (u & st2 & n3 & n4 & He & Hr & E3).
    apply emit_some in He. destruct He as (E4 & E5).
    apply ret_some in Hr. destruct Hr as (E6 & E7 & E8). subst. split; [exact Hu | reflexivity].
  Qed.

  Lemma emit_op_sound : forall dom opname attrs (args' : list (option vname)) vals res st r st1 (ρ : env V) cand,
    st_ok ρ st ->
    (dom = "" -> is_ctl opname = false) ->
    lookup_opts ρ args' = Some vals ->
    sem1 V sem dom opname attrs vals = Some res ->
    gen_unique cand st = Some (r, st1) ->
    exists ρ', run ρ [Node dom opname args' [r] attrs []] = Some ρ' /\ rel ρ' (ts_castable st1) (PT V res) r /\ grows ρ ρ' st st1.
  Proof.
    intros dom opname attrs args' vals res st r st1 ρ cand Hok Hc Hl Hs Hu.
    destruct (grows_fresh ρ st cand r st1 res Hok Hu) as [G Hnc].
    exists ((r, res) :: ρ). split; [|split; [|exact G]].
    - eapply run_plain with (vs := vals) (rs := [res]); [exact Hc | exact Hl | | reflexivity].
      unfold sem1 in Hs. destruct (sem dom opname attrs vals) as [[|x [|]]|]; try discriminate. inversion Hs; subst. reflexivity.
    - split; [cbn; rewrite String.eqb_refl; reflexivity | exact Hnc].
  Qed.

  Definition expr_sound (e : expr) : Prop :=
    expr_ok e = true -> forall sc target st n st' nodes pe ρ pv,
    tr_expr globals sc target e st = Some (n, st', nodes) ->
    inv pe sc ρ st -> eval_expr pe e = Some pv ->
    exists ρ', run ρ nodes = Some ρ' /\ rel ρ' (ts_castable st') pv n /\ grows ρ ρ' st st'.

  Lemma tr_args_sound : forall args,
    Forall (fun o => match o with Some a => expr_sound a | None => True end) args ->
    (fix go (l : list (option expr)) : bool :=
       match l with [] => true | Some a :: t => expr_ok a && go t | None :: t => go t end) args = true ->
    forall sc st vals st' nodes pe ρ pvs,
    tr_args sc args st = Some (vals, st', nodes) -> inv pe sc ρ st -> eval_args pe args = Some pvs ->
    exists ρ', run ρ nodes = Some ρ' /\ Forall2 (orel ρ' (ts_castable st')) pvs vals /\ grows ρ ρ' st st'.
  Proof.
    induction args as [|[a|] t IH]; intros HF Hok sc st vals st' nodes pe ρ pvs Htr Hinv Hev.
    - cbn in Htr. apply ret_some in Htr. destruct Htr as (-> & -> & ->). cbn in Hev. inversion Hev; subst.
      exists ρ. split; [reflexivity|]. split; [constructor | apply grows_refl; apply Hinv].
    - inversion HF as [|x l Ha Ht]; subst. apply andb_true_iff in Hok. destruct Hok as [Hoa Hot].
      cbn [tr_args] in Htr.
      apply bind_some in Htr. destruct Htr as (v & st1 & n1 & n2 & Hta & Htr & ->).
      apply bind_some in Htr. destruct Htr as (vs & st2 & n3 & n4 & Htt & Hr & ->).
      apply ret_some in Hr. destruct Hr as (-> & -> & ->).
      cbn [eval_args] in Hev.
      destruct (eval_expr pe a) as [pv|] eqn:Ea; [|discriminate].
      fold (eval_args pe) in Hev. destruct (eval_args pe t) as [pt|] eqn:Et; [|discriminate].
      inversion Hev; subst.
      destruct (Ha Hoa sc None st v st1 n1 pe ρ pv Hta Hinv Ea) as (ρ1 & R1 & Rv & G1).
      destruct (IH Ht Hot sc st1 vs st2 n3 pe ρ1 pt Htt (inv_grows _ _ _ _ _ _ Hinv G1) Et) as (ρ2 & R2 & F2 & G2).
      exists ρ2. split; [|split].
      + rewrite app_nil_r, run_app, R1. exact R2.
      + constructor; [|exact F2]. cbn. eapply rel_grows; [exact G2 | apply G1 | exact Rv].
      + eapply grows_trans; eassumption.
    - inversion HF as [|x l Ha Ht]; subst.
      cbn [tr_args] in Htr.
      apply bind_some in Htr. destruct Htr as (vs & st2 & n3 & n4 & Htt & Hr & ->).
      apply ret_some in Hr. destruct Hr as (-> & -> & ->).
      cbn [eval_args] in Hev. fold (eval_args pe) in Hev.
      destruct (eval_args pe t) as [pt|] eqn:Et; [|discriminate]. inversion Hev; subst.
      destruct (IH Ht Hok sc st vs st2 n3 pe ρ pt Htt Hinv Et) as (ρ2 & R2 & F2 & G2).
      exists ρ2. split; [|split].
      + rewrite app_nil_r. exact R2.
      + constructor; [exact I | exact F2].
      + exact G2.
  Qed.

  Theorem tr_expr_sound : forall e, expr_sound e.
  Proof.
    apply expr_ind'; unfold expr_sound.
    - (* EVar *)
      intros x _ sc target st n st' nodes pe ρ pv Htr Hinv Hev. cbn [tr_expr] in Htr. cbn [PySem.eval_expr] in Hev.
      unfold py_var in Htr. destruct Hinv as (I1 & I2 & I3).
      destruct (plookup V pe x) as [pv0|] eqn:Ep.
      + inversion Hev; subst. destruct (I1 x pv Ep) as (m & Hm & R). rewrite Hm in Htr. cbn [to_onnx_var] in Htr.
        apply ret_some in Htr. destruct Htr as (-> & -> & ->).
        exists ρ. split; [reflexivity|]. split; [exact R | apply grows_refl; exact I3].
      + rewrite (I2 x Ep) in Htr. destruct (lookup_assoc x globals) as [l|]; [|discriminate].
        destruct (const_val V sem l) as [c|] eqn:Ec; [|discriminate]. inversion Hev; subst.
        eapply emit_const_sound; eassumption.
    - (* ELit *)
      intros l _ sc target st n st' nodes pe ρ pv Htr Hinv Hev. cbn [tr_expr] in Htr. cbn [PySem.eval_expr] in Hev.
      destruct (const_val V sem l) as [c|] eqn:Ec; [|discriminate]. inversion Hev; subst.
      eapply emit_const_sound; [apply Hinv | exact Htr | exact Ec].
    - (* EUn *)
      intros op a IHa Hok sc target st n st' nodes pe ρ pv Htr Hinv Hev. cbn [expr_ok] in Hok.
      cbn [tr_expr] in Htr. cbn [PySem.eval_expr] in Hev.
      destruct (lookup_assoc op primop_map) as [opname|] eqn:Eop; [|discriminate].
      apply bind_some in Htr. destruct Htr as (v & st1 & n1 & n2 & Hta & Htr & ->).
      unfold node1 in Htr. apply finish_inv in Htr. destruct Htr as (Hu & ->).
      destruct (eval_expr pe a) as [[va|l c]|] eqn:Ea; try discriminate.
      destruct (sem1 V sem "" opname [] [Some va]) as [res|] eqn:Es; [|discriminate]. inversion Hev; subst.
      destruct (IHa Hok sc None st v st1 n1 pe ρ (PT V va) Hta Hinv Ea) as (ρ1 & R1 & Rv & G1).
      destruct (emit_op_sound "" opname [] [Some v] [Some va] res st1 n st' ρ1 (target_or_tmp target)) as (ρ2 & R2 & Rr & G2);
        [apply G1 | intros _; eapply primop_plain; exact Eop | cbn; rewrite (proj1 Rv); reflexivity | exact Es | exact Hu |].
      exists ρ2. split; [rewrite run_app, R1; exact R2 | split; [exact Rr | eapply grows_trans; eassumption]].
    - (* EBin *)
      intros op a b IHa IHb Hok sc target st n st' nodes pe ρ pv Htr Hinv Hev. cbn [expr_ok] in Hok.
      apply andb_true_iff in Hok. destruct Hok as [Hoa Hob].
      cbn [tr_expr] in Htr. cbn [PySem.eval_expr] in Hev.
      destruct (lookup_assoc op primop_map) as [opname|] eqn:Eop; [|discriminate].
      cbv zeta in Htr. cbv zeta in Hev.
      apply bind_some in Htr. destruct Htr as (vl & st1 & n1 & n2 & Hta & Htr & ->).
      apply bind_some in Htr. destruct Htr as (vr & st2 & n3 & n4 & Htb & Htr & ->).
      apply bind_some in Htr. destruct Htr as (args' & st3 & n5 & n6 & Hsc & Htr & ->).
      unfold node1 in Htr. apply finish_inv in Htr. destruct Htr as (Hu & ->).
      destruct (eval_expr pe a) as [va|] eqn:Ea; [|discriminate].
      destruct (eval_expr pe b) as [vb|] eqn:Eb; [|discriminate].
      destruct (is_scalar V va && is_scalar V vb); [discriminate|].
      destruct (promoted V sem opname [Some va; Some vb]) as [pargs|] eqn:Ep; [|discriminate].
      destruct (sem1 V sem "" opname (binop_attrs op b) pargs) as [res|] eqn:Es; [|discriminate]. inversion Hev; subst.
      destruct (IHa Hoa sc None st vl st1 n1 pe ρ va Hta Hinv Ea) as (ρ1 & R1 & Rl & G1).
      pose proof (inv_grows _ _ _ _ _ _ Hinv G1) as Hinv1.
      destruct (IHb Hob sc None st1 vr st2 n3 pe ρ1 vb Htb Hinv1 Eb) as (ρ2 & R2 & Rr & G2).
      assert (F : Forall2 (orel ρ2 (ts_castable st2)) [Some va; Some vb] [Some vl; Some vr]).
      { constructor; [cbn; eapply rel_grows; [exact G2 | apply G1 | exact Rl] | constructor; [exact Rr | constructor]]. }
      destruct (static_cast_sound opname _ _ st2 args' st3 n5 ρ2 pargs (proj2 (proj2 (proj2 G2))) F Hsc Ep) as (ρ3 & R3 & Hlk & G3).
      destruct (emit_op_sound "" opname (binop_attrs op b) args' pargs res st3 n st' ρ3 (target_or_tmp target)) as (ρ4 & R4 & Rres & G4);
        [apply G3 | intros _; eapply primop_plain; exact Eop | exact Hlk | exact Es | exact Hu |].
      exists ρ4. split; [|split; [exact Rres|]].
      + rewrite run_app, R1, run_app, R2, run_app, R3. exact R4.
      + eapply grows_trans; [exact G1|]. eapply grows_trans; [exact G2|]. eapply grows_trans; eassumption.
    - (* ECmp *)
      intros op a b IHa IHb Hok sc target st n st' nodes pe ρ pv Htr Hinv Hev. cbn [expr_ok] in Hok.
      apply andb_true_iff in Hok. destruct Hok as [Hoa Hob].
      cbn [tr_expr] in Htr. cbn [PySem.eval_expr] in Hev.
      destruct (lookup_assoc op primop_map) as [opname|] eqn:Eop; [|discriminate].
      apply bind_some in Htr. destruct Htr as (vl & st1 & n1 & n2 & Hta & Htr & ->).
      apply bind_some in Htr. destruct Htr as (vr & st2 & n3 & n4 & Htb & Htr & ->).
      destruct (eval_expr pe a) as [va|] eqn:Ea; [|discriminate].
      destruct (eval_expr pe b) as [vb|] eqn:Eb; [|discriminate].
      destruct (is_scalar V va && is_scalar V vb); [discriminate|].
      destruct (IHa Hoa sc None st vl st1 n1 pe ρ va Hta Hinv Ea) as (ρ1 & R1 & Rl & G1).
      pose proof (inv_grows _ _ _ _ _ _ Hinv G1) as Hinv1.
      destruct (IHb Hob sc None st1 vr st2 n3 pe ρ1 vb Htb Hinv1 Eb) as (ρ2 & R2 & Rr & G2).
      assert (F : Forall2 (orel ρ2 (ts_castable st2)) [Some va; Some vb] [Some vl; Some vr]).
      { constructor; [cbn; eapply rel_grows; [exact G2 | apply G1 | exact Rl] | constructor; [exact Rr | constructor]]. }
      destruct (String.eqb opname "NotEqual") eqn:Ene.
      + apply bind_some in Htr. destruct Htr as (args' & st3 & n5 & n6 & Hsc & Htr & ->).
        apply bind_some in Htr. destruct Htr as (tmp & st4 & n7 & n8 & Hu1 & Htr & ->).
        apply uniq_some in Hu1. destruct Hu1 as (Hu1 & ->).
        apply bind_some in Htr. destruct Htr as (u & st5 & n9 & n10 & He & Htr & ->).
        apply emit_some in He. destruct He as (-> & ->).
        unfold node1 in Htr. apply finish_inv in Htr. destruct Htr as (Hu2 & ->).
        destruct (promoted V sem "Equal" [Some va; Some vb]) as [pargs|] eqn:Ep; [|discriminate].
        destruct (sem1 V sem "" "Equal" [] pargs) as [teq|] eqn:Es1; [|discriminate].
        destruct (sem1 V sem "" "Not" [] [Some teq]) as [res|] eqn:Es2; [|discriminate]. inversion Hev; subst.
        destruct (static_cast_sound "Equal" _ _ st2 args' st3 n5 ρ2 pargs (proj2 (proj2 (proj2 G2))) F Hsc Ep) as (ρ3 & R3 & Hlk & G3).
        destruct (emit_op_sound "" "Equal" [] args' pargs teq st3 tmp st4 ρ3 "tmp") as (ρ4 & R4 & Rt & G4);
          [apply G3 | intros _; reflexivity | exact Hlk | exact Es1 | exact Hu1 |].
        destruct (emit_op_sound "" "Not" [] [Some tmp] [Some teq] res st4 n st' ρ4 (target_or_tmp target)) as (ρ5 & R5 & Rres & G5);
          [apply G4 | intros _; reflexivity | cbn; rewrite (proj1 Rt); reflexivity | exact Es2 | exact Hu2 |].
        exists ρ5. split; [|split; [exact Rres|]].
        * unfold node1. rewrite run_app, R1, run_app, R2, run_app, R3. cbn [app]. eapply run_two; [exact R4 | exact R5].
        * eapply grows_trans; [exact G1|]. eapply grows_trans; [exact G2|]. eapply grows_trans; [exact G3|]. eapply grows_trans; eassumption.
      + apply bind_some in Htr. destruct Htr as (args' & st3 & n5 & n6 & Hsc & Htr & ->).
        unfold node1 in Htr. apply finish_inv in Htr. destruct Htr as (Hu & ->).
        destruct (promoted V sem opname [Some va; Some vb]) as [pargs|] eqn:Ep; [|discriminate].
        destruct (sem1 V sem "" opname [] pargs) as [res|] eqn:Es; [|discriminate]. inversion Hev; subst.
        destruct (static_cast_sound opname _ _ st2 args' st3 n5 ρ2 pargs (proj2 (proj2 (proj2 G2))) F Hsc Ep) as (ρ3 & R3 & Hlk & G3).
        destruct (emit_op_sound "" opname [] args' pargs res st3 n st' ρ3 (target_or_tmp target)) as (ρ4 & R4 & Rres & G4);
          [apply G3 | intros _; eapply primop_plain; exact Eop | exact Hlk | exact Es | exact Hu |].
        exists ρ4. split; [|split; [exact Rres|]].
        * rewrite run_app, R1, run_app, R2, run_app, R3. exact R4.
        * eapply grows_trans; [exact G1|]. eapply grows_trans; [exact G2|]. eapply grows_trans; eassumption.
    - (* ECall *)
      intros f args kws HF Hok sc target st n st' nodes pe ρ pv Htr Hinv Hev.
      cbn [expr_ok] in Hok. apply andb_true_iff in Hok. destruct Hok as [Hof Hoargs].
      rewrite tr_expr_call_eq in Htr. rewrite eval_expr_call_eq in Hev.
      apply bind_some in Htr. destruct Htr as (vals & st1 & n1 & n2 & Hta & Htr & ->).
      destruct (eval_args pe args) as [pvs|] eqn:Ea; [|discriminate].
      destruct (tr_args_sound args HF Hoargs sc st vals st1 n1 pe ρ pvs Hta Hinv Ea) as (ρ1 & R1 & F1 & G1).
      destruct f as [name|name].
      + apply bind_some in Htr. destruct Htr as (args' & st2 & n3 & n4 & Hsc & Htr & ->).
        apply finish_inv in Htr. destruct Htr as (Hu & ->).
        destruct (promoted V sem name pvs) as [pargs|] eqn:Ep; [|discriminate].
        destruct (sem1 V sem "" name (map kw_attr kws) pargs) as [res|] eqn:Es; [|discriminate]. inversion Hev; subst.
        destruct (static_cast_sound name _ _ st1 args' st2 n3 ρ1 pargs (proj2 (proj2 (proj2 G1))) F1 Hsc Ep) as (ρ2 & R2 & Hlk & G2).
        destruct (emit_op_sound "" name (map kw_attr kws) args' pargs res st2 n st' ρ2 (target_or_tmp target)) as (ρ3 & R3 & Rres & G3);
          [apply G2 | intros _; apply negb_true_iff; exact Hof | exact Hlk | exact Es | exact Hu |].
        exists ρ3. split; [|split; [exact Rres|]].
        * rewrite run_app, R1, run_app, R2. exact R3.
        * eapply grows_trans; [exact G1|]. eapply grows_trans; eassumption.
      + apply finish_inv in Htr. destruct Htr as (Hu & ->).
        destruct (sem1 V sem "this" name (map kw_attr kws) (map (option_map (tensor_of V)) pvs)) as [res|] eqn:Es; [|discriminate].
        inversion Hev; subst.
        destruct (emit_op_sound "this" name (map kw_attr kws) vals (map (option_map (tensor_of V)) pvs) res st1 n st' ρ1 (target_or_tmp target)) as (ρ3 & R3 & Rres & G3);
          [apply G1 | intros D; discriminate D | eapply lookup_opts_rel; exact F1 | exact Es | exact Hu |].
        exists ρ3. split; [|split; [exact Rres|]].
        * rewrite run_app, R1. exact R3.
        * eapply grows_trans; eassumption.
  Qed.

  (* ---- statements of straight-line programs *)

  Variable cic : expr -> option bool.
  Variable afuel : nat.
  Variable inputs : list vname.

  Notation tr_stmts := (tr_stmts globals cic afuel false inputs).
  Notation exec_block := (exec_block V sem truth trip of_nat while_limit globals).

  Lemma tr_stmts_nil : forall fu top lo sc outs, tr_stmts (S fu) top [] lo sc outs = ret (sc, outs).
  Proof. reflexivity. Qed.

  Lemma tr_stmts_assign : forall fu top x e rest lo sc outs,
    tr_stmts (S fu) top (SAssign x e :: rest) lo sc outs =
    (lo_s <- lift (live_block cic afuel rest lo) ;;
     r <- (v <- tr_expr globals sc (Some x) e ;; ret (bind_var x (BV v) sc, outs)) ;;
     tr_stmts (S fu) top rest lo (fst r) (snd r)).
  Proof. reflexivity. Qed.

  Lemma tr_stmts_tuple : forall fu top xs e rest lo sc outs,
    tr_stmts (S fu) top (STuple xs e :: rest) lo sc outs =
    (lo_s <- lift (live_block cic afuel rest lo) ;;
     r <- (vs <- tr_call_multi globals sc e xs ;; ret (bind_all xs vs sc, outs)) ;;
     tr_stmts (S fu) top rest lo (fst r) (snd r)).
  Proof. reflexivity. Qed.

  Lemma tr_stmts_return : forall fu es rest lo sc outs,
    tr_stmts (S fu) true (SReturn es :: rest) lo sc outs =
    (lo_s <- lift (live_block cic afuel rest lo) ;;
     r <- (guard (negb (is_nil es)) ;;;
           o <- tr_returns globals false inputs sc (match es with [_] => false | _ => true end) 0 es outs ;; ret (sc, o)) ;;
     tr_stmts (S fu) true rest lo (fst r) (snd r)).
  Proof. reflexivity. Qed.

  Lemma exec_block_nil : forall fu pe, exec_block (S fu) [] pe = Some (ONormal V pe).
  Proof. reflexivity. Qed.

  Lemma exec_block_assign : forall fu x e rest pe,
    exec_block (S fu) (SAssign x e :: rest) pe =
    match eval_expr pe e with Some v => exec_block (S fu) rest ((x, v) :: pe) | None => None end.
  Proof. intros. cbn [PySem.exec_block]. destruct (eval_expr pe e); reflexivity. Qed.

  Lemma exec_block_tuple : forall fu xs e rest pe,
    exec_block (S fu) (STuple xs e :: rest) pe =
    match eval_call_multi V sem globals pe e with
    | Some vs => match pbind V xs vs pe with Some pe' => exec_block (S fu) rest pe' | None => None end
    | None => None
    end.
  Proof.
    intros. cbn [PySem.exec_block]. destruct (eval_call_multi V sem globals pe e) as [vs|]; [|reflexivity].
    destruct (pbind V xs vs pe); reflexivity.
  Qed.

  Definition eval_rets (pe : penv V) : list expr -> option (list V) :=
    fix go (l : list expr) : option (list V) :=
      match l with
      | [] => Some []
      | e :: t => match eval_expr pe e, go t with
                  | Some v, Some vs => Some (tensor_of V v :: vs)
                  | _, _ => None
                  end
      end.

  Lemma exec_block_return : forall fu es rest pe,
    exec_block (S fu) (SReturn es :: rest) pe =
    match eval_rets pe es with Some vs => Some (OReturn V vs) | None => None end.
  Proof. intros. cbn [PySem.exec_block]. fold (eval_rets pe). destruct (eval_rets pe es); reflexivity. Qed.


  Lemma lookups_grows : forall (ρ ρ' : env V) st st' outs vs,
    st_ok ρ st -> grows ρ ρ' st st' -> lookups ρ outs = Some vs -> lookups ρ' outs = Some vs.
  Proof.
    intros ρ ρ' st st' outs vs Hok G. revert vs. induction outs as [|o t IH]; intros vs H; [exact H|].
    cbn [lookups] in *. destruct (lookup ρ o) as [v|] eqn:E; [|discriminate].
    destruct (lookups ρ t) as [vt|] eqn:Et; [|discriminate].
    rewrite (proj1 G) by (eapply (proj1 Hok); exact E). rewrite E, (IH vt eq_refl). exact H.
  Qed.

  Lemma lookups_snoc : forall (ρ : env V) outs vs o v,
    lookups ρ outs = Some vs -> lookup ρ o = Some v -> lookups ρ (outs ++ [o]) = Some (vs ++ [v]).
  Proof.
    intros ρ outs. induction outs as [|x t IH]; intros vs o v H Ho.
    - cbn in H. inversion H; subst. cbn. rewrite Ho. reflexivity.
    - cbn [lookups app] in *. destruct (lookup ρ x) as [w|]; [|discriminate].
      destruct (lookups ρ t) as [vt|] eqn:Et; [|discriminate]. inversion H; subst.
      rewrite (IH vt o v eq_refl Ho). reflexivity.
  Qed.

  Lemma maybe_copy_sound : forall (b : bool) cand v st v' st' nodes (ρ : env V) val,
    st_ok ρ st -> lookup ρ v = Some val ->
    (if b then c <- uniq cand ;; emit (identity v c) ;;; ret c else ret v) st = Some (v', st', nodes) ->
    exists ρ', run ρ nodes = Some ρ' /\ lookup ρ' v' = Some val /\ grows ρ ρ' st st'.
  Proof.
    intros b cand v st v' st' nodes ρ val Hok Hl H. destruct b.
    - unfold identity, node1 in H. apply finish_inv in H. destruct H as (Hu & ->).
      destruct (emit_op_sound "" "Identity" [] [Some v] [Some val] val st v' st' ρ cand) as (ρ1 & R1 & Rr & G1);
        [exact Hok | intros _; reflexivity | cbn; rewrite Hl; reflexivity | unfold sem1; rewrite sem_identity; reflexivity | exact Hu |].
      exists ρ1. split; [exact R1 | split; [apply Rr | exact G1]].
    - apply ret_some in H. destruct H as (-> & -> & ->). exists ρ. split; [reflexivity|]. split; [exact Hl | apply grows_refl; exact Hok].
  Qed.

  Lemma tr_returns_sound : forall es, forallb expr_ok es = true -> forall sc tuple i outs st outs' st' nodes pe ρ vs vs0,
    tr_returns globals false inputs sc tuple i es outs st = Some (outs', st', nodes) ->
    inv pe sc ρ st -> eval_rets pe es = Some vs -> lookups ρ outs = Some vs0 ->
    exists ρ', run ρ nodes = Some ρ' /\ lookups ρ' outs' = Some (vs0 ++ vs) /\ grows ρ ρ' st st'.
  Proof.
    induction es as [|e t IH]; intros Hok sc tuple i outs st outs' st' nodes pe ρ vs vs0 Htr Hinv Hev Hl.
    - cbn in Htr. apply ret_some in Htr. destruct Htr as (-> & -> & ->). cbn in Hev. inversion Hev; subst.
      exists ρ. rewrite app_nil_r. split; [reflexivity|]. split; [exact Hl | apply grows_refl; apply Hinv].
    - cbn [forallb] in Hok. apply andb_true_iff in Hok. destruct Hok as [Hoe Hot].
      cbn [tr_returns] in Htr. cbv zeta in Htr.
      apply bind_some in Htr. destruct Htr as (v & st1 & n1 & n2 & Hte & Htr & ->).
      apply bind_some in Htr. destruct Htr as (v1 & st2 & n3 & n4 & Hc1 & Htr & ->).
      apply bind_some in Htr. destruct Htr as (v2 & st3 & n5 & n6 & Hc2 & Htr & ->).
      cbn [eval_rets] in Hev. destruct (eval_expr pe e) as [pv|] eqn:Ee; [|discriminate].
      fold (eval_rets pe) in Hev. destruct (eval_rets pe t) as [vt|] eqn:Et; [|discriminate]. inversion Hev; subst.
      destruct (tr_expr_sound e Hoe sc _ st v st1 n1 pe ρ pv Hte Hinv Ee) as (ρ1 & R1 & Rv & G1).
      destruct (maybe_copy_sound _ _ v st1 v1 st2 n3 ρ1 (tensor_of V pv) (proj2 (proj2 (proj2 G1))) (rel_lookup _ _ _ _ Rv) Hc1)
        as (ρ2 & R2 & L2 & G2).
      destruct (maybe_copy_sound _ _ v1 st2 v2 st3 n5 ρ2 (tensor_of V pv) (proj2 (proj2 (proj2 G2))) L2 Hc2)
        as (ρ3 & R3 & L3 & G3).
      assert (G13 : grows ρ ρ3 st st3).
      { eapply grows_trans; [exact G1|]. eapply grows_trans; eassumption. }
      pose proof (lookups_grows _ _ _ _ _ _ (proj2 (proj2 Hinv)) G13 Hl) as Hl3.
      destruct (IH Hot sc tuple (S i) (outs ++ [v2]) st3 outs' st' n6 pe ρ3 vt (vs0 ++ [tensor_of V pv]) Htr
                  (inv_grows _ _ _ _ _ _ Hinv G13) Et (lookups_snoc _ _ _ _ _ Hl3 L3)) as (ρ4 & R4 & L4 & G4).
      exists ρ4. split; [|split].
      + rewrite run_app, R1, run_app, R2, run_app, R3. exact R4.
      + rewrite L4. rewrite <- app_assoc. reflexivity.
      + eapply grows_trans; eassumption.
  Qed.

  Lemma scopes_find_bind : forall y x b sc,
    scopes_find y (bind_var x b sc) = if String.eqb y x then Some b else scopes_find y sc.
  Proof.
    intros y x b [|s0 t]; cbn; destruct (String.eqb y x); reflexivity.
  Qed.

  Lemma inv_assign : forall pe sc ρ st x pv n,
    inv pe sc ρ st -> rel ρ (ts_castable st) pv n -> inv ((x, pv) :: pe) (bind_var x (BV n) sc) ρ st.
  Proof.
    intros pe sc ρ st x pv n (I1 & I2 & I3) R. split; [|split; [|exact I3]].
    - intros y pw H. cbn [plookup] in H. rewrite scopes_find_bind. destruct (String.eqb y x).
      + inversion H; subst. exists n. split; [reflexivity | exact R].
      + apply I1. exact H.
    - intros y H. cbn [plookup] in H. rewrite scopes_find_bind. destruct (String.eqb y x); [discriminate | apply I2; exact H].
  Qed.

  (* ---- tuple assignment from a call with several results *)

  Lemma st_ok_mono : forall (ρ : env V) st c r st1, st_ok ρ st -> gen_unique c st = Some (r, st1) -> st_ok ρ st1.
  Proof.
    intros ρ st c r st1 [S1 S2] Hu. apply gen_unique_fresh in Hu. destruct Hu as (_ & F2 & _ & F4 & _). split.
    - intros m w Hm. rewrite F2. right. eapply S1. exact Hm.
    - rewrite F4, F2. intros y Hy. right. apply S2. exact Hy.
  Qed.

  Lemma rel_cons_other : forall (ρ1 : env V) cast r v0 ns ws,
    Forall2 (fun n v => rel ρ1 cast (PT V v) n) ns ws -> Forall (fun n => n <> r) ns ->
    Forall2 (fun n v => rel ((r, v0) :: ρ1) cast (PT V v) n) ns ws.
  Proof.
    intros ρ1 cast r v0 ns ws F. induction F as [|n w ns' ws' [R1 R2] Fr IH]; intros Hne; [constructor|].
    inversion Hne as [|a l Hn Hl]; subst. constructor; [|apply IH; exact Hl].
    split; [|exact R2]. cbn [lookup]. destruct (String.eqb n r) eqn:E; [|exact R1].
    apply String.eqb_eq in E. contradiction.
  Qed.

  Lemma mapM_uniq_sound : forall xs st names st' nodes (ρ : env V),
    st_ok ρ st -> mapM uniq xs st = Some (names, st', nodes) ->
    nodes = [] /\ List.length names = List.length xs /\ Forall (fun n => ~ In n (ts_used st)) names /\
    forall vs, List.length vs = List.length names ->
      exists ρ', Sem.bind names vs ρ = Some ρ' /\ grows ρ ρ' st st' /\
                 Forall2 (fun n v => rel ρ' (ts_castable st') (PT V v) n) names vs.
  Proof.
    induction xs as [|x t IH]; intros st names st' nodes ρ Hok H.
    - cbn in H. apply ret_some in H. destruct H as (-> & -> & ->). split; [reflexivity|]. split; [reflexivity|]. split; [constructor|].
      intros [|v vt] L; [|discriminate]. exists ρ. split; [reflexivity|]. split; [apply grows_refl; exact Hok | constructor].
    - cbn [mapM] in H.
      apply bind_some in H. destruct H as (r & st1 & n1 & n2 & Hu & H & E1).
      apply uniq_some in Hu. destruct Hu as (Hu & E2).
      apply bind_some in H. destruct H as (rs & st2 & n3 & n4 & Ht & Hr & E3).
      apply ret_some in Hr. destruct Hr as (E4 & E5 & E6). subst nodes n1 n2 names n4 st2.
      pose proof (gen_unique_fresh _ _ _ _ Hu) as (F1 & F2 & _ & F4 & _).
      pose proof (st_ok_mono _ _ _ _ _ Hok Hu) as Hok1.
      edestruct (IH st1) as (En & L & Ffresh & Hb); [exact Hok1 | exact Ht |]. subst n3.
      split; [reflexivity|]. split; [cbn; rewrite L; reflexivity|]. split.
      + constructor; [exact F1|]. eapply Forall_impl; [|exact Ffresh]. intros a Ha Hin. apply Ha. rewrite F2. right. exact Hin.
      + intros [|v vt] Lv; [discriminate|]. cbn in Lv.
        destruct (Hb vt (eq_add_S _ _ Lv)) as (ρ1 & B1 & (G1 & G2 & G3 & G4a & G4b) & F1').
        exists ((r, v) :: ρ1). split; [cbn [Sem.bind]; rewrite B1; reflexivity|].
        assert (Hr1 : In r (ts_used st1)) by (rewrite F2; left; reflexivity).
        assert (Hrc : ~ In r (ts_castable st')).
        { intros Hc. apply (G3 r Hr1) in Hc. rewrite F4 in Hc. apply F1. apply (proj2 Hok). exact Hc. }
        split; [split; [|split; [|split; [|split]]]|].
        * intros m Hm. cbn [lookup]. destruct (String.eqb m r) eqn:E.
          -- apply String.eqb_eq in E. subst. contradiction.
          -- rewrite G1; [reflexivity | rewrite F2; right; exact Hm].
        * intros y Hy. apply G2. rewrite F2. right. exact Hy.
        * intros m Hm. rewrite <- F4. apply G3. rewrite F2. right. exact Hm.
        * intros m w Hl. cbn [lookup] in Hl. destruct (String.eqb m r) eqn:E.
          -- apply String.eqb_eq in E. subst. apply G2. exact Hr1.
          -- eapply G4a. exact Hl.
        * exact G4b.
        * constructor.
          -- split; [cbn; rewrite String.eqb_refl; reflexivity | exact Hrc].
          -- eapply rel_cons_other; [exact F1'|]. eapply Forall_impl; [|exact Ffresh].
             intros a Ha E. subst a. apply Ha. exact Hr1.
  Qed.

  Lemma tr_call_multi_eq : forall sc f args kws outs,
    tr_call_multi globals sc (ECall f args kws) outs =
    (vals <- tr_args sc args ;;
     vals' <- match f with COp name => static_cast name vals | CFun _ => ret vals end ;;
     names <- mapM uniq outs ;;
     emit (Node (match f with COp _ => "" | CFun _ => "this" end)
                (match f with COp n => n | CFun n => n end) vals' names (map kw_attr kws) []) ;;;
     ret names).
  Proof. intros. reflexivity. Qed.

  Lemma eval_call_multi_eq : forall pe f args kws,
    eval_call_multi V sem globals pe (ECall f args kws) =
    match eval_args pe args with
    | None => None
    | Some vals =>
      match f with
      | COp name => match promoted V sem name vals with
                    | Some args' => sem "" name (map kw_attr kws) args'
                    | None => None
                    end
      | CFun name => sem "this" name (map kw_attr kws) (map (option_map (tensor_of V)) vals)
      end
    end.
  Proof. intros. reflexivity. Qed.

  Lemma inv_bind_all : forall xs names vs pe pe' sc (ρ : env V) st,
    inv pe sc ρ st -> pbind V xs vs pe = Some pe' ->
    Forall2 (fun n v => rel ρ (ts_castable st) (PT V v) n) names vs -> List.length names = List.length xs ->
    inv pe' (bind_all xs names sc) ρ st.
  Proof.
    induction xs as [|x t IH]; intros names vs pe pe' sc ρ st Hinv Hp F L.
    - destruct vs; cbn in Hp; [|discriminate]. inversion Hp; subst. destruct names; [exact Hinv | discriminate].
    - destruct vs as [|v vt]; cbn [pbind] in Hp; [discriminate|].
      destruct names as [|n nt]; [discriminate|]. inversion F as [|a b la lb Rn Ft]; subst. cbn [bind_all].
      eapply IH; [eapply inv_assign; [exact Hinv | exact Rn] | exact Hp | exact Ft | cbn in L; congruence].
  Qed.

  Lemma pbind_length : forall xs (vs : list V) pe pe', pbind V xs vs pe = Some pe' -> List.length vs = List.length xs.
  Proof.
    induction xs as [|x t IH]; intros [|v vt] pe pe' H; cbn in H; try discriminate; [reflexivity|].
    cbn. f_equal. eapply IH. exact H.
  Qed.

  Lemma tr_call_multi_sound : forall f args kws, expr_ok (ECall f args kws) = true ->
    forall sc xs st names st' nodes pe ρ vs pe',
    tr_call_multi globals sc (ECall f args kws) xs st = Some (names, st', nodes) ->
    inv pe sc ρ st -> eval_call_multi V sem globals pe (ECall f args kws) = Some vs -> pbind V xs vs pe = Some pe' ->
    exists ρ', run ρ nodes = Some ρ' /\ inv pe' (bind_all xs names sc) ρ' st' /\ grows ρ ρ' st st'.
  Proof.
    intros f args kws Hok sc xs st names st' nodes pe ρ vs pe' Htr Hinv Hev Hpb.
    cbn [expr_ok] in Hok. apply andb_true_iff in Hok. destruct Hok as [Hof Hoargs].
    rewrite tr_call_multi_eq in Htr. rewrite eval_call_multi_eq in Hev.
    apply bind_some in Htr. destruct Htr as (vals & st1 & n1 & n2 & Hta & Htr & E1).
    apply bind_some in Htr. destruct Htr as (vals' & st2 & n3 & n4 & Hsc & Htr & E2).
    apply bind_some in Htr. destruct Htr as (nm & st3 & n5 & n6 & Hm & Htr & E3).
    apply bind_some in Htr. destruct Htr as (u & st4 & n7 & n8 & He & Hr & E4).
    apply emit_some in He. destruct He as (E5 & E6).
    apply ret_some in Hr. destruct Hr as (E7 & E8 & E9). subst.
    destruct (eval_args pe args) as [pvs|] eqn:Ea; [|discriminate].
    assert (HF : Forall (fun o => match o with Some a => expr_sound a | None => True end) args).
    { clear. induction args as [|[a|] t IH]; constructor; auto. apply tr_expr_sound. }
    destruct (tr_args_sound args HF Hoargs sc st vals st1 n1 pe ρ pvs Hta Hinv Ea) as (ρ1 & R1 & F1 & G1).
    (* the arguments after static casts, and the values the kernel is applied to *)
    assert (Hargs : exists ρ2 pargs dom name, run ρ1 n3 = Some ρ2 /\ lookup_opts ρ2 vals' = Some pargs /\ grows ρ1 ρ2 st1 st2 /\
              sem dom name (map kw_attr kws) pargs = Some vs /\ (dom = "" -> is_ctl name = false) /\
              dom = (match f with COp _ => "" | CFun _ => "this" end) /\ name = (match f with COp n => n | CFun n => n end)).
    { destruct f as [name|name].
      - destruct (promoted V sem name pvs) as [pargs|] eqn:Ep; [|discriminate].
        destruct (static_cast_sound name _ _ st1 vals' st2 n3 ρ1 pargs (proj2 (proj2 (proj2 G1))) F1 Hsc Ep) as (ρ2 & R2 & Hlk & G2).
        exists ρ2, pargs, "", name.
        split; [exact R2|]. split; [exact Hlk|]. split; [exact G2|]. split; [exact Hev|].
        split; [intros Hd; apply negb_true_iff; exact Hof|]. split; reflexivity.
      - apply ret_some in Hsc. destruct Hsc as (Ev & Est & En). subst vals' st2 n3.
        exists ρ1, (map (option_map (tensor_of V)) pvs), "this", name.
        split; [reflexivity|]. split; [eapply lookup_opts_rel; exact F1|]. split; [apply grows_refl; apply G1|].
        split; [exact Hev|]. split; [intros D; discriminate D|]. split; reflexivity. }
    destruct Hargs as (ρ2 & pargs & dom & name & R2 & Hlk & G2 & Hsem & Hplain & Edom & Ename).
    edestruct (mapM_uniq_sound xs st2) as (En5 & Ln & _ & Hb); [exact (proj2 (proj2 (proj2 G2))) | exact Hm |]. subst n5.
    assert (Lvs : List.length vs = List.length nm).
    { rewrite Ln. eapply pbind_length. exact Hpb. }
    destruct (Hb vs Lvs) as (ρ3 & B3 & G3 & F3).
    exists ρ3. split; [|split].
    - rewrite run_app, R1, run_app, R2. cbn [app]. rewrite <- Edom, <- Ename.
      eapply run_plain; [exact Hplain | | exact Hsem | exact B3].
      (* the arguments are looked up before the outputs are bound: in ρ2 *)
      exact Hlk.
    - eapply inv_bind_all; [| exact Hpb | exact F3 | exact Ln].
      eapply inv_grows; [exact Hinv|]. eapply grows_trans; [exact G1|]. eapply grows_trans; eassumption.
    - eapply grows_trans; [exact G1|]. eapply grows_trans; eassumption.
  Qed.

  (* the statements before the final return of a straight-line body: assignments of S1 expressions *)
  Fixpoint assigns_ok (ss : list stmt) : bool :=
    match ss with
    | [] => true
    | SAssign _ e :: t => expr_ok e && assigns_ok t
    | STuple _ (ECall f args kws) :: t => expr_ok (ECall f args kws) && assigns_ok t
    | _ => false
    end.

  Lemma lift_some : forall A (o : option A) st a st' ns, lift o st = Some (a, st', ns) -> o = Some a /\ st' = st /\ ns = [].
  Proof. intros A [x|] st a st' ns H; cbn in H; [inversion H; auto | discriminate]. Qed.

  Lemma straight_block_sound : forall pre, assigns_ok pre = true -> forall es, forallb expr_ok es = true ->
    forall fu lo sc outs st sc' outs' st' nodes pe ρ f2 vs vs0,
    tr_stmts (S fu) true (pre ++ [SReturn es]) lo sc outs st = Some ((sc', outs'), st', nodes) ->
    inv pe sc ρ st ->
    exec_block (S f2) (pre ++ [SReturn es]) pe = Some (OReturn V vs) ->
    lookups ρ outs = Some vs0 ->
    exists ρ', run ρ nodes = Some ρ' /\ lookups ρ' outs' = Some (vs0 ++ vs).
  Proof.
    induction pre as [|s t IH]; intros Hpre es Hes fu lo sc outs st sc' outs' st' nodes pe ρ f2 vs vs0 Htr Hinv Hex Hl.
    - cbn [app] in *. rewrite tr_stmts_return in Htr. rewrite exec_block_return in Hex.
      apply bind_some in Htr. destruct Htr as (lo_s & st1 & n1 & n2 & Hlift & Htr & ->).
      apply lift_some in Hlift. destruct Hlift as (_ & -> & ->).
      apply bind_some in Htr. destruct Htr as (r & st2 & n3 & n4 & Hret & Htr & ->).
      rewrite tr_stmts_nil in Htr. apply ret_some in Htr. destruct Htr as (E1 & -> & ->).
      apply bind_some in Hret. destruct Hret as (u & st3 & n5 & n6 & Hg & Hret & ->).
      assert (Hg' : st3 = st /\ n5 = []).
      { unfold guard in Hg. destruct (negb (is_nil es)); [apply ret_some in Hg; tauto | discriminate]. }
      destruct Hg' as (-> & ->).
      apply bind_some in Hret. destruct Hret as (o & st4 & n7 & n8 & Hrs & Hret & ->).
      apply ret_some in Hret. destruct Hret as (-> & -> & ->).
      destruct (eval_rets pe es) as [rv|] eqn:Er; [|discriminate]. inversion Hex; subst.
      inversion E1; subst.
      edestruct (tr_returns_sound es Hes) as (ρ1 & R1 & L1 & _); [exact Hrs | exact Hinv | exact Er | exact Hl |].
      exists ρ1. split; [|exact L1]. cbn [app]. rewrite !app_nil_r. exact R1.
    - destruct s as [x e|xs e| | | | |]; try discriminate Hpre.
      2: {
        destruct e as [| | | | |f args kws]; try discriminate Hpre.
        cbn [assigns_ok] in Hpre. apply andb_true_iff in Hpre. destruct Hpre as [Hoe Hot].
        cbn [app] in *. rewrite tr_stmts_tuple in Htr. rewrite exec_block_tuple in Hex.
        apply bind_some in Htr. destruct Htr as (lo_s & st1 & n1 & n2 & Hlift & Htr & ->).
        apply lift_some in Hlift. destruct Hlift as (_ & -> & ->).
        apply bind_some in Htr. destruct Htr as (r & st2 & n3 & n4 & Has & Htr & ->).
        apply bind_some in Has. destruct Has as (nm & st3 & n5 & n6 & Htm & Hret & ->).
        apply ret_some in Hret. destruct Hret as (-> & -> & ->).
        destruct (eval_call_multi V sem globals pe (ECall f args kws)) as [cvs|] eqn:Ec; [|discriminate].
        destruct (pbind V xs cvs pe) as [pe1|] eqn:Epb; [|discriminate].
        edestruct (tr_call_multi_sound f args kws Hoe) as (ρ1 & R1 & Hinv1 & G1); [exact Htm | exact Hinv | exact Ec | exact Epb |].
        cbn [fst snd] in Htr.
        edestruct (IH Hot es Hes) as (ρ2 & R2 & L2);
          [exact Htr | exact Hinv1 | exact Hex | eapply lookups_grows; [apply Hinv | exact G1 | exact Hl] |].
        exists ρ2. split; [|exact L2]. cbn [app]. rewrite app_nil_r, run_app, R1. exact R2. }
      cbn [assigns_ok] in Hpre. apply andb_true_iff in Hpre. destruct Hpre as [Hoe Hot].
      cbn [app] in *. rewrite tr_stmts_assign in Htr. rewrite exec_block_assign in Hex.
      apply bind_some in Htr. destruct Htr as (lo_s & st1 & n1 & n2 & Hlift & Htr & ->).
      apply lift_some in Hlift. destruct Hlift as (_ & -> & ->).
      apply bind_some in Htr. destruct Htr as (r & st2 & n3 & n4 & Has & Htr & ->).
      apply bind_some in Has. destruct Has as (v & st3 & n5 & n6 & Hte & Hret & ->).
      apply ret_some in Hret. destruct Hret as (-> & -> & ->).
      destruct (eval_expr pe e) as [pv|] eqn:Ee; [|discriminate].
      edestruct (tr_expr_sound e Hoe) as (ρ1 & R1 & Rv & G1); [exact Hte | exact Hinv | exact Ee |].
      cbn [fst snd] in Htr.
      edestruct (IH Hot es Hes) as (ρ2 & R2 & L2);
        [exact Htr
        | eapply inv_assign; [eapply inv_grows; [exact Hinv | exact G1] | exact Rv]
        | exact Hex
        | eapply lookups_grows; [apply Hinv | exact G1 | exact Hl] |].
      exists ρ2. split; [|exact L2]. cbn [app]. rewrite app_nil_r, run_app, R1. exact R2.
  Qed.
  (* ================================================================== attribute parameters (stage S4, straight-line part)

     The invariant `inv` above binds every Python variable to a graph value (BV).  `inva` also admits the binding of an
     attribute parameter (BA): the converter re-materialises it at every use as Constant(value_<kind> = ref a)
     [+ Cast(to=BOOL)], marked castable; its Python value is the scalar whose tensor that node denotes.  The lemmas below
     are the lemmas above re-proved for `inva` (same proofs; the only new case is a variable bound to BA, attr_var_sound);
     the `inv` versions are kept unchanged for Script/TranslateIf|For|NestProofs.v, which assume that every variable holds
     a tensor (all_PT) and therefore cannot admit BA bindings as they stand. *)

  Definition attr_tensor0 (a : string) (k : akind) : option V :=
    match sem "" "Constant" [(akind_attr k, ARef a)] [] with
    | Some [c] =>
      match k with
      | AKBool => match sem "" "Cast" [("to", AInt 9)] [Some c] with Some [cb] => Some cb | _ => None end
      | _ => Some c
      end
    | _ => None
    end.

  Definition brel (ρ : env V) (cast : list string) (x : string) (pv : pval) (b : binding) : Prop :=
    match b with
    | BV n => rel ρ cast pv n
    | BA k => exists l c, pv = PS V l c /\ attr_tensor0 x k = Some c
    end.

  Definition inva (pe : penv V) (sc : scopes) (ρ : env V) (st : tstate) : Prop :=
    (forall x pv, plookup V pe x = Some pv -> exists b, scopes_find x sc = Some b /\ brel ρ (ts_castable st) x pv b) /\
    (forall x, plookup V pe x = None -> scopes_find x sc = None) /\
    st_ok ρ st.

  Lemma inv_inva : forall pe sc ρ st, inv pe sc ρ st -> inva pe sc ρ st.
  Proof.
    intros pe sc ρ st (I1 & I2 & I3). split; [|split; [exact I2 | exact I3]].
    intros x pv H. destruct (I1 x pv H) as (n & Hn & R). exists (BV n). split; [exact Hn | exact R].
  Qed.

  Lemma inva_grows : forall pe sc ρ ρ' st st', inva pe sc ρ st -> grows ρ ρ' st st' -> inva pe sc ρ' st'.
  Proof.
    intros pe sc ρ ρ' st st' (I1 & I2 & I3) G. split; [|split; [exact I2 | apply G]].
    intros x pv H. destruct (I1 x pv H) as (b & Hn & R). exists b. split; [exact Hn|].
    destruct b as [n|k]; [eapply rel_grows; eassumption | exact R].
  Qed.

  (* binding an attribute parameter: the Python side and the scope are extended together (shadowing included) *)
  Lemma inva_bind_attr : forall pe sc ρ st a k l c,
    inva pe sc ρ st -> attr_tensor0 a k = Some c -> inva ((a, PS V l c) :: pe) (bind_var a (BA k) sc) ρ st.
  Proof.
    intros pe sc ρ st a k l c (I1 & I2 & I3) Hc. split; [|split; [|exact I3]].
    - intros y pw H. cbn [plookup] in H. rewrite scopes_find_bind. destruct (String.eqb y a) eqn:E.
      + apply String.eqb_eq in E. subst y. inversion H; subst. exists (BA k). split; [reflexivity|]. exists l, c. auto.
      + apply I1. exact H.
    - intros y H. cbn [plookup] in H. rewrite scopes_find_bind. destruct (String.eqb y a); [discriminate | apply I2; exact H].
  Qed.

  (* an attribute parameter used as a value: Constant(value_<kind> = ref a) [+ Cast(to=BOOL)], castable *)
  Lemma attr_var_sound : forall a k st n st' nodes ρ l c, st_ok ρ st ->
    to_onnx_var (BA k) a st = Some (n, st', nodes) -> attr_tensor0 a k = Some c ->
    exists ρ', run ρ nodes = Some ρ' /\ rel ρ' (ts_castable st') (PS V l c) n /\ grows ρ ρ' st st'.
  Proof.
    intros a k st n st' nodes ρ l c Hok H Hc. cbn [to_onnx_var] in H.
    apply bind_some in H. destruct H as (r & st1 & n1 & n2 & Hu & H & E1).
    apply uniq_some in Hu. destruct Hu as (Hu & E2).
    apply bind_some in H. destruct H as (u1 & st2 & n3 & n4 & He & H & E3).
    apply emit_some in He. destruct He as (E4 & E5). subst.
    unfold attr_tensor0 in Hc.
    destruct (sem "" "Constant" [(akind_attr k, ARef a)] []) as [[|c0 [|]]|] eqn:Es; try discriminate.
    assert (R0 : run ρ [node1 "Constant" [] r [(akind_attr k, ARef a)]] = Some ((r, c0) :: ρ)).
    { eapply run_plain with (vs := []) (rs := [c0]); [intros _; reflexivity | reflexivity | exact Es | reflexivity]. }
    destruct k.
    - inversion Hc; subst c0.
      apply bind_some in H. destruct H as (u2 & st3 & n5 & n6 & Hm & Hr & E6).
      apply mark_castable_some in Hm. destruct Hm as (E7 & E8).
      apply ret_some in Hr. destruct Hr as (E9 & E10 & E11). subst. cbn [app].
      exists ((r, c) :: ρ). split; [exact R0 | split].
      + split; [cbn; rewrite String.eqb_refl; reflexivity | left; reflexivity].
      + eapply grows_fresh_castable; eassumption.
    - inversion Hc; subst c0.
      apply bind_some in H. destruct H as (u2 & st3 & n5 & n6 & Hm & Hr & E6).
      apply mark_castable_some in Hm. destruct Hm as (E7 & E8).
      apply ret_some in Hr. destruct Hr as (E9 & E10 & E11). subst. cbn [app].
      exists ((r, c) :: ρ). split; [exact R0 | split].
      + split; [cbn; rewrite String.eqb_refl; reflexivity | left; reflexivity].
      + eapply grows_fresh_castable; eassumption.
    - destruct (sem "" "Cast" [("to", AInt 9)] [Some c0]) as [[|cb [|]]|] eqn:Ec; try discriminate.
      inversion Hc; subst cb.
      apply bind_some in H. destruct H as (rb & st3 & n5 & n6 & Hub & H & E6).
      apply uniq_some in Hub. destruct Hub as (Hub & E7).
      apply bind_some in H. destruct H as (u2 & st4 & n7 & n8 & Hm & H & E8).
      apply mark_castable_some in Hm. destruct Hm as (E9 & E10).
      apply bind_some in H. destruct H as (u3 & st5 & n9 & n10 & He & Hr & E11).
      apply emit_some in He. destruct He as (E12 & E13).
      apply ret_some in Hr. destruct Hr as (E14 & E15 & E16). subst. cbn [app].
      destruct (grows_fresh ρ st a r st1 c0 Hok Hu) as [G1 _].
      pose proof (grows_fresh_castable ((r, c0) :: ρ) st1 _ rb st3 c (proj2 (proj2 (proj2 G1))) Hub) as G2.
      exists ((rb, c) :: (r, c0) :: ρ). split; [|split].
      + eapply run_two; [exact R0|].
        eapply run_plain with (vs := [Some c0]) (rs := [c]); [intros _; reflexivity | | exact Ec | reflexivity].
        cbn. rewrite String.eqb_refl. reflexivity.
      + split; [cbn; rewrite String.eqb_refl; reflexivity | left; reflexivity].
      + eapply grows_trans; eassumption.
  Qed.

  Definition expr_sound_a (e : expr) : Prop :=
    expr_ok e = true -> forall sc target st n st' nodes pe ρ pv,
    tr_expr globals sc target e st = Some (n, st', nodes) ->
    inva pe sc ρ st -> eval_expr pe e = Some pv ->
    exists ρ', run ρ nodes = Some ρ' /\ rel ρ' (ts_castable st') pv n /\ grows ρ ρ' st st'.

  Lemma tr_args_sound_a : forall args,
    Forall (fun o => match o with Some a => expr_sound_a a | None => True end) args ->
    (fix go (l : list (option expr)) : bool :=
       match l with [] => true | Some a :: t => expr_ok a && go t | None :: t => go t end) args = true ->
    forall sc st vals st' nodes pe ρ pvs,
    tr_args sc args st = Some (vals, st', nodes) -> inva pe sc ρ st -> eval_args pe args = Some pvs ->
    exists ρ', run ρ nodes = Some ρ' /\ Forall2 (orel ρ' (ts_castable st')) pvs vals /\ grows ρ ρ' st st'.
  Proof.
    induction args as [|[a|] t IH]; intros HF Hok sc st vals st' nodes pe ρ pvs Htr Hinv Hev.
    - cbn in Htr. apply ret_some in Htr. destruct Htr as (-> & -> & ->). cbn in Hev. inversion Hev; subst.
      exists ρ. split; [reflexivity|]. split; [constructor | apply grows_refl; apply Hinv].
    - inversion HF as [|x l Ha Ht]; subst. apply andb_true_iff in Hok. destruct Hok as [Hoa Hot].
      cbn [tr_args] in Htr.
      apply bind_some in Htr. destruct Htr as (v & st1 & n1 & n2 & Hta & Htr & ->).
      apply bind_some in Htr. destruct Htr as (vs & st2 & n3 & n4 & Htt & Hr & ->).
      apply ret_some in Hr. destruct Hr as (-> & -> & ->).
      cbn [eval_args] in Hev.
      destruct (eval_expr pe a) as [pv|] eqn:Ea; [|discriminate].
      fold (eval_args pe) in Hev. destruct (eval_args pe t) as [pt|] eqn:Et; [|discriminate].
      inversion Hev; subst.
      destruct (Ha Hoa sc None st v st1 n1 pe ρ pv Hta Hinv Ea) as (ρ1 & R1 & Rv & G1).
      destruct (IH Ht Hot sc st1 vs st2 n3 pe ρ1 pt Htt (inva_grows _ _ _ _ _ _ Hinv G1) Et) as (ρ2 & R2 & F2 & G2).
      exists ρ2. split; [|split].
      + rewrite app_nil_r, run_app, R1. exact R2.
      + constructor; [|exact F2]. cbn. eapply rel_grows; [exact G2 | apply G1 | exact Rv].
      + eapply grows_trans; eassumption.
    - inversion HF as [|x l Ha Ht]; subst.
      cbn [tr_args] in Htr.
      apply bind_some in Htr. destruct Htr as (vs & st2 & n3 & n4 & Htt & Hr & ->).
      apply ret_some in Hr. destruct Hr as (-> & -> & ->).
      cbn [eval_args] in Hev. fold (eval_args pe) in Hev.
      destruct (eval_args pe t) as [pt|] eqn:Et; [|discriminate]. inversion Hev; subst.
      destruct (IH Ht Hok sc st vs st2 n3 pe ρ pt Htt Hinv Et) as (ρ2 & R2 & F2 & G2).
      exists ρ2. split; [|split].
      + rewrite app_nil_r. exact R2.
      + constructor; [exact I | exact F2].
      + exact G2.
  Qed.

  Theorem tr_expr_sound_a : forall e, expr_sound_a e.
  Proof.
    apply expr_ind'; unfold expr_sound_a.
    - (* EVar *)
      intros x _ sc target st n st' nodes pe ρ pv Htr Hinv Hev. cbn [tr_expr] in Htr. cbn [PySem.eval_expr] in Hev.
      unfold py_var in Htr. destruct Hinv as (I1 & I2 & I3).
      destruct (plookup V pe x) as [pv0|] eqn:Ep.
      + inversion Hev; subst. destruct (I1 x pv Ep) as ([m|k] & Hm & R); rewrite Hm in Htr.
        * cbn [to_onnx_var] in Htr.
          apply ret_some in Htr. destruct Htr as (-> & -> & ->).
          exists ρ. split; [reflexivity|]. split; [exact R | apply grows_refl; exact I3].
        * destruct R as (l & c & -> & Hc). eapply attr_var_sound; eassumption.
      + rewrite (I2 x Ep) in Htr. destruct (lookup_assoc x globals) as [l|]; [|discriminate].
        destruct (const_val V sem l) as [c|] eqn:Ec; [|discriminate]. inversion Hev; subst.
        eapply emit_const_sound; eassumption.
    - (* ELit *)
      intros l _ sc target st n st' nodes pe ρ pv Htr Hinv Hev. cbn [tr_expr] in Htr. cbn [PySem.eval_expr] in Hev.
      destruct (const_val V sem l) as [c|] eqn:Ec; [|discriminate]. inversion Hev; subst.
      eapply emit_const_sound; [apply Hinv | exact Htr | exact Ec].
    - (* EUn *)
      intros op a IHa Hok sc target st n st' nodes pe ρ pv Htr Hinv Hev. cbn [expr_ok] in Hok.
      cbn [tr_expr] in Htr. cbn [PySem.eval_expr] in Hev.
      destruct (lookup_assoc op primop_map) as [opname|] eqn:Eop; [|discriminate].
      apply bind_some in Htr. destruct Htr as (v & st1 & n1 & n2 & Hta & Htr & ->).
      unfold node1 in Htr. apply finish_inv in Htr. destruct Htr as (Hu & ->).
      destruct (eval_expr pe a) as [[va|l c]|] eqn:Ea; try discriminate.
      destruct (sem1 V sem "" opname [] [Some va]) as [res|] eqn:Es; [|discriminate]. inversion Hev; subst.
      destruct (IHa Hok sc None st v st1 n1 pe ρ (PT V va) Hta Hinv Ea) as (ρ1 & R1 & Rv & G1).
      destruct (emit_op_sound "" opname [] [Some v] [Some va] res st1 n st' ρ1 (target_or_tmp target)) as (ρ2 & R2 & Rr & G2);
        [apply G1 | intros _; eapply primop_plain; exact Eop | cbn; rewrite (proj1 Rv); reflexivity | exact Es | exact Hu |].
      exists ρ2. split; [rewrite run_app, R1; exact R2 | split; [exact Rr | eapply grows_trans; eassumption]].
    - (* EBin *)
      intros op a b IHa IHb Hok sc target st n st' nodes pe ρ pv Htr Hinv Hev. cbn [expr_ok] in Hok.
      apply andb_true_iff in Hok. destruct Hok as [Hoa Hob].
      cbn [tr_expr] in Htr. cbn [PySem.eval_expr] in Hev.
      destruct (lookup_assoc op primop_map) as [opname|] eqn:Eop; [|discriminate].
      cbv zeta in Htr. cbv zeta in Hev.
      apply bind_some in Htr. destruct Htr as (vl & st1 & n1 & n2 & Hta & Htr & ->).
      apply bind_some in Htr. destruct Htr as (vr & st2 & n3 & n4 & Htb & Htr & ->).
      apply bind_some in Htr. destruct Htr as (args' & st3 & n5 & n6 & Hsc & Htr & ->).
      unfold node1 in Htr. apply finish_inv in Htr. destruct Htr as (Hu & ->).
      destruct (eval_expr pe a) as [va|] eqn:Ea; [|discriminate].
      destruct (eval_expr pe b) as [vb|] eqn:Eb; [|discriminate].
      destruct (is_scalar V va && is_scalar V vb); [discriminate|].
      destruct (promoted V sem opname [Some va; Some vb]) as [pargs|] eqn:Ep; [|discriminate].
      destruct (sem1 V sem "" opname (binop_attrs op b) pargs) as [res|] eqn:Es; [|discriminate]. inversion Hev; subst.
      destruct (IHa Hoa sc None st vl st1 n1 pe ρ va Hta Hinv Ea) as (ρ1 & R1 & Rl & G1).
      pose proof (inva_grows _ _ _ _ _ _ Hinv G1) as Hinv1.
      destruct (IHb Hob sc None st1 vr st2 n3 pe ρ1 vb Htb Hinv1 Eb) as (ρ2 & R2 & Rr & G2).
      assert (F : Forall2 (orel ρ2 (ts_castable st2)) [Some va; Some vb] [Some vl; Some vr]).
      { constructor; [cbn; eapply rel_grows; [exact G2 | apply G1 | exact Rl] | constructor; [exact Rr | constructor]]. }
      destruct (static_cast_sound opname _ _ st2 args' st3 n5 ρ2 pargs (proj2 (proj2 (proj2 G2))) F Hsc Ep) as (ρ3 & R3 & Hlk & G3).
      destruct (emit_op_sound "" opname (binop_attrs op b) args' pargs res st3 n st' ρ3 (target_or_tmp target)) as (ρ4 & R4 & Rres & G4);
        [apply G3 | intros _; eapply primop_plain; exact Eop | exact Hlk | exact Es | exact Hu |].
      exists ρ4. split; [|split; [exact Rres|]].
      + rewrite run_app, R1, run_app, R2, run_app, R3. exact R4.
      + eapply grows_trans; [exact G1|]. eapply grows_trans; [exact G2|]. eapply grows_trans; eassumption.
    - (* ECmp *)
      intros op a b IHa IHb Hok sc target st n st' nodes pe ρ pv Htr Hinv Hev. cbn [expr_ok] in Hok.
      apply andb_true_iff in Hok. destruct Hok as [Hoa Hob].
      cbn [tr_expr] in Htr. cbn [PySem.eval_expr] in Hev.
      destruct (lookup_assoc op primop_map) as [opname|] eqn:Eop; [|discriminate].
      apply bind_some in Htr. destruct Htr as (vl & st1 & n1 & n2 & Hta & Htr & ->).
      apply bind_some in Htr. destruct Htr as (vr & st2 & n3 & n4 & Htb & Htr & ->).
      destruct (eval_expr pe a) as [va|] eqn:Ea; [|discriminate].
      destruct (eval_expr pe b) as [vb|] eqn:Eb; [|discriminate].
      destruct (is_scalar V va && is_scalar V vb); [discriminate|].
      destruct (IHa Hoa sc None st vl st1 n1 pe ρ va Hta Hinv Ea) as (ρ1 & R1 & Rl & G1).
      pose proof (inva_grows _ _ _ _ _ _ Hinv G1) as Hinv1.
      destruct (IHb Hob sc None st1 vr st2 n3 pe ρ1 vb Htb Hinv1 Eb) as (ρ2 & R2 & Rr & G2).
      assert (F : Forall2 (orel ρ2 (ts_castable st2)) [Some va; Some vb] [Some vl; Some vr]).
      { constructor; [cbn; eapply rel_grows; [exact G2 | apply G1 | exact Rl] | constructor; [exact Rr | constructor]]. }
      destruct (String.eqb opname "NotEqual") eqn:Ene.
      + apply bind_some in Htr. destruct Htr as (args' & st3 & n5 & n6 & Hsc & Htr & ->).
        apply bind_some in Htr. destruct Htr as (tmp & st4 & n7 & n8 & Hu1 & Htr & ->).
        apply uniq_some in Hu1. destruct Hu1 as (Hu1 & ->).
        apply bind_some in Htr. destruct Htr as (u & st5 & n9 & n10 & He & Htr & ->).
        apply emit_some in He. destruct He as (-> & ->).
        unfold node1 in Htr. apply finish_inv in Htr. destruct Htr as (Hu2 & ->).
        destruct (promoted V sem "Equal" [Some va; Some vb]) as [pargs|] eqn:Ep; [|discriminate].
        destruct (sem1 V sem "" "Equal" [] pargs) as [teq|] eqn:Es1; [|discriminate].
        destruct (sem1 V sem "" "Not" [] [Some teq]) as [res|] eqn:Es2; [|discriminate]. inversion Hev; subst.
        destruct (static_cast_sound "Equal" _ _ st2 args' st3 n5 ρ2 pargs (proj2 (proj2 (proj2 G2))) F Hsc Ep) as (ρ3 & R3 & Hlk & G3).
        destruct (emit_op_sound "" "Equal" [] args' pargs teq st3 tmp st4 ρ3 "tmp") as (ρ4 & R4 & Rt & G4);
          [apply G3 | intros _; reflexivity | exact Hlk | exact Es1 | exact Hu1 |].
        destruct (emit_op_sound "" "Not" [] [Some tmp] [Some teq] res st4 n st' ρ4 (target_or_tmp target)) as (ρ5 & R5 & Rres & G5);
          [apply G4 | intros _; reflexivity | cbn; rewrite (proj1 Rt); reflexivity | exact Es2 | exact Hu2 |].
        exists ρ5. split; [|split; [exact Rres|]].
        * unfold node1. rewrite run_app, R1, run_app, R2, run_app, R3. cbn [app]. eapply run_two; [exact R4 | exact R5].
        * eapply grows_trans; [exact G1|]. eapply grows_trans; [exact G2|]. eapply grows_trans; [exact G3|]. eapply grows_trans; eassumption.
      + apply bind_some in Htr. destruct Htr as (args' & st3 & n5 & n6 & Hsc & Htr & ->).
        unfold node1 in Htr. apply finish_inv in Htr. destruct Htr as (Hu & ->).
        destruct (promoted V sem opname [Some va; Some vb]) as [pargs|] eqn:Ep; [|discriminate].
        destruct (sem1 V sem "" opname [] pargs) as [res|] eqn:Es; [|discriminate]. inversion Hev; subst.
        destruct (static_cast_sound opname _ _ st2 args' st3 n5 ρ2 pargs (proj2 (proj2 (proj2 G2))) F Hsc Ep) as (ρ3 & R3 & Hlk & G3).
        destruct (emit_op_sound "" opname [] args' pargs res st3 n st' ρ3 (target_or_tmp target)) as (ρ4 & R4 & Rres & G4);
          [apply G3 | intros _; eapply primop_plain; exact Eop | exact Hlk | exact Es | exact Hu |].
        exists ρ4. split; [|split; [exact Rres|]].
        * rewrite run_app, R1, run_app, R2, run_app, R3. exact R4.
        * eapply grows_trans; [exact G1|]. eapply grows_trans; [exact G2|]. eapply grows_trans; eassumption.
    - (* ECall *)
      intros f args kws HF Hok sc target st n st' nodes pe ρ pv Htr Hinv Hev.
      cbn [expr_ok] in Hok. apply andb_true_iff in Hok. destruct Hok as [Hof Hoargs].
      rewrite tr_expr_call_eq in Htr. rewrite eval_expr_call_eq in Hev.
      apply bind_some in Htr. destruct Htr as (vals & st1 & n1 & n2 & Hta & Htr & ->).
      destruct (eval_args pe args) as [pvs|] eqn:Ea; [|discriminate].
      destruct (tr_args_sound_a args HF Hoargs sc st vals st1 n1 pe ρ pvs Hta Hinv Ea) as (ρ1 & R1 & F1 & G1).
      destruct f as [name|name].
      + apply bind_some in Htr. destruct Htr as (args' & st2 & n3 & n4 & Hsc & Htr & ->).
        apply finish_inv in Htr. destruct Htr as (Hu & ->).
        destruct (promoted V sem name pvs) as [pargs|] eqn:Ep; [|discriminate].
        destruct (sem1 V sem "" name (map kw_attr kws) pargs) as [res|] eqn:Es; [|discriminate]. inversion Hev; subst.
        destruct (static_cast_sound name _ _ st1 args' st2 n3 ρ1 pargs (proj2 (proj2 (proj2 G1))) F1 Hsc Ep) as (ρ2 & R2 & Hlk & G2).
        destruct (emit_op_sound "" name (map kw_attr kws) args' pargs res st2 n st' ρ2 (target_or_tmp target)) as (ρ3 & R3 & Rres & G3);
          [apply G2 | intros _; apply negb_true_iff; exact Hof | exact Hlk | exact Es | exact Hu |].
        exists ρ3. split; [|split; [exact Rres|]].
        * rewrite run_app, R1, run_app, R2. exact R3.
        * eapply grows_trans; [exact G1|]. eapply grows_trans; eassumption.
      + apply finish_inv in Htr. destruct Htr as (Hu & ->).
        destruct (sem1 V sem "this" name (map kw_attr kws) (map (option_map (tensor_of V)) pvs)) as [res|] eqn:Es; [|discriminate].
        inversion Hev; subst.
        destruct (emit_op_sound "this" name (map kw_attr kws) vals (map (option_map (tensor_of V)) pvs) res st1 n st' ρ1 (target_or_tmp target)) as (ρ3 & R3 & Rres & G3);
          [apply G1 | intros D; discriminate D | eapply lookup_opts_rel; exact F1 | exact Es | exact Hu |].
        exists ρ3. split; [|split; [exact Rres|]].
        * rewrite run_app, R1. exact R3.
        * eapply grows_trans; eassumption.
  Qed.

  Lemma tr_returns_sound_a : forall es, forallb expr_ok es = true -> forall sc tuple i outs st outs' st' nodes pe ρ vs vs0,
    tr_returns globals false inputs sc tuple i es outs st = Some (outs', st', nodes) ->
    inva pe sc ρ st -> eval_rets pe es = Some vs -> lookups ρ outs = Some vs0 ->
    exists ρ', run ρ nodes = Some ρ' /\ lookups ρ' outs' = Some (vs0 ++ vs) /\ grows ρ ρ' st st'.
  Proof.
    induction es as [|e t IH]; intros Hok sc tuple i outs st outs' st' nodes pe ρ vs vs0 Htr Hinv Hev Hl.
    - cbn in Htr. apply ret_some in Htr. destruct Htr as (-> & -> & ->). cbn in Hev. inversion Hev; subst.
      exists ρ. rewrite app_nil_r. split; [reflexivity|]. split; [exact Hl | apply grows_refl; apply Hinv].
    - cbn [forallb] in Hok. apply andb_true_iff in Hok. destruct Hok as [Hoe Hot].
      cbn [tr_returns] in Htr. cbv zeta in Htr.
      apply bind_some in Htr. destruct Htr as (v & st1 & n1 & n2 & Hte & Htr & ->).
      apply bind_some in Htr. destruct Htr as (v1 & st2 & n3 & n4 & Hc1 & Htr & ->).
      apply bind_some in Htr. destruct Htr as (v2 & st3 & n5 & n6 & Hc2 & Htr & ->).
      cbn [eval_rets] in Hev. destruct (eval_expr pe e) as [pv|] eqn:Ee; [|discriminate].
      fold (eval_rets pe) in Hev. destruct (eval_rets pe t) as [vt|] eqn:Et; [|discriminate]. inversion Hev; subst.
      destruct (tr_expr_sound_a e Hoe sc _ st v st1 n1 pe ρ pv Hte Hinv Ee) as (ρ1 & R1 & Rv & G1).
      destruct (maybe_copy_sound _ _ v st1 v1 st2 n3 ρ1 (tensor_of V pv) (proj2 (proj2 (proj2 G1))) (rel_lookup _ _ _ _ Rv) Hc1)
        as (ρ2 & R2 & L2 & G2).
      destruct (maybe_copy_sound _ _ v1 st2 v2 st3 n5 ρ2 (tensor_of V pv) (proj2 (proj2 (proj2 G2))) L2 Hc2)
        as (ρ3 & R3 & L3 & G3).
      assert (G13 : grows ρ ρ3 st st3).
      { eapply grows_trans; [exact G1|]. eapply grows_trans; eassumption. }
      pose proof (lookups_grows _ _ _ _ _ _ (proj2 (proj2 Hinv)) G13 Hl) as Hl3.
      destruct (IH Hot sc tuple (S i) (outs ++ [v2]) st3 outs' st' n6 pe ρ3 vt (vs0 ++ [tensor_of V pv]) Htr
                  (inva_grows _ _ _ _ _ _ Hinv G13) Et (lookups_snoc _ _ _ _ _ Hl3 L3)) as (ρ4 & R4 & L4 & G4).
      exists ρ4. split; [|split].
      + rewrite run_app, R1, run_app, R2, run_app, R3. exact R4.
      + rewrite L4. rewrite <- app_assoc. reflexivity.
      + eapply grows_trans; eassumption.
  Qed.

  Lemma inva_assign : forall pe sc ρ st x pv n,
    inva pe sc ρ st -> rel ρ (ts_castable st) pv n -> inva ((x, pv) :: pe) (bind_var x (BV n) sc) ρ st.
  Proof.
    intros pe sc ρ st x pv n (I1 & I2 & I3) R. split; [|split; [|exact I3]].
    - intros y pw H. cbn [plookup] in H. rewrite scopes_find_bind. destruct (String.eqb y x).
      + inversion H; subst. exists (BV n). split; [reflexivity | exact R].
      + apply I1. exact H.
    - intros y H. cbn [plookup] in H. rewrite scopes_find_bind. destruct (String.eqb y x); [discriminate | apply I2; exact H].
  Qed.

  Lemma inva_bind_all : forall xs names vs pe pe' sc (ρ : env V) st,
    inva pe sc ρ st -> pbind V xs vs pe = Some pe' ->
    Forall2 (fun n v => rel ρ (ts_castable st) (PT V v) n) names vs -> List.length names = List.length xs ->
    inva pe' (bind_all xs names sc) ρ st.
  Proof.
    induction xs as [|x t IH]; intros names vs pe pe' sc ρ st Hinv Hp F L.
    - destruct vs; cbn in Hp; [|discriminate]. inversion Hp; subst. destruct names; [exact Hinv | discriminate].
    - destruct vs as [|v vt]; cbn [pbind] in Hp; [discriminate|].
      destruct names as [|n nt]; [discriminate|]. inversion F as [|a b la lb Rn Ft]; subst. cbn [bind_all].
      eapply IH; [eapply inva_assign; [exact Hinv | exact Rn] | exact Hp | exact Ft | cbn in L; congruence].
  Qed.

  Lemma tr_call_multi_sound_a : forall f args kws, expr_ok (ECall f args kws) = true ->
    forall sc xs st names st' nodes pe ρ vs pe',
    tr_call_multi globals sc (ECall f args kws) xs st = Some (names, st', nodes) ->
    inva pe sc ρ st -> eval_call_multi V sem globals pe (ECall f args kws) = Some vs -> pbind V xs vs pe = Some pe' ->
    exists ρ', run ρ nodes = Some ρ' /\ inva pe' (bind_all xs names sc) ρ' st' /\ grows ρ ρ' st st'.
  Proof.
    intros f args kws Hok sc xs st names st' nodes pe ρ vs pe' Htr Hinv Hev Hpb.
    cbn [expr_ok] in Hok. apply andb_true_iff in Hok. destruct Hok as [Hof Hoargs].
    rewrite tr_call_multi_eq in Htr. rewrite eval_call_multi_eq in Hev.
    apply bind_some in Htr. destruct Htr as (vals & st1 & n1 & n2 & Hta & Htr & E1).
    apply bind_some in Htr. destruct Htr as (vals' & st2 & n3 & n4 & Hsc & Htr & E2).
    apply bind_some in Htr. destruct Htr as (nm & st3 & n5 & n6 & Hm & Htr & E3).
    apply bind_some in Htr. destruct Htr as (u & st4 & n7 & n8 & He & Hr & E4).
    apply emit_some in He. destruct He as (E5 & E6).
    apply ret_some in Hr. destruct Hr as (E7 & E8 & E9). subst.
    destruct (eval_args pe args) as [pvs|] eqn:Ea; [|discriminate].
    assert (HF : Forall (fun o => match o with Some a => expr_sound_a a | None => True end) args).
    { clear. induction args as [|[a|] t IH]; constructor; auto. apply tr_expr_sound_a. }
    destruct (tr_args_sound_a args HF Hoargs sc st vals st1 n1 pe ρ pvs Hta Hinv Ea) as (ρ1 & R1 & F1 & G1).
    (* the arguments after static casts, and the values the kernel is applied to *)
    assert (Hargs : exists ρ2 pargs dom name, run ρ1 n3 = Some ρ2 /\ lookup_opts ρ2 vals' = Some pargs /\ grows ρ1 ρ2 st1 st2 /\
              sem dom name (map kw_attr kws) pargs = Some vs /\ (dom = "" -> is_ctl name = false) /\
              dom = (match f with COp _ => "" | CFun _ => "this" end) /\ name = (match f with COp n => n | CFun n => n end)).
    { destruct f as [name|name].
      - destruct (promoted V sem name pvs) as [pargs|] eqn:Ep; [|discriminate].
        destruct (static_cast_sound name _ _ st1 vals' st2 n3 ρ1 pargs (proj2 (proj2 (proj2 G1))) F1 Hsc Ep) as (ρ2 & R2 & Hlk & G2).
        exists ρ2, pargs, "", name.
        split; [exact R2|]. split; [exact Hlk|]. split; [exact G2|]. split; [exact Hev|].
        split; [intros Hd; apply negb_true_iff; exact Hof|]. split; reflexivity.
      - apply ret_some in Hsc. destruct Hsc as (Ev & Est & En). subst vals' st2 n3.
        exists ρ1, (map (option_map (tensor_of V)) pvs), "this", name.
        split; [reflexivity|]. split; [eapply lookup_opts_rel; exact F1|]. split; [apply grows_refl; apply G1|].
        split; [exact Hev|]. split; [intros D; discriminate D|]. split; reflexivity. }
    destruct Hargs as (ρ2 & pargs & dom & name & R2 & Hlk & G2 & Hsem & Hplain & Edom & Ename).
    edestruct (mapM_uniq_sound xs st2) as (En5 & Ln & _ & Hb); [exact (proj2 (proj2 (proj2 G2))) | exact Hm |]. subst n5.
    assert (Lvs : List.length vs = List.length nm).
    { rewrite Ln. eapply pbind_length. exact Hpb. }
    destruct (Hb vs Lvs) as (ρ3 & B3 & G3 & F3).
    exists ρ3. split; [|split].
    - rewrite run_app, R1, run_app, R2. cbn [app]. rewrite <- Edom, <- Ename.
      eapply run_plain; [exact Hplain | | exact Hsem | exact B3].
      (* the arguments are looked up before the outputs are bound: in ρ2 *)
      exact Hlk.
    - eapply inva_bind_all; [| exact Hpb | exact F3 | exact Ln].
      eapply inva_grows; [exact Hinv|]. eapply grows_trans; [exact G1|]. eapply grows_trans; eassumption.
    - eapply grows_trans; [exact G1|]. eapply grows_trans; eassumption.
  Qed.

  Lemma straight_block_sound_a : forall pre, assigns_ok pre = true -> forall es, forallb expr_ok es = true ->
    forall fu lo sc outs st sc' outs' st' nodes pe ρ f2 vs vs0,
    tr_stmts (S fu) true (pre ++ [SReturn es]) lo sc outs st = Some ((sc', outs'), st', nodes) ->
    inva pe sc ρ st ->
    exec_block (S f2) (pre ++ [SReturn es]) pe = Some (OReturn V vs) ->
    lookups ρ outs = Some vs0 ->
    exists ρ', run ρ nodes = Some ρ' /\ lookups ρ' outs' = Some (vs0 ++ vs).
  Proof.
    induction pre as [|s t IH]; intros Hpre es Hes fu lo sc outs st sc' outs' st' nodes pe ρ f2 vs vs0 Htr Hinv Hex Hl.
    - cbn [app] in *. rewrite tr_stmts_return in Htr. rewrite exec_block_return in Hex.
      apply bind_some in Htr. destruct Htr as (lo_s & st1 & n1 & n2 & Hlift & Htr & ->).
      apply lift_some in Hlift. destruct Hlift as (_ & -> & ->).
      apply bind_some in Htr. destruct Htr as (r & st2 & n3 & n4 & Hret & Htr & ->).
      rewrite tr_stmts_nil in Htr. apply ret_some in Htr. destruct Htr as (E1 & -> & ->).
      apply bind_some in Hret. destruct Hret as (u & st3 & n5 & n6 & Hg & Hret & ->).
      assert (Hg' : st3 = st /\ n5 = []).
      { unfold guard in Hg. destruct (negb (is_nil es)); [apply ret_some in Hg; tauto | discriminate]. }
      destruct Hg' as (-> & ->).
      apply bind_some in Hret. destruct Hret as (o & st4 & n7 & n8 & Hrs & Hret & ->).
      apply ret_some in Hret. destruct Hret as (-> & -> & ->).
      destruct (eval_rets pe es) as [rv|] eqn:Er; [|discriminate]. inversion Hex; subst.
      inversion E1; subst.
      edestruct (tr_returns_sound_a es Hes) as (ρ1 & R1 & L1 & _); [exact Hrs | exact Hinv | exact Er | exact Hl |].
      exists ρ1. split; [|exact L1]. cbn [app]. rewrite !app_nil_r. exact R1.
    - destruct s as [x e|xs e| | | | |]; try discriminate Hpre.
      2: {
        destruct e as [| | | | |f args kws]; try discriminate Hpre.
        cbn [assigns_ok] in Hpre. apply andb_true_iff in Hpre. destruct Hpre as [Hoe Hot].
        cbn [app] in *. rewrite tr_stmts_tuple in Htr. rewrite exec_block_tuple in Hex.
        apply bind_some in Htr. destruct Htr as (lo_s & st1 & n1 & n2 & Hlift & Htr & ->).
        apply lift_some in Hlift. destruct Hlift as (_ & -> & ->).
        apply bind_some in Htr. destruct Htr as (r & st2 & n3 & n4 & Has & Htr & ->).
        apply bind_some in Has. destruct Has as (nm & st3 & n5 & n6 & Htm & Hret & ->).
        apply ret_some in Hret. destruct Hret as (-> & -> & ->).
        destruct (eval_call_multi V sem globals pe (ECall f args kws)) as [cvs|] eqn:Ec; [|discriminate].
        destruct (pbind V xs cvs pe) as [pe1|] eqn:Epb; [|discriminate].
        edestruct (tr_call_multi_sound_a f args kws Hoe) as (ρ1 & R1 & Hinv1 & G1); [exact Htm | exact Hinv | exact Ec | exact Epb |].
        cbn [fst snd] in Htr.
        edestruct (IH Hot es Hes) as (ρ2 & R2 & L2);
          [exact Htr | exact Hinv1 | exact Hex | eapply lookups_grows; [apply Hinv | exact G1 | exact Hl] |].
        exists ρ2. split; [|exact L2]. cbn [app]. rewrite app_nil_r, run_app, R1. exact R2. }
      cbn [assigns_ok] in Hpre. apply andb_true_iff in Hpre. destruct Hpre as [Hoe Hot].
      cbn [app] in *. rewrite tr_stmts_assign in Htr. rewrite exec_block_assign in Hex.
      apply bind_some in Htr. destruct Htr as (lo_s & st1 & n1 & n2 & Hlift & Htr & ->).
      apply lift_some in Hlift. destruct Hlift as (_ & -> & ->).
      apply bind_some in Htr. destruct Htr as (r & st2 & n3 & n4 & Has & Htr & ->).
      apply bind_some in Has. destruct Has as (v & st3 & n5 & n6 & Hte & Hret & ->).
      apply ret_some in Hret. destruct Hret as (-> & -> & ->).
      destruct (eval_expr pe e) as [pv|] eqn:Ee; [|discriminate].
      edestruct (tr_expr_sound_a e Hoe) as (ρ1 & R1 & Rv & G1); [exact Hte | exact Hinv | exact Ee |].
      cbn [fst snd] in Htr.
      edestruct (IH Hot es Hes) as (ρ2 & R2 & L2);
        [exact Htr
        | eapply inva_assign; [eapply inva_grows; [exact Hinv | exact G1] | exact Rv]
        | exact Hex
        | eapply lookups_grows; [apply Hinv | exact G1 | exact Hl] |].
      exists ρ2. split; [|exact L2]. cbn [app]. rewrite app_nil_r, run_app, R1. exact R2.
  Qed.
End S1.

(* ------------------------------------------------------------------ S1: the theorem *)

Section S1Final.
  Variable V : Type.
  Variable sem : string -> string -> list (string * attrv) -> list (option V) -> option (list V).
  Variable truth : V -> option bool.
  Variable trip : V -> option nat.
  Variable of_nat : nat -> V.
  Variable of_bool : bool -> V.
  Variable limit : nat.
  Variable while_limit : nat.
  Variable globals : list (string * lit).
  Hypothesis sem_identity : forall v, sem "" "Identity" [] [Some v] = Some [v].

  Lemma pbind_spec : forall xs vs pe pe', NoDup xs -> pbind V xs vs pe = Some pe' ->
    List.length xs = List.length vs /\
    (forall y, ~ In y xs -> plookup V pe' y = plookup V pe y) /\
    (forall i y v, nth_error xs i = Some y -> nth_error vs i = Some v -> plookup V pe' y = Some (PT V v)).
  Proof.
    induction xs as [|x t IH]; intros [|v vt] pe pe' Hnd H; cbn [pbind] in H; try discriminate.
    - inversion H; subst. split; [reflexivity|]. split; [reflexivity|]. intros [|i] y w Hy; discriminate Hy.
    - inversion Hnd as [|a l Hx Ht]; subst. destruct (IH vt _ pe' Ht H) as (L & N & P). split; [cbn; congruence|]. split.
      + intros y Hy. rewrite N by (intro; apply Hy; right; assumption). cbn [plookup].
        destruct (String.eqb y x) eqn:E; [|reflexivity]. apply String.eqb_eq in E. subst. exfalso. apply Hy. left. reflexivity.
      + intros [|i] y w Hy Hw; cbn in Hy, Hw.
        * inversion Hy; inversion Hw; subst. rewrite N by exact Hx. cbn [plookup]. rewrite String.eqb_refl. reflexivity.
        * eapply P; eassumption.
  Qed.

  Lemma bind_spec : forall xs (vs : list V) e, List.length xs = List.length vs -> NoDup xs ->
    exists e', Sem.bind xs vs e = Some e' /\
      (forall y, ~ In y xs -> lookup e' y = lookup e y) /\
      (forall i y v, nth_error xs i = Some y -> nth_error vs i = Some v -> lookup e' y = Some v).
  Proof.
    induction xs as [|x t IH]; intros [|v vt] e L Hnd; cbn in L; try discriminate.
    - exists e. split; [reflexivity|]. split; [reflexivity|]. intros [|i] y w Hy; discriminate Hy.
    - inversion Hnd as [|a l Hx Ht]; subst. destruct (IH vt e (eq_add_S _ _ L) Ht) as (e1 & B & N & P).
      exists ((x, v) :: e1). split; [cbn [Sem.bind]; rewrite B; reflexivity|]. split.
      + intros y Hy. cbn [lookup]. destruct (String.eqb y x) eqn:E.
        * apply String.eqb_eq in E. subst. exfalso. apply Hy. left. reflexivity.
        * apply N. intro. apply Hy. right. assumption.
      + intros [|i] y w Hy Hw; cbn in Hy, Hw.
        * inversion Hy; inversion Hw; subst. cbn [lookup]. rewrite String.eqb_refl. reflexivity.
        * cbn [lookup]. destruct (String.eqb y x) eqn:E.
          -- apply String.eqb_eq in E. subst. exfalso. apply Hx. eapply nth_error_In. exact Hy.
          -- eapply P; eassumption.
  Qed.

  Lemma scope_find_self : forall l x,
    scope_find x (map (fun y => (y, BV y)) l) = if mem x l then Some (BV x) else None.
  Proof.
    induction l as [|a t IH]; intros x; [reflexivity|]. cbn [map scope_find]. unfold mem. cbn [existsb].
    destruct (String.eqb x a) eqn:E; [apply String.eqb_eq in E; subst; reflexivity | apply IH].
  Qed.

  Lemma mem_rev : forall x l, mem x (rev l) = mem x l.
  Proof.
    intros x l. destruct (mem x l) eqn:E.
    - apply mem_In. apply in_rev. rewrite rev_involutive. apply mem_In. exact E.
    - destruct (mem x (rev l)) eqn:E2; [|reflexivity]. apply mem_In in E2. apply in_rev in E2. apply mem_In in E2. congruence.
  Qed.

  Lemma init_inv : forall f orders xs pe0,
    f_aparams f = [] -> NoDup (f_tparams f) -> pbind V (f_tparams f) xs [] = Some pe0 ->
    exists ρ0, Sem.bind (f_tparams f) xs [] = Some ρ0 /\ inv V pe0 [rev (init_scope f)] ρ0 (init_state f orders).
  Proof.
    intros f orders xs pe0 Hap Hnd Ep.
    destruct (pbind_spec _ _ _ _ Hnd Ep) as (L & N & P).
    destruct (bind_spec (f_tparams f) xs [] L Hnd) as (ρ0 & B & N' & P').
    exists ρ0. split; [exact B|].
    unfold init_scope. rewrite Hap. cbn [map]. rewrite app_nil_r. split; [|split; [|split]].
    - intros x pv Hx. destruct (in_dec string_dec x (f_tparams f)) as [Hin|Hnin].
      + destruct (In_nth_error _ _ Hin) as (i & Hi).
        assert (Hlt : i < List.length xs) by (rewrite <- L; apply nth_error_Some; congruence).
        destruct (nth_error xs i) as [v|] eqn:Ev; [|apply nth_error_None in Ev; lia].
        rewrite (P i x v Hi Ev) in Hx. inversion Hx; subst.
        exists x. split.
        * cbn [scopes_find]. rewrite <- map_rev, scope_find_self, mem_rev.
          replace (mem x (f_tparams f)) with true by (symmetry; apply mem_In; exact Hin). reflexivity.
        * split; [eapply P'; eassumption | intros []].
      + rewrite N in Hx by exact Hnin. discriminate Hx.
    - intros x Hx. cbn [scopes_find]. rewrite <- map_rev, scope_find_self, mem_rev.
      destruct (mem x (f_tparams f)) eqn:E; [|reflexivity]. apply mem_In in E.
      destruct (In_nth_error _ _ E) as (i & Hi).
      assert (Hlt : i < List.length xs) by (rewrite <- L; apply nth_error_Some; congruence).
      destruct (nth_error xs i) as [v|] eqn:Ev; [|apply nth_error_None in Ev; lia].
      rewrite (P i x v Hi Ev) in Hx. discriminate Hx.
    - intros m v Hm. cbn [init_state ts_used]. apply -> in_rev.
      destruct (in_dec string_dec m (f_tparams f)) as [Hin|Hnin]; [exact Hin|].
      rewrite N' in Hm by exact Hnin. discriminate Hm.
    - cbn. intros x [].
  Qed.

  (* translate, with its fuel made explicit *)
  Lemma translate_eq : forall legacy cic afuel orders f,
    translate legacy globals cic afuel orders f =
    match Translate.tr_stmts globals cic afuel legacy (f_tparams f) (S 11) true (f_body f) [] [rev (init_scope f)] [] (init_state f orders) with
    | Some ((_, outs), _, nodes) => Some (Graph (f_tparams f) [] nodes outs)
    | None => None
    end.
  Proof. reflexivity. Qed.

  Theorem translate_straightline_correct : forall cic afuel orders f g xs vs fuel2 k pre es,
    f_body f = pre ++ [SReturn es] -> assigns_ok pre = true -> forallb expr_ok es = true ->
    f_aparams f = [] -> NoDup (f_tparams f) ->
    translate false globals cic afuel orders f = Some g ->
    eval_script V sem truth trip of_nat while_limit globals (S fuel2) f xs = Some vs ->
    eval_graph V sem truth trip of_nat of_bool limit (S k) [] g xs = Some vs.
  Proof.
    intros cic afuel orders f g xs vs fuel2 k pre es Hbody Hpre Hes Hap Hnd Htr Hev.
    rewrite translate_eq, Hbody in Htr.
    destruct (Translate.tr_stmts globals cic afuel false (f_tparams f) (S 11) true (pre ++ [SReturn es]) [] [rev (init_scope f)] [] (init_state f orders))
      as [[[[sc' outs] st'] nodes]|] eqn:Et; [|discriminate]. inversion Htr; subst g. clear Htr.
    unfold eval_script in Hev. rewrite Hbody in Hev.
    destruct (pbind V (f_tparams f) xs []) as [pe0|] eqn:Ep; [|discriminate].
    destruct (PySem.exec_block V sem truth trip of_nat while_limit globals (S fuel2) (pre ++ [SReturn es]) pe0) as [[e1|e1|rv]|] eqn:Ex; try discriminate.
    inversion Hev; subst rv. clear Hev.
    destruct (init_inv f orders xs pe0 Hap Hnd Ep) as (ρ0 & B & Hinv).
    edestruct straight_block_sound with (ev := eval_graph V sem truth trip of_nat of_bool limit k) (of_bool := of_bool) (limit := limit)
      as (ρ1 & R1 & L1); [exact sem_identity | exact Hpre | exact Hes | exact Et | exact Hinv | exact Ex | reflexivity |].
    cbn [eval_graph]. unfold eval_body. cbn [g_ins g_nodes g_outs]. rewrite B, R1. exact L1.
  Qed.
End S1Final.
