(* Proofs about coq/Rules/BatchNorm.v (C05, _fuse_batchnorm.py). *)
From Coq Require Import ZArith QArith List Bool Lia Field.
Require Import OV.Rules.BatchNorm.
Import ListNotations.
Local Open Scope Z_scope.

(* ---------------------------------------------------------------- the folding identity over an arbitrary field *)
Section Field.
  Variable F : Type.
  Variables (zero one : F) (add mul sub : F -> F -> F) (opp : F -> F) (div : F -> F -> F) (inv : F -> F).
  Hypothesis Fth : field_theory zero one add mul sub opp div inv (@eq F).
  Add Field Ff : Fth.

  Notation dot := (dot F zero add mul).
  Notation lin := (lin F zero add mul).
  Notation gemm := (gemm F zero add mul).
  Notation bn := (bn F add mul sub div).
  Notation bn_mode := (bn_mode F add mul sub div).
  Notation fused_w := (fused_w F mul).
  Notation fused_b := (fused_b F add mul sub).
  Notation scale_factor := (scale_factor F div).

  Lemma dot_scale : forall ws xs s, dot (fused_w ws s) xs = mul (dot ws xs) s.
  Proof.
    induction ws as [|w ws IH]; intros xs s; simpl.
    - ring.
    - destruct xs as [|x xs]; simpl; [ring|]. rewrite IH. ring.
  Qed.

  (* Conv / ConvTranspose, one output element of one channel:
     gamma * (W.x + B - mean) / sigma + beta  =  (W * gamma/sigma).x + ((B - mean) * gamma/sigma + beta) *)
  Theorem bn_fold_linear : forall gamma beta mean sigma ws b xs, sigma <> zero ->
    bn gamma beta mean sigma (lin ws b xs) =
    lin (fused_w ws (scale_factor gamma sigma)) (fused_b b mean (scale_factor gamma sigma) beta) xs.
  Proof.
    intros. unfold BatchNorm.bn, BatchNorm.lin, BatchNorm.fused_b, BatchNorm.scale_factor.
    rewrite dot_scale. field. assumption.
  Qed.

  (* inference mode is needed: with training_mode = 0 the node is `bn` on the stored statistics *)
  Corollary bn_fold_inference : forall training gamma beta mean sigma bmean bsigma ws b xs,
    training = false -> sigma <> zero ->
    bn_mode training gamma beta mean sigma bmean bsigma (lin ws b xs) =
    lin (fused_w ws (scale_factor gamma sigma)) (fused_b b mean (scale_factor gamma sigma) beta) xs.
  Proof. intros; subst; simpl. apply bn_fold_linear; assumption. Qed.

  (* Gemm with attributes alpha, beta: what the rewritten node computes differs from the host by (1 - beta)(B_bn - mean*s) *)
  Theorem bn_fold_gemm_error : forall gamma beta mean sigma alpha betag ws c xs, sigma <> zero ->
    bn gamma beta mean sigma (gemm alpha betag ws c xs) =
    add (gemm alpha betag (fused_w ws (scale_factor gamma sigma)) (fused_b c mean (scale_factor gamma sigma) beta) xs)
        (mul (sub one betag) (sub beta (mul mean (scale_factor gamma sigma)))).
  Proof.
    intros. unfold BatchNorm.bn, BatchNorm.gemm, BatchNorm.fused_b, BatchNorm.scale_factor.
    rewrite dot_scale. field. assumption.
  Qed.

  Theorem bn_fold_gemm_beta_one : forall gamma beta mean sigma alpha ws c xs, sigma <> zero ->
    bn gamma beta mean sigma (gemm alpha one ws c xs) =
    gemm alpha one (fused_w ws (scale_factor gamma sigma)) (fused_b c mean (scale_factor gamma sigma) beta) xs.
  Proof.
    intros. rewrite bn_fold_gemm_error by assumption. ring.
  Qed.

  Theorem bn_fold_gemm_iff : forall gamma beta mean sigma alpha betag ws c xs, sigma <> zero ->
    (bn gamma beta mean sigma (gemm alpha betag ws c xs) =
     gemm alpha betag (fused_w ws (scale_factor gamma sigma)) (fused_b c mean (scale_factor gamma sigma) beta) xs)
    <-> mul (sub one betag) (sub beta (mul mean (scale_factor gamma sigma))) = zero.
  Proof.
    intros. rewrite bn_fold_gemm_error by assumption.
    set (g := gemm alpha betag _ _ xs). set (e := mul (sub one betag) _).
    split; intro E.
    - assert (E2 : e = sub (add g e) g) by ring. rewrite E2, E. ring.
    - rewrite E. ring.
  Qed.
End Field.

(* ---------------------------------------------------------------- refutations (concrete carrier Z, sigma = 1) *)

(* the rule as read fires on training_mode = 1, where the output depends on the batch statistics *)
Theorem bn_training_mode_refuted : exists gamma beta mean sigma bmean bsigma ws b xs,
  sigma <> 0 /\
  bn_mode Z Z.add Z.mul Z.sub Z.div true gamma beta mean sigma bmean bsigma (lin Z 0 Z.add Z.mul ws b xs) <>
  lin Z 0 Z.add Z.mul (fused_w Z Z.mul ws (scale_factor Z Z.div gamma sigma))
      (fused_b Z Z.add Z.mul Z.sub b mean (scale_factor Z Z.div gamma sigma) beta) xs.
Proof. exists 1, 0, 0, 1, 1, 1, [1], 0, [5]. split; [discriminate|vm_compute; discriminate]. Qed.

(* the rule as read fires on Gemm with beta <> 1 *)
Theorem bn_gemm_beta_refuted : exists gamma beta mean sigma alpha betag ws c xs,
  sigma <> 0 /\
  bn Z Z.add Z.mul Z.sub Z.div gamma beta mean sigma (gemm Z 0 Z.add Z.mul alpha betag ws c xs) <>
  gemm Z 0 Z.add Z.mul alpha betag (fused_w Z Z.mul ws (scale_factor Z Z.div gamma sigma))
       (fused_b Z Z.add Z.mul Z.sub c mean (scale_factor Z Z.div gamma sigma) beta) xs.
Proof. exists 1, 1, 0, 1, 1, 2, [1], 3, [5]. split; [discriminate|vm_compute; discriminate]. Qed.

(* ---------------------------------------------------------------- index arithmetic: which scale meets which weight *)

Lemma div_mod_unique : forall a b q r, 0 <= r < b -> a = b * q + r -> a / b = q /\ a mod b = r.
Proof.
  intros a b q r R E. split.
  - symmetry. apply Z.div_unique with (r := r); auto.
  - symmetry. apply Z.mod_unique with (q := q); auto.
Qed.

(* Conv: W[m, ...] (flat m*P + r) is multiplied by scale_factor[m] *)
Theorem conv_axis_index : forall M rest m r, 0 <= m < M -> 0 <= r < prod rest ->
  axis_index (M :: rest) 0 (m * prod rest + r) = m.
Proof.
  intros M rest m r Hm Hr. unfold axis_index. cbn [skipn nth].
  destruct (div_mod_unique (m * prod rest + r) (prod rest) m r Hr) as [-> _]; [lia|].
  apply Z.mod_small. lia.
Qed.

(* Gemm, transB = 0: B[k, n] (flat k*N + n) is multiplied by scale_factor[n] *)
Theorem gemm_axis_index_notrans : forall K N k n, 0 <= k < K -> 0 <= n < N ->
  axis_index [K; N] (gemm_axis false) (k * N + n) = n.
Proof.
  intros. unfold axis_index, gemm_axis. cbn [skipn nth prod]. rewrite Z.div_1_r.
  destruct (div_mod_unique (k * N + n) N k n) as [_ E]; lia.
Qed.

(* Gemm, transB = 1: B[n, k] (flat n*K + k) is multiplied by scale_factor[n] *)
Theorem gemm_axis_index_trans : forall K N k n, 0 <= k < K -> 0 <= n < N ->
  axis_index [N; K] (gemm_axis true) (n * K + k) = n.
Proof.
  intros. unfold axis_index, gemm_axis. cbn [skipn nth prod]. rewrite Z.mul_1_r.
  destruct (div_mod_unique (n * K + k) K n k) as [-> _]; try lia.
  apply Z.mod_small. lia.
Qed.

(* ConvTranspose with groups: the reshape to (group, cin/group, ocpg, K) pairs W[c, j, t] with the scale of the
   output channel that W[c, j, .] feeds *)
Theorem convt_group_index : forall group cpg ocpg K c j t,
  0 < group -> 0 < cpg -> 0 < ocpg -> 0 < K ->
  0 <= c < group * cpg -> 0 <= j < ocpg -> 0 <= t < K ->
  convt_scale_index group (group * cpg) ocpg K (c * ocpg * K + j * K + t) =
  convt_out_channel group (group * cpg) ocpg c j
  /\ 0 <= convt_out_channel group (group * cpg) ocpg c j < group * ocpg.
Proof.
  intros group cpg ocpg K c j t Hg Hc Ho HK Rc Rj Rt.
  unfold convt_scale_index, convt_out_channel.
  replace (group * cpg / group) with cpg by (rewrite Z.mul_comm, Z.div_mul; lia).
  set (q := c / cpg). set (r := c mod cpg).
  assert (Ec : c = cpg * q + r) by (apply Z.div_mod; lia).
  assert (Rr : 0 <= r < cpg) by (apply Z.mod_pos_bound; lia).
  assert (Rq : 0 <= q < group).
  { split; [apply Z.div_pos; lia|]. apply Z.div_lt_upper_bound; lia. }
  assert (A : (c * ocpg * K + j * K + t) / (cpg * ocpg * K) = q).
  { assert (B0 : 0 <= j * K + t < ocpg * K) by nia.
    assert (B1 : 0 <= r * ocpg * K + j * K + t < cpg * ocpg * K).
    { replace (r * ocpg * K) with (r * (ocpg * K)) by ring. replace (cpg * ocpg * K) with (cpg * (ocpg * K)) by ring.
      set (m := ocpg * K) in *. assert (0 < m) by (unfold m; nia). nia. }
    destruct (div_mod_unique (c * ocpg * K + j * K + t) (cpg * ocpg * K) q (r * ocpg * K + j * K + t) B1) as [E _]; [nia|exact E]. }
  assert (B : (c * ocpg * K + j * K + t) / K = c * ocpg + j).
  { destruct (div_mod_unique (c * ocpg * K + j * K + t) K (c * ocpg + j) t Rt) as [E _]; [nia|exact E]. }
  assert (C : (c * ocpg + j) mod ocpg = j).
  { destruct (div_mod_unique (c * ocpg + j) ocpg c j Rj) as [_ E]; [nia|exact E]. }
  rewrite A, B, C. split; [reflexivity|nia].
Qed.

(* non-vacuity: a grouped ConvTranspose, 4 input channels in 2 groups, 3 output channels per group *)
Example convt_example : convt_scale_index 2 4 3 5 (3 * 3 * 5 + 2 * 5 + 4) = 5 /\ convt_out_channel 2 4 3 3 2 = 5.
Proof. split; reflexivity. Qed.
