(* C07: soundness of an application of a KEEPING rule (remove_nodes=False) without any commutation: the matched
   nodes stay where they are, the root's pattern outputs get dead names, the replacement follows the root.
   The argument re-executes the matched nodes after the window (they reproduce their values because nothing they
   read is redefined), so interleaved consumers of the match's intermediates are allowed. *)
From Coq Require Import List String ZArith Bool Arith Lia.
Require Import OV.Graph.Syntax OV.Graph.Sem OV.Graph.Names OV.Graph.SemProofs OV.Rewrite.Apply OV.Rewrite.ApplyProofs.
Import ListNotations.
Local Open Scope string_scope.
Local Open Scope list_scope.


Section Keep.
  Variable V : Type.
  Variable sem : string -> string -> list (string * attrv) -> list (option V) -> option (list V).
  Variable truth : V -> option bool.
  Variable trip : V -> option nat.
  Variable of_nat : nat -> V.
  Variable of_bool : bool -> V.
  Variable limit : nat.

  Notation env := (list (vname * V)).
  Notation eval_node := (eval_node V sem truth trip of_nat of_bool limit).
  Notation run := (run V sem truth trip of_nat of_bool limit).
  Notation eval_body := (eval_body V sem truth trip of_nat of_bool limit).
  Notation eval_graph := (eval_graph V sem truth trip of_nat of_bool limit).
  Notation loop_iter := (loop_iter V truth of_nat of_bool).
  Notation agree_except := (agree_except V).
  Notation respects := (respects V).
  Notation seg_equiv := (seg_equiv V sem truth trip of_nat of_bool limit).
  Notation orel := (orel V).
  Notation nodes_equiv := (nodes_equiv V sem truth trip of_nat of_bool limit).

  (* the values a node computes, before they are bound to its outputs *)
  Definition node_vals (ev : env -> graph -> list V -> option (list V)) (e : env) (n : node) : option (list V) :=
    let 'Node dom op ins outs attrs subs := n in
    if is_if dom op then
      match lookup_opts e ins with
      | Some [Some c] =>
        match truth c with
        | Some b =>
          match find_sub (if b then "then_branch" else "else_branch") subs with
          | Some sg => ev e sg []
          | None => None
          end
        | None => None
        end
      | _ => None
      end
    else if is_loop dom op then
      match ins, find_sub "body" subs with
      | m :: c :: carried, Some body =>
        match lookup_opts e [m; c], lookups e (present carried) with
        | Some [mv; cv], Some st0 =>
          let max_trip := match mv with Some v => option_map Some (trip v) | None => Some None end in
          let cond0 := match cv with Some v => truth v | None => Some true end in
          match max_trip, cond0 with
          | Some mt, Some c0 =>
            match mt with
            | Some k => loop_iter ev e body true k 0 c0 st0
            | None => loop_iter ev e body false limit 0 c0 st0
            end
          | _, _ => None
          end
        | _, _ => None
        end
      | _, _ => None
      end
    else
      match lookup_opts e ins with
      | Some vs => sem dom op attrs vs
      | None => None
      end.

  Lemma eval_node_vals ev e n :
    eval_node ev e n = match node_vals ev e n with Some vs => bind (n_outs n) vs e | None => None end.
  Proof.
    destruct n as [dom op ins outs attrs subs]. unfold Sem.eval_node, node_vals. cbn [n_outs].
    destruct (is_if dom op).
    - destruct (lookup_opts e ins) as [[|[c|] [|? ?]]|]; try reflexivity.
      destruct (truth c); try reflexivity. destruct (find_sub _ subs); reflexivity.
    - destruct (is_loop dom op).
      + destruct ins as [|m [|c carried]]; try reflexivity.
        destruct (find_sub "body" subs); try reflexivity.
        destruct (lookup_opts e [m; c]) as [[|mv [|cv [|? ?]]]|]; try reflexivity.
        destruct (lookups e (present carried)); try reflexivity.
        destruct (match mv with Some v => option_map Some (trip v) | None => Some None end) as [mt|]; try reflexivity.
        destruct (match cv with Some v => truth v | None => Some true end); try reflexivity.
      + destruct (lookup_opts e ins); reflexivity.
  Qed.

  (* the computed values do not depend on the names of the outputs *)
  Lemma node_vals_outs ev e d o i outs outs' a s :
    node_vals ev e (Node d o i outs a s) = node_vals ev e (Node d o i outs' a s).
  Proof. reflexivity. Qed.

  (* coincidence on what the node READS only (its outputs may be in X) *)
  Lemma node_vals_agree X ev e1 e2 n :
    respects X ev -> agree_except X e1 e2 -> disjoint X (uses n) -> node_vals ev e1 n = node_vals ev e2 n.
  Proof.
    intros R A D. destruct n as [dom op ins outs attrs subs]. unfold uses in D. cbn [n_ins n_subs] in D.
    apply disjoint_app_r in D. destruct D as [Di Ds]. unfold node_vals.
    destruct (is_if dom op).
    - rewrite (agree_lookup_opts V X e1 e2 ins A Di).
      destruct (lookup_opts e2 ins) as [[|[c|] [|? ?]]|]; auto.
      destruct (truth c) as [b|]; auto.
      destruct (find_sub _ subs) as [sg|] eqn:F; auto.
      exact (R e1 e2 sg [] A (find_sub_names X _ _ _ F Ds)).
    - destruct (is_loop dom op).
      + destruct ins as [|m [|c carried]]; auto.
        destruct (find_sub "body" subs) as [body|] eqn:F; auto.
        assert (Dmc : disjoint X (present [m; c])).
        { eapply disjoint_sub; [exact Di|]. intros x Hx. destruct m, c; cbn in *; tauto. }
        assert (Dcar : disjoint X (present carried)).
        { eapply disjoint_sub; [exact Di|]. intros x Hx. destruct m, c; cbn; auto. }
        rewrite (agree_lookup_opts V X e1 e2 [m; c] A Dmc).
        rewrite (agree_lookups V X e1 e2 (present carried) A Dcar).
        destruct (lookup_opts e2 [m; c]) as [[|mv [|cv [|? ?]]]|]; auto.
        destruct (lookups e2 (present carried)) as [st0|]; auto.
        destruct (match mv with Some v => option_map Some (trip v) | None => Some None end) as [mt|]; auto.
        destruct (match cv with Some v => truth v | None => Some true end) as [c0|]; auto.
        pose proof (find_sub_names X _ _ _ F Ds) as Db.
        destruct mt as [k|]; apply (loop_iter_agree V truth of_nat of_bool X ev e1 e2 body); assumption.
      + rewrite (agree_lookup_opts V X e1 e2 ins A Di). reflexivity.
  Qed.

  (* bind puts (name, value) pairs in front of the environment *)
  Lemma bind_spec xs : forall vs (e : env),
    bind xs vs e = if Nat.eqb (List.length xs) (List.length vs) then Some (combine xs vs ++ e) else None.
  Proof.
    induction xs as [|x t IH]; intros [|v vt] e; cbn; try reflexivity.
    rewrite IH. destruct (Nat.eqb _ _); reflexivity.
  Qed.

  Lemma map_fst_combine (xs : list vname) (vs : list V) :
    List.length xs = List.length vs -> map fst (combine xs vs) = xs.
  Proof.
    revert vs. induction xs as [|x t IH]; intros [|v vt] H; cbn in *; try discriminate; auto.
    f_equal. apply IH. lia.
  Qed.

  Lemma lookup_app_out' (b e : env) x : ~ In x (map fst b) -> lookup (b ++ e) x = lookup e x.
  Proof.
    induction b as [|[y v] t IH]; cbn; [reflexivity|]. intro H.
    destruct (String.eqb x y) eqn:E; [apply String.eqb_eq in E; subst; tauto|apply IH; tauto].
  Qed.

  Lemma lookup_app_in (b e1 e2 : env) x : In x (map fst b) -> lookup (b ++ e1) x = lookup (b ++ e2) x.
  Proof.
    induction b as [|[y v] t IH]; cbn; [tauto|]. intro H.
    destruct (String.eqb x y) eqn:E; [reflexivity|].
    apply IH. destruct H as [H|H]; [subst; rewrite String.eqb_refl in E; discriminate|exact H].
  Qed.

  Lemma disjoint_nil' (l : list vname) : disjoint [] l.
  Proof. intros x []. Qed.

  Lemma all_resp f : forall X, respects X (eval_graph f).
  Proof. intro X. apply eval_graph_agree. Qed.

  (* ---- re-executing a node later: same values, provided nothing it reads was redefined ------------ *)
  Lemma rerun_node ev (eA eW : env) X m e' :
    (forall Y, respects Y ev) -> eval_node ev eA m = Some e' ->
    agree_except X eA eW -> disjoint X (uses m) ->
    exists vs, e' = combine (n_outs m) vs ++ eA /\ List.length (n_outs m) = List.length vs /\
               eval_node ev eW m = Some (combine (n_outs m) vs ++ eW).
  Proof.
    intros R E A D. rewrite eval_node_vals in E.
    destruct (node_vals ev eA m) as [vs|] eqn:NV; [|discriminate].
    rewrite bind_spec in E. destruct (Nat.eqb _ _) eqn:L; [|discriminate]. inversion E; subst.
    exists vs. apply Nat.eqb_eq in L. repeat split; auto.
    rewrite eval_node_vals. rewrite <- (node_vals_agree X ev eA eW m (R X) A D). rewrite NV.
    rewrite bind_spec. apply Nat.eqb_eq in L. rewrite L. reflexivity.
  Qed.


  Lemma run_keys ev ns : forall e e', run ev e ns = Some e' ->
    exists b : env, e' = b ++ e /\ (forall x, In x (map fst b) -> In x (defs_nodes ns)).
  Proof. intros. eapply run_shape; eauto. Qed.

  Lemma rerun ev mask : (forall Y, respects Y ev) -> forall ns e eW,
    run ev e ns = Some eW -> rerunnableb mask ns = true ->
    exists e', run ev eW (sel mask ns) = Some e' /\ agree_except [] e' eW.
  Proof.
    intro R. induction mask as [|b mt IH]; intros ns e eW H RB.
    - exists eW. destruct ns; cbn; split; auto; apply agree_refl.
    - destruct ns as [|n t]; [exists eW; cbn; split; auto; apply agree_refl|].
      cbn in H. destruct (eval_node ev e n) as [e1|] eqn:En; [|discriminate].
      cbn in RB. apply andb_true_iff in RB. destruct RB as [Rn Rt].
      destruct (IH t e1 eW H Rt) as [e' [He' Ae']].
      destruct b; cbn [sel List.app].
      + apply andb_true_iff in Rn. destruct Rn as [D1 D2].
        apply disjointb_sound in D1. apply disjointb_sound in D2.
        destruct (run_keys ev t e1 eW H) as [bt [-> Kt]].
        destruct (eval_node_shape V sem truth trip of_nat of_bool limit ev e n e1 En) as [bn [-> Kn]].
        (* the environment after the window agrees with the one before n except on outs n ++ defs t *)
        assert (A : agree_except (n_outs n ++ defs_nodes t) e (bt ++ bn ++ e)).
        { intros x Hx. symmetry. rewrite lookup_app_out'.
          - apply lookup_app_out'. rewrite Kn. intro I. apply Hx. apply in_or_app. left. exact I.
          - intro I. apply Hx. apply in_or_app. right. apply Kt. exact I. }
        destruct (rerun_node ev e (bt ++ bn ++ e) _ n (bn ++ e) R En A D1) as [vs [Eq [Len Ev]]].
        cbn [run]. rewrite Ev.
        (* the rebinding changes nothing: the values of outs n are already those *)
        assert (Same : agree_except [] (combine (n_outs n) vs ++ bt ++ bn ++ e) (bt ++ bn ++ e)).
        { intros x _. destruct (in_dec string_dec x (n_outs n)) as [I|N].
          - assert (bn = combine (n_outs n) vs) by (apply app_inv_tail in Eq; exact Eq). subst bn.
            rewrite (lookup_app_out' bt) by (intro J; exact (D2 x I (Kt x J))).
            apply lookup_app_in. rewrite map_fst_combine by exact Len. exact I.
          - apply lookup_app_out'. rewrite map_fst_combine by exact Len. exact N. }
        pose proof (run_agree V sem truth trip of_nat of_bool limit [] ev (sel mt t) (R [])
                      _ _ Same (disjoint_nil' _)) as RA.
        rewrite He' in RA.
        destruct (run ev (combine (n_outs n) vs ++ bt ++ bn ++ e) (sel mt t)) as [e2|]; [|contradiction].
        exists e2. split; [reflexivity|]. eapply agree_trans; [exact RA|exact Ae'].
      + exists e'. split; [exact He'|exact Ae'].
  Qed.

  (* ---- exact key set of what a node list binds ------------------------------------------------------- *)
  Lemma run_keys_iff ev ns : forall e e', run ev e ns = Some e' ->
    exists b : env, e' = b ++ e /\ (forall x, In x (map fst b) <-> In x (defs_nodes ns)).
  Proof.
    induction ns as [|n t IH]; intros e e' H; cbn in H.
    - inversion H; subst. exists []. split; [reflexivity|]. intro x; cbn; tauto.
    - destruct (eval_node ev e n) as [e1|] eqn:En; [|discriminate].
      destruct (eval_node_shape V sem truth trip of_nat of_bool limit ev e n e1 En) as [b1 [-> K1]].
      destruct (IH _ _ H) as [b2 [-> K2]]. exists (b2 ++ b1). split; [now rewrite app_assoc|].
      intro x. rewrite map_app, in_app_iff, K2, K1. unfold defs_nodes. cbn. rewrite in_app_iff. tauto.
  Qed.

  (* running the same nodes in two environments that agree on everything the nodes read: same bindings *)
  Lemma run_uses_agree ev X ns : (forall Y, respects Y ev) -> forall (eA eB : env) e',
    agree_except X eA eB -> disjoint X (uses_nodes ns) -> run ev eA ns = Some e' ->
    exists b : env, e' = b ++ eA /\ run ev eB ns = Some (b ++ eB).
  Proof.
    intro R. induction ns as [|n t IH]; intros eA eB e' A D H; cbn in H.
    - inversion H; subst. exists []. split; reflexivity.
    - destruct (eval_node ev eA n) as [e1|] eqn:En; [|discriminate].
      unfold uses_nodes in D. cbn in D. apply disjoint_app_r in D. destruct D as [Dn Dt].
      destruct (rerun_node ev eA eB X n e1 R En A Dn) as [vs [-> [Len Ev]]].
      assert (A' : agree_except X (combine (n_outs n) vs ++ eA) (combine (n_outs n) vs ++ eB)).
      { intros x Hx. destruct (in_dec string_dec x (map fst (combine (n_outs n) vs))) as [I|N].
        - apply lookup_app_in. exact I.
        - rewrite !lookup_app_out' by exact N. apply A. exact Hx. }
      destruct (IH _ _ _ A' Dt H) as [b [-> Hb]].
      exists (b ++ combine (n_outs n) vs). split; [now rewrite app_assoc|].
      cbn. rewrite Ev. rewrite Hb. now rewrite app_assoc.
  Qed.

  Lemma agree_weaken X (e1 e2 : env) : agree_except [] e1 e2 -> agree_except X e1 e2.
  Proof. intros H x _. apply H. intros []. Qed.

  Lemma sel_app mask0 W0 mask1 W1 : List.length mask0 = List.length W0 ->
    sel (mask0 ++ mask1) (W0 ++ W1) = sel mask0 W0 ++ sel mask1 W1.
  Proof.
    revert W0. induction mask0 as [|b mt IH]; intros [|n t] L; cbn in *; try discriminate; auto.
    rewrite <- app_assoc. f_equal. apply IH. lia.
  Qed.

  (* ---- the keeping splice ----------------------------------------------------------------------------- *)
  Theorem keep_splice : forall fuel X0 outer gi gn W0 root mask0 dead new suf outs args,
    List.length mask0 = List.length W0 ->
    seg_equiv X0 (eval_graph fuel) (sel mask0 W0 ++ [root]) new ->
    rerunnableb (mask0 ++ [true]) (W0 ++ [root]) = true ->
    disjoint X0 (n_outs root) ->
    (forall x, In x (n_outs root) -> In x (defs_nodes new)) ->
    disjoint (n_outs root ++ n_outs (rename_outs dead root)) (uses_nodes new) ->
    disjoint (keep_X root dead new) (names_nodes suf) -> disjoint (keep_X root dead new) outs ->
    eval_graph (S fuel) outer (Graph gi gn (W0 ++ [root] ++ suf) outs) args
    = eval_graph (S fuel) outer (Graph gi gn (W0 ++ [rename_outs dead root] ++ new ++ suf) outs) args.
  Proof.
    intros fuel X0 outer gi gn W0 root mask0 dead new suf outs args L Hseg Hrr HO Hsub Huse Dsuf Douts.
    pose proof (all_resp fuel) as R.
    cbn [Sem.eval_graph]. unfold Sem.eval_body. cbn [g_ins g_nodes g_outs].
    destruct (bind gi args outer) as [e0|]; [|reflexivity].
    rewrite !(run_app V sem truth trip of_nat of_bool limit _ e0 W0).
    destruct (run (eval_graph fuel) e0 W0) as [e1|] eqn:RW0; [|reflexivity].
    rewrite !(run_app V sem truth trip of_nat of_bool limit _ e1 [_]).
    (* the root and its renamed copy compute the same values *)
    assert (Hroot : forall n', n' = root \/ n' = rename_outs dead root ->
              run (eval_graph fuel) e1 [n'] =
              match node_vals (eval_graph fuel) e1 root with
              | Some vs => bind (n_outs n') vs e1 | None => None end).
    { intros n' Hn. cbn [Sem.run]. rewrite eval_node_vals.
      assert (NV : node_vals (eval_graph fuel) e1 n' = node_vals (eval_graph fuel) e1 root).
      { destruct Hn as [->| ->]; [reflexivity|]. destruct root; reflexivity. }
      rewrite NV. destruct (node_vals (eval_graph fuel) e1 root); [|reflexivity].
      destruct (bind (n_outs n') l e1); reflexivity. }
    rewrite (Hroot root (or_introl eq_refl)). rewrite (Hroot _ (or_intror eq_refl)).
    destruct (node_vals (eval_graph fuel) e1 root) as [vs|] eqn:NV; [|reflexivity].
    rewrite !bind_spec.
    assert (LD : List.length (n_outs (rename_outs dead root)) = List.length (n_outs root)).
    { destruct root; cbn. apply map_length. }
    rewrite LD. destruct (Nat.eqb (List.length (n_outs root)) (List.length vs)) eqn:Len; [|reflexivity].
    apply Nat.eqb_eq in Len.
    set (O := n_outs root) in *. set (D := n_outs (rename_outs dead root)) in *.
    set (eW := combine O vs ++ e1). set (eD := combine D vs ++ e1).
    (* the whole window ran: e0 --(W0 ++ [root])--> eW *)
    assert (RW : run (eval_graph fuel) e0 (W0 ++ [root]) = Some eW).
    { rewrite (run_app V sem truth trip of_nat of_bool limit). rewrite RW0.
      cbn [Sem.run]. rewrite eval_node_vals. rewrite NV. rewrite bind_spec.
      fold O. rewrite (proj2 (Nat.eqb_eq _ _) Len). reflexivity. }
    destruct (rerun (eval_graph fuel) (mask0 ++ [true]) R _ _ _ RW Hrr) as [e' [Rr Ar]].
    rewrite sel_app in Rr by exact L. cbn [sel List.app] in Rr.
    pose proof (Hseg eW) as HS. rewrite Rr in HS.
    destruct (run (eval_graph fuel) eW new) as [eN|] eqn:RN; [|contradiction].
    assert (AN : agree_except X0 eW eN).
    { eapply agree_trans; [apply agree_sym; apply agree_weaken; exact Ar|exact HS]. }
    destruct (run_keys_iff (eval_graph fuel) new eW eN RN) as [bN [EN KN]].
    (* the replacement runs alike after the renamed root *)
    assert (AWD : agree_except (O ++ D) eW eD).
    { intros x Hx. unfold eW, eD. rewrite !lookup_app_out'; [reflexivity| |].
      - rewrite map_fst_combine by (fold D in LD; lia). intro I. apply Hx. apply in_or_app. right. exact I.
      - rewrite map_fst_combine by exact Len. intro I. apply Hx. apply in_or_app. left. exact I. }
    destruct (run_uses_agree (eval_graph fuel) (O ++ D) new R eW eD eN AWD Huse RN) as [bN' [EN' RD]].
    assert (bN' = bN) by (rewrite EN in EN'; apply app_inv_tail in EN'; congruence). subst bN'.
    rewrite !(run_app V sem truth trip of_nat of_bool limit _ _ new). rewrite RD.
    (* the two environments agree outside keep_X *)
    assert (AF : agree_except (keep_X root dead new) eW (bN ++ eD)).
    { intros x Hx. unfold keep_X in Hx. fold O D in Hx.
      destruct (in_dec string_dec x (map fst bN)) as [I|N].
      - assert (IO : In x O).
        { destruct (in_dec string_dec x O) as [J|J]; [exact J|]. exfalso. apply Hx. apply in_or_app. left.
          apply filter_In. split; [apply KN; exact I|]. apply negb_true_iff.
          destruct (mem x O) eqn:M; [apply mem_In in M; contradiction|reflexivity]. }
        rewrite (lookup_app_in bN eD eW x I). rewrite <- EN. apply AN. intro J. exact (HO x J IO).
      - rewrite lookup_app_out' by exact N.
        assert (ND : ~ In x D) by (intro J; apply Hx; apply in_or_app; right; exact J).
        assert (NO : ~ In x O) by (intro J; apply N; apply KN; apply Hsub; exact J).
        unfold eW, eD. rewrite !lookup_app_out'; [reflexivity| |].
        + rewrite map_fst_combine by (fold D in LD; lia). exact ND.
        + rewrite map_fst_combine by exact Len. exact NO. }
    pose proof (run_agree V sem truth trip of_nat of_bool limit _ (eval_graph fuel) suf (R _) _ _ AF Dsuf) as HR.
    destruct (run (eval_graph fuel) eW suf) as [a1|], (run (eval_graph fuel) (bN ++ eD) suf) as [a2|];
      try contradiction; auto.
    exact (agree_lookups V _ a1 a2 outs HR Douts).
  Qed.
End Keep.


Lemma lastb_split mask : lastb mask = true -> mask = removelast mask ++ [true].
Proof.
  induction mask as [|b [|c t] IH]; cbn; intro H; try discriminate.
  - subst. reflexivity.
  - f_equal. apply IH. exact H.
Qed.

Lemma removelast_len {A} (l : list A) : List.length (removelast l) = List.length l - 1.
Proof.
  induction l as [|x [|y t] IH]; cbn in *; auto. rewrite IH. lia.
Qed.

Lemma assoc_notin dead x : ~ In x (map fst dead) -> assoc dead x = x.
Proof.
  induction dead as [|[a b] t IH]; cbn; auto. intro H.
  destruct (String.eqb x a) eqn:E; [apply String.eqb_eq in E; subst; tauto|apply IH; tauto].
Qed.

Lemma rename_outs_id dead n : disjoint (map fst dead) (n_outs n) -> rename_outs dead n = n.
Proof.
  destruct n as [d o i outs a s]. cbn. intro D. f_equal.
  induction outs as [|x t IH]; cbn; auto. rewrite assoc_notin.
  - f_equal. apply IH. intros y Hy Hin. exact (D y Hy (or_intror Hin)).
  - intro H. exact (D x H (or_introl eq_refl)).
Qed.

Lemma renamed_id dead mask ns : disjoint (map fst dead) (defs_nodes ns) -> renamed dead mask ns = ns.
Proof.
  revert ns. induction mask as [|b mt IH]; intros [|n t] D; cbn; auto.
  unfold defs_nodes in D. cbn in D. apply disjoint_app_r in D. destruct D as [Dn Dt].
  rewrite IH by exact Dt. destruct b; [rewrite rename_outs_id by exact Dn|]; reflexivity.
Qed.

Lemma renamed_app dead mask0 W0 mask1 W1 : List.length mask0 = List.length W0 ->
  renamed dead (mask0 ++ mask1) (W0 ++ W1) = renamed dead mask0 W0 ++ renamed dead mask1 W1.
Proof.
  revert W0. induction mask0 as [|b mt IH]; intros [|n t] L; cbn in *; try discriminate; auto.
  f_equal. apply IH. lia.
Qed.

Lemma subset_sound a b : subset a b = true -> forall x, In x a -> In x b.
Proof.
  unfold subset. rewrite forallb_forall. intros H x Hx. apply mem_In. apply H. exact Hx.
Qed.

Section KeepApply.
  Variable V : Type.
  Variable sem : string -> string -> list (string * attrv) -> list (option V) -> option (list V).
  Variable truth : V -> option bool.
  Variable trip : V -> option nat.
  Variable of_nat : nat -> V.
  Variable of_bool : bool -> V.
  Variable limit : nat.
  Notation eval_graph := (eval_graph V sem truth trip of_nat of_bool limit).
  Notation seg_equiv := (seg_equiv V sem truth trip of_nat of_bool limit).

  (* side conditions of a sound KEEPING application: the executable part plus the equivalence of the replacement
     with the matched nodes (as a segment), which may differ on X0 (not on the pattern outputs) *)
  Definition keep_sound_at (ns : list node) (outs : list vname) (a : app) (X0 : list vname) : Prop :=
    keep_okb a ns outs X0 = true /\
    forall f, seg_equiv X0 (eval_graph f) (sel (a_mask a) (firstn (List.length (a_mask a)) ns)) (a_new a).

  Theorem apply_nodes_keep_sound : forall a ns ns' outs X0,
    apply_nodes a ns = Some ns' -> keep_sound_at ns outs a X0 ->
    forall fuel outer gi gn args,
      eval_graph fuel outer (Graph gi gn ns outs) args = eval_graph fuel outer (Graph gi gn ns' outs) args.
  Proof.
    intros a ns ns' outs X0 HA [HK Hseg] fuel outer gi gn args.
    destruct fuel as [|f]; [reflexivity|].
    unfold keep_okb in HK.
    apply andb_true_iff in HK; destruct HK as [HK C9]. apply andb_true_iff in HK; destruct HK as [HK C8].
    apply andb_true_iff in HK; destruct HK as [HK C7]. apply andb_true_iff in HK; destruct HK as [HK C6].
    apply andb_true_iff in HK; destruct HK as [HK C5]. apply andb_true_iff in HK; destruct HK as [HK C4].
    apply andb_true_iff in HK; destruct HK as [HK C3]. apply andb_true_iff in HK; destruct HK as [C1 C2].
    unfold apply_nodes in HA. rewrite C1 in HA. inversion HA; subst; clear HA.
    apply negb_true_iff in C2. rewrite C2.
    unfold app_wf in C1. apply andb_true_iff in C1. destruct C1 as [HL HB]. apply Nat.leb_le in HL.
    set (k := List.length (a_mask a)) in *. set (win := firstn k ns) in *. set (suf := skipn k ns) in *.
    assert (Ens : ns = win ++ suf) by (symmetry; apply firstn_skipn).
    assert (Lw : List.length win = k) by (apply firstn_length_le; exact HL).
    assert (Kpos : k <> 0).
    { unfold k. destruct (a_mask a); [discriminate|cbn; lia]. }
    assert (Wne : win <> []) by (intro E; rewrite E in Lw; cbn in Lw; lia).
    pose proof (app_removelast_last dummy_node Wne) as EW.
    pose proof (lastb_split _ HB) as EM.
    set (W0 := removelast win) in *. set (root := last win dummy_node) in *.
    set (mask0 := removelast (a_mask a)) in *.
    assert (L0 : List.length mask0 = List.length W0).
    { unfold mask0, W0. rewrite !removelast_len. fold k. lia. }
    assert (ER : kept false (a_dead a) (a_mask a) win = W0 ++ [rename_outs (a_dead a) root]).
    { rewrite kept_keep. rewrite EM, EW. rewrite renamed_app by exact L0. cbn [renamed].
      rewrite renamed_id by (apply disjointb_sound; exact C4). reflexivity. }
    assert (ES : sel (a_mask a) win = sel mask0 W0 ++ [root]).
    { rewrite EM, EW. rewrite sel_app by exact L0. reflexivity. }
    rewrite ER. rewrite Ens. rewrite EW. rewrite <- !app_assoc. cbn [List.app].
    apply keep_splice with (X0 := X0) (mask0 := mask0); auto using disjointb_sound.
    - rewrite <- ES. apply Hseg.
    - rewrite <- EM, <- EW. exact C3.
    - apply subset_sound. exact C6.
  Qed.
End KeepApply.
