(* C19 model: the attention family.
     onnxscript/rewriter/ort_fusions/mha.py          MultiHeadAttention rules (self attention, with / without past)
     onnxscript/rewriter/ort_fusions/sdpa_via_mha.py SDPA -> MultiHeadAttention lowering
     onnxscript/rewriter/ort_fusions/gqa.py          GroupQueryAttention rule
     onnxscript/rewriter/ort_fusions/attention.py    Attention rule (packed QKV projection)
   Part 1 (Section Layout): tensors are ROW-MAJOR FLAT LISTS with the dimensions given separately, which is what ONNX
   Reshape / Transpose / Expand / Concat act on: Reshape is the identity on the data, Transpose(0,2,1,3) moves the
   element at (a,b,c,d) to (a,c,b,d).  The attention of one head (softmax, the two MatMuls, the scale, the additive
   mask) is an ARBITRARY function [attn] of the head's matrices -- a Section variable, nothing is assumed about it.
   The documented operators (com.microsoft MultiHeadAttention / Attention / GroupQueryAttention) are transcribed as
   index formulas on the packed [B,S,H*Dh] layout.
   Part 2: executable models of the rules' `check` side conditions and of what `rewrite` emits.
   No proofs in this file. *)
From Coq Require Import List Arith Bool ZArith.
Require Import OV.Fusion.Norm.
Import ListNotations.

(* ------------------------------------------------------------------------------------------------ part 1 *)
Section Layout.
  Variable A : Type.
  Variable d0 : A.                 (* value of an out-of-range read; never reached for well-sized operands *)

  (* n consecutive blocks f 0, f 1, ... *)
  Definition tabulate (n : nat) (f : nat -> list A) : list A := flat_map f (seq 0 n).
  Definition tab1 (n : nat) (f : nat -> A) : list A := map f (seq 0 n).

  (* ONNX Reshape keeps the row-major data *)
  Definition reshape (x : list A) : list A := x.

  (* Transpose(perm=[0,2,1,3]) of a tensor of shape [n0,n1,n2,n3]: result shape [n0,n2,n1,n3], out[a,c,b,d] = in[a,b,c,d] *)
  Definition transpose0213 (n0 n1 n2 n3 : nat) (x : list A) : list A :=
    tabulate n0 (fun a => tabulate n2 (fun c => tabulate n1 (fun b => tab1 n3 (fun d =>
      nth (((a * n1 + b) * n2 + c) * n3 + d) x d0)))).

  (* the [n2,n3] matrix (list of rows) at position (a,b) of a tensor of shape [_,n1,n2,n3] *)
  Definition mat_at (n1 n2 n3 : nat) (x : list A) (a b : nat) : list (list A) :=
    map (fun s => tab1 n3 (fun d => nth (((a * n1 + b) * n2 + s) * n3 + d) x d0)) (seq 0 n2).

  (* MultiHeadAttention / Attention / GroupQueryAttention documents: query is [B,S,hidden] with hidden = num_heads *
     head_size, head h occupying columns [h*Dh, (h+1)*Dh) *)
  Definition head_packed (S H Dh : nat) (x : list A) (b h : nat) : list (list A) :=
    map (fun s => tab1 Dh (fun d => nth ((b * S + s) * (H * Dh) + (h * Dh + d)) x d0)) (seq 0 S).

  (* per-head results [S,Dv] written as a tensor [B,H,S,Dv] (what the pattern's batched MatMul produces) ... *)
  Definition stack_heads (B H S Dv : nat) (M : nat -> nat -> list (list A)) : list A :=
    tabulate B (fun b => tabulate H (fun h => tabulate S (fun s => tab1 Dv (fun d => nth d (nth s (M b h) []) d0)))).
  (* ... and as the documented output [B,S,H*Dv]: out[b,s,h*Dv+d] = head (b,h) [s,d] *)
  Definition pack_heads (B H S Dv : nat) (M : nat -> nat -> list (list A)) : list A :=
    tabulate B (fun b => tabulate S (fun s => tabulate H (fun h => tab1 Dv (fun d => nth d (nth s (M b h) []) d0)))).

  (* one head: query [S,Dh], key [T,Dh], value [T,Dv], additive mask [S,T] (optional) -> [S,Dv] *)
  Variable attn : list (list A) -> list (list A) -> list (list A) -> option (list (list A)) -> list (list A).

  (* mha.py pattern (self attention): Reshape + Transpose(0,2,1,3) of query/key/value, SDPA over [B,H,.,.], then
     Transpose(0,2,1,3) + Reshape back.  T = key/value sequence length (a past, when present, is concatenated on the
     [B,H,T,Dh] layout on both sides alike -- see concat_seq).  mask b h = the [S,T] matrix head (b,h) adds. *)
  Definition mha_pattern (B S T H Dh Dv : nat) (q k v : list A) (mask : nat -> nat -> option (list (list A))) : list A :=
    let q4 := transpose0213 B S H Dh (reshape q) in
    let k4 := transpose0213 B T H Dh (reshape k) in
    let v4 := transpose0213 B T H Dv (reshape v) in
    let o4 := stack_heads B H S Dv (fun b h =>
                attn (mat_at H S Dh q4 b h) (mat_at H T Dh k4 b h) (mat_at H T Dv v4 b h) (mask b h)) in
    reshape (transpose0213 B H S Dv o4).
  (* MultiHeadAttention(query [B,S,H*Dh], key [B,T,H*Dh], value [B,T,H*Dv], num_heads = H) *)
  Definition mha_spec (B S T H Dh Dv : nat) (q k v : list A) (mask : nat -> nat -> option (list (list A))) : list A :=
    pack_heads B H S Dv (fun b h =>
      attn (head_packed S H Dh q b h) (head_packed T H Dh k b h) (head_packed T H Dv v b h) (mask b h)).

  (* sdpa_via_mha.py: SDPA(q4 [B,H,S,Dh], k4, v4) is lowered to Transpose(0,2,1,3)+Reshape of the operands,
     MultiHeadAttention, Reshape([0,0,H,-1]) + Transpose(0,2,1,3) of the result *)
  Definition sdpa4 (B S T H Dh Dv : nat) (q4 k4 v4 : list A) (mask : nat -> nat -> option (list (list A))) : list A :=
    stack_heads B H S Dv (fun b h => attn (mat_at H S Dh q4 b h) (mat_at H T Dh k4 b h) (mat_at H T Dv v4 b h) (mask b h)).
  Definition sdpa_lowered (B S T H Dh Dv : nat) (q4 k4 v4 : list A) mask : list A :=
    let q3 := reshape (transpose0213 B H S Dh q4) in
    let k3 := reshape (transpose0213 B H T Dh k4) in
    let v3 := reshape (transpose0213 B H T Dv v4) in
    transpose0213 B S H Dv (reshape (mha_spec B S T H Dh Dv q3 k3 v3 mask)).

  (* gqa.py: Unsqueeze(axis 2) + Expand([B,Hkv,G,T,Dh]) + Reshape([B,Hkv*G,T,Dh]) of the key/value sequence *)
  Definition repeat_kv (B Hkv G T Dh : nat) (x : list A) : list A :=
    reshape (tabulate B (fun b => tabulate Hkv (fun hk => tabulate G (fun _ => tabulate T (fun t => tab1 Dh (fun d =>
      nth (((b * Hkv + hk) * T + t) * Dh + d) x d0)))))).
  (* Concat(past [B,N,P,Dh], current [B,N,S,Dh], axis=-2) *)
  Definition concat_seq (B N P S Dh : nat) (past cur : list A) : list A :=
    tabulate B (fun b => tabulate N (fun n =>
      tabulate P (fun t => tab1 Dh (fun d => nth (((b * N + n) * P + t) * Dh + d) past d0)) ++
      tabulate S (fun t => tab1 Dh (fun d => nth (((b * N + n) * S + t) * Dh + d) cur d0)))).
  (* pattern: query split into H = Hkv*G heads, key/value sequences [B,Hkv,T,Dh] repeated G times *)
  Definition gqa_pattern (B S T Hkv G Dh : nat) (q kseq vseq : list A) mask : list A :=
    let H := Hkv * G in
    let q4 := transpose0213 B S H Dh (reshape q) in
    let k4 := repeat_kv B Hkv G T Dh kseq in
    let v4 := repeat_kv B Hkv G T Dh vseq in
    reshape (transpose0213 B H S Dh (stack_heads B H S Dh (fun b h =>
      attn (mat_at H S Dh q4 b h) (mat_at H T Dh k4 b h) (mat_at H T Dh v4 b h) (mask b h)))).
  (* GroupQueryAttention(num_heads, kv_num_heads): query head h reads key/value head h / (num_heads / kv_num_heads) of
     the present key/value [B,kv_num_heads,T,Dh] *)
  Definition gqa_spec (B S T num_heads kv_num_heads Dh : nat) (q kseq vseq : list A) mask : list A :=
    let grp := num_heads / kv_num_heads in
    pack_heads B num_heads S Dh (fun b h =>
      attn (head_packed S num_heads Dh q b h) (mat_at kv_num_heads T Dh kseq b (h / grp))
           (mat_at kv_num_heads T Dh vseq b (h / grp)) (mask b h)).

  (* ---- additive mask / attention_bias.  A mask tensor of shape [Bm,Hm,Sm,T] against scores [B,H,S,T].
     NumPy/ONNX broadcasting of the pattern's Add reads index 0 along a dimension of extent 1. *)
  Definition bidx (extent i : nat) : nat := if extent =? 1 then 0 else i.
  Definition mask_numpy (Bm Hm Sm S T : nat) (m : list A) (b h : nat) : list (list A) :=
    map (fun s => tab1 T (fun t => nth (((bidx Bm b * Hm + bidx Hm h) * Sm + bidx Sm s) * T + t) m d0)) (seq 0 S).
  (* MultiHeadAttention's attention_bias [1|B, 1|H, S, T]: broadcast over the first two dimensions only *)
  Definition mask_mha (Bm Hm S T : nat) (m : list A) (b h : nat) : list (list A) :=
    mat_at Hm S T m (bidx Bm b) (bidx Hm h).
  (* rewrite with _use_mask_broadcast: Expand(mask, [1,1,S,1]) of a mask whose dimension 2 is 1 *)
  Definition expand_S (Bm Hm S T : nat) (m : list A) : list A :=
    tabulate Bm (fun a => tabulate Hm (fun c => tabulate S (fun _ => tab1 T (fun t => nth ((a * Hm + c) * T + t) m d0)))).
End Layout.

(* ---- GroupQueryAttention: the causal mask the pattern builds and the sequence lengths the rewrite passes.
   P = past length, s = row (new token), t = column (total position). *)
(* float_0_1_mask = Cast(Greater(Range(0,T)[t], Range(P,P+S)[s])); optional Trilu(upper=1, k=1) on the all-min matrix *)
Definition mask_blocked (trilu : bool) (P s t : nat) : bool := (P + s <? t) && (if trilu then s <? t else true).
(* GroupQueryAttention is causal: new token s (absolute position P+s) sees positions 0 .. P+s *)
Definition causal_allowed (P s t : nat) : bool := t <=? P + s.
(* rewrite: seqlens_k = ReduceMax(position_ids, axis 1) ; total_sequence_length = max(seqlens_k) + 1 *)
Definition seqlens_k (position_ids_row : list nat) : nat := list_max position_ids_row.
Definition total_seq_len (rows : list (list nat)) : nat := list_max (map seqlens_k rows) + 1.

(* ------------------------------------------------------------------------------------------------ part 2 *)
(* Dimensions as the harness encodes them: a static size n >= 0 is n; a NAMED symbolic dim is a negative number
   <= -2, one per name; an UNNAMED dim (SymbolicDim(None)) is -1 -- onnx_ir compares all unnamed dims equal. *)
Definition is_static (d : Z) : bool := (0 <=? d)%Z.
(* With fix C19_09 (_fusion_utils.check_shape never equates two unknown dims) the harness gives every OCCURRENCE of an unnamed
   dim its own code <= -1000 instead of the shared -1: Z.eqb then never identifies two of them, which is the repaired
   comparison (the variant lives in the encoding; the harness probes which one the implementation is). *)
Definition is_fresh_unnamed (d : Z) : bool := (d <=? -1000)%Z.

Definition zprod (l : list Z) : Z := fold_right Z.mul 1%Z l.
(* run-time sizes are a function of the dim codes; static dims denote themselves *)
Definition consistent (val : Z -> Z) : Prop := forall d, (0 <= d)%Z -> val d = d.
(* run-time shape [rt] is an instance of the recorded shape: static dims agree, symbolic dims are free PER TENSOR *)
Fixpoint fits_list (codes rt : list Z) : bool :=
  match codes, rt with
  | [], [] => true
  | c :: ct, r :: rt' => (if is_static c then Z.eqb c r else true) && fits_list ct rt'
  | _, _ => false
  end.
Definition fits_codes (codes : option (list Z)) (rt : list Z) : bool :=
  match codes with Some c => fits_list c rt | None => false end.
(* NumPy broadcastability of [a] to the result shape [r] (equal ranks) *)
Fixpoint numpy_broadcastable (a r : list Z) : bool :=
  match a, r with
  | [], [] => true
  | x :: a', y :: r' => ((x =? 1) || (x =? y))%Z && numpy_broadcastable a' r'
  | _, _ => false
  end.
(* check's test on dimension 2 of a rank-4 mask: equal to S -> no Expand; equal to 1 -> Expand; else refuse *)
Definition mask_dim2_rule (s d2 : Z) : option bool :=
  if Z.eqb d2 s then Some false else if Z.eqb d2 1 then Some true else None.

(* names: B=0 S=1 D=2 H=3 Dh=4 Skv=5 Spast=6 Dv=7 B_or_1=8 H_or_1=9 S_or_1=10 St=11 *)
Record mha_in := mk_mha_in {
  mi_has_past : bool;                    (* rule family: fuse_mha1 (with past) / fuse_mha2 *)
  mi_key_transposed : bool;              (* pattern alternative taken for the key *)
  mi_key_format_bhsd : bool;             (* SDPA node's key_format attribute = "BHSd" *)
  mi_query : option (list Z);            (* query_BSD *)
  mi_query4 : option (list Z);           (* query_BSHDh = output of the first Reshape *)
  mi_key : option (list Z);
  mi_value : option (list Z);
  mi_past_key : option (list Z);
  mi_past_value : option (list Z);
  mi_mask : option (option (list Z)) }.  (* None: SDPA has no 4th input; Some None: mask of unknown shape *)

(* The repair of C19:mha:mask-last-dim-broadcast / mask-batch-exceeds-query-batch (proposed_fixes/ready): after the mask
   dims are bound, dims 0/1 must be 1 or the bound B / H, and a last dim of 1 is refused unless the key/value length is
   known to be 1 (no past, Skv = 1).  Python compares ir dims: a symbolic dim never equals 1. *)
Definition mask_lead_ok (bd' : bindings) : bool :=
  match lookup bd' 8%nat, lookup bd' 9%nat, lookup bd' 0%nat, lookup bd' 3%nat with
  | Some mb, Some mh, Some b, Some h => ((mb =? 1) || (mb =? b))%Z && ((mh =? 1) || (mh =? h))%Z
  | _, _, _, _ => false
  end.
Definition mask_last_ok (has_past : bool) (bd' : bindings) : bool :=
  match lookup bd' 11%nat with
  | Some st => negb (st =? 1)%Z || (negb has_past && match lookup bd' 5%nat with Some skv => (skv =? 1)%Z | None => false end)
  | None => false
  end.

(* MultiHeadAttention.check (self attention) + the guard of rewrite (num_heads must be an int).
   [strict_mask] = false: the check as read at bbeff32 (mask dims 0, 1, 3 bound to fresh names, never compared);
   true: with the repair above.  The harness probes which one the implementation is.
   Result: None = the rule does not fire; Some (num_heads, use_mask_broadcast). *)
Definition mha_check_rewrite (strict_mask : bool) (i : mha_in) : option (Z * bool) :=
  let b1 := check_shape (Some []) (mi_query i) [0; 1; 2]%nat in
  let b2 := check_shape b1 (mi_query4 i) [0; 1; 3; 4]%nat in
  let b3 := check_shape b2 (mi_key i) [0; 5; 2]%nat in
  let b4 := if Bool.eqb (mi_key_format_bhsd i) (mi_key_transposed i) then b3 else None in
  let b5 := check_shape b4 (mi_value i) [0; 5; 2]%nat in
  let b6 := if mi_has_past i
            then check_shape (check_shape b5 (mi_past_key i) [0; 3; 6; 4]%nat) (mi_past_value i) [0; 3; 6; 7]%nat
            else b5 in
  match b6 with
  | None => None
  | Some bd =>
      let bm : option bool :=
        match mi_mask i with
        | None => Some false
        | Some None => None
        | Some (Some ms) =>
            match length ms with
            | 4%nat =>
                match bind_dims bd ms [8; 9; 10; 11]%nat with
                | None => None
                | Some bd' =>
                    if strict_mask && negb (mask_lead_ok bd' && mask_last_ok (mi_has_past i) bd') then None else
                    match lookup bd' 10%nat, lookup bd' 1%nat with
                    | Some d2, Some s => mask_dim2_rule s d2
                    | _, _ => None
                    end
                end
            | 2%nat =>
                match bind_dims bd ms [10; 11]%nat with
                | Some bd' => if strict_mask && negb (mask_last_ok (mi_has_past i) bd') then None else Some true
                | None => None
                end
            | _ => None
            end
        end in
      match bm, lookup bd 3%nat with
      | Some ub, Some h => if is_static h then Some (h, ub) else None
      | _, _ => None
      end
  end.

(* what the documented operator needs of an attention_bias: rank 4, [1|B, 1|H, S, T] with T the key/value (total)
   sequence length; evaluated on RUN-TIME sizes *)
Definition mha_mask_ok (B H S T : Z) (mask : list Z) : bool :=
  match mask with
  | [mb; mh; ms; mt] => ((mb =? 1) || (mb =? B))%Z && ((mh =? 1) || (mh =? H))%Z && (ms =? S)%Z && (mt =? T)%Z
  | _ => false
  end.
(* shape of the mask the rewritten node receives: Expand(mask, [1,1,S,1]) when use_mask_broadcast (rank 2 -> rank 4) *)
Definition mha_mask_after (use_bcast : bool) (S : Z) (mask : list Z) : list Z :=
  if use_bcast then
    match mask with
    | [mb; mh; ms; mt] => [mb; mh; Z.max ms S; mt]
    | [ms; mt] => [1; 1; Z.max ms S; mt]%Z
    | _ => mask
    end
  else mask.

(* sdpa_via_mha.py SDPAImplementation.check: query [B,H,S,Dh], value [B,H,Skv,Dv], key by key_format; H static.
   names: B=0 H=1 S=2 Dh=3 Skv=4 Dv=5 *)
Definition sdpa_via_mha_check (key_bhsd : bool) (q k v : option (list Z)) : option Z :=
  let b1 := check_shape (Some []) q [0; 1; 2; 3]%nat in
  let b2 := check_shape b1 v [0; 1; 4; 5]%nat in
  let b3 := check_shape b2 k (if key_bhsd then [0; 1; 4; 3] else [0; 4; 1; 3])%nat in
  match b3 with
  | Some bd => match lookup bd 1%nat with Some h => if is_static h then Some h else None | None => None end
  | None => None
  end.

(* ---- sdpa.py SDPA.check, the shape part (the scale part is Sdpa.v).  names: B=0 H=1 S=2 Dh=3 Skv=4 Dv=5.
   mask: None = the match has no mask; Some None = mask of unknown shape; Some (Some ms).
   [repaired] = false: as read at bbeff32 (shapes bound, nothing else); true: fix (fix 9ed3615) -- a mask of rank > 4 or with a
   static dim that is neither 1 nor the (static) score dim it is aligned with is refused, and H must be static. *)
(* [strict] = false: fix 9ed3615 as committed -- only a static mask dim against a STATIC score dim is compared (known finding
   C19:sdpa:static-mask-dim-against-symbolic-score-dim: mask [2,..] against a symbolic batch that is 1 at run time is fused);
   true: the proposed repair ready/C19_08 -- a static mask dim other than 1 must EQUAL the score dim (a symbolic one never does). *)
Fixpoint mask_into_score_rev (strict : bool) (mask_rev score_rev : list Z) : bool :=
  match mask_rev, score_rev with
  | m :: mt, c :: ct => negb (is_static m && (strict || is_static c) && negb (m =? 1)%Z && negb (m =? c)%Z) && mask_into_score_rev strict mt ct
  | _, _ => true
  end.
Definition mask_into_score (strict : bool) (mask score : list Z) : bool :=
  (length mask <=? 4)%nat && mask_into_score_rev strict (rev mask) (rev score).
Definition sdpa_check (repaired strict key_bhsd : bool) (q k v : option (list Z)) (mask : option (option (list Z))) : bool :=
  let b1 := check_shape (Some []) q [0; 1; 2; 3]%nat in
  let b2 := check_shape b1 k (if key_bhsd then [0; 1; 4; 3] else [0; 4; 1; 3])%nat in
  let b3 := check_shape b2 v [0; 1; 4; 5]%nat in
  match b3 with
  | None => false
  | Some bd =>
      negb repaired ||
      match lookup bd 0%nat, lookup bd 1%nat, lookup bd 2%nat, lookup bd 4%nat with
      | Some b, Some h, Some s, Some skv =>
          match mask with Some (Some ms) => mask_into_score strict ms [b; h; s; skv] | _ => true end && is_static h
      | _, _, _, _ => false
      end
  end.
(* left-pad a mask shape with 1s to rank 4 (NumPy alignment) *)
Definition pad4 (ms : list Z) : list Z := repeat 1%Z (4 - length ms) ++ ms.

(* ---- the final Reshape of the MHA pattern (known finding C19:mha:output-reshape-not-checked, NOT repaired).
   ONNX Reshape of an input of shape [ins] with target [tgt] gives [out] when: same length as tgt; entry 0 copies the input dim
   at that index; a positive entry is itself; at most one entry is -1 (its output dim is then whatever makes the element
   counts agree); element counts agree. *)
Fixpoint reshape_entries (ins tgt out : list Z) : Prop :=
  match tgt, out with
  | [], [] => True
  | t :: tq, o :: ot =>
      ((t = 0 /\ hd_error ins = Some o) \/ (0 < t /\ o = t) \/ (t = -1 /\ 0 < o))%Z /\ reshape_entries (tl ins) tq ot
  | _, _ => False
  end.
Fixpoint count_minus1 (tgt : list Z) : nat :=
  match tgt with [] => 0%nat | t :: r => ((if (t =? -1)%Z then 1 else 0) + count_minus1 r)%nat end.
Definition reshape_result (ins tgt out : list Z) : Prop :=
  reshape_entries ins tgt out /\ (count_minus1 tgt <= 1)%nat /\ zprod out = zprod ins.
(* executable decider used by the harness: the target denotes the operator's output shape [B, S, H*Dv] *)
Definition entry_is (t in_i v : Z) : bool := (t =? -1)%Z || ((0 <? t)%Z && (t =? v)%Z) || ((t =? 0)%Z && (in_i =? v)%Z).
Definition tgt_is_BSD (B S H Dv : Z) (tgt : list Z) : bool :=
  match tgt with
  | [t0; t1; t2] => (count_minus1 tgt <=? 1)%nat && entry_is t0 B B && entry_is t1 S S && entry_is t2 H (H * Dv)
  | _ => false
  end.

(* GroupQueryAttention.check.  names: B=0 S=1 D=2 Dkv=3 Hkv=4 P=5 Dh=6 Dv=7.
   mask_has_producer: the SDPA mask is computed by a node (as opposed to a graph input / initializer).
   mask_is_causal_pattern: the mask sub-graph is the causal pattern of _causal_mask.
   [strict_mask] selects what the code DOES (false: `match(...) is None` never rejects a structural mismatch) or what it
   means to do (true).  [head16] = false: as read at bbeff32 (the head size is never looked at); true: the repair of
   C19:gqa:head-size-not-multiple-of-16 (a static head size divisible by 16 is required).
   Result: Some (num_heads, kv_num_heads, rotary_interleaved). *)
Record gqa_in := mk_gqa_in {
  gi_query : option (list Z); gi_key : option (list Z); gi_value : option (list Z);
  gi_past_key : option (option (list Z)); gi_past_value : option (option (list Z));   (* None: absent *)
  gi_query4 : option (list Z); gi_key4 : option (list Z);                              (* Reshape outputs *)
  gi_q_interleaved : Z; gi_k_interleaved : Z;
  gi_q_norm_twice : bool; gi_k_norm_twice : bool;
  gi_mask_has_producer : bool; gi_mask_is_causal_pattern : bool }.
Definition dim_at (s : option (list Z)) (k : nat) : option Z := match s with Some l => nth_error l k | None => None end.
Definition gqa_check_rewrite (strict_mask head16 : bool) (i : gqa_in) : option (Z * Z * Z) :=
  if gi_q_norm_twice i || gi_k_norm_twice i then None else
  let b1 := check_shape (Some []) (gi_query i) [0; 1; 2]%nat in
  let b2 := check_shape b1 (gi_key i) [0; 1; 3]%nat in
  let b3 := check_shape b2 (gi_value i) [0; 1; 3]%nat in
  let b4 := match gi_past_key i with Some pk => check_shape b3 pk [0; 4; 5; 6]%nat | None => b3 end in
  let b5 := match gi_past_value i with Some pv => check_shape b4 pv [0; 4; 5; 7]%nat | None => b4 end in
  match b5, dim_at (gi_query4 i) 2, dim_at (gi_key4 i) 2 with
  | Some _, Some h, Some hkv =>
      if is_static h && is_static hkv && Z.eqb (gi_q_interleaved i) (gi_k_interleaved i)
         && gi_mask_has_producer i && (negb strict_mask || gi_mask_is_causal_pattern i)
         && (negb head16 || match dim_at (gi_query4 i) 3 with Some dh => is_static dh && (dh mod 16 =? 0)%Z | None => false end)
      then Some (h, hkv, gi_q_interleaved i) else None
  | _, _, _ => None
  end.
(* what onnxruntime's GroupQueryAttention (do_rotary = 1) needs beyond the shapes: heads divisible, head size % 16 *)
Definition gqa_kernel_ok (num_heads kv_num_heads head_size : Z) : bool :=
  (0 <? kv_num_heads)%Z && (num_heads mod kv_num_heads =? 0)%Z && (head_size mod 16 =? 0)%Z.

(* AttentionFusion.check (attention.py).  names: B=0 S=1 D=2 Dh=3 Dh_q=4 Dh_k=5 Dh_v=6.
   no_slice: three separate projections; otherwise one packed MatMul sliced at (start_i, end_i) on axis 2.
   Result: qkv_hidden_sizes. *)
Record att_in := mk_att_in {
  ai_no_slice : bool;
  ai_input : option (list Z);
  ai_projected : option (list Z); ai_qkv_weight : option (list Z);
  ai_q : option (list Z); ai_k : option (list Z); ai_v : option (list Z);   (* slices, or the three weights *)
  ai_bounds : list (option Z) }.                                             (* start1 end1 start2 end2 start3 end3 (singleton constants) *)
Definition oz_eq (a b : option Z) : bool :=
  match a, b with Some x, Some y => Z.eqb x y | None, None => true | _, _ => false end.
Definition att_check_rewrite (i : att_in) : option (Z * Z * Z) :=
  let b1 := check_shape (Some []) (ai_input i) [0; 1; 2]%nat in
  let b2 :=
    if ai_no_slice i then
      check_shape (check_shape (check_shape b1 (ai_q i) [2; 4]%nat) (ai_k i) [2; 5]%nat) (ai_v i) [2; 6]%nat
    else
      match ai_projected i, ai_bounds i with
      | Some [_; _; hidden], [s1; e1; s2; e2; s3; e3] =>
          if is_static hidden && oz_eq s1 (Some 0%Z) && oz_eq e1 s2 && oz_eq e2 s3
             && match e3 with Some v => (hidden <=? v)%Z | None => false end
          then check_shape (check_shape (check_shape (check_shape b1 (ai_qkv_weight i) [2; 3]%nat)
                                                       (ai_q i) [0; 1; 4]%nat) (ai_k i) [0; 1; 5]%nat) (ai_v i) [0; 1; 6]%nat
          else None
      | _, _ => None
      end in
  match b2 with
  | None => None
  | Some bd =>
      match lookup bd 4%nat, lookup bd 5%nat, lookup bd 6%nat with
      | Some dq, Some dk, Some dv =>
          if is_static dq && is_static dk && is_static dv
             && (ai_no_slice i || match lookup bd 3%nat with Some dh => is_static dh && (dh =? dq + dk + dv)%Z | None => false end)
          then Some (dq, dk, dv) else None
      | _, _, _ => None
      end
  end.

(* ---- correspondence cases *)
Definition ozb_eqb (a b : option (Z * bool)) : bool :=
  match a, b with Some (x, u), Some (y, w) => Z.eqb x y && Bool.eqb u w | None, None => true | _, _ => false end.
Definition oz3_eqb (a b : option (Z * Z * Z)) : bool :=
  match a, b with
  | Some (x, y, z), Some (x', y', z') => Z.eqb x x' && Z.eqb y y' && Z.eqb z z'
  | None, None => true
  | _, _ => false
  end.
Inductive attn_case :=
  | CMha (strict_mask : bool) (i : mha_in) (observed : option (Z * bool))
  | CSdpaMha (key_bhsd : bool) (q k v : option (list Z)) (observed : option Z)
  | CGqa (head16 : bool) (i : gqa_in) (observed : option (Z * Z * Z))
  | CAtt (i : att_in) (observed : option (Z * Z * Z))
  | CSdpaCheck (repaired strict key_bhsd : bool) (q k v : option (list Z)) (mask : option (option (list Z))) (observed : bool)
  | COutReshape (B S H Dv : Z) (tgt : list Z) (observed_same : bool).
Definition attn_agrees (c : attn_case) : bool :=
  match c with
  | CMha st i obs => ozb_eqb (mha_check_rewrite st i) obs
  | CSdpaMha kb q k v obs => oz_eq (sdpa_via_mha_check kb q k v) obs
  | CGqa h16 i obs => oz3_eqb (gqa_check_rewrite false h16 i) obs
  | CAtt i obs => oz3_eqb (att_check_rewrite i) obs
  | CSdpaCheck r st kb q k v m obs => Bool.eqb (sdpa_check r st kb q k v m) obs
  | COutReshape b s h dv tgt obs => Bool.eqb (tgt_is_BSD b s h dv tgt) obs
  end.
Fixpoint attn_disagreeing (i : nat) (cs : list attn_case) : list nat :=
  match cs with [] => [] | c :: t => (if attn_agrees c then [] else [i]) ++ attn_disagreeing (S i) t end.
