(* C13 (session 6): the TEXT the exporter prints for a node under use_operators, `out = <operand> <sym> <operand>`
   (_Exporter._translate_node, the branch `self.use_operators and node.op_type in ops`), as a token sequence, and the
   expression Python's grammar reads from such a sequence.

     operand(x)     = _translate_onnx_var_ref(x), wrapped in parentheses when the text starts with "-" (repair C13_11;
                      `paren = false` is the exporter before that repair)                          -> operand_toks
     " <sym> ".join = the two operand texts around the operator symbol                             -> op_text
     Python's expression grammar for the tokens that can occur (names, non-negative NUMBER tokens, a bracketed list
     display as ONE atom, parentheses, unary minus, the binary operators of the exporter's table and `%`, `!=`):
       comparison < `|` < `&` < `+ -` < `* / @ %` < unary `-` < `**` (right operand: a unary) < atom   -> parse_raw
     and the convention of the harness' reader of the generated source (harness/c13_cf.py expr_lit): a minus sign in
     front of a NUMBER literal is one negative literal                                             -> norm
   The precedence levels `^`, `<<`, `>>`, `not`, `and`, `or`, conditional expressions and comparison chains are not
   in the token class (a comparison chain is refused).  The parser is tied to Python's own (ast.parse) by the harness on
   every operator line of the generated sources and on generated expressions.  No proofs in this file. *)
From Coq Require Import List String Bool Arith ZArith.
Require Import OV.Graph.Syntax OV.Script.Syntax OV.Script.Translate OV.Gen.ExportTables OV.Export.Emit OV.Export.EmitCF.
Import ListNotations.
Local Open Scope string_scope.

Inductive tok :=
| TName (s : string)
| TInt (z : Z)            (* NUMBER: an integer literal (never negative: the sign is its own token) *)
| TFloat (bits : Z)       (* NUMBER: a float literal, as the float32 bit pattern of its value (sign bit clear) *)
| TList (e : expr)        (* a list display `[...]`: one atom; e = its reading *)
| TSym (s : string).      (* operator or parenthesis *)

(* binary operator symbol -> (level, is a comparison, ast class) *)
Definition binop_info (s : string) : option (nat * bool * string) :=
  lookup_assoc s
    [(">", (0, true, "Gt")); ("==", (0, true, "Eq")); ("<", (0, true, "Lt")); (">=", (0, true, "GtE")); ("<=", (0, true, "LtE"));
     ("!=", (0, true, "NotEq"));
     ("|", (1, false, "BitOr")); ("&", (2, false, "BitAnd")); ("+", (3, false, "Add")); ("-", (3, false, "Sub"));
     ("*", (4, false, "Mult")); ("/", (4, false, "Div")); ("@", (4, false, "MatMult")); ("%", (4, false, "Mod"))].

Definition is_sym (t : tok) (s : string) : bool := match t with TSym u => String.eqb u s | _ => false end.
Definition next_is_cmp (ts : list tok) : bool :=
  match ts with
  | TSym s :: _ => match binop_info s with Some (_, true, _) => true | _ => false end
  | _ => false
  end.

(* levels: 0 comparison, 1 `|`, 2 `&`, 3 `+ -`, 4 `* / @ %`, 5 unary minus, 6 power, 7 atom; the fuel bounds the depth *)
Fixpoint pexp (fuel : nat) (lvl : nat) (ts : list tok) {struct fuel} : option (expr * list tok) :=
  match fuel with
  | O => None
  | S fu =>
    if Nat.leb 7 lvl then
      match ts with
      | TName s :: r => Some (EVar s, r)
      | TInt z :: r => Some (ELit (LInt z), r)
      | TFloat b :: r => Some (ELit (LFloat b), r)
      | TList e :: r => Some (e, r)
      | TSym s :: r =>
        if String.eqb s "(" then
          match pexp fu 0 r with
          | Some (e, c :: r') => if is_sym c ")" then Some (e, r') else None
          | _ => None
          end
        else None
      | [] => None
      end
    else if Nat.eqb lvl 6 then
      match pexp fu 7 ts with
      | Some (a, r) =>
        match r with
        | c :: r1 => if is_sym c "**"
                     then match pexp fu 5 r1 with Some (b, r') => Some (EBin "Pow" a b, r') | None => None end
                     else Some (a, r)
        | [] => Some (a, r)
        end
      | None => None
      end
    else if Nat.eqb lvl 5 then
      match ts with
      | c :: r => if is_sym c "-"
                  then match pexp fu 5 r with Some (e, r') => Some (EUn "USub" e, r') | None => None end
                  else pexp fu 6 ts
      | [] => None
      end
    else
      match pexp fu (S lvl) ts with
      | Some (lhs0, rest0) =>
        (fix loop (n : nat) (lhs : expr) (rest : list tok) {struct n} : option (expr * list tok) :=
           match n with
           | O => None
           | S n' =>
             match rest with
             | TSym s :: r =>
               match binop_info s with
               | Some (l, cmp, cls) =>
                 if Nat.eqb l lvl then
                   match pexp fu (S lvl) r with
                   | Some (rhs, r') =>
                     if cmp then (if next_is_cmp r' then None else Some (ECmp cls lhs rhs, r'))
                     else loop n' (EBin cls lhs rhs) r'
                   | None => None
                   end
                 else Some (lhs, rest)
               | None => Some (lhs, rest)
               end
             | _ => Some (lhs, rest)
             end
           end) (S (List.length rest0)) lhs0 rest0
      | None => None
      end
  end.

Definition parse_raw (ts : list tok) : option expr :=
  match pexp (8 * List.length ts + 8) 0 ts with
  | Some (e, []) => Some e
  | _ => None
  end.

(* a minus sign applied to a NUMBER literal is one (negative) literal; -0.0 is the float with only the sign bit *)
Fixpoint norm (e : expr) : expr :=
  match e with
  | EUn op a =>
    if String.eqb op "USub" then
      match a with
      | ELit (LInt z) => ELit (LInt (- z))
      | ELit (LFloat b) => ELit (LFloat (b + 2147483648))
      | _ => EUn op (norm a)
      end
    else EUn op (norm a)
  | EBin op a b => EBin op (norm a) (norm b)
  | ECmp op a b => ECmp op (norm a) (norm b)
  | _ => e
  end.

Definition parse_text (ts : list tok) : option expr := option_map norm (parse_raw ts).

(* ---- what the exporter prints -------------------------------------------------------------------------------- *)
Definition wrap (paren : bool) (ts : list tok) : list tok := if paren then (TSym "(" :: ts ++ [TSym ")"])%list else ts.

(* the text of a reference (a variable, or the literal of an inlined constant: Export/EmitCF.v ref_e / ilit_expr) as an operand *)
Definition operand_toks (paren : bool) (e : expr) : option (list tok) :=
  match e with
  | EVar s => Some [TName s]
  | ELit (LInt z) => if Z.ltb z 0 then Some (wrap paren [TSym "-"; TInt (- z)]) else Some [TInt z]
  | ELit (LFloat b) => if Z.leb 2147483648 b then Some (wrap paren [TSym "-"; TFloat (b - 2147483648)]) else Some [TFloat b]
  | ELit (LInts _) => Some [TList e]
  | ECall (CFun n) _ _ => if String.eqb n "[]" then Some [TList e] else None
  | EUn op (EVar s) => if String.eqb op "USub" then Some (wrap paren [TSym "-"; TName s]) else None      (* -inf *)
  | _ => None
  end.

Definition op_text (paren : bool) (sym : string) (a b : expr) : option (list tok) :=
  match operand_toks paren a, operand_toks paren b with
  | Some ta, Some tb => Some (ta ++ TSym sym :: tb)%list
  | _, _ => None
  end.

(* the expression Export/EmitCF.v emit_operator gives for the line (use_ops = Some paren) *)
Definition operator_expr (paren : bool) (sym : string) (a b : expr) : option expr :=
  match pyop sym with
  | Some (cmp, cls) =>
    Some (match (if String.eqb sym "**" && negb paren then neg_operand a else None) with
          | Some pa => EUn "USub" (EBin cls pa b)
          | None => (if cmp then ECmp else EBin) cls a b
          end)
  | None => None
  end.

(* ---- correspondence with Python's parser (harness) ---------------------------------------------------------- *)
Definition parse_agrees (c : list tok * option expr) : bool :=
  match parse_text (fst c), snd c with
  | Some e, Some o => expr_eqb' e o
  | None, None => true
  | _, _ => false
  end.
Fixpoint disagreeing_parse (i : nat) (cs : list (list tok * option expr)) : list nat :=
  match cs with
  | [] => []
  | c :: t => ((if parse_agrees c then [] else [i]) ++ disagreeing_parse (S i) t)%list
  end.
