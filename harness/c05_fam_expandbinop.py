"""C05 family: expand_before_binary_op_rules (_remove_expand_before_binary_op.py, 38 rule objects: 19 operators x 2 operand positions).

The theorems for these rules live in Props/C09.v (C09_expand_binop_*: the three strategies of the check are sufficient for
Op(Expand(x, s), y) = Op(x, y), shape and values); this family is the C05-side DIRECT ORACLE and host generator, so that the
inventory's fired-count floor covers the rules inside ./check C05 too: hosts with the Expand shape a constant or NOT a constant
(Shape(z): only the annotation of the Expand output is available to the rule), operands of equal and different ranks, the Expand on
either side, several operators; the rule set is applied with RewriteRuleSet.apply_to_model and host / rewritten are compared on
onnxruntime (shape and values) and with the ONNX checker.  One-directional, as the property is: what fired must preserve the result.
"""
from __future__ import annotations

import numpy as np

from harness import c05 as base
from harness import c05_b_util as U

FAM = "expand-binop"
OPS = [("Add", "float32", "float32"), ("Sub", "float32", "float32"), ("Mul", "float32", "float32"), ("Div", "float32", "float32"),
       ("Greater", "float32", "bool"), ("Equal", "int64", "bool"), ("And", "bool", "bool"), ("Pow", "float32", "float32")]


def _instance(rng, i):
    tr = rng.choice([1, 2, 2, 3])
    t = [rng.choice([1, 2, 3]) for _ in range(tr)]
    xr = rng.randrange(0, tr + 1)
    x = [rng.choice([1, d]) for d in t[tr - xr:]]
    yr = rng.choice([0, 1, 2, 3])
    y = []
    for k in range(yr):
        j = tr - yr + k
        y.append(rng.choice([1, t[j]]) if j >= 0 else rng.choice([1, 2]))
    return dict(t=t, x=x, y=y, const=rng.random() < 0.4, first=rng.random() < 0.5, op=OPS[i % len(OPS)], annotate=rng.random() < 0.85)


CORPUS = [dict(t=[3], x=[1], y=[3, 1], const=False, first=True, op=OPS[0], annotate=True),      # seed C05-7: y's rank differs from x's
          dict(t=[3], x=[1], y=[3, 1], const=False, first=False, op=OPS[2], annotate=True),
          dict(t=[2, 3], x=[3], y=[2, 1], const=False, first=True, op=OPS[0], annotate=True),
          dict(t=[2, 3], x=[1], y=[2, 2, 3], const=False, first=True, op=OPS[1], annotate=True),
          dict(t=[2, 3], x=[1, 3], y=[2, 3], const=True, first=True, op=OPS[0], annotate=True),
          dict(t=[1, 3], x=[3], y=[3], const=True, first=True, op=OPS[0], annotate=True)]


def _host(inst):
    import onnx
    op, dt, odt = inst["op"]
    nodes, inits = [], []
    inputs = [("x", dt, inst["x"]), ("y", dt, inst["y"])]
    if inst["const"]:
        inits.append(U.init("s", np.array(inst["t"], np.int64)))
    else:
        inputs.append(("z", "float32", inst["t"]))
        nodes.append(U.node("Shape", ["z"], ["s"]))
    nodes.append(U.node("Expand", ["x", "s"], ["e"]))
    nodes.append(U.node(op, ["e", "y"] if inst["first"] else ["y", "e"], ["out"]))
    m = U.model(nodes, inputs, [("out", odt, None)], inits=inits, infer=False)
    if inst["annotate"]:
        m = onnx.shape_inference.infer_shapes(m, data_prop=True)
    return m


def _feeds(inst, k):
    rs = np.random.default_rng(k + 11)
    op, dt, _ = inst["op"]

    def arr(shape):
        if dt == "bool":
            return np.asarray(rs.integers(0, 2, shape), dtype=bool)
        if dt == "int64":
            return np.asarray(rs.integers(0, 3, shape), dtype=np.int64)
        return np.asarray(rs.integers(1, 5, shape) / 2.0, dtype=np.float32)
    return {"x": arr(inst["x"]), "y": arr(inst["y"]), "z": np.zeros(inst["t"], np.float32)}


def family(ctx):
    from onnxscript.rewriter.rules.common import expand_before_binary_op_rules as rules
    rng = ctx.rng
    n = 90 if ctx.tier == "quick" else 900
    fired = declined = invalid = 0
    for i in range(n + len(CORPUS)):
        inst = CORPUS[i] if i < len(CORPUS) else _instance(rng, i)
        try:
            host = _host(inst)
        except Exception:  # noqa: BLE001  (shape inference rejects an incompatible broadcast: not a host)
            invalid += 1
            continue
        f0 = _feeds(inst, 0)
        want, e0 = U._Sess("ort", host).run(f0)
        if want is None or not U.host_ok(host):
            invalid += 1
            continue
        new, exc, cnt = U.apply_ruleset(host, rules)
        key_cls = (inst["op"][0], len(inst["t"]), len(inst["x"]), len(inst["y"]), inst["const"], inst["first"], inst["annotate"])
        ctx.case((FAM,) + key_cls + (bool(cnt),))
        replay = {"family": FAM, "instance": {k: (list(v) if isinstance(v, (list, tuple)) else v) for k, v in inst.items()}}
        if exc is not None:
            ctx.violation(f"C05:{FAM}:raises:{type(exc).__name__}", f"rule set raised {exc!r}", replay)
            continue
        if not cnt:
            declined += 1
            continue
        fired += 1
        reasons, _ = U.oracle(host, new, [f0, _feeds(inst, 1)], exact=True, use_ref=False)
        if reasons:
            U.report(ctx, FAM, "differs", f"{inst['op'][0]}({'Expand(x, s), y' if inst['first'] else 'y, Expand(x, s)'}) with x{inst['x']}, "
                     f"s = {'constant ' if inst['const'] else 'Shape(z) = '}{inst['t']}, y{inst['y']}: the Expand was removed", replay, reasons)
    ctx.cover(expand_binop_hosts=n + len(CORPUS), expand_binop_fired=fired, expand_binop_declined=declined, expand_binop_not_a_host=invalid)
    ctx.obligation("expand-binop: the generator produces firing hosts with a constant and with a non-constant Expand shape", fired >= 8, f"fired {fired}")
    if fired < 8:
        ctx.tie_broken("harness", FAM, f"only {fired} hosts fired")
