"""C16 translator front end: the live torch_lib registry and the ATen schemas of the installed PyTorch.

Everything is read from the *current* tree (OSVERIF_REPO on PYTHONPATH) and the installed torch on
every run; nothing is cached.  Fail-closed: a schema type, a parameter kind or a signature element
that is not recognised raises Untranslatable (the harness turns it into a broken translator tie).
"""
from __future__ import annotations

import inspect
import math
import operator


class Untranslatable(Exception):
    pass


# base kinds of ATen schema argument types (JIT type kind -> model constructor)
_BASE = {
    "TensorType": "BTensor",
    "NumberType": "BScalar",
    "IntType": "BInt",
    "SymIntType": "BSymInt",
    "BoolType": "BBool",
    "FloatType": "BFloat",
    "SymFloatType": "BFloat",
    "StringType": "BStr",
    "ScalarTypeType": "BScalarType",
    "LayoutType": "BLayout",
    "DeviceObjType": "BDevice",
    "MemoryFormatType": "BMemoryFormat",
    "GeneratorType": "BGenerator",
}

ATTR_TYPES = {"INT": "AInt", "FLOAT": "AFloat", "STRING": "AString", "INTS": "AInts", "FLOATS": "AFloats",
              "STRINGS": "AStrings", "TENSOR": "ATensor", "TENSORS": "ATensors", "GRAPH": "AGraph", "GRAPHS": "AGraphs"}

# namespaces whose operators are not ATen-schema operators of the installed PyTorch:
#   _operator / math : Python builtins (the exporter resolves them with getattr(operator|math, name))
PY_NAMESPACES = {"_operator": operator, "math": math}
# namespaces provided by optional extension packages that are not part of PyTorch itself
EXTENSION_NAMESPACES = {"torchvision": "torchvision"}


def describe_type(t):
    """JIT type -> (base, is_list, is_optional).  Optional[List[X]] and List[Optional[Tensor]] are flattened."""
    kind = t.kind()
    opt = False
    lst = False
    if kind == "OptionalType":
        opt = True
        t = t.getElementType()
        kind = t.kind()
    if kind == "ListType":
        lst = True
        t = t.getElementType()
        kind = t.kind()
        if kind == "OptionalType":  # Tensor?[]
            t = t.getElementType()
            kind = t.kind()
            if kind != "TensorType":
                raise Untranslatable(f"list of optional non-tensor: {t}")
    if kind not in _BASE:
        raise Untranslatable(f"unrecognised ATen argument type kind {kind} ({t})")
    return _BASE[kind], lst, opt


def schema_args(schema):
    out = []
    for a in schema.arguments:
        base, lst, opt = describe_type(a.real_type)
        out.append({"name": a.name, "base": base, "list": lst, "opt": opt, "kwonly": bool(a.kwarg_only),
                    "default": bool(a.has_default_value()), "type": str(a.real_type)})
    return out


def load_optional_op_libraries():
    """Operator libraries that PyTorch defines in Python modules which must be imported to register them."""
    import importlib
    for mod in ("torch.ao.quantization.fx._decomposed",):
        try:
            importlib.import_module(mod)
        except Exception:  # the ops then show up as undefined
            pass


def resolve_overload(qualified_name):
    """Follow torch/onnx/_internal/exporter/_registration.py:_get_overload, but say *why* nothing was found.

    -> (status, target) with status in
       'aten'      : target is a torch._ops.OpOverload with a schema
       'python'    : target is a Python builtin (namespace _operator / math); no schema
       'extension' : namespace of an extension package that is not installed; nothing to compare with
       'undefined' : the installed PyTorch does not define this operator / overload
    """
    import importlib
    import importlib.util

    import torch
    namespace, opname_overload = qualified_name.split("::")
    op_name, *maybe_overload = opname_overload.split(".", 1)
    if namespace in PY_NAMESPACES:
        tgt = getattr(PY_NAMESPACES[namespace], op_name, None)
        return ("python", tgt) if tgt is not None else ("undefined", f"no {namespace}.{op_name} builtin")
    if namespace in EXTENSION_NAMESPACES:
        if importlib.util.find_spec(EXTENSION_NAMESPACES[namespace]) is None:
            return "extension", None
        try:  # importing the package registers its operators
            importlib.import_module(EXTENSION_NAMESPACES[namespace])
        except Exception:
            return "extension", None
    try:
        packet = getattr(getattr(torch.ops, namespace), op_name)
    except AttributeError:
        return "undefined", f"torch.ops.{namespace} has no operator '{op_name}'"
    names = list(packet._overload_names)
    if maybe_overload:
        overload = maybe_overload[0]
    elif "default" in names or "" in names:
        overload = "default"
    else:
        return "undefined", f"torch.ops.{namespace}.{op_name} has no default overload (overloads: {names})"
    try:
        return "aten", getattr(packet, overload)
    except AttributeError:
        return "undefined", f"torch.ops.{namespace}.{op_name} has no overload '{overload}' (overloads: {names})"


def python_function(fn):
    """The plain Python function behind an OnnxFunction / TracedOnnxFunction."""
    if hasattr(fn, "function"):
        return fn.function
    return fn.func


def fn_params(fn):
    """Parameter list as the exporter sees it: the function's op_signature (onnxscript/ir/_schemas.py)."""
    import onnx_ir as ir
    sig = fn.op_signature
    if sig is None:
        raise Untranslatable(f"{fn!r} has no op_signature")
    pysig = inspect.signature(python_function(fn))
    kinds = [p.kind for p in pysig.parameters.values()]
    if any(k is not inspect.Parameter.POSITIONAL_OR_KEYWORD for k in kinds):
        raise Untranslatable(f"{fn.name}: parameter kinds {[k.name for k in kinds]} (only positional-or-keyword is modelled)")
    if [p.name for p in sig.params] != list(pysig.parameters):
        raise Untranslatable(f"{fn.name}: op_signature parameters {[p.name for p in sig.params]} differ from the Python signature {list(pysig.parameters)}")
    traced = not hasattr(fn, "function")
    out = []
    for p, pyp in zip(sig.params, pysig.parameters.values()):
        py_required = pyp.default is inspect.Parameter.empty
        if isinstance(p, ir.schemas.Parameter):
            if p.variadic:
                raise Untranslatable(f"{fn.name}.{p.name}: variadic input (not modelled)")
            out.append({"name": p.name, "kind": "PInput", "required": bool(p.required)})
        elif isinstance(p, ir.schemas.AttributeParameter):
            t = p.type.name
            if t not in ATTR_TYPES:
                raise Untranslatable(f"{fn.name}.{p.name}: attribute type {t}")
            # _construct_named_inputs_and_attrs raises only when there is no default *and* the flag is set
            out.append({"name": p.name, "kind": ATTR_TYPES[t], "required": bool(p.required) and p.default is None})
        else:
            raise Untranslatable(f"{fn.name}.{p.name}: unknown parameter class {type(p).__name__}")
        if traced:
            # a trace-only function is called as a Python function: its own defaults decide
            # (op_signature's flag is compared with the exporter's own derivation in the harness)
            out[-1]["required"] = py_required
    return out


def registry_entries():
    """-> (entries, raw_registrations).

    entries: one dict per (qualified name, function, complex flag) returned by get_torchlib_ops().
    raw_registrations: {(name, complex): number of functions stored} from the registry itself.
    """
    load_optional_op_libraries()
    from onnxscript import values
    from onnxscript._framework_apis import torch_2_5
    from onnxscript.function_libs.torch_lib import registration

    metas = torch_2_5.get_torchlib_ops()
    entries = []
    for m in metas:
        fn = m.function
        if isinstance(fn, values.OnnxFunction):
            traced = False
        elif isinstance(fn, values.TracedOnnxFunction):
            traced = True
        else:
            raise Untranslatable(f"{m.qualified_name}: registered object of type {type(fn).__name__}")
        status, target = resolve_overload(m.qualified_name)
        e = {"qname": m.qualified_name, "complex": bool(m.is_complex), "traced": traced, "fname": fn.name,
             "status": status, "fn": fn, "target": target, "params": fn_params(fn)}
        if status == "aten":
            e["schema"] = schema_args(target._schema)
            e["schema_str"] = str(target._schema)
        entries.append(e)
    counts = {}
    for name, ov in registration.default_registry.items():
        counts[(name, False)] = len(ov.overloads)
        counts[(name, True)] = len(ov.complex)
    return entries, counts
