(* C10 -- proofs about the pass over the repaired native converter and about when
   _framework_apis.torch_2_9.convert_version raises. *)
From Coq Require Import ZArith List Bool String Lia.
Import ListNotations.
Require Import OV.Version.Model OV.Version.Model2 OV.Version.CApi OV.Version.Fallback OV.Version.Pass2
               OV.Version.ConvertProofs OV.Version.Model2Proofs.
Local Open Scope Z_scope.

(* ---------------------------------------------------------------- pass_convert2 *)
Section Pass2Theorems.
  Variable adapt : adapter.
  Variables smin smax : Z.
  Variable fuel : nat.
  Variables inline cleanup : model -> model.
  Variable capi : model -> Z -> option model.

  (* the unrepaired pass is the instance own = refuse = false, minchk = MinOff *)
  Theorem pass_convert2_off : forall fb M t,
    pass_convert2 false false MinOff adapt smin smax fuel inline cleanup capi fb M t
    = pass_convert adapt smin smax fuel inline cleanup capi fb M t.
  Proof. intros fb M t. unfold pass_convert2, pass_convert. now rewrite native2_off. Qed.

  Hypothesis adapt_flat : forall op k n news,
    adapt op k n = AReplace news -> Forall (fun m => n_subs m = []) news.
  Hypothesis inline_keeps : forall s M, consistent_at s M = true -> consistent_at s (inline M) = true.
  Hypothesis cleanup_keeps : forall s M, consistent_at s M = true -> consistent_at s (cleanup M) = true.
  Hypothesis inline_no_funcs : forall M, m_funcs (inline M) = [].
  Hypothesis capi_consistent : forall M t M2, capi M t = Some M2 ->
    consistent_at t (Model (m_decl M2) (m_ai M2) (m_graph M2) []) = true.

  Lemma consistent_locally : forall s M, consistent_at s M = true -> m_funcs M = [] -> locally_consistent s M = true.
  Proof.
    intros s M Hc Hf. apply consistent_at_inv in Hc as (H1 & H2 & H3 & _).
    unfold locally_consistent. now rewrite H1, H2, H3, Hf.
  Qed.

  (* C10_pass_consistent re-stated over the repaired converter, EVERY variant (own, refuse, minchk) *)
  Theorem pass_consistent2 : forall own refuse minchk fb s t M M',
    consistent_at s M = true ->
    pass_convert2 own refuse minchk adapt smin smax fuel inline cleanup capi fb M t = MDone M' [] ->
    consistent_at t M' = true \/
    (fb = true /\ supported smin smax (inline M) t = false /\ capi (inline M) t = None /\
     M' = cleanup (inline M) /\ consistent_at s M' = true).
  Proof.
    intros own refuse minchk fb s t M M' Hc H. unfold pass_convert2 in H.
    pose proof (inline_keeps s M Hc) as Hi.
    destruct (match m_decl (inline M) with Some c => c =? t | None => false end) eqn:Enoop.
    - inversion H; subst. left. apply cleanup_keeps.
      assert (s = t).
      { pose proof (consistent_at_inv _ _ Hi) as (Hd & _). apply oz_is_eq in Hd. rewrite Hd in Enoop.
        apply Z.eqb_eq in Enoop. exact Enoop. }
      subst. exact Hi.
    - destruct (negb fb || supported smin smax (inline M) t) eqn:Eb.
      + assert (En2 : convert_native2 own refuse minchk adapt smin smax fuel (inline M) t
                      = convert_native2 true refuse minchk adapt smin smax fuel (inline M) t).
        { destruct own; [reflexivity|]. symmetry. eapply native2_own_agree; eauto. }
        rewrite En2 in H.
        destruct (convert_native2 true refuse minchk adapt smin smax fuel (inline M) t) as [M2 l|e M2 l] eqn:En; [|discriminate].
        inversion H; subst. left. apply cleanup_keeps.
        eapply (native2_own_consistent adapt smin smax fuel adapt_flat refuse minchk s t); [|exact En].
        apply consistent_locally; [exact Hi|apply inline_no_funcs].
      + apply orb_false_iff in Eb as [Efb Esup]. apply negb_false_iff in Efb.
        destruct (capi (inline M) t) as [M2|] eqn:Ecapi.
        * inversion H; subst. left. apply cleanup_keeps. rewrite inline_no_funcs.
          eapply capi_consistent; eauto.
        * inversion H; subst. right. repeat split; auto.
  Qed.

  (* the old statement (over Model.pass_convert) is the corollary for the variant without repairs *)
  Corollary pass_consistent_from2 : forall fb s t M M',
    consistent_at s M = true ->
    pass_convert adapt smin smax fuel inline cleanup capi fb M t = MDone M' [] ->
    consistent_at t M' = true \/
    (fb = true /\ supported smin smax (inline M) t = false /\ capi (inline M) t = None /\
     M' = cleanup (inline M) /\ consistent_at s M' = true).
  Proof. intros fb s t M M' Hc H. rewrite <- pass_convert2_off in H. eapply pass_consistent2; eauto. Qed.

End Pass2Theorems.

(* ---------------------------------------------------------------- why the native converter raises *)
Section Causes.
  Variables own refuse : bool.
  Variable minchk : minvar.
  Variable adapt : adapter.
  Variables smin smax : Z.
  Variable fuel : nat.

  Let nat2 := convert_native2 own refuse minchk adapt smin smax fuel.
  Let cause_of := native2_cause own refuse minchk adapt smin smax fuel.

  (* it raises exactly when a cause is computed; a cause found before the visit leaves the model EXACTLY as it was *)
  Theorem native2_raises_iff : forall M t,
    (exists e M' l, nat2 M t = MRaised e M' l) <-> cause_of M t <> None.
  Proof.
    intros M t. unfold nat2, cause_of, convert_native2, native2_cause, precheck.
    destruct ((t >? smax) || (t <? smin)); [split; [discriminate|eauto]|].
    destruct (default_version M) as [dv|]; [|split; [discriminate|eauto]].
    destruct (versions_of own dv (m_funcs M)) as [fvs|]; [|split; [discriminate|eauto]].
    destruct (_ || _); [split; [discriminate|eauto]|].
    destruct (conv adapt t dv fuel (m_graph M)) as [g l|e g l]; [|split; [discriminate|eauto]].
    destruct (conv_funcs2 adapt fuel t fvs) as [[fs [e|]] l']; [split; [discriminate|eauto]|].
    split; [intros (e & M' & l0 & H); discriminate|intro H; contradiction].
  Qed.

  Theorem native2_cause_before_visit_unchanged : forall M t c,
    cause_of M t = Some c -> before_visit c = true ->
    exists e, nat2 M t = MRaised e M [] /\
      match c with KRange => e = EValueRange | KConflict => e = EOpsetConflict | KRefused => e = ERefused | KVisit _ => False end.
  Proof.
    intros M t c. unfold nat2, cause_of, convert_native2, native2_cause, precheck.
    destruct ((t >? smax) || (t <? smin)); [intros H _; inversion H; subst; eauto|].
    destruct (default_version M) as [dv|]; [|intros H _; inversion H; subst; eauto].
    destruct (versions_of own dv (m_funcs M)) as [fvs|]; [|intros H _; inversion H; subst; eauto].
    destruct (_ || _); [intros H _; inversion H; subst; eauto|].
    destruct (conv adapt t dv fuel (m_graph M)) as [g l|e g l]; [|intros H Hb; inversion H; subst; discriminate].
    destruct (conv_funcs2 adapt fuel t fvs) as [[fs [e|]] l']; intros H Hb; inversion H; subst; discriminate.
  Qed.
End Causes.

(* ---------------------------------------------------------------- graphs on which the visit cannot raise *)
Section Calm.
  Variable adapt : adapter.
  Variable t : Z.
  Variable dv : option Z.
  Variable C : node -> Prop.

  Hypothesis C_ver : forall n, C n -> n_dflt n = true ->
    n_ref n = false /\ exists v, (match n_ver n with Some x => Some x | None => dv end) = Some v /\ v <= t.
  Hypothesis C_subs : forall n, C n -> n_dflt n = true -> Forall C (n_subs n).
  Hypothesis C_other : forall n k, C n -> n_dflt n = true -> adapt (n_op n) k n <> ARaiseOther.
  Hypothesis C_repl : forall n k news, C n -> n_dflt n = true -> k < t -> adapt (n_op n) k n = AReplace news ->
    Forall C (map (fun m => set_ver m (k + 1)) news) /\
    (forall k', k < k' -> adapt (n_op n) k' n = ANone \/ adapt (n_op n) k' n = ARaiseVCE).
  Hypothesis C_step : forall n sb k, C n -> n_dflt n = true -> Forall C sb -> k + 1 <= t -> C (set_ver (set_subs n sb) (k + 1)).

  Lemma ghost_calm : forall cnt n k log,
    (forall k', k <= k' -> adapt (n_op n) k' n = ANone \/ adapt (n_op n) k' n = ARaiseVCE) ->
    fst (ghost adapt n k cnt log) = None.
  Proof.
    induction cnt as [|c IH]; intros n k log H; cbn; [reflexivity|].
    destruct (H k ltac:(lia)) as [E|E]; rewrite E; apply IH; intros k' Hk; apply H; lia.
  Qed.

  Definition gok (r : gres) : Prop :=
    match r with GFin out _ => Forall C out | GAbort e _ _ => e = EOutOfFuel end.
  Lemma gok_cons : forall n l r, C n -> gok r -> gok (g_cons n l r).
  Proof. intros n l [out l0|e out l0] Hn Hr; cbn in *; auto. Qed.
  Lemma gok_log : forall l r, gok r -> gok (g_log l r).
  Proof. intros l [out l0|e out l0] Hr; cbn in *; auto. Qed.

  Definition PC (f : nat) : Prop := forall todo, Forall C todo -> gok (conv adapt t dv f todo).
  Definition QC (f : nat) : Prop := forall n k cnt log,
    C n -> n_dflt n = true -> k + Z.of_nat cnt <= t ->
    match steps adapt t dv f n k cnt log with
    | SKept n' _ => C n'
    | SRepl news _ => Forall C news
    | SAbortKept e _ _ | SAbortRepl e _ _ => e = EOutOfFuel
    end.

  Lemma calm_main : forall f, PC f /\ QC f.
  Proof.
    induction f as [|f [IHP IHQ]].
    { split; [intros todo _; reflexivity|intros n k cnt log _ _ _; reflexivity]. }
    assert (HQ : QC (S f)).
    { intros n k cnt log Hn Hd Hk. rewrite steps_S. destruct cnt as [|c]; [exact Hn|].
      destruct (adapt (n_op n) k n) as [| | |news] eqn:Ea.
      - pose proof (IHP _ (C_subs n Hn Hd)) as Hs.
        destruct (conv adapt t dv f (n_subs n)) as [sb l|e sb l]; cbn in Hs.
        + assert (Hn' : C (set_ver (set_subs n sb) (k + 1))) by (apply C_step; auto; lia).
          apply IHQ; [exact Hn'| now rewrite set_ver_dflt, set_subs_dflt | lia].
        + subst e. reflexivity.
      - apply IHQ; [exact Hn|exact Hd|lia].
      - exfalso. exact (C_other n k Hn Hd Ea).
      - destruct (C_repl n k news Hn Hd ltac:(lia) Ea) as [Hnews Hg].
        pose proof (ghost_calm c n (k + 1) log ltac:(intros k' Hk'; apply Hg; lia)) as G.
        destruct (ghost adapt n (k + 1) c log) as [[e|] l]; cbn in G; [discriminate|]. exact Hnews. }
    split; [|exact HQ].
    intros todo Ht. rewrite conv_S. destruct todo as [|n rest]; [constructor|].
    inversion Ht as [|? ? Hn Hrest]; subst.
    destruct (negb (n_dflt n)) eqn:Ed.
    - apply gok_cons; [exact Hn|apply IHP; exact Hrest].
    - apply negb_false_iff in Ed. destruct (C_ver n Hn Ed) as (Hr & v & Ev & Hv). rewrite Ev, Hr.
      destruct (t <? v) eqn:Lt; [apply Z.ltb_lt in Lt; lia|].
      pose proof (IHQ n v (Z.to_nat (t - v)) [] Hn Ed ltac:(lia)) as Hs.
      destruct (steps adapt t dv f n v (Z.to_nat (t - v)) []) as [n' l|news l|e n' l|e news l].
      + apply gok_cons; [exact Hs|apply IHP; exact Hrest].
      + apply gok_log. apply IHP. apply Forall_app. split; assumption.
      + exact Hs.
      + exact Hs.
  Qed.

  Theorem conv_calm : forall f todo, Forall C todo ->
    match conv adapt t dv f todo with GFin _ _ => True | GAbort e _ _ => e = EOutOfFuel end.
  Proof.
    intros f todo H. pose proof (proj1 (calm_main f) todo H) as G.
    destruct (conv adapt t dv f todo); cbn in G; auto.
  Qed.
End Calm.

(* instance: operators without an adapter (at any version), no reference attribute, version known and <= t *)
Section CalmQuiet.
  Variable adapt : adapter.
  Variable q : string -> bool.
  Hypothesis q_quiet : forall op, q op = true -> forall k n, adapt op k n = ANone.
  Variable t : Z.
  Variable dv : option Z.

  Lemma calmb_unfold : forall n, calmb q t dv n =
    negb (n_dflt n) ||
    (negb (n_ref n) && q (n_op n)
     && match (match n_ver n with Some x => Some x | None => dv end) with Some x => x <=? t | None => false end
     && forallb (calmb q t dv) (n_subs n)).
  Proof. intros []; reflexivity. Qed.

  Definition CQ (n : node) : Prop := calmb q t dv n = true.

  Lemma CQ_list : forall l, forallb (calmb q t dv) l = true <-> Forall CQ l.
  Proof.
    induction l as [|m ms IH]; [split; [constructor|reflexivity]|]. cbn [forallb]. rewrite andb_true_iff, IH. split.
    - intros [A B]. constructor; assumption.
    - intros H. inversion H; subst. split; assumption.
  Qed.

  Lemma CQ_parts : forall n, CQ n -> n_dflt n = true ->
    n_ref n = false /\ q (n_op n) = true /\
    (exists v, (match n_ver n with Some x => Some x | None => dv end) = Some v /\ v <= t) /\
    forallb (calmb q t dv) (n_subs n) = true.
  Proof.
    intros n Hc Hd. unfold CQ in Hc. rewrite calmb_unfold, Hd in Hc. cbn in Hc.
    apply andb_true_iff in Hc as [Hc Hs]. apply andb_true_iff in Hc as [Hc Hv]. apply andb_true_iff in Hc as [Hr Hq].
    apply negb_true_iff in Hr.
    destruct (match n_ver n with Some x => Some x | None => dv end) as [v|]; [|discriminate].
    apply Z.leb_le in Hv. repeat split; auto. exists v. auto.
  Qed.

  Theorem conv_calm_quiet : forall f todo,
    forallb (calmb q t dv) todo = true ->
    match conv adapt t dv f todo with GFin _ _ => True | GAbort e _ _ => e = EOutOfFuel end.
  Proof.
    intros f todo H1. apply (conv_calm adapt t dv CQ); [| | | | |apply CQ_list; assumption].
    - intros n Hn Hd. destruct (CQ_parts n Hn Hd) as (Hr & _ & Hv & _). split; [exact Hr|exact Hv].
    - intros n Hn Hd. destruct (CQ_parts n Hn Hd) as (_ & _ & _ & Hs). apply CQ_list; assumption.
    - intros n k Hn Hd. destruct (CQ_parts n Hn Hd) as (_ & Hq & _). rewrite (q_quiet _ Hq k n). discriminate.
    - intros n k news Hn Hd Hk Ea. destruct (CQ_parts n Hn Hd) as (_ & Hq & _). rewrite (q_quiet _ Hq k n) in Ea. discriminate.
    - intros n sb k Hn Hd Hsb Hk. destruct (CQ_parts n Hn Hd) as (Hr & Hq & _ & _).
      apply CQ_list in Hsb. unfold CQ.
      rewrite calmb_unfold, set_ver_dflt, set_subs_dflt, Hd, set_ver_ref, set_subs_ref, Hr, set_ver_ver, set_ver_subs, set_subs_subs.
      assert (Eo : n_op (set_ver (set_subs n sb) (k + 1)) = n_op n) by (destruct n; reflexivity).
      rewrite Eo, Hq, Hsb. cbn. apply Z.leb_le in Hk. now rewrite Hk.
  Qed.
End CalmQuiet.

(* ---------------------------------------------------------------- when torch_2_9.convert_version raises *)
Section TorchTheorems.
  Variables own refuse : bool.
  Variable minchk : minvar.
  Variable adapt : adapter.
  Variables smin smax : Z.
  Variable fuel : nat.
  Variable limit : Z.
  Variable capi : state -> Z -> option state.
  Variable inline_r : state -> option state.
  Variable cleanup : state -> state.

  Let torch := torch_2_9_convert_r own refuse minchk adapt smin smax fuel limit capi inline_r cleanup.
  Let cause_of := native2_cause own refuse minchk adapt smin smax fuel.

  (* EXACTLY when it raises: the inline pass refuses, or the request is one the native converter is given (not already at
     the target, smin <= declared <= t <= smax or no default-domain import) and the native converter has a cause to raise.
     In particular: never on a request that goes to the C API. *)
  Theorem torch_2_9_raises_iff : forall S0 t,
    t_raises (torch S0 t) = true <->
    inline_r S0 = None \/
    exists S1, inline_r S0 = Some S1 /\ oz_is (m_decl (st_model S1)) t = false /\
               supported smin smax (st_model S1) t = true /\ cause_of (st_model S1) t <> None.
  Proof.
    intros S0 t. unfold torch, torch_2_9_convert_r.
    destruct (inline_r S0) as [S1|]; [|split; [intros _; left; reflexivity|reflexivity]].
    unfold requires_inline_call.
    destruct (oz_is (m_decl (st_model S1)) t) eqn:Ed.
    { cbn. split; [discriminate|]. intros [X|(S2 & E & H & _)]; [discriminate|]. inversion E; subst. rewrite Ed in H. discriminate. }
    cbn [negb orb].
    destruct (supported smin smax (st_model S1) t) eqn:Es.
    - pose proof (native2_raises_iff own refuse minchk adapt smin smax fuel (st_model S1) t) as Hn.
      destruct (convert_native2 own refuse minchk adapt smin smax fuel (st_model S1) t) as [M l|e M l] eqn:En; cbn.
      + split; [discriminate|]. intros [X|(S2 & E & _ & _ & Hc)]; [discriminate|]. inversion E; subst S2.
        apply Hn in Hc. destruct Hc as (e & M' & l' & X). discriminate.
      + split; [|reflexivity]. intros _. right. exists S1. repeat split; auto. apply Hn. eauto.
    - unfold capi_branch. destruct (call_onnx_api true limit (st_sig S1)) as [seen after].
      destruct (capi (serialized S1 seen) t); cbn; (split; [discriminate|]);
        (intros [X|(S2 & E & _ & Hs & _)]; [discriminate|]; inversion E; subst S2; rewrite Es in Hs; discriminate).
  Qed.

  (* for inlined models of un-adapted operators whose nodes are not stamped above the target: the causes are the three
     that are found BEFORE anything is modified, and the state left behind is the inlined model exactly *)
  Variable q : string -> bool.
  Hypothesis q_quiet : forall op, q op = true -> forall k n, adapt op k n = ANone.

  Theorem torch_2_9_raises_iff_calm : forall S0 S1 t,
    inline_r S0 = Some S1 -> m_funcs (st_model S1) = [] ->
    (forall dv, default_version (st_model S1) = Some dv -> forallb (calmb q t dv) (m_graph (st_model S1)) = true) ->
    (forall dv g l, conv adapt t dv fuel (m_graph (st_model S1)) <> GAbort EOutOfFuel g l) ->
    (t_raises (torch S0 t) = true <->
     oz_is (m_decl (st_model S1)) t = false /\ supported smin smax (st_model S1) t = true /\
     ((t >? smax) || (t <? smin) = true \/ default_version (st_model S1) = None \/
      exists dv, default_version (st_model S1) = Some dv /\ precheck refuse minchk smin t dv (st_model S1) [] = true))
    /\ (forall e S' l, torch S0 t = TRaisedNative e S' l ->
         S' = S1 /\ l = [] /\ (e = EValueRange \/ e = EOpsetConflict \/ e = ERefused)).
  Proof.
    intros S0 S1 t Hi Hf Hcalm Hfuel.
    assert (Hcause : forall c, cause_of (st_model S1) t = Some c -> before_visit c = true).
    { intros c. unfold cause_of, native2_cause. rewrite Hf.
      destruct ((t >? smax) || (t <? smin)); [intros H; inversion H; reflexivity|].
      destruct (default_version (st_model S1)) as [dv|] eqn:Edv; [|intros H; inversion H; reflexivity].
      assert (Ev : versions_of own dv [] = Some []) by reflexivity. rewrite Ev.
      destruct (precheck refuse minchk smin t dv (st_model S1) []); [intros H; inversion H; reflexivity|].
      pose proof (conv_calm_quiet adapt q q_quiet t dv fuel _ (Hcalm dv eq_refl)) as Hc.
      destruct (conv adapt t dv fuel (m_graph (st_model S1))) as [g l|e g l] eqn:Ec.
      - cbn. discriminate.
      - subst e. exfalso. exact (Hfuel dv g l Ec). }
    split.
    - rewrite (torch_2_9_raises_iff S0 t). rewrite Hi. split.
      + intros [X|(S2 & E & Hd & Hs & Hc)]; [discriminate|]. inversion E; subst S2. repeat split; auto.
        unfold cause_of, native2_cause in Hc. rewrite Hf in Hc.
        destruct ((t >? smax) || (t <? smin)); [left; reflexivity|].
        destruct (default_version (st_model S1)) as [dv|] eqn:Edv; [|right; left; reflexivity].
        right. right. exists dv. split; [reflexivity|].
        assert (Ev : versions_of own dv [] = Some []) by reflexivity. rewrite Ev in Hc.
        destruct (precheck refuse minchk smin t dv (st_model S1) []); [reflexivity|]. exfalso.
        pose proof (conv_calm_quiet adapt q q_quiet t dv fuel _ (Hcalm dv eq_refl)) as Hq.
        destruct (conv adapt t dv fuel (m_graph (st_model S1))) as [g l|e g l] eqn:Ec.
        * cbn in Hc. apply Hc. reflexivity.
        * subst e. exact (Hfuel dv g l Ec).
      + intros (Hd & Hs & Hw). right. exists S1. repeat split; auto.
        unfold cause_of, native2_cause. rewrite Hf.
        destruct Hw as [Hr|[Hn|(dv & Edv & Hp)]].
        * rewrite Hr. discriminate.
        * destruct ((t >? smax) || (t <? smin)); [discriminate|]. rewrite Hn. discriminate.
        * destruct ((t >? smax) || (t <? smin)); [discriminate|]. rewrite Edv.
          assert (Ev : versions_of own dv [] = Some []) by reflexivity. rewrite Ev, Hp. discriminate.
    - intros e S' l H. unfold torch, torch_2_9_convert_r in H. rewrite Hi in H. unfold requires_inline_call in H.
      destruct (oz_is (m_decl (st_model S1)) t); [discriminate|]. cbn [negb orb] in H.
      destruct (supported smin smax (st_model S1) t).
      + destruct (cause_of (st_model S1) t) as [c|] eqn:Ec.
        * destruct (native2_cause_before_visit_unchanged own refuse minchk adapt smin smax fuel _ _ c Ec (Hcause c eq_refl)) as (e0 & E & Hk).
          rewrite E in H. inversion H; subst. split; [destruct S1; reflexivity|]. split; [reflexivity|].
          destruct c; auto; contradiction.
        * exfalso.
          destruct (convert_native2 own refuse minchk adapt smin smax fuel (st_model S1) t) as [M l0|e0 M l0] eqn:En; [discriminate|].
          assert (X : cause_of (st_model S1) t <> None).
          { apply (native2_raises_iff own refuse minchk adapt smin smax fuel). eauto. }
          exact (X Ec).
      + unfold capi_branch in H. destruct (call_onnx_api true limit (st_sig S1)) as [seen after].
        destruct (capi (serialized S1 seen) t); discriminate.
  Qed.
End TorchTheorems.
