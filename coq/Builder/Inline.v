(* Model D of C18: inlining a function (op.call_inline) versus calling it (op.call).

   Source modelled (pinned tree):
     _internal/_inliner.py   instantiate: value_map = dict(zip(formal_inputs, inputs)) (fewer actuals
                             than formals: the remaining formals get NO entry), Cloner(attr_map,
                             value_map, post_process=rename, resolve_ref_attrs=True,
                             allow_outer_scope_values=True), outputs = value_map.get(graph output)
     onnx_ir/_cloner.py      Cloner.clone_node (input: None stays None; a value without map entry is
                             passed through unchanged; a mapped value is replaced, possibly by None),
                             clone_attr (reference attribute: the attr_map entry, else DROPPED; graph
                             attributes are cloned), clone_graph (inputs / initializers keep their
                             names: a new Value with the SAME name; nodes through clone_node, hence
                             through post_process = rename: the prefix is applied to the outputs of
                             nested nodes too), _clone_or_get_value
     _internal/builder.py    GraphBuilder.call_inline: attr_map = call-site attributes, then declared
                             defaults; desired output names qualified BEFORE push_module(_prefix);
                             prefix = qualify_node("<fname>_node_<count>/"); TOP-LEVEL non-output values
                             renamed to qualify_value(name); outputs renamed to the desired names or
                             to qualify_value(name) (once per occurrence in the output list)
   The real code works on Value objects; the model works on names.  The object-keyed value map is
   lexically scoped for well-scoped graphs, so the model threads a scoped association list.  Renaming
   "by object" after cloning is modelled by cloning directly with the final name (`final_name`).
   A function that returns one of its formal inputs makes call_inline rename a value of the CALLER;
   that is outside this model (`inline_okb` demands that every output is defined by a body node).
   No proofs in this file. *)
From Coq Require Import String List Bool Arith ZArith.
Require Import OV.Graph.Syntax OV.Graph.Sem OV.Graph.Names OV.Builder.Strings OV.Builder.Naming.
Import ListNotations.
Local Open Scope string_scope.

(* ------------------------------------------------------------------ functions and call sites *)
Record func := Func {
  f_dom : string; f_name : string;
  f_ins : list vname;                               (* formal inputs *)
  f_params : list (string * option attrv);          (* declared attribute parameters, optional default *)
  f_body : list node;                               (* body nodes, possibly with If/Loop subgraphs *)
  f_outs : list vname }.

Record site := Site {
  s_scope : list string;                            (* module scope names at the call *)
  s_prefix : string;                                (* _prefix argument ("" = none) *)
  s_count : nat;                                    (* GraphBuilder._node_count() at the call *)
  s_actuals : list (option vname);                  (* None = omitted optional input *)
  s_attrs : list (string * attrv);                  (* call-site attributes *)
  s_outnames : option (list string) }.              (* _outputs *)

Fixpoint alookup {A : Type} (k : string) (l : list (string * A)) : option A :=
  match l with
  | [] => None
  | (k', a) :: t => if String.eqb k k' then Some a else alookup k t
  end.

(* call-site attributes first, then the declared defaults *)
Definition attr_map (f : func) (call_attrs : list (string * attrv)) : list (string * attrv) :=
  (call_attrs ++ flat_map (fun kd => match snd kd with Some d => [(fst kd, d)] | None => [] end) (f_params f))%list.

(* clone_attr with resolve_ref_attrs=True on the non-graph attributes *)
Definition subst_attrs (am : list (string * attrv)) (attrs : list (string * attrv)) : list (string * attrv) :=
  flat_map (fun ka => match snd ka with
                      | ARef r => match alookup r am with Some a => [(fst ka, a)] | None => [] end
                      | _ => [ka]
                      end) attrs.

(* ------------------------------------------------------------------ the value map *)
Definition vmap := list (vname * option vname).

Fixpoint vm_get (m : vmap) (x : vname) : option (option vname) :=
  match m with
  | [] => None
  | (y, r) :: t => if String.eqb x y then Some r else vm_get t x
  end.

(* a name without entry is passed through unchanged (allow_outer_scope_values) *)
Definition resolve (m : vmap) (x : vname) : option vname :=
  match vm_get m x with Some r => r | None => Some x end.

Definition clone_in (m : vmap) (i : option vname) : option vname :=
  match i with None => None | Some x => resolve m x end.

(* graph outputs: _get_value; a None there is an error in the real code (excluded by `inline_okb`) *)
Definition clone_out (m : vmap) (x : vname) : vname :=
  match resolve m x with Some y => y | None => "" end.

Definition defmap (r : vname -> vname) (outs : list vname) : vmap := map (fun o => (o, Some (r o))) outs.
Definition same (x : vname) : vname := x.

(* the nodes of one graph, threading the map: the outputs of a cloned node are entered with their new name *)
Definition clone_nodes_with (cn : vmap -> node -> node) (r : vname -> vname) : vmap -> list node -> list node :=
  fix go (m : vmap) (l : list node) {struct l} : list node :=
  match l with
  | [] => []
  | n :: t => cn m n :: go (defmap r (n_outs n) ++ m)%list t
  end.

Fixpoint map_after (r : vname -> vname) (m : vmap) (l : list node) : vmap :=
  match l with
  | [] => m
  | n :: t => map_after r (defmap r (n_outs n) ++ m)%list t
  end.

(* rh renames the outputs of the node itself, rn the outputs of every node nested below it, ri the inputs
   (and initializers) of the subgraphs nested below it: `same` on the tree as read (the Cloner copies the
   names; _inliner.rename touches node outputs only), the prefix after
   proposed_fixes/ready/C18_01_inliner_prefixes_subgraph_inputs.diff *)
Fixpoint clone_node (ri rh rn : vname -> vname) (am : list (string * attrv)) (m : vmap) (n : node) {struct n} : node :=
  let 'Node d o ins outs attrs subs := n in
  Node d o (map (clone_in m) ins) (map rh outs) (subst_attrs am attrs)
       (map (fun kg => let '(k, g) := kg in (k, clone_graph ri rn am m g)) subs)
with clone_graph (ri rn : vname -> vname) (am : list (string * attrv)) (m : vmap) (g : graph) {struct g} : graph :=
  let 'Graph ins inits nodes outs := g in
  let m0 := (defmap ri (ins ++ inits) ++ m)%list in
  Graph (map ri ins) (map ri inits) (clone_nodes_with (fun m' n' => clone_node ri rn rn am m' n') rn m0 nodes)
        (map (clone_out (map_after rn m0 nodes)) outs).

(* ------------------------------------------------------------------ names given by call_inline *)
Definition site_scope (s : site) : list string :=
  if String.eqb (s_prefix s) "" then s_scope s else (s_scope s ++ [s_prefix s])%list.

(* node-name prefix: _qualify_node_name(f"{function.name}_node_{count}/") after push_module(_prefix) *)
Definition site_prefix (f : func) (s : site) : string :=
  node_name (site_scope s) (f_name f) (s_count s) ++ "/".

Fixpoint count_in (x : vname) (l : list vname) : nat :=
  match l with [] => 0 | y :: t => (if String.eqb x y then 1 else 0) + count_in x t end.

(* the desired name at the LAST position where x is returned (each assignment overwrites) *)
Fixpoint last_named (x : vname) (outs : list vname) (names : list string) : option string :=
  match outs, names with
  | o :: ot, nm :: nt =>
    match last_named x ot nt with
    | Some r => Some r
    | None => if String.eqb x o then Some nm else None
    end
  | _, _ => None
  end.

Definition final_name (f : func) (s : site) (x : vname) : vname :=
  let pre := site_prefix f s in
  if mem x (f_outs f) then
    match s_outnames s with
    | Some names => match last_named x (f_outs f) names with
                    | Some nm => qualify_value (s_scope s) nm
                    | None => (pre ++ x)
                    end
    | None => Nat.iter (count_in x (f_outs f)) (qualify_value (site_scope s)) (pre ++ x)
    end
  else qualify_value (site_scope s) (pre ++ x).

Definition nested_name (f : func) (s : site) (x : vname) : vname := site_prefix f s ++ x.

(* two behaviours of _inliner.instantiate, probed on the real code on every run:
   rename_sub_inputs   the inputs of cloned subgraphs get the call-site prefix (as read: false, they keep
                       their names and can capture / repeat names of the calling graph);
   pad_missing_actuals a formal without actual is mapped to None = omitted (as read: false, zip() leaves it
                       without entry and the Cloner passes the formal's own name through) *)
Record icfg := ICfg { rename_sub_inputs : bool; pad_missing_actuals : bool }.
Definition icfg_pinned := ICfg false false.
Definition icfg_fixed := ICfg true true.

Definition pad_actuals (f : func) (acts : list (option vname)) : list (option vname) :=
  (acts ++ repeat None (List.length (f_ins f) - List.length acts))%list.
(* the call site as instantiate sees it *)
Definition vsite (c : icfg) (f : func) (s : site) : site :=
  if pad_missing_actuals c
  then Site (s_scope s) (s_prefix s) (s_count s) (pad_actuals f (s_actuals s)) (s_attrs s) (s_outnames s)
  else s.
Definition sub_ren (c : icfg) (f : func) (s : site) : vname -> vname :=
  if rename_sub_inputs c then nested_name f s else same.

(* dict(zip(formal_inputs, inputs)) *)
Definition site_map (f : func) (s : site) : vmap := combine (f_ins f) (s_actuals s).

(* for an arbitrary renaming ri of subgraph inputs *)
Definition inline_nodes_r (ri : vname -> vname) (f : func) (s : site) : list node :=
  clone_nodes_with (clone_node ri (final_name f s) (nested_name f s) (attr_map f (s_attrs s)))
                   (final_name f s) (site_map f s) (f_body f).

Definition inline_outs_r (f : func) (s : site) : list vname :=
  map (clone_out (map_after (final_name f s) (site_map f s) (f_body f))) (f_outs f).

Definition inline_nodes (c : icfg) (f : func) (s : site) : list node :=
  inline_nodes_r (sub_ren c f s) f (vsite c f s).
Definition inline_outs (c : icfg) (f : func) (s : site) : list vname := inline_outs_r f (vsite c f s).

(* names of the nodes, all nesting levels.  A node without name is not renamed by the inliner; it is then named
   by the onnx_ir graph (name authority) when call_inline appends it: not modelled, reported as "" and
   masked by the harness, which still checks uniqueness on the real names *)
Definition inline_node_names (f : func) (s : site) (inner : list string) : list string :=
  map (fun nm => if String.eqb nm "" then "" else site_prefix f s ++ nm) inner.

(* every value name the inlined nodes define (top level and nested, subgraph inputs included) *)
Fixpoint all_defs_node (n : node) : list vname :=
  let 'Node _ _ _ outs _ subs := n in
  (outs ++ flat_map (fun kg => all_defs_graph (snd kg)) subs)%list
with all_defs_graph (g : graph) : list vname :=
  let 'Graph ins inits nodes _ := g in
  (ins ++ inits ++ flat_map all_defs_node nodes)%list.

(* ------------------------------------------------------------------ the call side *)
(* formals without a value: omitted actual, or no actual at all *)
Fixpoint omitted {A : Type} (formals : list vname) (acts : list (option A)) : list vname :=
  match formals, acts with
  | [], _ => []
  | x :: t, [] => x :: omitted t (@nil (option A))
  | x :: t, None :: at' => x :: omitted t at'
  | x :: t, Some _ :: at' => omitted t at'
  end.

Fixpoint bound_formals {A : Type} (formals : list vname) (acts : list (option A)) : list (vname * A) :=
  match formals, acts with
  | x :: t, Some v :: at' => (x, v) :: bound_formals t at'
  | _ :: t, None :: at' => bound_formals t at'
  | _, _ => []
  end.

Definition omit_in (om : list vname) (i : option vname) : option vname :=
  match i with
  | Some x => if mem x om then None else Some x
  | None => None
  end.

(* the body as the call sees it: a reference to a formal without value is the empty name, reference
   attributes are resolved; nothing is renamed *)
Fixpoint omit_node (om : list vname) (am : list (string * attrv)) (n : node) {struct n} : node :=
  let 'Node d o ins outs attrs subs := n in
  Node d o (map (omit_in om) ins) outs (subst_attrs am attrs)
       (map (fun kg => let '(k, g) := kg in (k, omit_graph om am g)) subs)
with omit_graph (om : list vname) (am : list (string * attrv)) (g : graph) {struct g} : graph :=
  let 'Graph ins inits nodes outs := g in
  Graph ins inits (map (fun n' => omit_node om am n') nodes) outs.

Definition call_graph (f : func) (call_attrs : list (string * attrv)) {A : Type} (vs : list (option A)) : graph :=
  Graph (map fst (bound_formals (f_ins f) vs)) []
        (map (omit_node (omitted (f_ins f) vs) (attr_map f call_attrs)) (f_body f))
        (f_outs f).

Section CallSem.
  Variable V : Type.
  Variable sem : string -> string -> list (string * attrv) -> list (option V) -> option (list V).
  Variable truth : V -> option bool.
  Variable trip : V -> option nat.
  Variable of_nat : nat -> V.
  Variable of_bool : bool -> V.
  Variable limit : nat.

  (* the meaning of a call node of f: its body, evaluated with no outer scope, formals bound to the
     values of the present actuals.  More actuals than formals is rejected. *)
  Definition call_sem (fuel : nat) (f : func) (call_attrs : list (string * attrv)) (vs : list (option V))
    : option (list V) :=
    if Nat.leb (List.length vs) (List.length (f_ins f)) then
      eval_graph V sem truth trip of_nat of_bool limit fuel []
                 (call_graph f call_attrs vs) (map snd (bound_formals (f_ins f) vs))
    else None.
End CallSem.

(* ------------------------------------------------------------------ executable hypotheses *)
(* y is not the new name of any visible name *)
Definition img_free (vis : list vname) (m : vmap) (y : vname) : bool :=
  forallb (fun x => match resolve m x with Some y' => negb (String.eqb y' y) | None => true end) vis.

Definition ok_nodes_with (okn : list vname -> vmap -> node -> bool) (r : vname -> vname)
  : list vname -> vmap -> list node -> bool :=
  fix go (vis : list vname) (m : vmap) (l : list node) {struct l} : bool :=
  match l with
  | [] => true
  | n :: t => okn vis m n && go (n_outs n ++ vis)%list (defmap r (n_outs n) ++ m)%list t
  end.

(* closed (every use is visible: a formal with an actual, or defined before, scoped), the new names of
   the definitions are pairwise distinct and are not the new name of another visible value (no capture),
   no definition reuses the name of a formal without value, subgraphs have no initializers and distinct
   input names *)
Fixpoint ok_node (ri rh rn : vname -> vname) (om vis : list vname) (m : vmap) (n : node) {struct n} : bool :=
  let 'Node _ _ ins outs _ subs := n in
  forallb (fun x => mem x vis) (present ins)
  && nodupb (map rh outs)
  && forallb (img_free vis m) (map rh outs)
  && forallb (fun o => negb (mem o om)) outs
  && forallb (fun kg => let '(_, g) := kg in ok_graph ri rn om vis m g) subs
with ok_graph (ri rn : vname -> vname) (om vis : list vname) (m : vmap) (g : graph) {struct g} : bool :=
  let 'Graph ins inits nodes outs := g in
  match inits with [] => true | _ => false end
  && nodupb (map ri ins)
  && forallb (img_free vis m) (map ri ins)
  && forallb (fun i => negb (mem i om)) ins
  && ok_nodes_with (fun vis' m' n' => ok_node ri rn rn om vis' m' n') rn (ins ++ vis)%list (defmap ri ins ++ m)%list nodes
  && forallb (fun x => mem x (defs_nodes nodes ++ ins ++ vis)%list && negb (mem x om)) outs.

Definition outnames_ok (f : func) (s : site) : bool :=
  match s_outnames s with
  | Some names => Nat.eqb (List.length names) (List.length (f_outs f))
  | None => true
  end.

Definition inline_okb_r (ri : vname -> vname) (f : func) (s : site) : bool :=
  nodupb (f_ins f)
  && Nat.leb (List.length (s_actuals s)) (List.length (f_ins f))
  && outnames_ok f s
  && ok_nodes_with (ok_node ri (final_name f s) (nested_name f s) (omitted (f_ins f) (s_actuals s)))
                   (final_name f s) (map fst (site_map f s)) (site_map f s) (f_body f)
  && forallb (fun o => mem o (defs_nodes (f_body f)) && negb (mem o (omitted (f_ins f) (s_actuals s)))) (f_outs f).
Definition inline_okb (c : icfg) (f : func) (s : site) : bool :=
  Nat.leb (List.length (s_actuals s)) (List.length (f_ins f)) && inline_okb_r (sub_ren c f s) f (vsite c f s).

(* what the property additionally asks of the names: the new names are pairwise distinct (all nesting
   levels) and none of them is a name of the calling graph *)
Definition inline_defs (c : icfg) (f : func) (s : site) : list vname := flat_map all_defs_node (inline_nodes c f s).
Definition inline_fresh (c : icfg) (f : func) (s : site) (caller_names : list vname) : bool :=
  nodupb (inline_defs c f s) && forallb (fun x => negb (mem x caller_names)) (inline_defs c f s).

(* ------------------------------------------------------------------ correspondence helpers *)
Definition str_list_eqb := list_str_eqb.
Definition opt_str_eqb (a b : option string) : bool :=
  match a, b with Some x, Some y => String.eqb x y | None, None => true | _, _ => false end.
Fixpoint list_eqb {A : Type} (eq : A -> A -> bool) (a b : list A) : bool :=
  match a, b with
  | [], [] => true
  | x :: s, y :: t => eq x y && list_eqb eq s t
  | _, _ => false
  end.
Definition zlist_eqb := list_eqb Z.eqb.
Definition attrv_eqb (a b : attrv) : bool :=
  match a, b with
  | AInt x, AInt y => Z.eqb x y
  | AInts x, AInts y => zlist_eqb x y
  | AStr x, AStr y => String.eqb x y
  | AStrs x, AStrs y => list_str_eqb x y
  | AFloat x, AFloat y => Z.eqb x y
  | AFloats x, AFloats y => zlist_eqb x y
  | ATensor d s p, ATensor d' s' p' => Z.eqb d d' && zlist_eqb s s' && zlist_eqb p p'
  | ARef x, ARef y => String.eqb x y
  | AOther x, AOther y => String.eqb x y
  | _, _ => false
  end.
Definition attrs_eqb := list_eqb (fun a b : string * attrv => String.eqb (fst a) (fst b) && attrv_eqb (snd a) (snd b)).

Fixpoint node_eqb (fuel : nat) (a b : node) {struct fuel} : bool :=
  match fuel with
  | O => false
  | S k =>
    let 'Node d o i u at1 s := a in
    let 'Node d' o' i' u' at2 s' := b in
    String.eqb d d' && String.eqb o o' && list_eqb opt_str_eqb i i' && list_str_eqb u u' && attrs_eqb at1 at2
    && list_eqb (fun x y : string * graph => String.eqb (fst x) (fst y) && graph_eqb k (snd x) (snd y)) s s'
  end
with graph_eqb (fuel : nat) (a b : graph) {struct fuel} : bool :=
  match fuel with
  | O => false
  | S k =>
    let 'Graph i n l o := a in
    let 'Graph i' n' l' o' := b in
    list_str_eqb i i' && list_str_eqb n n' && list_eqb (node_eqb k) l l' && list_str_eqb o o'
  end.

Definition nodes_eqb (a b : list node) : bool :=
  list_eqb (fun x y => node_eqb (2 * (depth_node x + depth_node y) + 2) x y) a b.

(* attributes sorted by name on both sides is the harness's business; here: exact comparison *)
Definition inline_matches (c : icfg) (f : func) (s : site) (inner_node_names : list string)
           (obs_nodes : list node) (obs_outs : list vname) (obs_node_names : list string) : bool :=
  nodes_eqb (inline_nodes c f s) obs_nodes
  && list_str_eqb (inline_outs c f s) obs_outs
  && list_str_eqb (inline_node_names f s inner_node_names) obs_node_names.

(* ------------------------------------------------------------------ a toy kernel and witnesses *)
(* values are integers; AddOpt sums its present inputs; Loop counts with `trip` *)
Definition toy_sem (dom op : string) (attrs : list (string * attrv)) (ins : list (option Z)) : option (list Z) :=
  if String.eqb op "Add" then
    match ins with [Some a; Some b] => Some [(a + b)%Z] | _ => None end
  else if String.eqb op "AddOpt" then
    Some [fold_right (fun i acc => match i with Some a => (a + acc)%Z | None => acc end) 0%Z ins]
  else if String.eqb op "Identity" then
    match ins with [Some a] => Some [a] | _ => None end
  else if String.eqb op "Const" then
    match alookup "value" attrs with Some (AInt z) => Some [z] | _ => None end
  else if String.eqb op "Two" then
    match ins with [Some a] => Some [a; (2 * a)%Z] | _ => None end
  else None.
Definition toy_truth (v : Z) : option bool := Some (negb (Z.eqb v 0)).
Definition toy_trip (v : Z) : option nat := Some (Z.to_nat v).
Definition toy_of_nat (n : nat) : Z := Z.of_nat n.
Definition toy_of_bool (b : bool) : Z := if b then 1%Z else 0%Z.
Definition toy_run := run Z toy_sem toy_truth toy_trip toy_of_nat toy_of_bool 10.
Definition toy_eval := eval_graph Z toy_sem toy_truth toy_trip toy_of_nat toy_of_bool 10.
Definition toy_call := call_sem Z toy_sem toy_truth toy_trip toy_of_nat toy_of_bool 10.

(* the shape of the script function  acc = Identity(X); for i in range(n): acc = Add(acc, X); return acc *)
Definition w_loop_fn : func :=
  Func "c18.fi" "withloop" ["X"] [("n", Some (AInt 3))]
    [ Node "" "Identity" [Some "X"] ["acc"] [] [];
      Node "" "Const" [] ["n"] [("value", ARef "n")] [];
      Node "" "Loop" [Some "n"; None; Some "acc"] ["acc_2"] []
        [("body", Graph ["i"; "cond_in"; "acc_0"] []
            [ Node "" "Add" [Some "acc_0"; Some "X"] ["acc_1"] [] [];
              Node "" "Identity" [Some "cond_in"] ["cond_out"] [] [] ]
            ["cond_out"; "acc_1"])] ]
    ["acc_2"].
(* the caller's value is called like the Loop body's third input *)
Definition w_capture_site : site := Site [] "" 0 [Some "acc_0"] [] None.
Definition w_plain_site : site := Site [] "" 0 [Some "x"] [] None.

(* an IR function with an optional trailing input, called with one actual *)
Definition w_opt_fn : func :=
  Func "c18.fi" "clipf" ["x"; "lo"] [] [ Node "" "AddOpt" [Some "x"; Some "lo"] ["r"] [] [] ] ["r"].
Definition w_fewer_site : site := Site [] "" 0 [Some "x"] [] None.
Definition w_none_site : site := Site [] "" 0 [Some "x"; None] [] None.

(* non-vacuity: inner names equal to caller names, reference attributes with / without default,
   a nested If reading a formal and a body value, two outputs, explicit output names, a scope *)
Definition ex_fn : func :=
  Func "c18.fi" "exf" ["X"; "Y"] [("k", Some (AInt 5)); ("j", None)]
    [ Node "" "Add" [Some "X"; Some "Y"] ["tmp"] [] [];
      Node "" "Const" [] ["kk"] [("value", ARef "k"); ("extra", ARef "j")] [];
      Node "" "If" [Some "tmp"] ["r"] []
        [("then_branch", Graph [] [] [ Node "" "Add" [Some "tmp"; Some "X"] ["t1"] [] [] ] ["t1"]);
         ("else_branch", Graph [] [] [ Node "" "Add" [Some "kk"; Some "Y"] ["t2"] [("a", ARef "k")] [] ] ["t2"])];
      Node "" "Two" [Some "r"] ["u"; "v_Add_0"] [] [] ]
    ["u"; "v_Add_0"].
Definition ex_site : site := Site ["enc"] "p" 7 [Some "tmp"; Some "v_Add_0"] [("k", AInt 9)] (Some ["out"; "tmp"]).
Definition ex_site_default : site := Site [] "" 2 [Some "tmp"; Some "v_Add_0"] [] None.
Definition ex_env : list (vname * Z) := [("tmp", 4%Z); ("v_Add_0", (-4)%Z); ("v_exf_node_2/tmp", 100%Z)].

Definition toy_inline (c : icfg) (fuel : nat) (f : func) (s : site) (e : list (vname * Z)) : option (list Z) :=
  match toy_run (toy_eval fuel) e (inline_nodes c f s) with
  | Some e' => lookups e' (inline_outs c f s)
  | None => None
  end.

(* a function on its own: formals distinct, body closed and in SSA form over all nesting levels (the
   checker of the theorem with the identity renaming), outputs defined by body nodes *)
Definition func_wfb (f : func) : bool :=
  nodupb (f_ins f)
  && ok_nodes_with (fun vis' m' n' => ok_node same same same [] vis' m' n') same (f_ins f) (defmap same (f_ins f)) (f_body f)
  && forallb (fun o => mem o (defs_nodes (f_body f))) (f_outs f).
