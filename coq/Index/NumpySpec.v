(* C11 -- the specification side: Python/NumPy indexing.  No proofs in this file.

   One axis: `slice.indices(len)` exactly as CPython computes it (Objects/sliceobject.c,
   PySlice_AdjustIndices with the defaults of _PySlice_GetLongIndices), `range(start, stop, step)`,
   and integer indexing with negative wrap and bounds error.

   n axes: an index expression selects, independently on every source axis, either a list of
   positions (the axis is kept, `Keep`) or one position (the axis is removed, `Pick`); a `view` is
   that list of per-axis selectors.  NumPy basic indexing (ints, slices) is of this form; so is an
   expression with one 1-D integer array when NumPy leaves the array's axis in place
   (`np_modelled`).  With two or more 1-D arrays NumPy zips them, and with a scalar and a 1-D array
   separated by a slice it moves the array axis to the front: those results are not views and are
   outside this model (the harness still compares them with NumPy itself). *)
From Coq Require Import ZArith List Bool.
Import ListNotations.
Open Scope Z_scope.

(* ---- range(a, b, st) --------------------------------------------------------------------- *)
Definition range_len (a b st : Z) : Z :=
  if 0 <? st then (if a <? b then (b - a - 1) / st + 1 else 0)
  else if st <? 0 then (if b <? a then (a - b - 1) / (- st) + 1 else 0)
  else 0.

Definition range_list (a b st : Z) : list Z :=
  map (fun k => a + Z.of_nat k * st) (seq 0 (Z.to_nat (range_len a b st))).

(* ---- slice(start, stop, step).indices(d) ------------------------------------------------- *)
Definition py_adjust (d st : Z) (start stop : option Z) : Z * Z :=
  let lower := if st <? 0 then -1 else 0 in
  let upper := if st <? 0 then d - 1 else d in
  let adj := fun v => if v <? 0 then Z.max (v + d) lower else Z.min v upper in
  (match start with None => if st <? 0 then upper else lower | Some s => adj s end,
   match stop with None => if st <? 0 then lower else upper | Some e => adj e end).

Definition step_of (step : option Z) : Z := match step with None => 1 | Some s => s end.

(* positions selected by X[start:stop:step] on an axis of length d; None = ValueError (step 0) *)
Definition py_slice (d : Z) (start stop step : option Z) : option (list Z) :=
  let st := step_of step in
  if st =? 0 then None
  else let '(a, b) := py_adjust d st start stop in Some (range_list a b st).

(* X[i] on an axis of length d: position, or None = IndexError *)
Definition py_int (d i : Z) : option Z :=
  if (- d <=? i) && (i <? d) then Some (if i <? 0 then i + d else i) else None.

(* ---- index expressions ------------------------------------------------------------------- *)
(* a slice bound: omitted / python int literal / tensor-valued (0-d) with its runtime value *)
Inductive bound := BNone | BConst (z : Z) | BDyn (z : Z).
Definition bval (b : bound) : option Z :=
  match b with BNone => None | BConst z => Some z | BDyn z => Some z end.

Inductive comp :=
| CInt (i : Z)                    (* python int literal *)
| CSlice (a b s : bound)
| CT0 (i : Z)                     (* tensor-valued index of rank 0, runtime value i *)
| CT1 (l : list Z).               (* tensor-valued index of rank 1 *)

(* ---- views ------------------------------------------------------------------------------- *)
Inductive sel := Keep (l : list Z) | Pick (i : Z).
Definition view := list sel.       (* one selector per source axis *)

Definition zrange (d : Z) : list Z := range_list 0 d 1.
Definition full (shape : list Z) : view := map (fun d => Keep (zrange d)) shape.

Fixpoint mapM {A B : Type} (f : A -> option B) (l : list A) : option (list B) :=
  match l with
  | [] => Some []
  | x :: t => match f x, mapM f t with Some y, Some r => Some (y :: r) | _, _ => None end
  end.

Definition sel_of (d : Z) (c : comp) : option sel :=
  match c with
  | CInt i => option_map Pick (py_int d i)
  | CT0 i => option_map Pick (py_int d i)
  | CSlice a b s => option_map Keep (py_slice d (bval a) (bval b) (bval s))
  | CT1 l => option_map Keep (mapM (py_int d) l)
  end.

(* X[idx] for X of the given shape; None = NumPy raises (IndexError / ValueError) *)
Fixpoint np_index (shape : list Z) (idx : list comp) {struct idx} : option view :=
  match idx with
  | [] => Some (full shape)
  | c :: idx' =>
      match shape with
      | [] => None                                   (* too many indices *)
      | d :: shape' =>
          match sel_of d c, np_index shape' idx' with
          | Some s, Some v => Some (s :: v)
          | _, _ => None
          end
      end
  end.

(* where the view above IS NumPy's result *)
Definition is_t1 (c : comp) : bool := match c with CT1 _ => true | _ => false end.
Definition is_slice (c : comp) : bool := match c with CSlice _ _ _ => true | _ => false end.
Definition is_adv (c : comp) : bool := negb (is_slice c).

Fixpoint drop_while {A} (p : A -> bool) (l : list A) : list A :=
  match l with [] => [] | x :: t => if p x then drop_while p t else l end.

(* the advanced (non-slice) components form one contiguous block *)
Definition adv_contiguous (idx : list comp) : bool :=
  forallb is_slice (drop_while is_adv (drop_while is_slice idx)).
(* no slice component in front of the 1-D array *)
Definition t1_before_slices (idx : list comp) : bool :=
  negb (existsb is_slice (rev (drop_while (fun c => negb (is_t1 c)) (rev idx)))).

Definition np_modelled (idx : list comp) : bool :=
  let n1 := length (filter is_t1 idx) in
  (n1 =? 0)%nat || ((n1 =? 1)%nat && (adv_contiguous idx || t1_before_slices idx)).

(* ---- what a view denotes: result shape and, for X = arange(prod shape).reshape(shape), the data --- *)
Definition zlen (l : list Z) : Z := Z.of_nat (length l).

Fixpoint view_shape (v : view) : list Z :=
  match v with
  | [] => []
  | Keep l :: t => zlen l :: view_shape t
  | Pick _ :: t => view_shape t
  end.

(* row-major flat offsets of the selected elements, in row-major order of the result *)
Fixpoint offsets (v : view) (shape : list Z) : list Z :=
  match v, shape with
  | [], _ => [0]
  | s :: v', d :: shape' =>
      let stride := fold_right Z.mul 1 shape' in
      let rest := offsets v' shape' in
      match s with
      | Pick i => map (fun o => i * stride + o) rest
      | Keep l => flat_map (fun i => map (fun o => i * stride + o) rest) l
      end
  | _ :: _, [] => []
  end.
