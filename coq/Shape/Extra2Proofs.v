(* C09 -- proofs for Shape/Extra2.v. *)
From Coq Require Import String ZArith List Bool Lia ZifyBool.
Require Import OV.Shape.SymDim OV.Shape.SymDimProofs OV.Shape.PartialEval OV.Shape.PartialEvalProofs.
Require Import OV.Shape.Extra OV.Shape.ExtraProofs OV.Shape.Extra2.
Require OV.Rules.Reshape OV.Rules.ReshapeProofs OV.Rules.SliceCollapse OV.Rules.SliceCollapseProofs.
Require OV.Rules.MatmulGemm OV.Rules.MatmulGemmProofs.
Import ListNotations.
Open Scope Z_scope.
Ltac Zify.zify_post_hook ::= Z.to_euclidean_division_equations.

(* ---- SlicesSplit ------------------------------------------------------------------------------------------------ *)
Lemma shape_denotes_rev' : forall rho s c, shape_denotes rho s c -> shape_denotes rho (rev s) (rev c).
Proof. intros. unfold shape_denotes in *. induction H; simpl; [constructor|]. apply Forall2_app; [assumption|repeat constructor; assumption]. Qed.

(* at every binding the sliced axis is the last axis (ranks do not depend on the binding), its length is the static d,
   and on any fiber l of that axis the two Slices are the two outputs of Split(num_outputs = 2); the other dims are free *)
Theorem slices_split_sound : forall s axis b0 e0 b1 e1, ss_check (Some s) axis b0 e0 b1 e1 = true ->
  forall rho cx, shape_denotes rho s cx ->
  (axis = -1 \/ axis = Z.of_nat (List.length cx) - 1) /\
  exists d crest, rev cx = d :: crest /\ 0 < d /\
    forall (A : Type) (l : list A), Z.of_nat (List.length l) = d ->
      (SliceCollapse.slice1 b0 e0 l, SliceCollapse.slice1 b1 e1 l) = SliceCollapse.split2 l.
Proof.
  unfold ss_check. intros s axis b0 e0 b1 e1 H rho cx Hx.
  destruct (rev s) as [|[d| |] srest] eqn:E; try discriminate.
  apply andb_true_iff in H as [H Hev]. apply andb_true_iff in H as [H Hp]. apply andb_true_iff in H as [Ha Hc].
  split; [rewrite (rank_valuation_independent _ _ _ Hx); lia|].
  pose proof (shape_denotes_rev' _ _ _ Hx) as Hr. rewrite E in Hr. inversion Hr as [|? n ? crest D F]; subst.
  simpl in D. subst n. exists d, crest. split; [reflexivity|]. split; [lia|].
  intros A l Hl. apply SliceCollapseProofs.slices_split_sound; rewrite Hl; assumption.
Qed.

(* ---- Flatten2Reshape: which emitted targets are right for every valuation ------------------------------------------- *)
Lemma zprod_app : forall a b, zprod (a ++ b) = zprod a * zprod b.
Proof. induction a; intros; simpl; [destruct (zprod b); reflexivity|]. rewrite IHa. lia. Qed.

Lemma zprod_split : forall a sh, zprod (firstn a sh) * zprod (skipn a sh) = zprod sh.
Proof. intros. rewrite <- zprod_app, firstn_skipn. reflexivity. Qed.

Lemma zprod_nonneg : forall l, Forall (fun n => 0 <= n) l -> 0 <= zprod l.
Proof. induction 1; simpl; lia. Qed.

Lemma Forall_firstn' : forall {A} (P : A -> Prop) n l, Forall P l -> Forall P (firstn n l).
Proof. induction n; intros l H; simpl; [constructor|]. destruct H; constructor; auto. Qed.
Lemma Forall_skipn' : forall {A} (P : A -> Prop) n l, Forall P l -> Forall P (skipn n l).
Proof. induction n; intros l H; simpl; [assumption|]. destruct H; [constructor|auto]. Qed.

Lemma flat_both : forall sh F0 F1, 0 < F0 -> 0 < F1 -> F0 * F1 = zprod sh -> reshape_out false sh [F0; F1] = Some [F0; F1].
Proof.
  intros sh F0 F1 P0 P1 E. unfold reshape_out, count_m1. simpl.
  destruct (F0 <? -1) eqn:A0; [lia|]. destruct (F1 <? -1) eqn:A1; [lia|]. simpl.
  destruct (F0 =? -1) eqn:B0; [lia|]. destruct (F1 =? -1) eqn:B1; [lia|]. simpl.
  destruct (F0 =? 0) eqn:C0; [lia|]. destruct (F1 =? 0) eqn:C1; [lia|]. simpl.
  replace (F0 * (F1 * 1)) with (zprod sh) by lia. rewrite Z.eqb_refl. reflexivity.
Qed.

Lemma flat_first : forall sh F0 F1, 0 < F0 -> 0 <= F1 -> F0 * F1 = zprod sh -> reshape_out false sh [F0; -1] = Some [F0; F1].
Proof.
  intros sh F0 F1 P0 P1 E. unfold reshape_out, count_m1. simpl.
  destruct (F0 <? -1) eqn:A0; [lia|]. simpl.
  destruct (F0 =? -1) eqn:B0; [lia|]. simpl.
  destruct (F0 =? 0) eqn:C0; [lia|]. simpl. rewrite B0. simpl.
  replace (F0 * 1) with F0 by lia. rewrite C0.
  assert (zprod sh mod F0 = 0) by (rewrite <- E, Z.mul_comm; apply Z_mod_mult).
  destruct (zprod sh mod F0 =? 0) eqn:M; [|lia].
  f_equal. f_equal. f_equal. rewrite <- E, Z.mul_comm. apply Z.div_mul. lia.
Qed.

Lemma flat_second : forall sh F0 F1, 0 <= F0 -> 0 < F1 -> F0 * F1 = zprod sh -> reshape_out false sh [-1; F1] = Some [F0; F1].
Proof.
  intros sh F0 F1 P0 P1 E. unfold reshape_out, count_m1. simpl.
  destruct (F1 <? -1) eqn:A0; [lia|]. simpl.
  destruct (F1 =? -1) eqn:B0; [lia|]. simpl.
  destruct (F1 =? 0) eqn:C0; [lia|]. simpl. rewrite B0. simpl.
  replace (F1 * 1) with F1 by lia. rewrite C0.
  assert (zprod sh mod F1 = 0) by (rewrite <- E; apply Z_mod_mult).
  destruct (zprod sh mod F1 =? 0) eqn:M; [|lia].
  f_equal. f_equal. rewrite <- E. apply Z.div_mul. lia.
Qed.

Lemma flat_copy : forall h t F1, 0 <= h -> 0 < F1 -> h * F1 = zprod (h :: t) -> reshape_out false (h :: t) [0; F1] = Some [h; F1].
Proof.
  intros h t F1 P0 P1 E. unfold reshape_out, count_m1. simpl.
  destruct (F1 <? -1) eqn:A0; [lia|]. simpl.
  destruct (F1 =? -1) eqn:B0; [lia|]. simpl.
  destruct (F1 =? 0) eqn:C0; [lia|]. simpl.
  simpl in E. replace (h * (F1 * 1)) with (h * zprod t) by lia. rewrite Z.eqb_refl. reflexivity.
Qed.

(* the iff: a target of the emitted classes is right for EVERY runtime shape consistent with it (dims of size 0 included)
   exactly when it is not [0; -1] *)
Theorem flatten_target_correct_iff : forall a a0 a1, fl_class a a0 a1 ->
  (forall sh, fl_consistent a a0 a1 sh -> reshape_out false sh [a0; a1] = Some (flat2 a sh)) <-> fl_target_ok [a0; a1] = true.
Proof.
  intros a a0 a1 (C0 & C1 & NB & CA). unfold fl_target_ok. split.
  - intro H. destruct ((a0 =? 0) && (a1 =? -1)) eqn:E; [|reflexivity]. exfalso.
    assert (a0 = 0 /\ a1 = -1) as [-> ->] by lia. rewrite (CA eq_refl) in H.
    specialize (H [0; 4]). unfold fl_consistent in H. simpl in H.
    assert (X : reshape_out false [0; 4] [0; -1] = Some (flat2 1 [0; 4])).
    { apply H. repeat split; try lia. repeat constructor; lia. }
    vm_compute in X. discriminate.
  - intros OK sh (Hn & Ha & H0 & H1). unfold flat2.
    set (F0 := zprod (firstn a sh)) in *. set (F1 := zprod (skipn a sh)) in *.
    assert (E : F0 * F1 = zprod sh) by apply zprod_split.
    assert (N0 : 0 <= F0) by (apply zprod_nonneg, Forall_firstn'; assumption).
    assert (N1 : 0 <= F1) by (apply zprod_nonneg, Forall_skipn'; assumption).
    destruct C0 as [-> | [-> | P0]].
    + destruct C1 as [-> | P1]; [exfalso; apply NB; auto|]. rewrite <- (H1 P1) in *. apply flat_second; auto; lia.
    + destruct C1 as [-> | P1]; [simpl in OK; discriminate|].
      assert (A1 : a = 1%nat) by auto. subst a. destruct sh as [|h t]; [simpl in Ha; lia|].
      inversion Hn; subst. unfold F0, F1 in *. simpl in *. rewrite <- (H1 P1) in *.
      replace (h * 1) with h in * by lia. apply flat_copy; auto; simpl; lia.
    + rewrite <- (H0 P0) in *. destruct C1 as [-> | P1].
      * apply flat_first; auto; lia.
      * rewrite <- (H1 P1) in *. apply flat_both; auto; lia.
Qed.

(* ---- sequences ------------------------------------------------------------------------------------------------------- *)
Theorem chunks_length : forall {A} sizes (l : list A), List.length (chunks sizes l) = List.length sizes.
Proof. induction sizes; intros; simpl; [reflexivity|]. f_equal. apply IHsizes. Qed.

(* ConcatFromSequence(SplitToSequence(x, split)) along the axis gives x back when the sizes add up to the axis *)
Theorem chunks_concat : forall {A} sizes (l : list A), fold_right Nat.add 0%nat sizes = List.length l -> concat (chunks sizes l) = l.
Proof.
  induction sizes as [|k t IH]; intros l H; simpl in *.
  - destruct l; [reflexivity|discriminate].
  - rewrite IH; [apply firstn_skipn|]. rewrite skipn_length. lia.
Qed.

Theorem split_vector_keepdims1_sound : forall sh ax sizes, stsq_emitted true sh ax sizes = stsq_spec sh ax sizes.
Proof. reflexivity. Qed.

(* as read: with keepdims = 0 every chunk is squeezed although ONNX ignores keepdims when `split` is given *)
Theorem split_vector_keepdims0_refuted : exists sh ax sizes, stsq_emitted false sh ax sizes <> stsq_spec sh ax sizes.
Proof. exists [4; 2], 0%nat, [1; 1; 2]. vm_compute. discriminate. Qed.

Lemma norm_axis_nat : forall r ax, (ax < r)%nat -> norm_axis (Z.of_nat r) (Z.of_nat ax) = Some ax.
Proof.
  intros r ax H. unfold norm_axis. destruct ((0 <=? Z.of_nat ax) && (Z.of_nat ax <? Z.of_nat r)) eqn:E; [|lia].
  rewrite Nat2Z.id. reflexivity.
Qed.

Lemma set_nth_app_mid : forall (p q : list Z) x v, set_nth (p ++ x :: q) (List.length p) v = (p ++ v :: q)%list.
Proof. induction p; intros; simpl; [reflexivity|]. f_equal. apply IHp. Qed.

Lemma nth_app_mid : forall (p q : list Z) x, nth (List.length p) (p ++ x :: q) 0 = x.
Proof. induction p; intros; simpl; [reflexivity|apply IHp]. Qed.

(* ConcatFromSequence(new_axis = 1): k tensors of one shape s, each unsqueezed at ax, concatenated at ax = stacking *)
Theorem stack_shape_sound : forall s ax k, (ax <= List.length s)%nat -> (1 <= k)%nat ->
  concat_shape (Z.of_nat ax) (repeat (unsqueeze_shape ax s) k) = Some (stack_shape ax k s).
Proof.
  intros s ax k Ha Hk. destruct k as [|k]; [lia|].
  set (u := unsqueeze_shape ax s). change (repeat u (S k)) with (u :: repeat u k). unfold concat_shape.
  assert (Lu : List.length u = S (List.length s)).
  { unfold u, unsqueeze_shape. rewrite app_length. simpl. rewrite firstn_length, skipn_length. lia. }
  rewrite Lu, (norm_axis_nat (S (List.length s)) ax) by lia.
  assert (forallb (compatible ax u) (u :: repeat u k) = true) as ->.
  { apply forallb_forall. intros c Hc. destruct Hc as [<-|Hc]; [apply compatible_refl|]. apply repeat_spec in Hc. subst. apply compatible_refl. }
  f_equal. assert (Lp : List.length (firstn ax s) = ax) by (rewrite firstn_length; lia).
  assert (N1 : nth ax u 0 = 1).
  { pose proof (nth_app_mid (firstn ax s) (skipn ax s) 1) as X. rewrite Lp in X. exact X. }
  assert (S : fold_right Z.add 0 (map (fun c => nth ax c 0) (u :: repeat u k)) = Z.of_nat (S k)).
  { cbn [map fold_right]. rewrite N1. clear -N1. rewrite Nat2Z.inj_succ.
    induction k; cbn [repeat map fold_right]; [lia|]. rewrite N1, Nat2Z.inj_succ. lia. }
  rewrite S. unfold u, unsqueeze_shape, stack_shape.
  pose proof (set_nth_app_mid (firstn ax s) (skipn ax s) 1 (Z.of_nat (Datatypes.S k))) as X. rewrite Lp in X. exact X.
Qed.

(* SequenceAt: the evaluator's Python indexing of the recorded list = the positions ONNX accepts *)
Theorem seq_at_sound : forall {A} (l : list A) i, py_index l i = onnx_seq_at l i.
Proof.
  intros A l i. unfold py_index, onnx_seq_at. set (n := Z.of_nat (List.length l)).
  destruct ((0 <=? i) && (i <? n)) eqn:E1.
  - destruct ((- n <=? i) && (i <? n)) eqn:E2; [|lia]. destruct (i <? 0) eqn:E3; [lia|reflexivity].
  - destruct ((i <? 0) && (- n <=? i)) eqn:E2.
    + destruct ((- n <=? i) && (i <? n)) eqn:E3; [|lia]. destruct (i <? 0) eqn:E4; [reflexivity|lia].
    + destruct ((- n <=? i) && (i <? n)) eqn:E3; [lia|reflexivity].
Qed.

(* ---- broadcast_to_matmul: numeric part, at every binding --------------------------------------------------------------- *)
Lemma all_int_ints : forall rho s c, all_int s = true -> shape_denotes rho s c -> ints s = c.
Proof.
  intros rho s c H F. induction F as [|d n s c D F IH]; simpl in *; [reflexivity|].
  apply andb_true_iff in H as [H1 H2]. destruct d; try discriminate. simpl in D. subst. f_equal. auto.
Qed.

Theorem b2m_check_sound : forall a b sc, b2m_check (Some a) (Some b) sc = true ->
  forall rho ca cb, shape_denotes rho a ca -> shape_denotes rho b cb ->
  MatmulGemmProofs.positive_dims ca -> MatmulGemmProofs.positive_dims cb ->
  MatmulGemm.matmul_shape ca cb = Some sc.
Proof.
  unfold b2m_check. intros a b sc H rho ca cb Ha Hb Pa Pb.
  apply andb_true_iff in H as [G H]. apply b2m_guard_static in G as [Ga Gb].
  rewrite (all_int_ints rho a ca Ga Ha), (all_int_ints rho b cb Gb Hb) in H.
  destruct (MatmulGemm.check_bcast true ca cb sc) as [[|]|] eqn:E; try discriminate.
  apply MatmulGemmProofs.check_bcast_strict_shape_sound; assumption.
Qed.

(* ---- ranks ---------------------------------------------------------------------------------------------------------------- *)
(* what the optimizer records does not depend on the kinds: the rank-aware expression and its erasure have the same value *)
Theorem erase_sym : forall e, sv_sym (erase (RKeepE KSqueeze e)) = sv_sym (erase e).
Proof. reflexivity. Qed.

(* the recorded value always has as many entries as the tensor has elements (so a recorded value of a rank-0 tensor has
   exactly one entry) *)
Lemma pyslice_len_F2 : forall {A B} (R : A -> B -> Prop) l m a b, Forall2 R l m -> List.length (pyslice l a b) = List.length (pyslice m a b).
Proof. intros. eapply Forall2_len. apply pyslice_F2. eassumption. Qed.

Lemma gather_len : forall {A} (l : list A) idx r, gather l idx = Some r -> List.length r = List.length idx.
Proof.
  induction idx as [|i idx IH]; intros r H; simpl in H.
  - inversion H. reflexivity.
  - destruct (py_index l i); [|discriminate]. destruct (gather l idx) eqn:E; [|discriminate]. inversion H. simpl. f_equal. auto.
Qed.

Theorem sym_length_is_rlen : forall e s, sv_sym (erase e) = Some s -> List.length s = rlen e.
Proof.
  induction e as [l|x a b|v IH idx|a IHa b IHb|a IHa b IHb|v IH|k v IH|k v IH]; intros s H; simpl in *.
  - destruct (Nat.leb (List.length l) 10); [|discriminate]. inversion H. apply map_length.
  - inversion H. reflexivity.
  - destruct (sv_sym (erase v)); [|discriminate]. eapply gather_len; eauto.
  - destruct (sv_sym (erase a)) as [sa|]; [|discriminate]. destruct (sv_sym (erase b)) as [sb|]; [|discriminate].
    inversion H. rewrite app_length, (IHa _ eq_refl), (IHb _ eq_refl). reflexivity.
  - destruct (sv_sym (erase a)) as [[|d0 [|? ?]]|]; try discriminate.
    destruct (sv_sym (erase b)) as [[|d1 [|? ?]]|]; try discriminate.
    destruct (add_dims d0 d1); [|discriminate]. simpl in H. inversion H.
    specialize (IHa _ eq_refl). specialize (IHb _ eq_refl). simpl in *. lia.
  - destruct (sv_sym (erase v)) as [s0|]; [|discriminate]. specialize (IH _ eq_refl).
    destruct (no_neg s0); [inversion H; subst; assumption|]. destruct (all_int s0); [|discriminate]. inversion H. rewrite map_length. assumption.
  - destruct (sv_sym (erase v)) as [s0|]; [|discriminate]. destruct (all_int s0); [|discriminate]. inversion H; subst. auto.
  - auto.
Qed.

Theorem rank0_value_single : forall e s, rrank e = Some O -> sv_sym (erase e) = Some s -> (rlen e = 1%nat -> List.length s = 1%nat).
Proof. intros e s _ H L. rewrite (sym_length_is_rlen e s H). assumption. Qed.

(* rank bookkeeping: a Squeeze of a one-element value gives a scalar; flattening gives rank 1 again *)
Theorem squeeze_then_flat_rank : forall e r, rrank e = Some r -> rrank (RKeepE KReshapeFlat (RKeepE KSqueeze e)) = Some 1%nat.
Proof. intros e r H. simpl. rewrite H. reflexivity. Qed.

Theorem squeeze_scalar_rejected_by_gather : forall e r idx, rrank e = Some r -> rlen e = 1%nat ->
  rrank (RGatherE (RKeepE KSqueeze e) idx) = None.
Proof. intros e r idx H L. simpl. rewrite H, L. reflexivity. Qed.

(* ---- ReshapeReshape with an annotated output: writing the statically known positive output dims into the second target
   does not change what the second Reshape computes (this is the step OV.Rules.ReshapeProofs.reshape_reshape_sound leaves open) *)
Import Reshape.
Lemma subst_nil : forall s, subst_known [] s = s.
Proof. destruct s; reflexivity. Qed.

Lemma copy0_subst : forall az s mid od c, copy0 az mid s = Some c -> copy0 az mid (subst_known od s) = Some (subst_known od c).
Proof.
  induction s as [|x s IH]; intros mid od c H.
  - simpl in H. inversion H. destruct od as [|[d|] od']; reflexivity.
  - destruct od as [|o od']; [rewrite !subst_nil; exact H|].
    cbn [copy0] in H. destruct (copy0 az (tl mid) s) as [r|] eqn:E; [|discriminate].
    specialize (IH (tl mid) od' r E).
    destruct o as [d|].
    + cbn [subst_known]. destruct (0 <? d) eqn:P.
      * cbn [copy0]. rewrite IH. destruct ((d =? 0) && negb az) eqn:Z0; [lia|].
        destruct ((x =? 0) && negb az); [destruct mid; [discriminate|]|]; inversion H; subst; cbn [subst_known]; try rewrite P; reflexivity.
      * cbn [copy0]. rewrite IH.
        destruct ((x =? 0) && negb az); [destruct mid; [discriminate|]|]; inversion H; subst; cbn [subst_known]; try rewrite P; reflexivity.
    + cbn [subst_known copy0]. rewrite IH.
      destruct ((x =? 0) && negb az); [destruct mid; [discriminate|]|]; inversion H; subst; reflexivity.
Qed.

Lemma subst_id : forall od c, Forall2 ReshapeProofs.agree od c -> subst_known od c = c.
Proof.
  induction 1 as [|o v od c A F IH]; [reflexivity|].
  destruct o as [d|]; cbn [subst_known]; rewrite IH; [|reflexivity].
  simpl in A. subst. destruct (0 <? d); reflexivity.
Qed.

Definition fill (v : Z) (l : list Z) : list Z := map (fun d => if d =? -1 then v else d) l.

Lemma count_cons : forall x l, count (-1) (x :: l) = Nat.add (if x =? -1 then 1%nat else 0%nat) (count (-1) l).
Proof. intros. unfold count. cbn [filter]. destruct (-1 =? x) eqn:E; destruct (x =? -1) eqn:E2; try lia; reflexivity. Qed.

(* the substituted list is the list itself, or the list with its -1 filled in by a positive annotated dim *)
Lemma subst_dichotomy : forall v c od, (count (-1) c <= 1)%nat -> Forall2 ReshapeProofs.agree od (fill v c) ->
  subst_known od c = c \/ (subst_known od c = fill v c /\ 0 < v).
Proof.
  induction c as [|x c IH]; intros od Hc F.
  - inversion F. left. reflexivity.
  - inversion F as [|o y od' t A F']; subst. rewrite count_cons in Hc.
    destruct (x =? -1) eqn:E.
    + assert (C0 : count (-1) c = O) by lia.
      assert (R : subst_known od' c = c).
      { apply subst_id. unfold fill in F'. rewrite (ReshapeProofs.map_repl_none v c C0) in F'. exact F'. }
      destruct o as [d|]; cbn [subst_known]; rewrite R.
      * simpl in A. destruct (0 <? d) eqn:P; [right|left; reflexivity].
        unfold fill. cbn [map]. rewrite E, (ReshapeProofs.map_repl_none v c C0). subst. split; [reflexivity|lia].
      * left. reflexivity.
    + destruct (IH od' ltac:(lia) F') as [R|[R P]].
      * left. destruct o as [d|]; cbn [subst_known]; rewrite R; [|reflexivity].
        simpl in A. destruct (0 <? d); [|reflexivity]. subst. reflexivity.
      * right. split; [|exact P]. unfold fill in *. cbn [map]. rewrite E.
        destruct o as [d|]; cbn [subst_known]; rewrite R; [|reflexivity].
        simpl in A. destruct (0 <? d); [|reflexivity]. subst. reflexivity.
Qed.

Lemma fill_no_m1 : forall v l, v <> -1 -> count (-1) (fill v l) = O.
Proof.
  induction l as [|x l IH]; intro H; [reflexivity|]. unfold fill in *. cbn [map]. rewrite count_cons, (IH H).
  destruct (x =? -1) eqn:E; [destruct (v =? -1) eqn:E2; [lia|reflexivity]|rewrite E; reflexivity].
Qed.

Lemma fill_no_neg : forall v l, 0 < v -> existsb (fun d => d <? -1) l = false -> existsb (fun d => d <? -1) (fill v l) = false.
Proof.
  induction l as [|x l IH]; intros P H; [reflexivity|]. unfold fill in *. cbn [map existsb] in *.
  apply orb_false_iff in H as [H1 H2]. rewrite (IH P H2). destruct (x =? -1); [destruct (v <? -1) eqn:E; [lia|reflexivity]|rewrite H1; reflexivity].
Qed.

Lemma finish_subst : forall n c od out, finish n c = Some out -> Forall2 ReshapeProofs.agree od out ->
  finish n (subst_known od c) = Some out.
Proof.
  intros n c od out H F. unfold finish in H.
  destruct (existsb (fun d => d <? -1) c) eqn:EN; [discriminate|].
  destruct (count (-1) c) as [|[|k]] eqn:EC; try discriminate.
  - destruct (prod c =? n) eqn:E0; [|discriminate]. inversion H; subst out. rewrite (subst_id od c F). unfold finish. rewrite EN, EC, E0. reflexivity.
  - set (p := prod (filter (fun d => negb (d =? -1)) c)) in *.
    destruct (p =? 0) eqn:P0; [discriminate|]. destruct (n mod p =? 0) eqn:M; [|discriminate].
    inversion H as [Ho]. clear H. fold (fill (n / p) c) in Ho. rewrite <- Ho in F.
    destruct (subst_dichotomy (n / p) c od ltac:(lia) F) as [R|[R P]].
    + rewrite R. unfold finish. rewrite EN, EC. fold p. rewrite P0, M. reflexivity.
    + rewrite R. unfold finish. rewrite (fill_no_neg _ _ P EN), (fill_no_m1 (n / p) c ltac:(lia)).
      unfold fill. rewrite (ReshapeProofs.prod_repl_one (n / p) c EC). fold p.
      assert (n / p * p = n) by (assert (n mod p = 0) by lia; assert (p <> 0) by lia; nia).
      destruct (n / p * p =? n) eqn:E; [reflexivity|lia].
Qed.

Lemma has_subst : forall v od s, v <= 0 -> has v (subst_known od s) = true -> has v s = true.
Proof.
  intros v od s Hv. revert od. induction s as [|x s IH]; intros od H.
  - destruct od as [|[d|] od']; exact H.
  - destruct od as [|o od']; [rewrite subst_nil in H; exact H|].
    unfold has in *. destruct o as [d|]; cbn [subst_known existsb] in *.
    + apply orb_true_iff in H as [H|H]; [|rewrite (IH od' H); apply orb_true_r].
      destruct (0 <? d) eqn:P; [lia|rewrite H; reflexivity].
    + apply orb_true_iff in H as [H|H]; [rewrite H; reflexivity|rewrite (IH od' H); apply orb_true_r].
Qed.

Theorem subst_known_sound : forall az mid s2 od out, resolve az mid s2 = Some out -> truthful od out ->
  resolve az mid (subst_known od s2) = Some out.
Proof.
  unfold resolve. intros az mid s2 od out H T.
  destruct (az && has 0 s2 && has (-1) s2) eqn:G; [discriminate|].
  destruct (copy0 az mid s2) as [c|] eqn:C; [|discriminate].
  assert (G' : az && has 0 (subst_known od s2) && has (-1) (subst_known od s2) = false).
  { destruct (az && has 0 (subst_known od s2) && has (-1) (subst_known od s2)) eqn:E; [|reflexivity].
    apply andb_true_iff in E as [E E3]. apply andb_true_iff in E as [E1 E2].
    rewrite E1, (has_subst 0 od s2 ltac:(lia) E2), (has_subst (-1) od s2 ltac:(lia) E3) in G. discriminate. }
  rewrite G', (copy0_subst az s2 mid od c C). apply finish_subst; [exact H|]. apply ReshapeProofs.truthful_Forall2. exact T.
Qed.

(* the whole rule, for every runtime shape xs of x and every annotation of the output that is truthful: when the rule
   fuses, the single Reshape accepts xs whenever the two Reshapes do and gives the same shape *)
Theorem reshape_reshape_annotated_sound : forall xs s1 az1 mid s2 az2 out o s' az',
  resolve az1 xs s1 = Some mid -> nonneg mid = true -> resolve az2 mid s2 = Some out ->
  (forall so, o = Some so -> truthful (to_decl so) out) ->
  rr_rule o s2 az2 = Some (s', az') ->
  resolve az' xs s' = Some out.
Proof.
  intros xs s1 az1 mid s2 az2 out o s' az' H1 Hn H2 T R. unfold rr_rule in R.
  eapply ReshapeProofs.reshape_reshape_sound; [exact H1|exact Hn| |exact R].
  destruct o as [so|]; simpl; [|exact H2]. apply subst_known_sound; auto.
Qed.

(* when the rule declines (a 0 next to a negative entry, or two 0s, with allowzero = 0) the obvious fusion -- keep the second
   target -- is wrong: 0 would copy a dim of x instead of a dim of the intermediate tensor *)
Theorem reshape_reshape_decline_needed : exists xs s1 mid s2 out,
  resolve false xs s1 = Some mid /\ resolve false mid s2 = Some out /\ rr_rule None s2 false = None /\
  resolve (snd (rr_naive s2 false)) xs (fst (rr_naive s2 false)) <> Some out.
Proof. exists [2; 3], [3; 2], [3; 2], [0; -1], [3; 2]. repeat split; try reflexivity. vm_compute. discriminate. Qed.

Theorem reshape_reshape_decline_two_zeros : exists xs s1 mid s2 out,
  resolve false xs s1 = Some mid /\ resolve false mid s2 = Some out /\ rr_rule None s2 false = None /\
  resolve false xs s2 <> Some out.
Proof. exists [2; 3; 4], [4; 3; 2], [4; 3; 2], [0; 0; 2], [4; 3; 2]. repeat split; try reflexivity. vm_compute. discriminate. Qed.
