"""C08 helper (runs as a subprocess: JSON on stdin, one JSON line on stdout): differential sweep over the repository's
own OpInfo table.

For every entry of tests/function_libs/torch_lib/ops_test_data.TESTED_TORCHLIB_OPS (op <-> torch_lib function, with the
repository's input wranglers, tolerances and skip/xfail matchers) the function is traced as in ops_test_common.graph_executor,
run on onnxruntime (ORT_DISABLE_ALL) and compared with torch eager on OpInfo sample inputs.  Beyond what ops_test.py does:
dtypes outside its TESTED_DTYPES (uint8, int16, float64) when the function's type constraints admit them, and every integer
`dim`-like keyword argument replayed as `dim - rank` (the same call for PyTorch).

Expected failures listed by the repository (skip / xfail entries, whole-op or per-sample) are never reported.
Output: {"ran": n, "by_status": {...}, "mismatches": [key, ...], "details": {key: short text}, "ops": n_ops}
where key = "<op_info_name>|<variant>|<function>|<dtype>|<sample index>|<perturbation>|<kind>".
"""
from __future__ import annotations

import json
import sys
import time
import warnings

warnings.filterwarnings("ignore")


def main():
    cfg = json.loads(sys.stdin.read() or "{}")
    per_op = int(cfg.get("samples_per_op", 3))
    budget = float(cfg.get("budget_s", 60))
    dtype_names = cfg.get("dtypes", ["float32", "int64"])
    only = set(cfg.get("only", []))
    t0 = time.time()

    import numpy as np
    import torch
    from torch.utils import _pytree as pytree

    import os
    sys.path.insert(0, os.path.dirname(os.path.dirname(os.path.abspath(__file__))))
    from harness import c08_exec as X
    X.mods()
    from tests.function_libs.torch_lib import ops_test_common as C
    from tests.function_libs.torch_lib import ops_test_data as D

    dtypes = [getattr(torch, n) for n in dtype_names]
    opinfos = {}
    for o in D.OPS_DB:
        opinfos.setdefault(o.name, []).append(o)

    def whole_op_expected_failure(name, variant, dtype):
        for meta in D.EXPECTED_SKIPS_OR_FAILS:
            if meta.op_name != name or not meta.enabled_if:
                continue
            if (meta.variant_name or "") != (variant or ""):
                continue
            if meta.dtypes is not None and dtype not in meta.dtypes:
                continue
            if meta.device_type not in (None, "cpu"):
                continue
            if meta.test_class_name not in (None, "TestOutputConsistencyFullGraph"):
                continue
            return True
        return False

    def sample_expected_failure(name, sample, dtype):
        if name not in D.OP_WITH_SKIPPED_XFAIL_SUBTESTS:
            return False
        for meta in D.SKIP_XFAIL_SUBTESTS:
            if meta.op_name != name or not meta.enabled_if:
                continue
            if meta.dtypes is not None and dtype not in meta.dtypes:
                continue
            if meta.device_type not in (None, "cpu"):
                continue
            try:
                if meta.matcher(sample):
                    return True
            except Exception:
                return True      # a matcher that cannot judge the sample: stay on the safe side
        return False

    DIM_KEYS = ("dim", "dims", "axis", "start_dim", "end_dim", "dim0", "dim1", "dim1", "dim2")

    def perturbations(sample):
        """[(tag, kwargs)]: the sample as is, and with integer dim-like kwargs written as dim - rank"""
        out = [("as-is", dict(sample.kwargs))]
        x = sample.input
        if not isinstance(x, torch.Tensor) or x.dim() == 0:
            return out
        kw = dict(sample.kwargs)
        changed = False
        for k in DIM_KEYS:
            v = kw.get(k)
            if isinstance(v, bool):
                continue
            if isinstance(v, int) and 0 <= v < x.dim():
                kw[k] = v - x.dim()
                changed = True
            elif isinstance(v, (list, tuple)) and v and all(isinstance(q, int) and not isinstance(q, bool) and 0 <= q < x.dim() for q in v):
                kw[k] = type(v)(q - x.dim() for q in v)
                changed = True
        if changed:
            out.append(("negative-dim", kw))
        return out

    ran = 0
    by_status = {}
    mismatches, details = [], {}
    n_ops = 0
    truncated = False
    infos = sorted((i for i in D.TESTED_TORCHLIB_OPS if not i.complex), key=lambda i: (i.op_info_name, getattr(i.op, "name", "")))
    for info in infos:
        if only and info.op_info_name not in only:
            continue
        if time.time() - t0 > budget:
            truncated = True
            break
        fn = info.op
        if cfg.get("progress"):
            print("OP", info.op_info_name, file=sys.stderr, flush=True)
        fname = getattr(fn, "name", getattr(fn, "__name__", "?"))
        for op in opinfos.get(info.op_info_name, []):
            variant = op.variant_test_name or ""
            for dtype in dtypes:
                try:
                    if not op.supports_dtype(dtype, "cpu"):
                        continue
                    if not C.dtype_op_schema_compatible(dtype, fn.op_signature):
                        continue
                except Exception:
                    continue
                if whole_op_expected_failure(info.op_info_name, variant, dtype):
                    by_status["listed-whole-op"] = by_status.get("listed-whole-op", 0) + 1
                    continue
                torch.manual_seed(42)
                np.random.seed(42)
                try:
                    samples = []
                    for s in op.sample_inputs("cpu", dtype, requires_grad=False):
                        samples.append(s)
                        if len(samples) >= per_op:
                            break
                except Exception:
                    by_status["sample-generation-failed"] = by_status.get("sample-generation-failed", 0) + 1
                    continue
                n_ops += 1
                rtol, atol = info.get_tolerance(dtype)
                for si, sample in enumerate(samples):
                    if sample_expected_failure(info.op_info_name, sample, dtype):
                        by_status["listed-sample"] = by_status.get("listed-sample", 0) + 1
                        continue
                    # raw ATen / prims entry points do not validate their arguments (a negative dim can crash torch itself)
                    perts = perturbations(sample) if not info.op_info_name.startswith(("ops.", "_")) else [("as-is", dict(sample.kwargs))]
                    for tag, kw in perts:
                        key_base = f"{info.op_info_name}|{variant}|{fname}|{str(dtype).replace('torch.', '')}|{si}|{tag}"
                        inputs = (sample.input, *sample.args)
                        try:
                            torch_output = op(*inputs, **kw)
                        except Exception:
                            by_status["torch-refuses"] = by_status.get("torch-refuses", 0) + 1
                            continue
                        if isinstance(torch_output, torch.Tensor) and torch.is_complex(torch_output):
                            continue
                        ran += 1
                        status, text = "ok", ""
                        try:
                            input_onnx = [C.convert_tensor_to_numpy(x) for x in inputs]
                            kwargs_onnx = C.convert_kwargs_for_onnx(kw)
                            if info.input_wrangler:
                                input_onnx, kwargs_onnx = info.input_wrangler(input_onnx, kwargs_onnx)
                            a2 = [torch.from_numpy(a) if isinstance(a, np.ndarray) else
                                  ([torch.from_numpy(b) if isinstance(b, np.ndarray) else b for b in a] if isinstance(a, (list, tuple)) else a)
                                  for a in input_onnx]
                            k2 = {k: (torch.from_numpy(v) if isinstance(v, np.ndarray) else v) for k, v in kwargs_onnx.items()}
                            tr = X.trace(fn, a2, k2)
                            got = X.run_ort(tr)
                        except Exception as e:
                            msg = str(e)
                            if any(s in msg for s in ("NOT_IMPLEMENTED", "Could not find an implementation", "Type Error: Type 'tensor(")):
                                status = "no-kernel"
                            else:
                                status, text = "error", f"{type(e).__name__}: {msg[:160]}"
                        if status == "ok":
                            flat_t, _ = pytree.tree_flatten(torch_output)
                            flat_g, _ = pytree.tree_flatten(got)
                            if len(flat_t) != len(flat_g):
                                status, text = "structure", f"{len(flat_g)} vs {len(flat_t)} outputs"
                            else:
                                for j, (t, g) in enumerate(zip(flat_t, flat_g)):
                                    expected = t if isinstance(t, torch.Tensor) else torch.tensor(t)
                                    actual = torch.tensor(g)
                                    if info.op_info_name in D.NONDETERMINISTIC_OPS or j in D.COMPARE_SHAPE_ONLY_OPS[info.op_info_name]:
                                        if actual.shape != expected.shape or actual.dtype != expected.dtype:
                                            status, text = "shape-dtype", f"{actual.dtype}{tuple(actual.shape)} vs {expected.dtype}{tuple(expected.shape)}"
                                        continue
                                    try:
                                        torch.testing.assert_close(actual, expected, rtol=rtol, atol=atol, equal_nan=True, check_device=False)
                                    except AssertionError as e:
                                        first = str(e).strip().splitlines()[0][:120]
                                        status = "dtype" if "dtype" in first else ("shape" if "shape" in first else "values")
                                        text = first
                                        break
                        by_status[status] = by_status.get(status, 0) + 1
                        if status not in ("ok", "no-kernel"):
                            key = key_base + "|" + status
                            mismatches.append(key)
                            details[key] = text
    e2e = end_to_end(cfg) if cfg.get("e2e", True) else {}
    print(json.dumps({"e2e": e2e, "ran": ran, "ops": n_ops, "by_status": by_status, "mismatches": sorted(set(mismatches)),
                      "details": details, "truncated": truncated, "wall_s": round(time.time() - t0, 1)}))


def end_to_end(cfg):
    """torch.onnx.export(dynamo=True) of small modules built from the modelled operators; the exported model on
    onnxruntime vs the module.  -> {name: "equal" | "values" | "shape" | "dtype" | "export-error: ..."}"""
    import io

    import numpy as np
    import onnxruntime as ort
    import torch

    def mod(f):
        class M(torch.nn.Module):
            def forward(self, *xs):
                return f(*xs)
        return M()

    x23 = torch.arange(6).reshape(2, 3)
    x234 = torch.arange(24).reshape(2, 3, 4)
    mods = {
        "roll-last-dim": (mod(lambda x: torch.roll(x, 1, -1)), (x23,)),
        "roll-shift-beyond-size": (mod(lambda x: torch.roll(x.reshape(2, -1), -5, 1).transpose(0, -1)), (torch.arange(8),)),
        "roll-within-size": (mod(lambda x: torch.roll(x, [1, -2], [0, 1])), (x234,)),
        "narrow-flatten": (mod(lambda x: torch.narrow(x, 0, -2, 2).flatten(0) + 1), (torch.arange(12).reshape(4, 3),)),
        "div-floor-sum": (mod(lambda x: torch.div(x, 3, rounding_mode="floor").sum(dim=-1, keepdim=True)), (torch.arange(-6, 6).reshape(3, 4),)),
        "views": (mod(lambda x: x.permute(2, -3, 1).flatten(1).unsqueeze(-1).expand(-1, -1, 2).transpose(0, -1).reshape(2, -1)), (x234,)),
        "index-ops": (mod(lambda x: torch.cat([x.select(1, -1), x[:, 0, :].flip(-1)], -1).cumsum(0).clamp(3, 40)), (x234,)),
        "stack-split-tril": (mod(lambda x: torch.stack(torch.split(x, 2, -1), 0).sum(0).tril(-1).remainder(-5)), (x234,)),
    }
    out = {}
    for name in sorted(mods):
        m, args = mods[name]
        try:
            prog = torch.onnx.export(m, args, dynamo=True, verbose=False)
            buf = io.BytesIO()
            prog.save(buf)
            so = ort.SessionOptions()
            so.log_severity_level = 4
            sess = ort.InferenceSession(buf.getvalue(), so, providers=["CPUExecutionProvider"])
            got = sess.run(None, {i.name: a.numpy() for i, a in zip(sess.get_inputs(), args)})[0]
            want = m(*args).numpy()
            if got.dtype != want.dtype:
                out[name] = "dtype"
            elif got.shape != want.shape:
                out[name] = "shape"
            else:
                out[name] = "equal" if np.array_equal(got, want) else "values"
        except Exception as e:
            out[name] = "export-error: " + type(e).__name__
    return out


if __name__ == "__main__":
    main()
