(* C18, module trees built imperatively: every operation onnxscript.nn offers on Module / ModuleList / Sequential
   objects (Module.__setattr__ with a Parameter or a child, incl. re-assignment under a new or an existing name and
   a child attached under two names or moved from another parent; ModuleList.append / extend; slices of a
   ModuleList or Sequential; _set_name; deleting an attribute), executed in ANY order on a heap of objects
   (OV.Builder.ModOps).  ModuleList.insert / __setitem__ / __delitem__, register_parameter / register_module do not
   exist in onnxscript.nn (asserted by the harness on every run).
   The side condition `heap_okb` is evaluated on the object graph reachable from the root after the program has run
   (names propagated, keys are identifiers and equal the Parameter names, no Parameter object reachable twice); the
   program itself is unrestricted, so the run_ops / to_tree hypotheses only say where the tree comes from.
   Not covered: the order in which a user-written forward() reaches its children (the model calls every registered
   child once in registration order; `mo_direct` = the children of a Sequential child are called directly);
   explicit names that differ from the registration key (the caller's choice; outside heap_okb). *)
From Coq Require Import String List Bool Arith.
Require Import OV.Builder.Strings OV.Builder.Modules OV.Builder.ModulesProofs OV.Builder.ModOps OV.Builder.ModOpsProofs.
Import ListNotations.
Local Open Scope string_scope.

Theorem C18_modops_param_names_eq_state_dict : forall ops hp root fuel t,
  run_ops empty_heap ops = Some hp -> to_tree fuel hp root false = Some t -> heap_okb t = true ->
  realised_names cfg_fixed t = map (prefix (root_name t)) (sd_keys t).
Proof. exact modops_param_names_eq_state_dict. Qed.
Print Assumptions C18_modops_param_names_eq_state_dict.

Theorem C18_modops_params_once : forall ops hp root fuel t,
  run_ops empty_heap ops = Some hp -> to_tree fuel hp root false = Some t -> heap_okb t = true ->
  NoDup (realised_names cfg_fixed t) /\ List.length (realised_names cfg_fixed t) = List.length (param_ids t).
Proof. exact modops_params_once. Qed.
Print Assumptions C18_modops_params_once.

(* the side condition is decidable AND implies the (propositional) hypotheses of the tree theorem *)
Theorem C18_modops_side_condition_sound : forall t, heap_okb t = true -> tree_hyps cfg_fixed t.
Proof. exact heap_ok_hyps. Qed.
Print Assumptions C18_modops_side_condition_sound.

(* satisfiable by a program that uses every operation (late appends, re-assignment, rename, del) *)
Example C18_modops_hypotheses_satisfiable :
  exists hp t, run_ops empty_heap ex_ops = Some hp /\ to_tree (fuel_of (h_objs hp)) hp 0 false = Some t /\
    heap_okb t = true /\
    realised_names cfg_fixed t = ["model.bias"; "model.layers.0.w"; "model.layers.1.w"; "model.layers.2.0.w"].
Proof. exact ex_ops_ok. Qed.

(* outside the side condition, replayed on the real classes by the harness (findings):
   the children of a Sequential called directly (seq[i](op, x), iteration, a forward-time slice) carry bare keys *)
Theorem C18_seq_child_called_directly_refuted :
  exists hp t, run_ops empty_heap w_seq_direct = Some hp /\ to_tree (fuel_of (h_objs hp)) hp 0 false = Some t /\
    keys_okb t = true /\ nodup_natb (param_ids t) = true /\
    realised_names cfg_fixed t = ["root.0.w"; "root.1.w"] /\ sd_keys t = ["seq.0.w"; "seq.1.w"].
Proof. exact seq_child_called_directly_refuted. Qed.
Print Assumptions C18_seq_child_called_directly_refuted.

(* a module that was registered somewhere else before (a temporary holder, a list) keeps that name although the final
   tree registers it exactly once *)
Theorem C18_reattached_module_refuted :
  exists hp t, run_ops empty_heap w_reattached = Some hp /\ to_tree (fuel_of (h_objs hp)) hp 0 false = Some t /\
    keys_okb t = true /\ nodup_natb (param_ids t) = true /\
    realised_names cfg_fixed t = ["root.c.w"] /\ sd_keys t = ["d.w"].
Proof. exact reattached_module_refuted. Qed.
Print Assumptions C18_reattached_module_refuted.
