(* Common-subexpression elimination beyond merge_guard (Opt/Cse.v, Opt/CseProofs.v), for arbitrary kernels:
   - merge_sound_deep: the removed outputs may be used at any depth (nested If / Loop bodies) and may be graph outputs; the
     result is the CANONICAL merged graph: the later twin dropped, every use of its outputs redirected to the earlier twin's
     (use_nodes), the graph outputs redirected as well (map rho go).  Side conditions: merge_guard_deep.
   - what the real pass does when a removed output yb is a graph output, twins with one output:
       * Identity path (the earlier output ya is itself a graph input / output): the later twin is replaced by
         yb = Identity(ya) and the other uses are redirected; graph outputs untouched (merge_sound_identity, Identity kernel);
       * rename path (otherwise): the earlier value takes the name yb.  That graph is the canonical one renamed by the
         injective map ya -> yb (yb no longer occurs in the canonical graph), and renaming preserves evaluation
         (merge_sound_rename, on top of SemLemmas.eval_graph_ren). *)
From Coq Require Import List String ZArith Bool Lia.
Require Import OV.Graph.Syntax OV.Graph.Sem OV.Graph.Names OV.Graph.SemProofs OV.Opt.Fold OV.Opt.SemLemmas.
Require Import OV.Opt.Dce OV.Opt.DceProofs OV.Opt.Cse OV.Opt.CseProofs OV.Opt.Use OV.Opt.UseProofs.
Import ListNotations.
Local Open Scope list_scope.

(* like merge_guard, but uses inside nested graphs and as graph outputs are allowed: nothing bound in the rest (at any depth)
   is one of the twins' outputs *)
Definition merge_guard_deep (a : node) (mid : list node) (b : node) (suf : list node) : bool :=
  let ya := n_outs a in let yb := n_outs b in
  String.eqb (n_dom a) (n_dom b) && String.eqb (n_op a) (n_op b) &&
  list_eqb oname_eqb (n_ins a) (n_ins b) && attrs_list_eqb (n_attrs a) (n_attrs b) &&
  match n_subs a, n_subs b with [], [] => true | _, _ => false end &&
  negb (String.eqb (n_dom a) "" && (String.eqb (n_op a) "If" || String.eqb (n_op a) "Loop")) &&
  nodupb ya &&
  disjointb ya (present (n_ins a)) &&
  disjointb (flat_map n_outs mid) (present (n_ins a) ++ ya)%list &&
  disjointb (binds_nodes suf) (ya ++ yb)%list.

Lemma stable_ren yb ya B : disjoint B (ya ++ yb) -> stable (ren (combine yb ya)) B.
Proof.
  intros D b Hb. assert (Nb : ~ In b (ya ++ yb)) by (apply D; exact Hb). split.
  - apply ren_id. intro Hi. apply Nb, in_or_app. right. exact Hi.
  - intros x Hx. destruct (ren_range yb ya x) as [E|E]; [congruence|]. rewrite Hx in E. exfalso. apply Nb, in_or_app. left. exact E.
Qed.

Section P.
  Variable V : Type.
  Variable sem : string -> string -> list (string * attrv) -> list (option V) -> option (list V).
  Variable truth : V -> option bool.
  Variable trip : V -> option nat.
  Variable of_nat : nat -> V.
  Variable of_bool : bool -> V.
  Variable limit : nat.

  Notation env := (list (vname * V)).
  Notation eval_node := (eval_node V sem truth trip of_nat of_bool limit).
  Notation run := (run V sem truth trip of_nat of_bool limit).
  Notation eval_graph := (eval_graph V sem truth trip of_nat of_bool limit).

  Lemma skip_bl (b e : env) x : ~ In x (map fst b) -> lookup (b ++ e) x = lookup e x.
  Proof.
    induction b as [|[y v] t IH]; cbn; [reflexivity|]. intro H.
    destruct (String.eqb x y) eqn:E; [apply String.eqb_eq in E; subst; tauto|apply IH; tauto].
  Qed.

  (* the state after the later twin: its outputs are bound to what the earlier twin's outputs are bound to *)
  Lemma twin_state F outer gi p dom op ins attrs ya yb mid args e0 em eb :
    is_if dom op = false -> is_loop dom op = false ->
    nodupb ya = true -> disjoint ya (present ins) -> disjoint (defs_nodes mid) (present ins ++ ya) ->
    bind gi args outer = Some e0 ->
    run (eval_graph F) e0 (p ++ Node dom op ins ya attrs [] :: mid) = Some em ->
    eval_node (eval_graph F) em (Node dom op ins yb attrs []) = Some eb ->
    exists rs, bind yb rs em = Some eb /\ lookups em ya = Some rs.
  Proof.
    intros NI NL Nya Dai Dmid _ Rm Eb.
    rewrite (run_app V sem truth trip of_nat of_bool limit) in Rm.
    destruct (run (eval_graph F) e0 p) as [ep|]; [|discriminate]. cbn [Sem.run] in Rm.
    destruct (eval_node (eval_graph F) ep (Node dom op ins ya attrs [])) as [ea|] eqn:Ea; [|discriminate].
    unfold Sem.eval_node in Ea. rewrite NI, NL in Ea.
    destruct (lookup_opts ep ins) as [vs|] eqn:Li; [|discriminate].
    destruct (sem dom op attrs vs) as [rs|] eqn:Se; [|discriminate].
    pose proof (run_agree_defs V sem truth trip of_nat of_bool limit _ _ _ _ Rm) as Am.
    assert (Lya : lookups em ya = Some rs).
    { rewrite (agree_lookups V (defs_nodes mid) em ea ya Am).
      - exact (lookups_bind_nodup V ya rs ep ea Nya Ea).
      - intros x Hx Hy. apply (Dmid x Hx). apply in_or_app. right. exact Hy. }
    assert (Lim : lookup_opts em ins = Some vs).
    { rewrite (agree_lookup_opts V (defs_nodes mid) em ea ins Am).
      - destruct (bind_shape V ya rs ep ea Ea) as [b [-> Hb]].
        rewrite <- Li. apply (agree_lookup_opts V ya).
        + intros x Hx. apply skip_bl. rewrite Hb. exact Hx.
        + exact Dai.
      - intros x Hx Hy. apply (Dmid x Hx). apply in_or_app. left. exact Hy. }
    unfold Sem.eval_node in Eb. rewrite NI, NL, Lim, Se in Eb. exists rs. auto.
  Qed.

  Theorem merge_sound_deep_props : forall F outer gi gn p dom op ins attrs ya yb mid suf go args r,
    is_if dom op = false -> is_loop dom op = false ->
    nodupb ya = true -> disjoint ya (present ins) -> disjoint (defs_nodes mid) (present ins ++ ya) ->
    disjoint (binds_nodes suf) (ya ++ yb) ->
    eval_graph (S F) outer (Graph gi gn ((p ++ Node dom op ins ya attrs [] :: mid) ++ Node dom op ins yb attrs [] :: suf) go) args = Some r ->
    eval_graph (S F) outer (Graph gi gn ((p ++ Node dom op ins ya attrs [] :: mid) ++ use_nodes (ren (combine yb ya)) suf)
                                  (map (ren (combine yb ya)) go)) args = Some r.
  Proof.
    intros F outer gi gn p dom op ins attrs ya yb mid suf go args r NI NL Nya Dai Dmid Dsuf.
    cbn [Sem.eval_graph]. unfold Sem.eval_body. cbn [g_ins g_nodes g_outs].
    destruct (bind gi args outer) as [e0|] eqn:B0; [|auto].
    rewrite !(run_app V sem truth trip of_nat of_bool limit (eval_graph F) e0 (p ++ Node dom op ins ya attrs [] :: mid)).
    destruct (run (eval_graph F) e0 (p ++ Node dom op ins ya attrs [] :: mid)) as [em|] eqn:Rm; [|auto].
    cbn [Sem.run].
    destruct (eval_node (eval_graph F) em (Node dom op ins yb attrs [])) as [eb|] eqn:Eb; [|discriminate].
    destruct (twin_state F outer gi p dom op ins attrs ya yb mid args e0 em eb NI NL Nya Dai Dmid B0 Rm Eb) as [rs [Bb Lya]].
    destruct (run (eval_graph F) eb suf) as [af|] eqn:Rs; [|discriminate].
    pose proof (bind_ren V yb ya rs em eb Bb Lya) as R0.
    destruct (run_use V sem truth trip of_nat of_bool limit (ren (combine yb ya)) F suf
                (use_graph_sound V sem truth trip of_nat of_bool limit (ren (combine yb ya)) F) eb em af R0
                (stable_ren yb ya _ Dsuf) Rs) as [bl [-> [Rs' [R1 _]]]].
    intro Hl. apply (opt_tail V _ (bl ++ em) _ r Rs'). exact (lookups_map V _ _ _ R1 go r Hl).
  Qed.

  Theorem merge_sound_deep : forall F outer gi gn p a mid b suf go args r,
    merge_guard_deep a mid b suf = true ->
    eval_graph (S F) outer (Graph gi gn ((p ++ a :: mid) ++ b :: suf) go) args = Some r ->
    eval_graph (S F) outer (Graph gi gn ((p ++ a :: mid) ++ use_nodes (ren (combine (n_outs b) (n_outs a))) suf)
                                  (map (ren (combine (n_outs b) (n_outs a))) go)) args = Some r.
  Proof.
    intros F outer gi gn p [da oa ia ya aa sa] mid [db ob ib yb ab sb] suf go args r G.
    unfold merge_guard_deep in G. cbn [n_dom n_op n_ins n_outs n_attrs n_subs] in G.
    apply andb_true_iff in G as [G G10]. apply andb_true_iff in G as [G G9]. apply andb_true_iff in G as [G G8].
    apply andb_true_iff in G as [G G7]. apply andb_true_iff in G as [G G6]. apply andb_true_iff in G as [G G5].
    apply andb_true_iff in G as [G G4]. apply andb_true_iff in G as [G G3]. apply andb_true_iff in G as [G1 G2].
    apply String.eqb_eq in G1, G2. apply (list_eqb_eq _ oname_eqb_eq) in G3. apply attrs_list_eqb_eq in G4.
    destruct sa; [|discriminate]. destruct sb; [|discriminate]. subst db ob ib ab. cbn [n_outs].
    apply merge_sound_deep_props.
    - unfold is_if. apply negb_true_iff in G6. destruct (String.eqb da ""); [|reflexivity]. cbn in *. apply orb_false_iff in G6. tauto.
    - unfold is_loop. apply negb_true_iff in G6. destruct (String.eqb da ""); [|reflexivity]. cbn in *. apply orb_false_iff in G6. tauto.
    - exact G7.
    - apply disjointb_ok. exact G8.
    - apply disjointb_ok. exact G9.
    - apply disjointb_ok. exact G10.
  Qed.

  (* ---- Identity path, twins with one output: the later twin becomes yb = Identity(ya), other uses are redirected,
     graph outputs stay *)
  Theorem merge_sound_identity : (forall attrs v, sem "" "Identity" attrs [Some v] = Some [v]) ->
    forall F outer gi gn p dom op ins attrs ya yb mid suf go args r,
    is_if dom op = false -> is_loop dom op = false -> ya <> yb ->
    disjoint [ya] (present ins) -> disjoint (defs_nodes mid) (present ins ++ [ya]) ->
    disjoint (binds_nodes suf) ([ya] ++ [yb]) ->
    eval_graph (S F) outer (Graph gi gn ((p ++ Node dom op ins [ya] attrs [] :: mid) ++ Node dom op ins [yb] attrs [] :: suf) go) args = Some r ->
    eval_graph (S F) outer (Graph gi gn ((p ++ Node dom op ins [ya] attrs [] :: mid) ++
                                         Node "" "Identity" [Some ya] [yb] [] [] :: use_nodes (ren [(yb, ya)]) suf) go) args = Some r.
  Proof.
    intros HI F outer gi gn p dom op ins attrs ya yb mid suf go args r NI NL Ne Dai Dmid Dsuf.
    cbn [Sem.eval_graph]. unfold Sem.eval_body. cbn [g_ins g_nodes g_outs].
    destruct (bind gi args outer) as [e0|] eqn:B0; [|auto].
    rewrite !(run_app V sem truth trip of_nat of_bool limit (eval_graph F) e0 (p ++ Node dom op ins [ya] attrs [] :: mid)).
    destruct (run (eval_graph F) e0 (p ++ Node dom op ins [ya] attrs [] :: mid)) as [em|] eqn:Rm; [|auto].
    cbn [Sem.run].
    destruct (eval_node (eval_graph F) em (Node dom op ins [yb] attrs [])) as [eb|] eqn:Eb; [|discriminate].
    assert (Nya : nodupb [ya] = true) by reflexivity.
    destruct (twin_state F outer gi p dom op ins attrs [ya] [yb] mid args e0 em eb NI NL Nya Dai Dmid B0 Rm Eb) as [rs [Bb Lya]].
    cbn in Lya. destruct (lookup em ya) as [v|] eqn:Lv; [|discriminate]. inversion Lya; subst rs. cbn in Bb. inversion Bb; subst eb.
    (* the Identity node produces the same state *)
    unfold Sem.eval_node at 1. cbn [is_if is_loop String.eqb Ascii.eqb Bool.eqb andb lookup_opts]. rewrite Lv, HI. cbn [bind option_map].
    destruct (run (eval_graph F) ((yb, v) :: em) suf) as [af|] eqn:Rs; [|discriminate].
    assert (R0 : rel V (ren (combine [yb] [ya])) ((yb, v) :: em) ((yb, v) :: em)).
    { intros x w. cbn. destruct (String.eqb x yb) eqn:E.
      - intro H; inversion H; subst. destruct (String.eqb ya yb) eqn:E2; [apply String.eqb_eq in E2; contradiction|exact Lv].
      - rewrite E. auto. }
    destruct (run_use V sem truth trip of_nat of_bool limit (ren (combine [yb] [ya])) F suf
                (use_graph_sound V sem truth trip of_nat of_bool limit (ren (combine [yb] [ya])) F) _ _ af R0
                (stable_ren [yb] [ya] _ Dsuf) Rs) as [bl [-> [Rs' _]]].
    cbn [combine] in Rs'. intro Hl. apply (opt_tail V _ _ _ r Rs'). exact Hl.
  Qed.

  (* ---- rename path: the canonical graph renamed by an injective map evaluates alike *)
  Theorem merge_sound_rename : forall sigma N, (forall x y, In x N -> In y N -> sigma x = sigma y -> x = y) ->
    forall F outer g_can args r, incl (names_graph g_can) N ->
    (forall x, In x N -> lookup outer (sigma x) = lookup outer x) ->
    eval_graph F outer g_can args = Some r -> eval_graph F outer (map_graph sigma g_can) args = Some r.
  Proof.
    intros sigma N Inj F outer g args r I Ro H.
    rewrite (eval_graph_ren V sem truth trip of_nat of_bool limit sigma N Inj F outer outer g args I Ro). exact H.
  Qed.
End P.
