(* Model of onnx_ir.passes.common.unused_removal.RemoveUnusedNodesPass (dead-node removal), the pass that
   onnxscript.optimizer.optimize_ir runs inside its loop and once more after it (C03 / C04).

   _remove_unused_nodes_in_graph_like walks the nodes of a graph LAST TO FIRST.  A node is removed when none of its
   outputs is an output of THIS graph and none has a use (Value.uses(): the node inputs that refer to it, in this graph
   or in any nested graph).  Graph.remove(safe=True) detaches the direct inputs of a removed node, so the producers of
   those inputs can go in the same walk; the nodes INSIDE the graph attributes of a removed node stay users of the
   enclosing-scope values they read (`linger` below).  A kept node has its graph attributes swept recursively before
   the walk continues.  Afterwards the initializers of the MAIN graph that have no use and are neither graph inputs nor
   graph outputs are dropped.

   `live` is the list of names that still have a use at the point of the walk.  The model counts the output list of a
   nested graph as a use of the names in it (`reads_graph`): onnx_ir does not, the two coincide on models whose nested
   graphs produce their own outputs (Graph/Wf.v: wf_graphb), and a model on which they differ shows up as a
   correspondence disagreement that the harness takes to the runtime oracle.
   NOT modelled (compared modulo them by the harness): trimming of trailing omitted inputs, renaming / trimming of unused
   optional outputs, BatchNormalization training outputs.  No proofs in this file. *)
From Coq Require Import List String ZArith Bool.
Require Import OV.Graph.Syntax.
Import ListNotations.
Local Open Scope string_scope.

(* names read by a node / graph, nested graphs included: node inputs and graph output lists *)
Fixpoint reads_node (n : node) : list vname :=
  let 'Node _ _ ins _ _ subs := n in
  (present ins ++
   (fix go (l : list (string * graph)) : list vname :=
      match l with [] => [] | (_, g) :: t => (reads_graph g ++ go t)%list end) subs)%list
with reads_graph (g : graph) : list vname :=
  let 'Graph _ _ nodes outs := g in
  (outs ++
   (fix go (l : list node) : list vname :=
      match l with [] => [] | n :: t => (reads_node n ++ go t)%list end) nodes)%list.

Fixpoint reads_subs (l : list (string * graph)) : list vname :=
  match l with [] => [] | (_, g) :: t => (reads_graph g ++ reads_subs t)%list end.
Fixpoint reads_nodes (l : list node) : list vname :=
  match l with [] => [] | n :: t => (reads_node n ++ reads_nodes t)%list end.

Definition any_live (live : list vname) (outs : list vname) : bool := existsb (fun o => mem o live) outs.

Definition sweep_subs (rec : graph -> graph) (subs : list (string * graph)) : list (string * graph) :=
  map (fun kg => (fst kg, rec (snd kg))) subs.

Definition sweep_node (rec : graph -> graph) (n : node) : node :=
  let 'Node d o i u a s := n in Node d o i u a (sweep_subs rec s).

(* last to first: the recursive call handles the later nodes; -> (kept nodes, names with a use) *)
Fixpoint sweep_nodes (rec : graph -> graph) (ns : list node) (live0 : list vname) : list node * list vname :=
  match ns with
  | [] => ([], live0)
  | n :: t =>
    let '(t', live) := sweep_nodes rec t live0 in
    if any_live live (n_outs n) then
      let n' := sweep_node rec n in (n' :: t', (reads_node n' ++ live)%list)
    else (t', (reads_subs (n_subs n) ++ live)%list)          (* linger: users inside the removed node's graphs *)
  end.

Definition sweep_graph_with (rec : graph -> graph) (g : graph) : graph :=
  let 'Graph i ii ns o := g in Graph i ii (fst (sweep_nodes rec ns o)) o.

(* d = nesting depth to descend (depth_graph g suffices); at depth 0 the graph is left alone *)
Fixpoint sweep_graph (d : nat) (g : graph) : graph :=
  match d with
  | O => g
  | S d' => sweep_graph_with (sweep_graph d') g
  end.

(* the pass on the main graph: sweep, then drop the unused initializers *)
Definition dce_main (d : nat) (g : graph) : graph :=
  let 'Graph i ii ns o := sweep_graph d g in
  let used := (reads_nodes ns ++ o ++ i)%list in
  Graph i (filter (fun x => mem x used) ii) ns o.

Definition dce (g : graph) : graph := dce_main (depth_graph g) g.
Definition dce_function (g : graph) : graph := sweep_graph (depth_graph g) g.
