(* C09 -- proofs for Shape/Extra.v: every statement is for all shapes / all bindings of the symbols. *)
From Coq Require Import String ZArith List Bool Lia ZifyBool.
Require Import OV.Shape.SymDim OV.Shape.SymDimProofs OV.Shape.PartialEval OV.Shape.PartialEvalProofs OV.Shape.Extra.
Require Import OV.Shape.Materialize OV.Shape.MaterializeProofs OV.Shape.Broadcast OV.Shape.BroadcastProofs.
Import ListNotations.
Open Scope Z_scope.
Ltac Zify.zify_post_hook ::= Z.to_euclidean_division_equations.

(* ---- Size ------------------------------------------------------------------------------------------------- *)
Theorem size_fold_sound : forall rho x cx n, size_fold x = Some n -> shape_denotes rho x cx -> zprod cx = n.
Proof.
  intros rho x cx n H F. revert n H. induction F as [|d c x cx D F IH]; intros n H; simpl in *.
  - inversion H. reflexivity.
  - destruct d as [a| |]; try discriminate. destruct (size_fold x) as [b|]; [|discriminate].
    inversion H; subst. simpl in D. subst. rewrite (IH b eq_refl). reflexivity.
Qed.

Theorem size_fold_static_iff : forall x, (exists n, size_fold x = Some n) <-> all_int x = true.
Proof.
  induction x as [|d x IH]; simpl.
  - split; eauto.
  - destruct d as [a| |]; simpl.
    + rewrite <- IH. split; intros [n H].
      * destruct (size_fold x) as [b|]; [eauto|discriminate].
      * rewrite H. eauto.
    + split; [intros [n H]; discriminate|discriminate].
    + split; [intros [n H]; discriminate|discriminate].
Qed.

(* ---- _merge_shapes ------------------------------------------------------------------------------------------ *)
Lemma merge_dims_either : forall d1 d2, merge_dims d1 d2 = d1 \/ merge_dims d1 d2 = d2.
Proof. intros [a|s|] [b|t|]; unfold merge_dims; simpl; try destruct (_ =? _)%Z; try destruct (String.eqb _ _); auto. Qed.

Lemma merge_dims_denotes : forall rho d1 d2 n, denotes rho d1 n -> denotes rho d2 n -> denotes rho (merge_dims d1 d2) n.
Proof. intros rho d1 d2 n H1 H2. destruct (merge_dims_either d1 d2) as [E|E]; rewrite E; assumption. Qed.

Lemma map2_merge_denotes : forall rho a b c, shape_denotes rho a c -> shape_denotes rho b c -> shape_denotes rho (map2 merge_dims a b) c.
Proof.
  intros rho a b c Ha. revert b. induction Ha as [|d n a c D F IH]; intros b Hb; inversion Hb; subst; simpl; constructor.
  - apply merge_dims_denotes; assumption.
  - apply IH. assumption.
Qed.

(* both annotations describe the same runtime tensor (input and output of Identity; declared and inferred shape of one
   value): whatever the merge keeps is still truthful, for every binding *)
Theorem merge_shapes_sound : forall rho p o c,
  (forall a, p = Some a -> shape_denotes rho a c) -> (forall b, o = Some b -> shape_denotes rho b c) ->
  forall r, merge_shapes p o = Some r -> shape_denotes rho r c.
Proof.
  intros rho p o c Hp Ho r H. destruct p as [a|], o as [b|]; simpl in H; try discriminate.
  - destruct (Nat.eqb (List.length a) (List.length b)); inversion H; subst; auto using map2_merge_denotes.
  - inversion H; subst; auto.
  - inversion H; subst; auto.
Qed.

(* the merge never forgets an int: if either side knows the size, the result does *)
Theorem merge_dims_keeps_int : forall d1 d2 z, d1 = DInt z \/ (d2 = DInt z /\ forall y, d1 <> DInt y) -> merge_dims d1 d2 = DInt z.
Proof.
  intros d1 d2 z [H|[H N]]; subst; unfold merge_dims.
  - destruct d2; simpl; try reflexivity. destruct (z =? n) eqn:E; reflexivity.
  - destruct d1 as [y| |]; simpl; try reflexivity. exfalso. apply (N y). reflexivity.
Qed.

(* ---- Concat: dropping operands that are empty along the axis -------------------------------------------------- *)
Lemma flat_map_filter_nil : forall {A B} (f : A -> list B) (keep : A -> bool) l,
  (forall a, In a l -> keep a = false -> f a = []) -> flat_map f (filter keep l) = flat_map f l.
Proof.
  induction l as [|a l IH]; intros H; simpl; [reflexivity|].
  destruct (keep a) eqn:E; simpl; rewrite IH; auto using in_cons.
  rewrite (H a (in_eq _ _) E). reflexivity.
Qed.

(* element level, any element type, any number of operands, any axis (blocks = per outer index): an operand all of
   whose blocks are empty contributes nothing *)
Theorem block_concat_drop : forall {V} outer (keep : list (list V) -> bool) (ops : list (list (list V))),
  (forall op, In op ops -> keep op = false -> forall o, nth o op [] = []) ->
  block_concat outer (filter keep ops) = block_concat outer ops.
Proof.
  intros V outer keep ops H. unfold block_concat. apply map_ext. intro o.
  apply flat_map_filter_nil. intros op Hin Hk. apply H; assumption.
Qed.

Lemma forallb2_zeqb_eq : forall a b, forallb2 Z.eqb a b = true -> a = b.
Proof.
  induction a as [|x a IH]; intros [|y b] H; simpl in *; try discriminate; [reflexivity|].
  apply andb_true_iff in H as [H1 H2]. f_equal; [lia|auto].
Qed.

Lemma forallb2_zeqb_refl : forall a, forallb2 Z.eqb a a = true.
Proof. induction a; simpl; [reflexivity|]. rewrite Z.eqb_refl. assumption. Qed.

Lemma set_nth_twice : forall {A} (l : list A) n v w, set_nth (set_nth l n v) n w = set_nth l n w.
Proof. induction l; intros [|n] v w; simpl; try reflexivity. f_equal. apply IHl. Qed.

Lemma set_nth_len : forall {A} (l : list A) n v, List.length (set_nth l n v) = List.length l.
Proof. induction l; intros [|n] v; simpl; try reflexivity. f_equal. apply IHl. Qed.

Lemma compatible_set : forall ax a b v, compatible ax a b = true -> set_nth a ax v = set_nth b ax v.
Proof.
  unfold compatible. intros ax a b v H. apply andb_true_iff in H as [_ H]. apply forallb2_zeqb_eq in H.
  rewrite <- (set_nth_twice a ax 0 v), H. apply set_nth_twice.
Qed.

Lemma compatible_len : forall ax a b, compatible ax a b = true -> List.length a = List.length b.
Proof. unfold compatible. intros ax a b H. apply andb_true_iff in H as [H _]. apply Nat.eqb_eq. assumption. Qed.

Lemma compatible_trans : forall ax a b c, compatible ax a b = true -> compatible ax a c = true -> compatible ax b c = true.
Proof.
  unfold compatible. intros ax a b c H1 H2.
  apply andb_true_iff in H1 as [L1 E1]. apply andb_true_iff in H2 as [L2 E2].
  apply Nat.eqb_eq in L1, L2. apply forallb2_zeqb_eq in E1, E2.
  apply andb_true_iff. split; [apply Nat.eqb_eq; congruence|]. rewrite <- E1, E2. apply forallb2_zeqb_refl.
Qed.

Lemma set_nth_self : forall (l : list Z) n, set_nth l n (nth n l 0) = l.
Proof. induction l; intros [|n]; simpl; try reflexivity. f_equal. apply IHl. Qed.

(* operands as (kept?, concrete shape) *)
Definition kept (ops : list (bool * list Z)) : list (list Z) := map snd (filter fst ops).
Definition droppable (ax : nat) (ops : list (bool * list Z)) : Prop :=
  Forall (fun p => fst p = false -> nth ax (snd p) 0 = 0) ops.

Lemma sum_kept : forall ax ops, droppable ax ops ->
  fold_right Z.add 0 (map (fun c => nth ax c 0) (kept ops)) = fold_right Z.add 0 (map (fun c => nth ax c 0) (map snd ops)).
Proof.
  unfold kept. induction 1 as [|[k c] ops D F IH]; simpl; [reflexivity|].
  destruct k; simpl in *; [rewrite IH; reflexivity|]. rewrite IH, (D eq_refl). reflexivity.
Qed.

Lemma forallb_kept : forall f ops, forallb f (map snd ops) = true -> forallb f (kept ops) = true.
Proof.
  unfold kept. induction ops as [|[k c] ops IH]; simpl; intro H; [reflexivity|].
  apply andb_true_iff in H as [H1 H2]. destruct k; simpl; [rewrite H1; auto|auto].
Qed.

(* If the original Concat accepts the operand shapes, so does the Concat of the kept operands, with the same output
   shape -- whatever subset of the operands that are EMPTY ALONG THE AXIS is dropped (the code drops those annotated with
   the int 0), for every axis and rank. *)
Theorem concat_drop_shape_sound : forall axis ops r,
  concat_shape axis (map snd ops) = Some r ->
  (forall ax, norm_axis (Z.of_nat (List.length r)) axis = Some ax -> droppable ax ops) ->
  kept ops <> [] ->
  concat_shape axis (kept ops) = Some r.
Proof.
  intros axis ops r H D NE. unfold concat_shape in *.
  destruct (map snd ops) as [|c0 rest] eqn:E0; [discriminate|].
  destruct (norm_axis (Z.of_nat (List.length c0)) axis) as [ax|] eqn:EA; [|discriminate].
  destruct (forallb (compatible ax c0) (c0 :: rest)) eqn:EC; [|discriminate].
  inversion H; subst r. rewrite set_nth_len in D. specialize (D ax EA).
  rewrite <- E0 in EC. pose proof (forallb_kept _ _ EC) as EK.
  destruct (kept ops) as [|k0 krest] eqn:EKk; [congruence|].
  assert (C0 : compatible ax c0 k0 = true) by (simpl in EK; apply andb_true_iff in EK as [? _]; assumption).
  rewrite <- (compatible_len _ _ _ C0), EA.
  assert (forallb (compatible ax k0) (k0 :: krest) = true) as ->.
  { apply forallb_forall. intros c Hc. rewrite forallb_forall in EK. eapply compatible_trans; eauto. }
  f_equal. rewrite <- EKk, (sum_kept ax ops D), E0. symmetry. apply compatible_set. assumption.
Qed.

(* every operand dropped: Identity(inputs[0]) has the output shape of the original Concat *)
Theorem concat_drop_all_shape_sound : forall axis ops r c0 rest,
  concat_shape axis (map snd ops) = Some r -> map snd ops = c0 :: rest ->
  (forall ax, norm_axis (Z.of_nat (List.length r)) axis = Some ax -> droppable ax ops) ->
  kept ops = [] -> r = c0.
Proof.
  intros axis ops r c0 rest H E0 D K. unfold concat_shape in H. rewrite E0 in H.
  destruct (norm_axis (Z.of_nat (List.length c0)) axis) as [ax|] eqn:EA; [|discriminate].
  destruct (forallb (compatible ax c0) (c0 :: rest)); [|discriminate].
  inversion H; subst r. rewrite set_nth_len in D. specialize (D ax EA).
  change (set_nth c0 ax (fold_right Z.add 0 (map (fun c => nth ax c 0) (c0 :: rest))) = c0).
  rewrite <- E0, <- (sum_kept ax ops D), K. simpl.
  assert (nth ax c0 0 = 0) as Z0.
  { destruct ops as [|[k c] ops']; [discriminate|]. simpl in E0. inversion E0; subst.
    inversion D as [|? ? D0 _]; subst. simpl in D0. apply D0.
    unfold kept in K. simpl in K. destruct k; [discriminate|reflexivity]. }
  rewrite <- Z0. apply set_nth_self.
Qed.

(* ---- repaired evaluator: the dropped operands are compatible with a kept reference, at every binding ------------- *)
Lemma compatible_refl : forall ax a, compatible ax a a = true.
Proof. unfold compatible. intros. rewrite Nat.eqb_refl, forallb2_zeqb_refl. reflexivity. Qed.

Lemma compatible_sym : forall ax a b, compatible ax a b = true -> compatible ax b a = true.
Proof. intros ax a b H. eapply compatible_trans; [exact H|apply compatible_refl]. Qed.

Lemma compatible_trans' : forall ax a b c, compatible ax a b = true -> compatible ax b c = true -> compatible ax a c = true.
Proof. intros ax a b c H1 H2. eapply compatible_trans; [apply compatible_sym; exact H1|exact H2]. Qed.

Lemma kept_in : forall ops c, In (true, c) ops -> In c (kept ops).
Proof.
  unfold kept. intros ops c H. apply in_map_iff. exists (true, c). split; [reflexivity|].
  apply filter_In. split; [assumption|reflexivity].
Qed.

Lemma in_kept : forall ops c, In c (kept ops) -> In c (map snd ops).
Proof.
  unfold kept. intros ops c H. apply in_map_iff in H as [[k c'] [E H]]. simpl in E. subst.
  apply filter_In in H as [H _]. apply in_map_iff. exists (k, c). auto.
Qed.

Definition droppable_ref (ax : nat) (ref : list Z) (ops : list (bool * list Z)) : Prop :=
  Forall (fun p => fst p = false -> nth ax (snd p) 0 = 0 /\ compatible ax ref (snd p) = true) ops.

Lemma droppable_ref_droppable : forall ax ref ops, droppable_ref ax ref ops -> droppable ax ops.
Proof. unfold droppable_ref, droppable. intros ax ref ops H. eapply Forall_impl; [|exact H]. simpl. intros p Hp E. apply Hp. assumption. Qed.

Lemma concat_shape_some : forall axis cs r, concat_shape axis cs = Some r ->
  exists c0 rest ax, cs = c0 :: rest /\ norm_axis (Z.of_nat (List.length c0)) axis = Some ax /\
    forallb (compatible ax c0) cs = true /\ r = set_nth c0 ax (fold_right Z.add 0 (map (fun c => nth ax c 0) cs)).
Proof.
  unfold concat_shape. intros axis [|c0 rest] r H; [discriminate|].
  destruct (norm_axis (Z.of_nat (List.length c0)) axis) as [ax|] eqn:EA; [|discriminate].
  destruct (forallb (compatible ax c0) (c0 :: rest)) eqn:EC; [|discriminate].
  inversion H. exists c0, rest, ax. auto.
Qed.

Lemma concat_drop_backward : forall axis ops ref ax r,
  In (true, ref) ops -> norm_axis (Z.of_nat (List.length ref)) axis = Some ax -> droppable_ref ax ref ops ->
  concat_shape axis (kept ops) = Some r -> concat_shape axis (map snd ops) = Some r.
Proof.
  intros axis ops ref ax r Hin EA D H.
  destruct (concat_shape_some _ _ _ H) as (k0 & krest & ax' & EK & EA' & EC & Er).
  assert (Hk : forall c, In c (kept ops) -> compatible ax' k0 c = true) by (rewrite forallb_forall in EC; exact EC).
  assert (Cref : compatible ax' k0 ref = true) by (apply Hk, kept_in; assumption).
  rewrite (compatible_len _ _ _ Cref) in EA'. rewrite EA in EA'. inversion EA'; subst ax'. clear EA'.
  assert (Hall : forall c, In c (map snd ops) -> compatible ax k0 c = true).
  { intros c Hc. apply in_map_iff in Hc as [[k c'] [E Hc]]. simpl in E. subst c'.
    destruct k; [apply Hk, kept_in; assumption|].
    unfold droppable_ref in D. rewrite Forall_forall in D. destruct (D _ Hc eq_refl) as [_ C].
    eapply compatible_trans'; eauto. }
  destruct (map snd ops) as [|c0 rest] eqn:E0.
  { apply (in_map snd) in Hin. rewrite E0 in Hin. destruct Hin. }
  assert (C0 : compatible ax k0 c0 = true) by (apply Hall; left; reflexivity).
  unfold concat_shape. rewrite <- (compatible_len _ _ _ C0), (compatible_len _ _ _ Cref), EA.
  assert (forallb (compatible ax c0) (c0 :: rest) = true) as ->.
  { apply forallb_forall. intros c Hc. eapply compatible_trans; [exact C0|apply Hall; assumption]. }
  f_equal. subst r. rewrite <- E0, <- (sum_kept ax ops (droppable_ref_droppable _ _ _ D)), EK.
  symmetry. apply compatible_set. assumption.
Qed.

(* With the repaired evaluator the Concat of the kept operands accepts EXACTLY the shapes the original accepts and gives
   the same output shape (equality of options), for every axis, rank and number of operands *)
Theorem concat_drop_fixed_accepts_exactly : forall axis ops ref ax,
  In (true, ref) ops -> norm_axis (Z.of_nat (List.length ref)) axis = Some ax -> droppable_ref ax ref ops ->
  concat_shape axis (kept ops) = concat_shape axis (map snd ops).
Proof.
  intros axis ops ref ax Hin EA D.
  destruct (concat_shape axis (kept ops)) as [r|] eqn:EK.
  - symmetry. eapply concat_drop_backward; eauto.
  - destruct (concat_shape axis (map snd ops)) as [r|] eqn:E0; [|reflexivity].
    assert (K : kept ops <> []) by (intro E; pose proof (kept_in _ _ Hin) as I; rewrite E in I; destruct I).
    destruct (concat_shape_some _ _ _ E0) as (c0 & rest & ax' & Ec & EA' & EC & Er).
    assert (Cref : compatible ax' c0 ref = true).
    { rewrite forallb_forall in EC. apply EC. apply in_map_iff. exists (true, ref). auto. }
    rewrite (compatible_len _ _ _ Cref), EA in EA'. inversion EA'; subst ax'.
    rewrite (concat_drop_shape_sound axis ops r E0) in EK; [discriminate| |assumption].
    intros ax2 H2. subst r. rewrite set_nth_len, (compatible_len _ _ _ Cref), EA in H2. inversion H2; subst.
    eapply droppable_ref_droppable; eauto.
Qed.

(* the symbolic test of the repaired evaluator implies the concrete hypothesis at every binding *)
Lemma set_nth_denotes : forall rho a ca ax, shape_denotes rho a ca -> shape_denotes rho (set_nth a ax (DInt 0)) (set_nth ca ax 0).
Proof.
  intros rho a ca ax H. revert ax. induction H as [|d n a ca D F IH]; intros [|ax]; simpl; constructor; simpl; auto; apply IH.
Qed.

Lemma forallb2_same_dim_sound : forall rho a b ca cb, forallb2 same_dim a b = true ->
  shape_denotes rho a ca -> shape_denotes rho b cb -> ca = cb.
Proof.
  intros rho a b ca cb H Ha. revert b cb H. induction Ha as [|d n a ca D F IH]; intros [|e b] cb H Hb; simpl in H; try discriminate.
  - inversion Hb. reflexivity.
  - inversion Hb as [|? m ? cb' D' F']; subst. apply andb_true_iff in H as [E1 E2]. f_equal; [eapply same_dim_sound; eauto|eauto].
Qed.

Theorem keq_except_sound : forall ax a b, keq_except ax a b = true ->
  forall rho ca cb, shape_denotes rho a ca -> shape_denotes rho b cb -> compatible ax ca cb = true.
Proof.
  unfold keq_except, compatible. intros ax a b H rho ca cb Ha Hb.
  pose proof (forallb2_same_dim_sound rho _ _ _ _ H (set_nth_denotes rho a ca ax Ha) (set_nth_denotes rho b cb ax Hb)) as E.
  rewrite E, forallb2_zeqb_refl, andb_true_r. apply Nat.eqb_eq.
  rewrite <- (set_nth_len ca ax 0), E, set_nth_len. reflexivity.
Qed.

(* "accepts exactly the same inputs" is FALSE for this simplification: x:[2,0], y:[3,2], axis=1 is rejected by Concat
   (dim 0 differs) and accepted once the empty operand is gone (x annotated [N,0], y annotated [M,2]; N=2, M=3) *)
Theorem concat_drop_accepts_exactly_refuted : exists axis ops r,
  droppable 1 ops /\ concat_shape axis (map snd ops) = None /\ concat_shape axis (kept ops) = Some r.
Proof.
  exists 1, [(false, [2; 0]); (true, [3; 2])], [3; 2]. split; [|split; reflexivity].
  repeat constructor; simpl; intros; try discriminate; reflexivity.
Qed.

(* ---- SqueezeReshape --------------------------------------------------------------------------------------------- *)
Theorem squeeze_reshape_1d_sound : forall x, sqre_check x = true ->
  forall rho cx, (forall s, x = Some s -> shape_denotes rho s cx) -> Forall (fun n => 0 <= n) cx ->
  reshape_out false (squeeze_all cx) [-1] = Some cx.
Proof.
  intros x H rho cx Hx Hn. destruct x as [[|d [|? ?]]|]; try discriminate.
  specialize (Hx _ eq_refl). inversion Hx as [|? n ? ? D F]; subst. inversion F; subst.
  inversion Hn as [|? ? N0 _]; subst. unfold squeeze_all. simpl.
  destruct (n =? 1) eqn:E1; simpl.
  - assert (n = 1) by lia. subst. reflexivity.
  - unfold reshape_out. simpl. destruct (n =? 0) eqn:E0; simpl.
    + assert (n = 0) by lia. subst. reflexivity.
    + destruct (n =? -1) eqn:Em; [lia|]. simpl.
      replace (n * 1) with n by lia. replace (n mod 1) with 0 by lia. simpl.
      replace (n / 1) with n by lia. reflexivity.
Qed.

(* ---- collapse_slice_rule ------------------------------------------------------------------------------------------ *)
Lemma pyslice_whole : forall {A} (l : list A) e, Z.of_nat (List.length l) <= e -> pyslice l 0 (Some e) = l.
Proof.
  intros A l e H. unfold pyslice, clamp_index. simpl.
  replace (Z.max 0 (Z.min (Z.of_nat (List.length l)) 0)) with 0 by lia.
  destruct (e <? 0) eqn:E; [lia|].
  replace (Z.max 0 (Z.min (Z.of_nat (List.length l)) e) - 0) with (Z.of_nat (List.length l)) by lia.
  rewrite Nat2Z.id. simpl. apply firstn_all.
Qed.

(* the sliced axis (its elements = l) is returned whole, for every binding of a symbolic axis (INT64_MAX branch; a
   tensor dimension is at most INT64_MAX) and for a static axis not longer than `stop` *)
Theorem collapse_slice1_sound : forall d start stop step, cs1_check d start stop step = true ->
  forall rho {A} (l : list A),
  (forall dd, d = Some dd -> denotes rho dd (Z.of_nat (List.length l))) -> Z.of_nat (List.length l) <= int64_max ->
  step = 1 /\ pyslice l start (Some stop) = l.
Proof.
  unfold cs1_check. intros d start stop step H rho A l Hd Hm.
  apply andb_true_iff in H as [H H3]. apply andb_true_iff in H as [H1 H2].
  assert (start = 0) by lia. subst. split; [lia|]. apply pyslice_whole.
  apply orb_true_iff in H3 as [H3|H3]; [lia|].
  destruct d as [[n| |]|]; try discriminate. specialize (Hd _ eq_refl). simpl in Hd. lia.
Qed.

(* ---- redundant ScatterND ------------------------------------------------------------------------------------------ *)
Lemma scatter_rows_prefix : forall {V} (upd done rest : list V),
  List.length rest = List.length upd ->
  scatter_rows (done ++ rest) (seq (List.length done) (List.length upd)) upd = (done ++ upd)%list.
Proof.
  induction upd as [|u upd IH]; intros done rest H; simpl.
  - destruct rest; [reflexivity|discriminate].
  - destruct rest as [|r rest]; [discriminate|]. simpl in H.
    assert (set_nth (done ++ r :: rest) (List.length done) u = ((done ++ [u]) ++ rest)%list) as ->.
    { clear. induction done; simpl; [reflexivity|]. f_equal. assumption. }
    replace (S (List.length done)) with (List.length (done ++ [u])) by (rewrite app_length; simpl; lia).
    rewrite IH by lia. rewrite <- app_assoc. reflexivity.
Qed.

(* indices 0..n-1 over n rows with n update rows: the result is the updates *)
Theorem scatter_full_range : forall {V} (rows upd : list V), List.length rows = List.length upd ->
  scatter_rows rows (seq 0 (List.length upd)) upd = upd.
Proof. intros V rows upd H. exact (scatter_rows_prefix upd [] rows H). Qed.

Lemma py_index_F2' : forall rho d cd axis a n, shape_denotes rho d cd -> py_index d axis = Some a -> py_index cd axis = Some n -> denotes rho a n.
Proof. intros. eapply (py_index_F2 (denotes rho)); eauto. Qed.

(* ScatterAllDynamic: Range(0, Shape(data)[axis]) enumerates exactly the rows of transposed_data, at every binding *)
Theorem scatter_dyn_sound : forall data tdata axis, scatter_dyn_check (Some data) (Some tdata) axis = true ->
  forall rho cd ct n, shape_denotes rho data cd -> shape_denotes rho tdata ct -> py_index cd axis = Some n ->
  exists rest, ct = n :: rest.
Proof.
  unfold scatter_dyn_check, scatter_dyn_check_with. intros data tdata axis H rho cd ct n Hd Ht Hn.
  destruct tdata as [|t0 trest]; [discriminate|]. destruct (py_index data axis) as [a|] eqn:E; [|discriminate].
  inversion Ht as [|? m ? crest D0 F0]; subst. exists crest. f_equal.
  symmetry. eapply same_dim_sound; eauto using py_index_F2'.
Qed.

Theorem scatter_dyn_values : forall data tdata axis, scatter_dyn_check (Some data) (Some tdata) axis = true ->
  forall rho cd ct n {V} (rows upd : list V), shape_denotes rho data cd -> shape_denotes rho tdata ct ->
  py_index cd axis = Some n -> 0 <= n ->
  Z.of_nat (List.length rows) = hd 0 ct ->          (* rows of transposed_data *)
  Z.of_nat (List.length upd) = n ->                 (* ScatterND requires one update row per index *)
  scatter_rows rows (seq 0 (Z.to_nat n)) upd = upd.
Proof.
  intros data tdata axis H rho cd ct n V rows upd Hd Ht Hn N0 Hr Hu.
  destruct (scatter_dyn_sound _ _ _ H rho cd ct n Hd Ht Hn) as [rest ->]. simpl in Hr.
  replace (Z.to_nat n) with (List.length upd) by lia. apply scatter_full_range. lia.
Qed.

(* with Python == on dims instead of same_dim the check passes for two unrelated unknown dims: 3 rows, Range(0,2) *)
Theorem scatter_dyn_pyeq_refuted : exists data tdata axis rho cd ct n (rows upd : list Z),
  scatter_dyn_check_pyeq (Some data) (Some tdata) axis = true /\ shape_denotes rho data cd /\ shape_denotes rho tdata ct /\
  py_index cd axis = Some n /\ Z.of_nat (List.length rows) = hd 0 ct /\ Z.of_nat (List.length upd) = n /\
  scatter_rows rows (seq 0 (Z.to_nat n)) upd <> upd.
Proof.
  exists [DUnk; DInt 4], [DUnk; DInt 4], 0, (fun _ => O), [2; 4], [3; 4], 2, [10; 20; 30], [1; 2].
  repeat split; try reflexivity; try (repeat constructor; simpl; lia). vm_compute. discriminate.
Qed.

Theorem scatter_static_sound : forall data upd idx, scatter_static_check (Some data) (Some upd) idx = true ->
  forall rho cd cu, shape_denotes rho data cd -> shape_denotes rho upd cu ->
  cd = cu /\ exists n rest, cd = Z.of_nat n :: rest /\ idx = map Z.of_nat (seq 0 n).
Proof.
  unfold scatter_static_check. intros data upd idx H rho cd cu Hd Hu.
  destruct data as [|[n| |] drest]; try discriminate.
  apply andb_true_iff in H as [H H3]. apply andb_true_iff in H as [H1 H2].
  split; [eapply iu_same_shape_sound; eauto|].
  inversion Hd as [|? m ? crest D0 F0]; subst. simpl in D0. subst.
  exists (Z.to_nat n), crest. split; [f_equal; lia|]. apply forallb2_zeqb_eq. assumption.
Qed.

(* ---- static shapes do not depend on the binding (broadcast_to_matmul, Size, SplitToSequence scalar branch) ---------- *)
Theorem static_shape_valuation_independent : forall s, all_int s = true ->
  forall rho rho' c c', shape_denotes rho s c -> shape_denotes rho' s c' -> c = c'.
Proof.
  intros s H rho rho' c c' F F'.
  rewrite (all_int_determines rho s c H F) in F'. rewrite (all_int_determines rho s c H F) in H.
  clear F. revert c' F'. induction c as [|a c IH]; intros c' F'; inversion F'; subst; [reflexivity|].
  simpl in *. f_equal; [congruence|]. apply IH; [|assumption]. assumption.
Qed.

Theorem b2m_guard_static : forall a b, b2m_guard (Some a) (Some b) = true -> all_int a = true /\ all_int b = true.
Proof. unfold b2m_guard. intros a b H. apply andb_true_iff in H. assumption. Qed.

(* ---- SplitToSequence, scalar split ------------------------------------------------------------------------------------ *)
Lemma sum_repeat : forall s m, fold_right Z.add 0 (repeat s m) = s * Z.of_nat m.
Proof. induction m; simpl; [lia|]. rewrite IHm. lia. Qed.

Lemma sum_app : forall a b, fold_right Z.add 0 (a ++ b) = fold_right Z.add 0 a + fold_right Z.add 0 b.
Proof. induction a; intros; simpl; [reflexivity|]. rewrite IHa. lia. Qed.

(* chunks of size s, the last one smaller and non-empty; only for a static axis (a symbolic axis is refused) *)
Theorem split_scalar_sound : forall d s r, split_scalar d s = Some r -> exists n, d = DInt n /\ 0 < s /\
  match r with
  | inl k => 0 <= n -> k * s = n
  | inr sizes => 0 <= n -> fold_right Z.add 0 sizes = n /\ 0 < n - (ceil_div n s - 1) * s < s
  end.
Proof.
  unfold split_scalar, ceil_div. intros d s r H. destruct d as [n| |]; try discriminate. exists n.
  destruct (s <=? 0) eqn:E; [discriminate|]. split; [reflexivity|]. split; [lia|].
  assert (S0 : 0 < s) by lia.
  pose proof (Z.div_mod n s ltac:(lia)) as DM. pose proof (Z.mod_pos_bound n s S0) as MB.
  remember (n / s) as q. remember (n mod s) as m.
  destruct (m =? 0) eqn:Em; inversion H; subst r; intro N0.
  - assert (K : (n + s - 1) / s = q) by (symmetry; apply Z.div_unique with (r := s - 1); lia). rewrite K. lia.
  - assert (K : (n + s - 1) / s = q + 1) by (symmetry; apply Z.div_unique with (r := m - 1); lia). rewrite K.
    assert (0 <= q) by (subst q; apply Z.div_pos; lia).
    rewrite sum_app, sum_repeat. simpl. rewrite Z2Nat.id by lia. split; lia.
Qed.

(* ---- Flatten2Reshape: no constant Reshape target is right for every input of rank 4 ------------------------------------
   Flatten(x, axis=1) on x:[N,C1,C2,C3] (all symbolic; the repository tests test_flatten_to_reshape_dynamic_input_1/_5
   require the rule to fire there and to leave a single Reshape whose target is an initializer): whatever two-entry
   constant [a; b] is emitted, with either value of allowzero, some non-negative input shape of rank 4 gets a different
   result or is rejected.  So the finding cannot be repaired by emitting a better constant; only by refusing, or by computing
   the target at run time (which those tests exclude). *)
Lemma resolve0_keeps : forall az c cx r, resolve0 az cx c = Some r -> Forall2 (fun d v => d <> 0 -> v = d) c r.
Proof.
  induction c as [|d c IH]; intros cx r H; simpl in H.
  - inversion H. constructor.
  - destruct ((d =? 0) && negb az) eqn:EB.
    + destruct cx as [|x cx']; [discriminate|]. simpl in H.
      destruct (resolve0 az cx' c) as [r'|] eqn:E2; [|discriminate]. inversion H; subst.
      constructor; [intro; lia|eauto].
    + destruct (resolve0 az (tl cx) c) as [r'|] eqn:E2; [|discriminate]. inversion H; subst.
      constructor; [reflexivity|eauto].
Qed.

Lemma keeps_map : forall q c r, Forall2 (fun d v => d <> 0 -> v = d) c r ->
  Forall2 (fun d v => 0 < d -> v = d) c (map (fun d => if d =? -1 then q else d) r).
Proof.
  induction 1 as [|d v c r H F IH]; simpl; constructor; [|assumption].
  intro P. rewrite (H ltac:(lia)). destruct (d =? -1) eqn:E; [lia|reflexivity].
Qed.

Lemma keeps_weaken : forall c r, Forall2 (fun d v => d <> 0 -> v = d) c r -> Forall2 (fun d v => 0 < d -> v = d) c r.
Proof. induction 1; constructor; auto. intro. apply H. lia. Qed.

(* a positive entry of the target is the output dim, whatever the input is *)
Lemma reshape_out_pos : forall az cx c r, reshape_out az cx c = Some r -> Forall2 (fun d v => 0 < d -> v = d) c r.
Proof.
  unfold reshape_out. intros az cx c r H.
  destruct (existsb (fun d => d <? -1) c); [discriminate|].
  destruct (Nat.ltb 1 (count_m1 c)); [discriminate|].
  destruct (az && existsb (fun d => d =? 0) c && Nat.ltb 0 (count_m1 c)); [discriminate|].
  destruct (resolve0 az cx c) as [r0|] eqn:E; [|discriminate].
  apply resolve0_keeps in E.
  destruct (Nat.eqb (count_m1 c) 0).
  - destruct (zprod r0 =? zprod cx); inversion H; subst. apply keeps_weaken. assumption.
  - destruct (zprod (filter (fun d => negb (d =? -1)) r0) =? 0); [discriminate|].
    destruct (zprod cx mod zprod (filter (fun d => negb (d =? -1)) r0) =? 0); inversion H; subst.
    apply keeps_map. assumption.
Qed.

Lemma nonneg4 : forall a b c d, 0 <= a -> 0 <= b -> 0 <= c -> 0 <= d -> Forall (fun n => 0 <= n) [a; b; c; d].
Proof. intros. repeat constructor; assumption. Qed.

Theorem flatten_no_constant_target : forall az a b, exists cx,
  List.length cx = 4%nat /\ Forall (fun n => 0 <= n) cx /\ reshape_out az cx [a; b] <> Some (flatten_out cx 1).
Proof.
  intros az a b.
  assert (POS : forall cx r0 r1, reshape_out az cx [a; b] = Some [r0; r1] -> (0 < a -> r0 = a) /\ (0 < b -> r1 = b)).
  { intros cx r0 r1 H. apply reshape_out_pos in H. inversion H as [|? ? ? ? Ha F]; subst. inversion F; subst. auto. }
  destruct (Z_lt_dec 0 a) as [Pa|Na].
  { (* a positive: it cannot be both 1 and 2 *)
    destruct (Z.eq_dec a 1) as [->|N1].
    - exists [2; 1; 1; 1]. split; [reflexivity|]. split; [apply nonneg4; lia|]. intro H. apply POS in H. destruct H as [H _]. specialize (H ltac:(lia)). discriminate.
    - exists [1; 1; 1; 1]. split; [reflexivity|]. split; [apply nonneg4; lia|]. intro H. apply POS in H. destruct H as [H _]. specialize (H Pa). simpl in H. lia. }
  destruct (Z_lt_dec 0 b) as [Pb|Nb].
  { destruct (Z.eq_dec b 1) as [->|N1].
    - exists [1; 2; 1; 1]. split; [reflexivity|]. split; [apply nonneg4; lia|]. intro H. apply POS in H. destruct H as [_ H]. specialize (H ltac:(lia)). discriminate.
    - exists [1; 1; 1; 1]. split; [reflexivity|]. split; [apply nonneg4; lia|]. intro H. apply POS in H. destruct H as [_ H]. specialize (H Pb). simpl in H. lia. }
  (* both entries are <= 0: an entry < -1 is rejected outright; -1 / 0 are finitely many targets *)
  destruct (Z_lt_dec a (-1)) as [La|La].
  { exists [1; 1; 1; 1]. split; [reflexivity|]. split; [apply nonneg4; lia|].
    unfold reshape_out. simpl. destruct (a <? -1) eqn:E; [simpl; discriminate|lia]. }
  destruct (Z_lt_dec b (-1)) as [Lb|Lb].
  { exists [1; 1; 1; 1]. split; [reflexivity|]. split; [apply nonneg4; lia|].
    unfold reshape_out. simpl. destruct (b <? -1) eqn:E; [rewrite orb_true_r; simpl; discriminate|lia]. }
  assert (Ca : a = -1 \/ a = 0) by lia. assert (Cb : b = -1 \/ b = 0) by lia.
  destruct Ca as [-> | ->], Cb as [-> | ->], az;
    first [ (exists [1; 1; 2; 1]; split; [reflexivity|]; split; [apply nonneg4; lia|]; vm_compute; discriminate)
          | (exists [0; 1; 1; 1]; split; [reflexivity|]; split; [apply nonneg4; lia|]; vm_compute; discriminate)
          | (exists [1; 1; 1; 1]; split; [reflexivity|]; split; [apply nonneg4; lia|]; vm_compute; discriminate) ].
Qed.

(* ---- ranks do not depend on the binding; broadcast_keeps_rank -------------------------------------------------------------- *)
Theorem rank_valuation_independent : forall rho s c, shape_denotes rho s c -> List.length c = List.length s.
Proof. intros rho s c H. symmetry. exact (Forall2_len _ _ _ H). Qed.

(* when the helper answers True, broadcasting `value` against a reference of rank >= 1 has the rank of the reference, at
   every binding and for every runtime shape the annotations describe (an accepted broadcast) *)
Theorem broadcast_keeps_rank_sound : forall sv sr, bkr_check (Some sv) (Some sr) = true -> (1 <= List.length sr)%nat ->
  forall rho cv cr o, shape_denotes rho sv cv -> shape_denotes rho sr cr -> bcast cv cr = Some o ->
  List.length o = List.length cr.
Proof.
  unfold bkr_check, bcast. intros sv sr H R rho cv cr o Hv Hr Ho.
  destruct (rb (rev cv) (rev cr)) as [q|] eqn:E; [|discriminate]. simpl in Ho. inversion Ho; subst.
  rewrite rev_length, (rb_length _ _ _ E), !rev_length.
  rewrite (rank_valuation_independent _ _ _ Hv), (rank_valuation_independent _ _ _ Hr).
  apply orb_true_iff in H as [H|H]; apply Nat.leb_le in H; lia.
Qed.

(* without a reference shape only rank <= 1 is accepted *)
Theorem broadcast_keeps_rank_no_reference : forall sv, bkr_check (Some sv) None = true -> (List.length sv <= 1)%nat.
Proof. unfold bkr_check. intros sv H. rewrite orb_false_r in H. apply Nat.leb_le. assumption. Qed.
