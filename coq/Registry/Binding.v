(* C16 -- model of how the PyTorch ONNX exporter binds the arguments of an ATen call to the parameters
   of a registered torch_lib function, of the registry itself, and of the name check.

   Sources modelled
     * onnxscript/function_libs/torch_lib/registration.py
         _QUALIFIED_OPERATOR_NAME_REGEX / _check_and_normalize_names      -> name_ok
         Registry.register (first registration per (name, complex) wins)  -> register / resolve
     * onnxscript/_framework_apis/torch_2_5.py  get_torchlib_ops           -> flatten
     * onnxscript/ir/_schemas.py  op_signature_from_function               -> fn_sig (data; produced by
         the translator from the live functions' op_signature, never re-derived here)
     * torch/onnx/_internal/exporter/_building.py _construct_named_inputs_and_attrs applied to the
         function's op_signature                                          -> bind_signature
         the path of a scripted OnnxFunction: OnnxFunction.__call__ -> OpRecorder.eval_function; what
         matches no parameter of the signature is silently dropped.
     * Python's own call binding f( *args, **kwargs )                       -> bind_python
         the path of a trace-only function: torch _core.py calls onnx_function( *onnx_args, **onnx_kwargs )
         and onnxscript/_internal/values.py TracedOnnxFunction.__call__ is `return self.func( *args, **kwargs )`
         (observed: exporting rand_like(x, memory_format=...) ends in TypeError "unexpected keyword
         argument"); what would be dropped raises instead.
     bind f c takes the path the exporter takes for f (f_traced); the two binders are related by a
     theorem (bind_python succeeds exactly when bind_signature succeeds and drops nothing).

   A call is described by its *shape* only: how many positional schema arguments it supplies and
   which keyword-only schema arguments it supplies; binding never looks at values.
   Not modelled: variadic input parameters (op_signature_from_function never produces them; the
   translator fails closed if one appears), parameter kinds other than positional-or-keyword
   (fail-closed in the translator), None passed for an optional argument (value level).

   No proofs in this file. *)
From Coq Require Import String Ascii List Bool Arith.
Import ListNotations.
Open Scope string_scope.
Open Scope list_scope.
Open Scope nat_scope.

(* ------------------------------------------------------------------------------------------- data *)

(* base type of an ATen schema argument (c10 type kind of Argument.real_type, list/optional peeled) *)
Inductive abase :=
  BTensor | BScalar | BInt | BSymInt | BBool | BFloat | BStr | BScalarType | BLayout | BDevice
| BMemoryFormat | BGenerator
| BPyObj (* argument of a Python builtin (namespaces _operator and math): no ATen type *).

Record sarg := mkA {
  a_name : string; a_base : abase; a_list : bool; a_opt : bool;
  a_kwonly : bool;    (* Argument.kwarg_only *)
  a_default : bool    (* Argument.has_default_value() *) }.
Definition schema := list sarg.

(* ir.AttributeType of an AttributeParameter *)
Inductive attr_ty := AInt | AFloat | AString | AInts | AFloats | AStrings | ATensor | ATensors | AGraph | AGraphs.
Inductive pkind := PInput | PAttr (t : attr_ty).
Record param := mkP { p_name : string; p_kind : pkind; p_required : bool }.
Record fn_sig := mkF { f_params : list param;
                       f_traced : bool (* trace_only=True: called as a plain Python function *) }.

Record call := mkC {
  c_npos : nat;            (* the first c_npos positional schema arguments are supplied, in order *)
  c_kws : list string      (* names of the keyword-only schema arguments supplied *) }.

Inductive source := SPos (i : nat) | SKw (k : string)
                  | SDefault (* nothing supplied: attribute default / omitted attribute / None input *).
Inductive bind_err := MissingRequired (p : string) | TooManyPositional | UnexpectedKeyword (k : string).
Inductive result (A : Type) := OK (a : A) | Err (e : bind_err).
Arguments OK {A} a.
Arguments Err {A} e.

Record binding := mkB {
  b_bound : list (param * source);     (* one entry per parameter of the function, in order *)
  b_dropped_pos : list nat;            (* supplied positional arguments that reach no parameter *)
  b_dropped_kw : list string           (* supplied keyword arguments that reach no parameter *) }.

(* ------------------------------------------------------------------------------------- small helpers *)

Definition mem_str (x : string) (l : list string) : bool := existsb (String.eqb x) l.
Definition pos_args (s : schema) : list sarg := filter (fun a => negb (a_kwonly a)) s.
Definition kw_args (s : schema) : list sarg := filter a_kwonly s.
Definition find_kw (kw : list sarg) (n : string) : option sarg := find (fun a => String.eqb (a_name a) n) kw.

(* the schema argument a binding source stands for *)
Definition arg_of (s : schema) (src : source) : option sarg :=
  match src with
  | SPos i => nth_error (pos_args s) i
  | SKw k => find_kw (kw_args s) k
  | SDefault => None
  end.

(* ------------------------------------------------------------------------------------------ calls *)

(* A call conforms to a schema when it supplies a prefix of the positional arguments that contains
   every positional argument without default, only keyword-only arguments of the schema, and every
   keyword-only argument without default.  (FX nodes omit arguments equal to their default.) *)
Definition conformsb (s : schema) (c : call) : bool :=
  (c_npos c <=? length (pos_args s)) &&
  forallb a_default (skipn (c_npos c) (pos_args s)) &&
  forallb (fun k => match find_kw (kw_args s) k with Some _ => true | None => false end) (c_kws c) &&
  forallb (fun a => a_default a || mem_str (a_name a) (c_kws c)) (kw_args s).
Definition conforms (s : schema) (c : call) : Prop := conformsb s c = true.

(* ---------------------------------------------------------------------------------------- binding *)

Definition rcons {A} (x : A) (r : result (list A)) : result (list A) :=
  match r with OK l => OK (x :: l) | Err e => Err e end.

(* the loop `for param in signature.params` of _construct_named_inputs_and_attrs; i = index of p.
   `reversed_args_stack` non-empty  <->  i < npos (one argument is popped per parameter). *)
Fixpoint bind_params (ps : list param) (i npos : nat) (kws : list string) : result (list (param * source)) :=
  match ps with
  | [] => OK []
  | p :: ps' =>
      if i <? npos then rcons (p, SPos i) (bind_params ps' (S i) npos kws)
      else if mem_str (p_name p) kws then rcons (p, SKw (p_name p)) (bind_params ps' (S i) npos kws)
      else if p_required p then Err (MissingRequired (p_name p))
      else rcons (p, SDefault) (bind_params ps' (S i) npos kws)
  end.

Definition kw_bound (k : string) (bound : list (param * source)) : bool :=
  existsb (fun ps => match snd ps with SKw k' => String.eqb k k' | _ => false end) bound.

(* _construct_named_inputs_and_attrs: positional arguments left on the stack and keyword arguments that
   name no (still unfilled) parameter are silently ignored *)
Definition bind_signature (ps : list param) (c : call) : result binding :=
  match bind_params ps 0 (c_npos c) (c_kws c) with
  | Err e => Err e
  | OK bound =>
      OK (mkB bound (seq (length ps) (c_npos c - length ps))
              (filter (fun k => negb (kw_bound k bound)) (c_kws c)))
  end.

(* Python's call binding of a function whose parameters are all positional-or-keyword: the same
   assignment, but whatever bind_signature would drop raises TypeError *)
Definition bind_python (ps : list param) (c : call) : result binding :=
  if length ps <? c_npos c then Err TooManyPositional else
  match bind_signature ps c with
  | Err e => Err e
  | OK b => match b_dropped_kw b with k :: _ => Err (UnexpectedKeyword k) | [] => OK b end
  end.

(* binding the way the exporter does, for the kind of function at hand *)
Definition bind (f : fn_sig) (c : call) : result binding :=
  if f_traced f then bind_python (f_params f) c else bind_signature (f_params f) c.

(* ------------------------------------------------------------------------------ what may go where *)

(* exactly the list of the property; dtype is not in it *)
Definition droppable (n : string) : bool :=
  mem_str n ["generator"; "layout"; "device"; "pin_memory"; "memory_format"; "requires_grad"].

Definition is_tensor (a : sarg) : bool := match a_base a with BTensor => true | _ => false end.

(* which non-tensor schema arguments an attribute parameter of a given type takes, following what
   the exporter hands over (_convert_fx_arg_to_onnx_arg: dtype -> int, device/layout/memory_format
   -> str; _construct_named_inputs_and_attrs: int (hence bool, dtype) given for a FLOAT attribute is
   converted; ir.convenience.convert_attributes must then produce an attribute of the declared type).
   The harness recomputes this table from the real functions on representative values. *)
Definition attr_accepts (a : sarg) (t : attr_ty) : bool :=
  match a_base a, a_list a, t with
  | BInt, false, AInt | BInt, false, AFloat => true
  | BSymInt, false, AInt | BSymInt, false, AFloat => true
  | BBool, false, AInt | BBool, false, AFloat => true
  | BFloat, false, AFloat => true
  | BScalar, false, AInt | BScalar, false, AFloat => true
  | BStr, false, AString => true
  | BScalarType, false, AInt | BScalarType, false, AFloat => true
  | BLayout, false, AString | BDevice, false, AString | BMemoryFormat, false, AString => true
  | BInt, true, AInts | BSymInt, true, AInts | BBool, true, AInts => true
  | BFloat, true, AFloats => true
  | BScalar, true, AInts | BScalar, true, AFloats => true
  | BStr, true, AStrings => true
  | _, _, _ => false
  end.

(* an input parameter takes any Python constant (turned into a Constant node by
   _process_python_constants / _process_python_sequences) as well as tensors *)
Definition accepts (a : sarg) (p : param) : bool :=
  match p_kind p with PInput => true | PAttr t => attr_accepts a t end.

Definition pair_ok (a : sarg) (p : param) : bool :=
  if is_tensor a then match p_kind p with PInput => true | PAttr _ => false end else accepts a p.

(* ----------------------------------------------------------------------------------------- binds_ok *)

(* per parameter p at index i:
   - whenever positional argument i is supplied it lands on p: the pair must be fine;
   - when a conforming call can stop before i (every positional argument from i on has a default)
     p is filled by the keyword of its own name, if the schema has one, or by nothing. *)
Fixpoint check_params (pos kw : list sarg) (ps : list param) (i : nat) : bool :=
  match ps with
  | [] => true
  | p :: ps' =>
      match nth_error pos i with Some a => pair_ok a p | None => true end &&
      (if forallb a_default (skipn i pos) then
         match find_kw kw (p_name p) with
         | Some k => pair_ok k p && (negb (a_default k) || negb (p_required p))
         | None => negb (p_required p)
         end
       else true) &&
      check_params pos kw ps' (S i)
  end.

Definition has_param_from (n : nat) (name : string) (ps : list param) : bool :=
  existsb (fun p => String.eqb (p_name p) name) (skipn n ps).

Definition binds_ok (s : schema) (f : fn_sig) : bool :=
  let pos := pos_args s in
  let kw := kw_args s in
  let ps := f_params f in
  check_params pos kw ps 0 &&
  (* positional schema arguments beyond the last parameter *)
  (if f_traced f then length pos <=? length ps
   else forallb (fun a => droppable (a_name a)) (skipn (length ps) pos)) &&
  (* keyword-only schema arguments: taken by a parameter of that name that no positional argument
     can fill, or dropped *)
  forallb (fun k => has_param_from (length pos) (a_name k) ps
                    || (negb (f_traced f) && droppable (a_name k))) kw.

(* ------------------------------------------------- diagnosis (used by the harness on a failing entry) *)

Inductive why :=
  WTensorToAttr | WNotAccepted | WRequiredUnbound | WDroppedPositional | WTooManyPositional
| WDroppedKeyword | WUnexpectedKeyword.

(* (schema argument name or parameter name, reason, a conforming call shape on which it shows) *)
Definition why_pair (a : sarg) (p : param) : why := if is_tensor a then WTensorToAttr else WNotAccepted.

Definition min_npos (pos : list sarg) : nat :=
  (* least n with every positional argument from n on defaulted *)
  (fix go (l : list sarg) (i best : nat) :=
     match l with [] => best | a :: l' => go l' (S i) (if a_default a then best else S i) end) pos 0 0.

Definition required_kws (kw : list sarg) : list string :=
  map a_name (filter (fun a => negb (a_default a)) kw).

Fixpoint diag_params (pos kw : list sarg) (ps : list param) (i : nat) : list (string * why * call) :=
  match ps with
  | [] => []
  | p :: ps' =>
      (match nth_error pos i with
       | Some a => if pair_ok a p then [] else [(a_name a, why_pair a p, mkC (Nat.max (S i) (min_npos pos)) (required_kws kw))]
       | None => [] end) ++
      (if forallb a_default (skipn i pos) then
         match find_kw kw (p_name p) with
         | Some k =>
             (if pair_ok k p then [] else [(a_name k, why_pair k p, mkC (Nat.min i (length pos)) (a_name k :: required_kws kw))]) ++
             (if negb (a_default k) || negb (p_required p) then []
              else [(p_name p, WRequiredUnbound, mkC (Nat.min i (length pos)) (required_kws kw))])
         | None => if p_required p then [(p_name p, WRequiredUnbound, mkC (Nat.min i (length pos)) (required_kws kw))] else []
         end
       else []) ++
      diag_params pos kw ps' (S i)
  end.

Definition diagnose (s : schema) (f : fn_sig) : list (string * why * call) :=
  let pos := pos_args s in
  let kw := kw_args s in
  let ps := f_params f in
  diag_params pos kw ps 0 ++
  (if f_traced f then
     (if length pos <=? length ps then []
      else match nth_error pos (length ps) with
           | Some a => [(a_name a, WTooManyPositional, mkC (length pos) (required_kws kw))]
           | None => [] end)
   else map (fun a => (a_name a, WDroppedPositional, mkC (length pos) (required_kws kw)))
            (filter (fun a => negb (droppable (a_name a))) (skipn (length ps) pos))) ++
  flat_map (fun k =>
      if has_param_from (length pos) (a_name k) ps then []
      else if f_traced f then [(a_name k, WUnexpectedKeyword, mkC (length pos) (a_name k :: required_kws kw))]
      else if droppable (a_name k) then []
      else [(a_name k, WDroppedKeyword, mkC (length pos) (a_name k :: required_kws kw))]) kw.

(* the property's conditions on one binding, as a boolean (evaluated on witnesses and in the
   correspondence check) *)
Definition pair_goodb (s : schema) (ps : param * source) : bool :=
  match snd ps with
  | SDefault => negb (p_required (fst ps))
  | src => match arg_of s src with Some a => pair_ok a (fst ps) | None => false end
  end.
Definition binding_goodb (s : schema) (b : binding) : bool :=
  forallb (pair_goodb s) (b_bound b) &&
  forallb (fun i => match nth_error (pos_args s) i with Some a => droppable (a_name a) | None => false end) (b_dropped_pos b) &&
  forallb droppable (b_dropped_kw b).
Definition call_goodb (s : schema) (f : fn_sig) (c : call) : bool :=
  match bind f c with OK b => binding_goodb s b | Err _ => false end.

(* ------------------------------------------------------------------------------------------ names *)

(* [a-zA-Z0-9_] *)
Definition word_char (c : ascii) : bool :=
  let n := nat_of_ascii c in
  ((48 <=? n) && (n <=? 57)) || ((65 <=? n) && (n <=? 90)) || ((97 <=? n) && (n <=? 122)) || (n =? 95).
(* [a-zA-Z0-9._] *)
Definition ovl_char (c : ascii) : bool := word_char c || (nat_of_ascii c =? 46).

Fixpoint all_chars (f : ascii -> bool) (s : string) : bool :=
  match s with EmptyString => true | String c r => f c && all_chars f r end.

(* longest prefix of characters satisfying f, and the rest *)
Fixpoint span (f : ascii -> bool) (s : string) : string * string :=
  match s with
  | EmptyString => (EmptyString, EmptyString)
  | String c r => if f c then let (a, b) := span f r in (String c a, b) else (EmptyString, s)
  end.

Fixpoint ends_with (suffix s : string) : bool :=
  if String.eqb suffix s then true
  else match s with EmptyString => false | String _ r => ends_with suffix r end.

Definition nonempty (s : string) : bool := match s with EmptyString => false | _ => true end.

(* ^[a-zA-Z0-9_]+::[a-zA-Z0-9_]+(\.[a-zA-Z0-9._]+)?$ *)
Definition regex_ok (s : string) : bool :=
  let (ns, r1) := span word_char s in
  nonempty ns &&
  match r1 with
  | String ":" (String ":" r2) =>
      let (nm, r3) := span word_char r2 in
      nonempty nm &&
      match r3 with
      | EmptyString => true
      | String "." ov => nonempty ov && all_chars ovl_char ov
      | _ => false
      end
  | _ => false
  end.

(* _check_and_normalize_names accepts name_ iff not (name_.endswith(".default") or not regex.fullmatch(name_)) *)
Definition name_ok (s : string) : bool := negb (ends_with ".default" s) && regex_ok s.

(* ---------------------------------------------------------------------------------------- registry *)

(* Registry._registry: name -> OverloadedFunction(overloads, complex); dict order = first insertion *)
Record ovl (F : Type) := mkO { o_name : string; o_real : list F; o_complex : list F }.
Arguments mkO {F}.
Arguments o_name {F}.
Arguments o_real {F}.
Arguments o_complex {F}.

Definition add_fn {F} (fn : F) (cx : bool) (o : ovl F) : ovl F :=
  if cx then match o_complex o with [] => mkO (o_name o) (o_real o) [fn] | _ => o end
  else match o_real o with [] => mkO (o_name o) [fn] (o_complex o) | _ => o end.

(* Registry.register(func, name, complex=cx) *)
Fixpoint register {F} (st : list (ovl F)) (fn : F) (name : string) (cx : bool) : list (ovl F) :=
  match st with
  | [] => [add_fn fn cx (mkO name [] [])]
  | o :: st' => if String.eqb (o_name o) name then add_fn fn cx o :: st' else o :: register st' fn name cx
  end.

Definition register_all {F} (regs : list (F * string * bool)) : list (ovl F) :=
  fold_left (fun st r => match r with (fn, name, cx) => register st fn name cx end) regs [].

(* get_torchlib_ops: (qualified name, function, is_complex) for every stored function, names starting
   with "internal::" skipped *)
Definition flatten {F} (st : list (ovl F)) : list (string * F * bool) :=
  flat_map (fun o =>
    if String.prefix "internal::" (o_name o) then []
    else map (fun fn => (o_name o, fn, false)) (o_real o) ++ map (fun fn => (o_name o, fn, true)) (o_complex o)) st.

Definition key_eqb (a b : string * bool) : bool := String.eqb (fst a) (fst b) && Bool.eqb (snd a) (snd b).
Fixpoint unique_keys (l : list (string * bool)) : bool :=
  match l with [] => true | k :: r => negb (existsb (key_eqb k) r) && unique_keys r end.

(* the function a (name, complex) pair resolves to: the first one registered under it *)
Definition first_registered {F} (regs : list (F * string * bool)) (name : string) (cx : bool) : option F :=
  match find (fun r => match r with (_, n, c) => String.eqb n name && Bool.eqb c cx end) regs with
  | Some (fn, _, _) => Some fn | None => None end.
Definition resolve {F} (st : list (ovl F)) (name : string) (cx : bool) : list F :=
  match find (fun o => String.eqb (o_name o) name) st with
  | Some o => if cx then o_complex o else o_real o
  | None => [] end.

(* ------------------------------------------------------------------- registry entries (Gen file) *)

Record entry := mkE {
  e_name : string;              (* qualified name it is registered under *)
  e_complex : bool;
  e_fn : string;                (* python function name *)
  e_sig : fn_sig;
  e_schema : option schema      (* None: the installed PyTorch defines no such operator overload *) }.

Definition entry_ok (e : entry) : bool :=
  match e_schema e with Some s => binds_ok s (e_sig e) | None => false end.
Definition excepted (known : list (string * bool)) (e : entry) : bool :=
  existsb (key_eqb (e_name e, e_complex e)) known.

(* (index, name, complex, [(argument, reason, call shape)]) of the entries that do not bind *)
Definition failing (es : list entry) : list (string * bool * option (list (string * why * call))) :=
  flat_map (fun e => if entry_ok e then []
                     else [(e_name e, e_complex e,
                            match e_schema e with Some s => Some (diagnose s (e_sig e)) | None => None end)]) es.

(* correspondence helpers: a case is (function signature, call shape, observed outcome);
   outcome None = the real code raised, Some (sources per parameter, dropped keywords) otherwise *)
Definition src_eqb (a b : source) : bool :=
  match a, b with
  | SPos i, SPos j => Nat.eqb i j
  | SKw k, SKw k' => String.eqb k k'
  | SDefault, SDefault => true
  | _, _ => false end.
Fixpoint list_eqb {A} (eq : A -> A -> bool) (l1 l2 : list A) : bool :=
  match l1, l2 with
  | [], [] => true
  | x :: r1, y :: r2 => eq x y && list_eqb eq r1 r2
  | _, _ => false end.
Definition outcome_agrees (f : fn_sig) (c : call) (obs : option (list source * list string)) : bool :=
  match bind f c, obs with
  | Err _, None => true
  | OK b, Some (srcs, dk) =>
      list_eqb src_eqb (map snd (b_bound b)) srcs && list_eqb String.eqb (b_dropped_kw b) dk
  | _, _ => false end.
Fixpoint disagreeing {A} (agrees : A -> bool) (i : nat) (cases : list A) : list nat :=
  match cases with
  | [] => []
  | c :: r => (if agrees c then [] else [i]) ++ disagreeing agrees (S i) r
  end.
