(* Model of the Reshape-producing rules (C05): ReshapeReshape, Flatten2Reshape, SqueezeReshape (_basic_rules.py) and
   MaterializeReshapeShape (_materialize_reshape_shape.py).
   A tensor is (shape, row-major data); Reshape / Flatten / Squeeze / Unsqueeze keep the data, so only shapes matter.
   No proofs in this file. *)
From Coq Require Import ZArith List Bool.
Import ListNotations.
Local Open Scope Z_scope.

Definition prod (l : list Z) : Z := fold_right Z.mul 1 l.
Definition has (v : Z) (l : list Z) : bool := existsb (Z.eqb v) l.
Definition count (v : Z) (l : list Z) : nat := length (filter (Z.eqb v) l).
Definition nonneg (l : list Z) : bool := forallb (Z.leb 0) l.
Definition positive (l : list Z) : bool := forallb (Z.ltb 0) l.

(* ---- ONNX Reshape: target shape resolution -------------------------------------------------------------------- *)
(* step 1: a 0 copies the input dim at the same position unless allowzero *)
Fixpoint copy0 (az : bool) (insh s : list Z) : option (list Z) :=
  match s with
  | [] => Some []
  | d :: s' =>
      match copy0 az (tl insh) s' with
      | None => None
      | Some r =>
          if (d =? 0) && negb az then match insh with [] => None | i :: _ => Some (i :: r) end
          else Some (d :: r)
      end
  end.
(* step 2: at most one -1, inferred from the element count n; the other dims must multiply to a non-zero divisor of n *)
Definition finish (n : Z) (s1 : list Z) : option (list Z) :=
  if existsb (fun d => d <? -1) s1 then None else
  match count (-1) s1 with
  | O => if prod s1 =? n then Some s1 else None
  | S O => let p := prod (filter (fun d => negb (d =? -1)) s1) in
           if p =? 0 then None
           else if n mod p =? 0 then Some (map (fun d => if d =? -1 then n / p else d) s1) else None
  | _ => None
  end.
Definition resolve (az : bool) (insh s : list Z) : option (list Z) :=
  if az && has 0 s && has (-1) s then None        (* "it is invalid to have both 0 and -1 when allowzero is set" *)
  else match copy0 az insh s with None => None | Some s1 => finish (prod insh) s1 end.

(* ---- ReshapeReshape.check / rewrite --------------------------------------------------------------------------- *)
(* `new`: the second Reshape's constant shape after the statically known positive output dims were written into it *)
Fixpoint subst_known (od : list (option Z)) (s : list Z) : list Z :=
  match od, s with
  | Some d :: od', x :: s' => (if 0 <? d then d else x) :: subst_known od' s'
  | None :: od', x :: s' => x :: subst_known od' s'
  | _, _ => s
  end.
Definition rr_new (odecl : option (list (option Z))) (s2 : list Z) : list Z :=
  match odecl with Some od => subst_known od s2 | None => s2 end.
(* -> (shape constant, allowzero attribute of the single Reshape that replaces the two) *)
Definition rr_decide (new : list Z) (az2 : bool) : option (list Z * bool) :=
  if az2 && has 0 new then Some (new, true)
  else if has 0 new && existsb (fun d => d <? 0) new then None
  else if (1 <? count 0 new)%nat then None
  else Some (map (fun d => if d =? 0 then -1 else d) new, false).

(* ---- Flatten2Reshape.check ------------------------------------------------------------------------------------ *)
Definition flatten (a : nat) (sh : list Z) : list Z := [prod (firstn a sh); prod (skipn a sh)].
Fixpoint static_prod (l : list (option Z)) : option Z :=
  match l with
  | [] => Some 1
  | Some d :: t => match static_prod t with Some p => Some (d * p) | None => None end
  | None :: _ => None
  end.
Definition override (o : option Z) (v : Z) : Z := match o with Some d => d | None => v end.
Definition fl_check (decl : option (list (option Z))) (axis : Z) (odecl : option (list (option Z))) : option (list Z) :=
  let axis' := match decl with Some ds => if axis <? 0 then axis + Z.of_nat (length ds) else axis | None => axis end in
  let a0 := if axis' =? 0 then 1 else if axis' =? 1 then 0 else -1 in
  let a1 := if (axis' =? 0) || (axis' =? 1) then -1
            else match decl with Some ds => if axis' =? Z.of_nat (length ds) then 1 else -1 | None => -1 end in
  (* output annotation *)
  let a0 := match odecl with Some od => override (nth 0 od None) a0 | None => a0 end in
  let a1 := match odecl with Some od => override (nth 1 od None) a1 | None => a1 end in
  (* static parts of the input annotation *)
  let a0 := match decl with Some ds => override (static_prod (firstn (Z.to_nat axis') ds)) a0 | None => a0 end in
  let a1 := match decl with Some ds => override (static_prod (skipn (Z.to_nat axis') ds)) a1 | None => a1 end in
  if (a0 =? -1) && (a1 =? -1) then None else Some [a0; a1].

(* ---- SqueezeReshape: Reshape(Squeeze(x), [-1]) on rank-1 x ---------------------------------------------------- *)
Definition squeeze_all (sh : list Z) : list Z := filter (fun d => negb (d =? 1)) sh.

(* ---- MaterializeReshapeShape ---------------------------------------------------------------------------------- *)
Definition sym_count (od : list (option Z)) : nat := length (filter (fun d => match d with None => true | Some _ => false end) od).
Definition mat_check (shape_is_const : bool) (odecl : option (list (option Z))) : option (list Z) :=
  if shape_is_const then None else
  match odecl with
  | None => None
  | Some od => if (sym_count od <=? 1)%nat then Some (map (fun d => match d with Some v => v | None => -1 end) od) else None
  end.
(* the side condition the proposed fix adds: no static 0 next to the one symbolic dim *)
Definition mat_ok (od : list (option Z)) : bool :=
  Nat.eqb (sym_count od) 0 || negb (existsb (fun d => match d with Some 0 => true | _ => false end) od).

Definition truthful (od : list (option Z)) (out : list Z) : Prop :=
  length od = length out /\ forall i d, nth i od None = Some d -> nth i out 0 = d.

(* ---- correspondence helpers ------------------------------------------------------------------------------------ *)
Definition zl_eqb (a b : list Z) : bool :=
  Nat.eqb (length a) (length b) && forallb (fun q => fst q =? snd q) (combine a b).
Definition ozl_eqb (a b : option (list Z)) : bool :=
  match a, b with None, None => true | Some x, Some y => zl_eqb x y | _, _ => false end.
Definition rr_case := (option (list (option Z)) * list Z * bool * option (list Z * bool))%type.
Definition rr_agrees (c : rr_case) : bool :=
  let '(od, s2, az2, o) := c in
  match rr_decide (rr_new od s2) az2, o with
  | _, None => true                  (* not firing is always permitted *)
  | Some (s, a), Some (s', a') => zl_eqb s s' && Bool.eqb a a'
  | None, Some _ => false
  end.
Definition fl_case := (option (list (option Z)) * Z * option (list (option Z)) * option (list Z))%type.
Definition permits_zl (m o : option (list Z)) : bool := match o with None => true | Some _ => ozl_eqb m o end.
Definition fl_agrees (c : fl_case) : bool := let '(d, a, od, o) := c in permits_zl (fl_check d a od) o.
Definition mat_case := (bool * option (list (option Z)) * option (list Z))%type.
Definition mat_agrees (c : mat_case) : bool := let '(k, od, o) := c in permits_zl (mat_check k od) o.
Fixpoint disagreeing {A} (f : A -> bool) (i : nat) (l : list A) : list nat :=
  match l with [] => [] | c :: t => (if f c then [] else [i]) ++ disagreeing f (S i) t end.
