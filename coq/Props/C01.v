(* C01 property theorems: statements only, each closed by `exact`, Print Assumptions beneath.

   The full statement (C01_full) is compiler correctness of the converter model for every program of
   Script.Syntax.  Proved:
   * stage S1 (C01_graph_eq_python_straightline_partial): straight-line programs -- any expression nesting,
     literals with their static CastLike, calls of operators and of other script functions, tuple assignment from
     multi-output calls, re-assignment, aliasing, several return values with the Identity copies for returned
     inputs / duplicates;
   * stage S2 (C01_graph_eq_python_ifelse_partial): bodies of assignments, tuple assignments and if/else
     statements nested to any depth (constant conditions included) followed by one return, where no variable holds
     a Python scalar (class s2_stmt); the simulation invariant is restricted to the live variables of the
     generated liveness analysis.
   * stage S3, first part (C01_graph_eq_python_forloop_partial): in addition, `for` loops over a tensor bound at the
     top level of the body, with a body of assignments, under decidable side conditions on the sets the generated
     analysis computes for the loop (class s3_pre / loop_ok; two of the conditions exclude exactly the programs that
     hit the liveness defects of the code: loop bound not live, live-out variable not live-in).
   * stage S3, complete (C01_graph_eq_python_nested_partial): `for` and `while` loops, each possibly ending in
     `if c: break` (the cond_out encoding: Identity / the loop condition / Not(break) / And(condition, Not(break))),
     and if / for / while nested in one another to ANY depth (up to the converter model's own nesting bound
     stmt_depth_fuel), loop bodies containing assignments, tuple assignments, if/else and loops; by induction on the
     nesting fuel with one simulation lemma per construct (class pre_ok: the same decidable side conditions as above at
     every loop, plus for `while`: the condition variable is live and not a module constant, the body does not read a
     variable called infinite_loop).  Kernel laws assumed as hypotheses: Identity, truth (of_bool b) = Some b, Not
     negates a condition, And is the conjunction of two conditions; the graph's limit on unbounded loops is at least the
     source's; for `while` + break (flag wb) every value can be read as a condition (Python does not look at the new
     loop condition when the break is taken, And does).
   Not proved: stage S4 (attribute parameters), and programs in which a variable holding a Python
     scalar is merged by an if or carried by a loop (there the graph loses the CastLike promotion the Python reading
     performs): for those the evidence is the skeleton correspondence and the four-way direct oracle of
     harness/c01.py only.

   About the generated analysis (Gen/Analysis.v): assigned_vars is sound for every statement form; liveness and
   exposed_uses are sound for loop-free code (..._loopfree_partial) and refuted for `for` loops
   (C01_live_in_sound_for_bound_variant: the loop bound is not live in the code as read before the repair; C01_exposed_uses_zero_trip_refuted: the loop
   variable after zero iterations); `while` loops are not covered by a theorem. *)
From Coq Require Import List String ZArith Bool.
Require Import OV.Graph.Syntax OV.Graph.Sem OV.Script.Syntax OV.Script.Sets OV.Gen.Analysis OV.Gen.ScriptTables
               OV.Script.Translate OV.Script.PySem OV.Script.TranslateProofs OV.Script.TablesProofs OV.Script.TranslateExamples
               OV.Script.AnalysisProofs OV.Script.LivenessProofs OV.Script.TranslateIfProofs OV.Script.TranslateIfExamples OV.Script.ExposedProofs
               OV.Script.TranslateForDefs OV.Script.TranslateForProofs OV.Script.TranslateForExamples
               OV.Script.TranslateNestDefs OV.Script.TranslateNestProofs OV.Script.TranslateNestExamples OV.Script.LivenessLoopProofs.
Import ListNotations.
Local Open Scope string_scope.

(* _generate_unique_name: the name returned is not in the used set, the used set grows by exactly that name,
   the counter never decreases, nothing else changes *)
Theorem C01_gen_unique_fresh : forall cand st r st',
  gen_unique cand st = Some (r, st') ->
  ~ In r (ts_used st) /\ ts_used st' = r :: ts_used st /\ ts_next st <= ts_next st'
  /\ ts_castable st' = ts_castable st /\ ts_orders st' = ts_orders st.
Proof. exact gen_unique_fresh. Qed.
Print Assumptions C01_gen_unique_fresh.

(* the full statement: whatever the kernels mean (Identity being the identity, conditions being read back as they
   were written, Not / And being negation / conjunction of conditions, the trip count of Constant(k) being k), the graph allowing at least as many iterations
   of an unbounded loop as the source reading, for every listing order of the Python sets (`orders`), a translated
   program evaluates as a graph to what the source evaluates to as Python *)
Definition C01_full : Prop :=
  forall (V : Type) sem truth trip of_nat of_bool limit while_limit globals,
    (forall v : V, sem "" "Identity" [] [Some v] = Some [v]) ->
    (forall b, truth (of_bool b) = Some b) ->
    (forall v b, truth v = Some b -> exists r, sem "" "Not" [] [Some v] = Some [r] /\ truth r = Some (negb b)) ->
    (forall a b x y, truth a = Some x -> truth b = Some y ->
       exists r, sem "" "And" [] [Some a; Some b] = Some [r] /\ truth r = Some (x && y)) ->
    while_limit <= limit ->
    (forall z c, const_val V sem (LInt z) = Some c -> trip c = Some (Z.to_nat z)) ->
    forall cic afuel orders f g xs vs fuel2,
      f_aparams f = [] -> NoDup (f_tparams f) ->
      translate false globals cic afuel orders f = Some g ->
      eval_script V sem truth trip of_nat while_limit globals (S fuel2) f xs = Some vs ->
      exists k, eval_graph V sem truth trip of_nat of_bool limit k [] g xs = Some vs.

(* S1: straight-line bodies (assignments of arbitrary S1 expressions, then one return) *)
Theorem C01_graph_eq_python_straightline_partial :
  forall (V : Type) sem truth trip of_nat of_bool limit while_limit globals,
    (forall v : V, sem "" "Identity" [] [Some v] = Some [v]) ->
    forall cic afuel orders f g xs vs fuel2 k pre es,
      f_body f = (pre ++ [SReturn es])%list -> assigns_ok pre = true -> forallb expr_ok es = true ->
      f_aparams f = [] -> NoDup (f_tparams f) ->
      translate false globals cic afuel orders f = Some g ->
      eval_script V sem truth trip of_nat while_limit globals (S fuel2) f xs = Some vs ->
      eval_graph V sem truth trip of_nat of_bool limit (S k) [] g xs = Some vs.
Proof. exact translate_straightline_correct. Qed.
Print Assumptions C01_graph_eq_python_straightline_partial.

(* the hypotheses are satisfiable on a non-trivial instance (literal operands with casts, re-assigned parameter,
   tuple assignment, duplicate return): 11 nodes, and the source evaluates to values *)
Theorem C01_straightline_nonvacuous :
  exists g pre es,
    f_body ex_f = (pre ++ [SReturn es])%list /\ assigns_ok pre = true /\ forallb expr_ok es = true /\
    f_aparams ex_f = [] /\ NoDup (f_tparams ex_f) /\
    translate false [] (fun _ => None) 5 [] ex_f = Some g /\
    List.length (g_nodes g) = 11 /\
    eval_script Z toy_sem (fun z => Some (Z.eqb z 0)) (fun z => Some (Z.to_nat z)) Z.of_nat 10 [] 3 ex_f [5%Z; 3%Z]
      = Some [(-20)%Z; (-20)%Z; 0%Z; 2%Z].
Proof. exact ex_hyps. Qed.
Print Assumptions C01_straightline_nonvacuous.

(* S2: bodies made of assignments, tuple assignments and if/else statements nested to any depth (conditions that
   the analysis treats as constant included), then one return.  `s2_stmt globals cic` is the class: right-hand sides
   and if-conditions are S1 expressions other than a bare literal / the bare name of a module-level constant (so
   every variable holds a tensor).  The listing order of the Python sets (`orders`) is universally quantified, the
   kernels are arbitrary (Identity being the identity), `cic` is any table of constant conditions that is sound.
   The graph is evaluated with fuel at least the converter's nesting bound. *)
Theorem C01_graph_eq_python_ifelse_partial :
  forall (V : Type) sem truth trip of_nat of_bool limit while_limit globals,
    (forall v : V, sem "" "Identity" [] [Some v] = Some [v]) ->
    forall cic afuel orders f g xs vs fuel2 k pre es,
      (forall c b pe v, cic c = Some b -> eval_expr V sem globals pe c = Some v -> ptruth V truth v = Some b) ->
      f_body f = (pre ++ [SReturn es])%list -> forallb (s2_stmt globals cic) pre = true -> forallb expr_ok es = true ->
      f_aparams f = [] -> NoDup (f_tparams f) ->
      translate false globals cic afuel orders f = Some g ->
      eval_script V sem truth trip of_nat while_limit globals (S fuel2) f xs = Some vs ->
      stmt_depth_fuel <= S k ->
      eval_graph V sem truth trip of_nat of_bool limit (S k) [] g xs = Some vs.
Proof. exact translate_ifelse_correct. Qed.
Print Assumptions C01_graph_eq_python_ifelse_partial.

(* the hypotheses are satisfiable on a non-trivial instance: `a` defined before the if and re-assigned in the then
   branch only (the else branch copies it), `b` defined in both branches, a nested if/else in the else branch one
   side of which does not assign `b`, `d` assigned but not live afterwards; one If node at top level; the source and
   (as the theorem says) the graph evaluate to the same values on the three paths *)
Theorem C01_ifelse_nonvacuous :
  exists g pre es,
    f_body exif_f = (pre ++ [SReturn es])%list /\ forallb (s2_stmt [] (fun _ => None)) pre = true /\ forallb expr_ok es = true /\
    f_aparams exif_f = [] /\ NoDup (f_tparams exif_f) /\
    translate false [] (fun _ => None) 5 [] exif_f = Some g /\
    count_if (g_nodes g) = 1 /\
    exif_script [5%Z; 3%Z; 1%Z] = Some [47%Z; 40%Z] /\ exif_graph g [5%Z; 3%Z; 1%Z] = Some [47%Z; 40%Z] /\
    exif_script [5%Z; 3%Z; 0%Z] = Some [18%Z; 8%Z] /\ exif_graph g [5%Z; 3%Z; 0%Z] = Some [18%Z; 8%Z] /\
    exif_script [5%Z; 0%Z; 0%Z] = Some [5%Z; 5%Z] /\ exif_graph g [5%Z; 0%Z; 0%Z] = Some [5%Z; 5%Z].
Proof. exact exif_hyps. Qed.
Print Assumptions C01_ifelse_nonvacuous.

(* S3, first part: `for i in range(bound)` loops at the top level of a body whose other statements are of the S2
   class.  `s3_pre globals cic afuel pre [SReturn es] []` is the class: every `for` satisfies loop_ok at its
   program point -- tensor-valued bound, body made of assignments of tensor-valued S1 expressions, and seven
   decidable conditions on the sets the generated analysis computes for the loop (the bound and the loop state are
   live before the loop: C1, C2 -- these fail exactly on programs hitting the two liveness defects of the code; what
   the body reads and is not state is not assigned in the body; the loop variable is not assigned in the body and
   not used after the loop; no state variable shadows a module-level constant).  The Loop node is evaluated by
   induction on the trip count (zero included).  Extra kernel law: truth (of_bool b) = Some b. *)
Theorem C01_graph_eq_python_forloop_partial :
  forall (V : Type) sem truth trip of_nat of_bool limit while_limit globals,
    (forall v : V, sem "" "Identity" [] [Some v] = Some [v]) ->
    (forall b, truth (of_bool b) = Some b) ->
    forall cic afuel orders f g xs vs fuel2 k pre es,
      (forall c b pe v, cic c = Some b -> eval_expr V sem globals pe c = Some v -> ptruth V truth v = Some b) ->
      f_body f = (pre ++ [SReturn es])%list -> s3_pre globals cic afuel pre [SReturn es] [] = true -> forallb expr_ok es = true ->
      f_aparams f = [] -> NoDup (f_tparams f) ->
      translate false globals cic afuel orders f = Some g ->
      eval_script V sem truth trip of_nat while_limit globals (S fuel2) f xs = Some vs ->
      stmt_depth_fuel <= S k ->
      eval_graph V sem truth trip of_nat of_bool limit (S k) [] g xs = Some vs.
Proof. exact translate_forloop_correct. Qed.
Print Assumptions C01_graph_eq_python_forloop_partial.

(* the hypotheses are satisfiable on a non-trivial instance: an if/else, then a `for` over a tensor bound carrying
   two variables (both read and written in the body, one through a value captured from outside the loop), the bound
   used again after the loop; one Loop and one If node; source and graph agree for trip counts 3 and 0 *)
Theorem C01_forloop_nonvacuous :
  (forall b, exif_truth (exfor_of_bool b) = Some b) /\
  exists g pre es,
    f_body exfor_f = (pre ++ [SReturn es])%list /\ s3_pre [] (fun _ => None) 5 pre [SReturn es] [] = true /\
    forallb expr_ok es = true /\ f_aparams exfor_f = [] /\ NoDup (f_tparams exfor_f) /\
    translate false [] (fun _ => None) 5 [] exfor_f = Some g /\
    count_op "Loop" (g_nodes g) = 1 /\ count_op "If" (g_nodes g) = 1 /\
    exfor_script [2%Z; 3%Z; 3%Z; 1%Z] = Some [127%Z; 6%Z] /\ exfor_graph g [2%Z; 3%Z; 3%Z; 1%Z] = Some [127%Z; 6%Z] /\
    exfor_script [2%Z; 3%Z; 0%Z; 1%Z] = Some [7%Z; 6%Z] /\ exfor_graph g [2%Z; 3%Z; 0%Z; 1%Z] = Some [7%Z; 6%Z] /\
    exfor_script [2%Z; 3%Z; 3%Z; 0%Z] = Some [70%Z; 3%Z] /\ exfor_graph g [2%Z; 3%Z; 3%Z; 0%Z] = Some [70%Z; 3%Z].
Proof. exact exfor_hyps. Qed.
Print Assumptions C01_forloop_nonvacuous.

(* S3, complete: `for` / `while` loops, each possibly ending in `if c: break`, and if / for / while nested in one
   another to any depth.  `pre_ok globals cic afuel wb 11 pre [SReturn es] []` is the class (11 = stmt_depth_fuel - 1:
   the nesting bound of the converter model itself): at every statement the check stmt_ok -- assignments and if
   conditions as in S2; every loop satisfies the side conditions loop_side on the sets the generated analysis computes
   for it (those of loop_ok above; for `while` also: the condition variable is live before the loop, is not a
   module-level constant, and the body does not read a variable called infinite_loop), and its body is a list of
   class statements (nested blocks checked recursively) optionally ended by `if cn: break` with an empty else.
   A `for` bound is a tensor-valued expression or an integer literal (`range(3)`).
   Side conditions that remain at every loop (loop_side / stmt_ok; L = live before the loop, Lf = live at the end of
   the body = the liveness the converter uses inside the body, Lb = live at the start of the body, A = assigned in the
   body, S = A /\ (exposed_uses(body) \/ live-out) = the loop state), and why:
     (a) S <= Lf and (b) Lb \ (iv :: S) <= L \ A -- the loop state is chosen by exposed_uses, the outputs of the Ifs
         inside the body by the liveness: two independent analyses of analysis.py whose agreement is proved for
         loop-free code only (C01_exposed_uses_sound_loopfree_partial); a body with nested loops needs the check;
     (c) the loop variable is not used after the loop and not assigned in it -- Python keeps it, the ONNX Loop does not
         export it (C01_exposed_uses_zero_trip_refuted);
     (d) no state variable is also a module-level constant; `while`: the body does not read a variable called
         infinite_loop, the condition variable is live at the end of the body and is not a module constant;
     (e) `for`: the variables of the bound are live before the loop -- implied by the analysis once the bound is kept
         live (C01_live_in_sound_for_bound_variant), kept as a check so that the theorem covers both readings.
   No longer hypotheses (they excluded the zero-trip liveness defect, repaired in the code): Lf <= L and live-out <= Lf
   are now lemmas about the generated analysis (loop_live_facts_for / loop_live_facts_while).
   Kernel laws (hypotheses, for arbitrary kernels otherwise): Identity, truth (of_bool b) = Some b, Not, And, the trip
   count read from Constant(k) is k; while_limit <= limit; when wb = true (a `while` with a trailing break is in the class) every value is readable as a
   condition.  The graph is evaluated with fuel above the converter's nesting bound. *)
Theorem C01_graph_eq_python_nested_partial :
  forall (V : Type) sem truth trip of_nat of_bool limit while_limit globals,
    (forall v : V, sem "" "Identity" [] [Some v] = Some [v]) ->
    (forall b, truth (of_bool b) = Some b) ->
    (forall v b, truth v = Some b -> exists r, sem "" "Not" [] [Some v] = Some [r] /\ truth r = Some (negb b)) ->
    (forall a b x y, truth a = Some x -> truth b = Some y ->
       exists r, sem "" "And" [] [Some a; Some b] = Some [r] /\ truth r = Some (x && y)) ->
    while_limit <= limit ->
    (forall z c, const_val V sem (LInt z) = Some c -> trip c = Some (Z.to_nat z)) ->
    forall wb cic afuel orders f g xs vs fuel2 k pre es,
      (wb = true -> forall v, exists b, truth v = Some b) ->
      (forall c b pe v, cic c = Some b -> eval_expr V sem globals pe c = Some v -> ptruth V truth v = Some b) ->
      f_body f = (pre ++ [SReturn es])%list -> pre_ok globals cic afuel wb 11 pre [SReturn es] [] = true -> forallb expr_ok es = true ->
      f_aparams f = [] -> NoDup (f_tparams f) ->
      translate false globals cic afuel orders f = Some g ->
      eval_script V sem truth trip of_nat while_limit globals (S fuel2) f xs = Some vs ->
      stmt_depth_fuel <= k ->
      eval_graph V sem truth trip of_nat of_bool limit (S k) [] g xs = Some vs.
Proof. exact translate_nested_correct. Qed.
Print Assumptions C01_graph_eq_python_nested_partial.

(* the kernel laws are satisfiable (a semantics over Z with Less / Not / And) ... *)
Theorem C01_nested_laws_satisfiable :
  (forall v, nest_sem "" "Identity" [] [Some v] = Some [v]) /\
  (forall b, exif_truth (exfor_of_bool b) = Some b) /\
  (forall v b, exif_truth v = Some b -> exists r, nest_sem "" "Not" [] [Some v] = Some [r] /\ exif_truth r = Some (negb b)) /\
  (forall a b x y, exif_truth a = Some x -> exif_truth b = Some y ->
     exists r, nest_sem "" "And" [] [Some a; Some b] = Some [r] /\ exif_truth r = Some (x && y)) /\
  (forall v, exists b, exif_truth v = Some b) /\
  (forall z c, const_val Z nest_sem (LInt z) = Some c -> exif_trip c = Some (Z.to_nat z)).
Proof. exact nest_laws. Qed.
Print Assumptions C01_nested_laws_satisfiable.

(* ... and so is the class, on a non-trivial instance: a `for` loop ending in a conditional break whose body holds an
   if/else whose then branch holds a `while` loop ending in a conditional break and whose else branch holds a `for` over a
   literal bound (the while loop carries two variables
   and reads one variable of the enclosing loop body and one parameter); source and (as the theorem says) graph agree
   on inputs taking: several while iterations ended by the break; a zero-trip `for`; the `for` break in the first
   iteration; the else branch *)
Theorem C01_nested_nonvacuous :
  exists g pre es,
    f_body exnest_f = (pre ++ [SReturn es])%list /\ pre_ok [] (fun _ => None) 6 true 11 pre [SReturn es] [] = true /\
    forallb expr_ok es = true /\ f_aparams exnest_f = [] /\ NoDup (f_tparams exnest_f) /\
    translate false [] (fun _ => None) 6 [] exnest_f = Some g /\
    count_op "Loop" (g_nodes g) = 1 /\ depth_graph g = 8 /\
    exnest_script [1; 4; 30]%Z = Some [73; 62]%Z /\ exnest_graph g [1; 4; 30]%Z = Some [73; 62]%Z /\
    exnest_script [1; 0; 30]%Z = Some [2; 1]%Z /\ exnest_graph g [1; 0; 30]%Z = Some [2; 1]%Z /\
    exnest_script [1; 4; 3]%Z = Some [16; 11]%Z /\ exnest_graph g [1; 4; 3]%Z = Some [16; 11]%Z /\
    exnest_script [2; 5; 12]%Z = Some [88; 75]%Z /\ exnest_graph g [2; 5; 12]%Z = Some [88; 75]%Z.
Proof. exact exnest_hyps. Qed.
Print Assumptions C01_nested_nonvacuous.

(* the converter's operator table and eager mode's Tensor methods (both regenerated from the source) name the
   same ONNX operator for every Python operator except `%` (and except and/or/not, which Python cannot overload) *)
Theorem C01_operator_tables_agree_partial :
  forallb (fun p => agrees (fst p) || String.eqb (fst p) "Mod" || mem (fst p) not_overloadable) primop_map = true
  /\ forallb reflected_ok reflected = true.
Proof. exact operator_tables_agree_but_mod. Qed.
Print Assumptions C01_operator_tables_agree_partial.

(* `%`: eager decides fmod by the dtype of the left operand, the converter by the right operand being a float
   literal -- they differ for a float tensor divided by a tensor (finding F11) *)
Theorem C01_operator_tables_mod_refuted :
  compare_op "Mod" = Disagree /\
  exists left_is_float right_is_literal,
    eager_fmod left_is_float <> converter_fmod converter_mod_rule right_is_literal
    /\ binop_attrs "Mod" (EVar "y") = [].
Proof. exact operator_tables_mod_refuted. Qed.
Print Assumptions C01_operator_tables_mod_refuted.

(* about the generated analysis (Gen/Analysis.v = analysis.py as it is today): executing statements changes only
   the variables in assigned_vars; stated for every fuel, every statement list and every outcome *)
Theorem C01_assigned_vars_sound :
  forall (V : Type) sem truth trip of_nat while_limit globals cic,
    (forall c b pe v, cic c = Some b -> eval_expr V sem globals pe c = Some v -> ptruth V truth v = Some b) ->
    forall fuel ss pe o,
      exec_block V sem truth trip of_nat while_limit globals fuel ss pe = Some o ->
      match o with
      | ONormal _ pe' | OBreak _ pe' => forall x, ~ In x (assigned_block cic ss) -> plookup V pe' x = plookup V pe x
      | OReturn _ _ => True
      end.
Proof. exact OV.Script.AnalysisProofs.assigned_vars_sound. Qed.
Print Assumptions C01_assigned_vars_sound.

(* liveness of the generated analysis (Gen/Analysis.v = analysis.py as it is today).  The full statement: two
   environments that agree on the variables live before a statement (and on the names K read by the conditions the
   analysis treats as constant) run it to outcomes that agree on the variables live after it.  It is FALSE of the
   code as it is: the liveness of `for i in range(n)` ignores the loop bound (known finding for-bound-not-live). *)
Definition C01_live_in_sound_full : Prop :=
  forall (V : Type) sem truth trip of_nat while_limit globals cic afuel K,
    (forall c b pe v, cic c = Some b -> eval_expr V sem globals pe c = Some v -> ptruth V truth v = Some b) ->
    (forall c b, cic c = Some b -> incl (used_vars c) K) ->
    forall fuel s lo li pe1 pe2 o1,
      live_stmt cic afuel s lo = Some li ->
      (forall x, In x li \/ In x K -> plookup V pe1 x = plookup V pe2 x) ->
      exec_block V sem truth trip of_nat while_limit globals fuel [s] pe1 = Some o1 ->
      exists o2, exec_block V sem truth trip of_nat while_limit globals fuel [s] pe2 = Some o2 /\
        match o1, o2 with
        | ONormal _ a, ONormal _ b | OBreak _ a, OBreak _ b => forall x, In x lo \/ In x K -> plookup V a x = plookup V b x
        | OReturn _ v1, OReturn _ v2 => v1 = v2
        | _, _ => False
        end.

(* proved part: loop-free statements (assignment, tuple assignment, return, if/else with constant and non-constant
   conditions nested to any depth, `break` in tail position).  Missing: SFor (refuted below) and SWhile (not proved:
   needs the fixpoint iteration of the generated analysis to be shown to reach a post-fixpoint). *)
Theorem C01_live_in_sound_loopfree_partial :
  forall (V : Type) sem truth trip of_nat while_limit globals cic afuel K,
    (forall c b pe v, cic c = Some b -> eval_expr V sem globals pe c = Some v -> ptruth V truth v = Some b) ->
    (forall c b, cic c = Some b -> incl (used_vars c) K) ->
    forall fuel s lo li pe1 pe2 o1,
      lf_stmt true s = true ->
      live_stmt cic afuel s lo = Some li ->
      (forall x, In x li \/ In x K -> plookup V pe1 x = plookup V pe2 x) ->
      exec_block V sem truth trip of_nat while_limit globals fuel [s] pe1 = Some o1 ->
      exists o2, exec_block V sem truth trip of_nat while_limit globals fuel [s] pe2 = Some o2 /\
        match o1, o2 with
        | ONormal _ a, ONormal _ b | OBreak _ a, OBreak _ b => forall x, In x lo \/ In x K -> plookup V a x = plookup V b x
        | OReturn _ v1, OReturn _ v2 => v1 = v2
        | _, _ => False
        end.
Proof. exact live_in_sound_loopfree_statement. Qed.
Print Assumptions C01_live_in_sound_loopfree_partial.

(* Variant statements about the loop bound.  `for_bound_live` is computed from the generated analysis (= analysis.py as
   it is now) on `for i in range(n): y = y + i` with y live afterwards: does the analysis keep the bound n live?
   As read before the repair (for_bound_live = false): only y is live before the loop; environments that agree on y and
   differ on n (2 resp. 3) end with y = 1 resp. y = 3 -- liveness is unsound and the full statement is refuted.
   Repaired (for_bound_live = true): for every `for` statement the variables of the bound are live before the loop. *)
Theorem C01_live_in_sound_for_bound_variant :
  (for_bound_live = false ->
   exists li o1 o2,
    live_stmt (fun _ => None) 5 forb_stmt ["y"] = Some li /\ ~ In "n" li /\
    (forall x, In x li -> plookup Z forb_pe1 x = plookup Z forb_pe2 x) /\
    forb_exec forb_pe1 = Some o1 /\ forb_exec forb_pe2 = Some o2 /\
    match o1, o2 with
    | ONormal _ a, ONormal _ b => plookup Z a "y" = Some (PT Z 1%Z) /\ plookup Z b "y" = Some (PT Z 3%Z)
    | _, _ => False
    end) /\
  (for_bound_live = true ->
   forall cic fuel i b body lo L, live_stmt cic fuel (SFor i b body) lo = Some L -> incl (used_vars b) L).
Proof. exact (conj live_in_sound_for_bound_refuted live_in_for_bound_repaired). Qed.
Print Assumptions C01_live_in_sound_for_bound_variant.

(* Liveness WITH loops (class ll_stmt: for / while / if nested to any depth, `break` only as the last thing a loop body
   does -- the only placement the converter accepts --, return anywhere): two environments that agree on the variables
   live before a statement run it to outcomes that agree on the variables live after it.  Hypothesis: the variables of
   a `for` bound are live before the loop (true of the analysis once the bound is kept live, next theorem).  Proof:
   the fixpoint iteration returns L = F(c) with L = c as sets; agreement on L is a loop invariant.  Not covered: a
   `break` followed by further statements of the loop body (Python allows it, the converter refuses it). *)
Theorem C01_live_in_sound_loops_partial :
  forall (V : Type) sem truth trip of_nat while_limit globals cic afuel K,
    (forall c b pe v, cic c = Some b -> eval_expr V sem globals pe c = Some v -> ptruth V truth v = Some b) ->
    (forall c b, cic c = Some b -> incl (used_vars c) K) ->
    (forall i b body lo L, live_stmt cic afuel (SFor i b body) lo = Some L -> incl (used_vars b) L) ->
    forall fuel s lo li pe1 pe2 o1,
      ll_stmt true s = true ->
      live_stmt cic afuel s lo = Some li ->
      (forall x, In x li \/ In x K -> plookup V pe1 x = plookup V pe2 x) ->
      exec_block V sem truth trip of_nat while_limit globals fuel [s] pe1 = Some o1 ->
      exists o2, exec_block V sem truth trip of_nat while_limit globals fuel [s] pe2 = Some o2 /\
        match o1, o2 with
        | ONormal _ a, ONormal _ b | OBreak _ a, OBreak _ b => forall x, In x lo \/ In x K -> plookup V a x = plookup V b x
        | OReturn _ v1, OReturn _ v2 => v1 = v2
        | _, _ => False
        end.
Proof. exact live_in_sound_loops. Qed.
Print Assumptions C01_live_in_sound_loops_partial.

(* repaired analysis (for_bound_live = true): no hypothesis about the bound is left *)
Theorem C01_live_in_sound_loops_repaired :
  for_bound_live = true -> live_in_sound_statement (fun s => ll_stmt true s = true).
Proof. exact live_in_sound_loops_statement. Qed.
Print Assumptions C01_live_in_sound_loops_repaired.

Theorem C01_live_in_sound_loops_nonvacuous :
  ll_stmt true forb_stmt = true /\
  (exists li, live_stmt (fun _ => None) 5 forb_stmt ["y"] = Some li) /\
  (exists o, forb_exec forb_pe1 = Some o).
Proof. exact live_loops_nonvacuous. Qed.
Print Assumptions C01_live_in_sound_loops_nonvacuous.

Theorem C01_live_in_sound_full_variant : for_bound_live = false -> ~ C01_live_in_sound_full.
Proof. exact live_in_sound_full_refuted. Qed.
Print Assumptions C01_live_in_sound_full_variant.

(* exposed uses of the generated analysis (what a loop body reads from outside): full statement -- FALSE of the code
   as it is, see the zero-trip witness below *)
Definition C01_exposed_uses_sound_full : Prop :=
  forall (V : Type) sem truth trip of_nat while_limit globals cic K,
    (forall c b pe v, cic c = Some b -> eval_expr V sem globals pe c = Some v -> ptruth V truth v = Some b) ->
    (forall c b, cic c = Some b -> incl (used_vars c) K) ->
    forall fuel ss live pe1 pe2 o1,
      (forall x, In x (exposed_block cic ss live) \/ In x K -> plookup V pe1 x = plookup V pe2 x) ->
      exec_block V sem truth trip of_nat while_limit globals fuel ss pe1 = Some o1 ->
      exists o2, exec_block V sem truth trip of_nat while_limit globals fuel ss pe2 = Some o2 /\
        match o1, o2 with
        | ONormal _ a, ONormal _ b | OBreak _ a, OBreak _ b => forall x, In x live \/ In x K -> plookup V a x = plookup V b x
        | OReturn _ v1, OReturn _ v2 => v1 = v2
        | _, _ => False
        end.

(* proved part: loop-free blocks (there exposed_uses coincides with the liveness).  Missing: blocks containing loops. *)
Theorem C01_exposed_uses_sound_loopfree_partial :
  forall (V : Type) sem truth trip of_nat while_limit globals cic K,
    (forall c b pe v, cic c = Some b -> eval_expr V sem globals pe c = Some v -> ptruth V truth v = Some b) ->
    (forall c b, cic c = Some b -> incl (used_vars c) K) ->
    forall fuel ss live pe1 pe2 o1,
      lf_block true ss = true ->
      (forall x, In x (exposed_block cic ss live) \/ In x K -> plookup V pe1 x = plookup V pe2 x) ->
      exec_block V sem truth trip of_nat while_limit globals fuel ss pe1 = Some o1 ->
      exists o2, exec_block V sem truth trip of_nat while_limit globals fuel ss pe2 = Some o2 /\
        match o1, o2 with
        | ONormal _ a, ONormal _ b | OBreak _ a, OBreak _ b => forall x, In x live \/ In x K -> plookup V a x = plookup V b x
        | OReturn _ v1, OReturn _ v2 => v1 = v2
        | _, _ => False
        end.
Proof. exact exposed_uses_sound_loopfree. Qed.
Print Assumptions C01_exposed_uses_sound_loopfree_partial.

(* `for i in range(n): y = y + i` run zero times with i live afterwards: i keeps its old value, but the analysis
   exposes {y, n} only.  (In the converter the loop variable of a Loop node is not visible after the loop, so this does
   not by itself miscompile; it is why the full statement cannot be proved as stated.) *)
Theorem C01_exposed_uses_zero_trip_refuted :
  exists o1 o2,
    ~ In "i" (exposed_block (fun _ => None) [forb_stmt] ["i"]) /\
    (forall x, In x (exposed_block (fun _ => None) [forb_stmt] ["i"]) -> plookup Z expz_pe1 x = plookup Z expz_pe2 x) /\
    forb_exec expz_pe1 = Some o1 /\ forb_exec expz_pe2 = Some o2 /\
    match o1, o2 with
    | ONormal _ a, ONormal _ b => plookup Z a "i" = Some (PT Z 1%Z) /\ plookup Z b "i" = Some (PT Z 2%Z)
    | _, _ => False
    end.
Proof. exact exposed_uses_zero_trip_refuted. Qed.
Print Assumptions C01_exposed_uses_zero_trip_refuted.

Theorem C01_exposed_uses_sound_full_refuted : ~ C01_exposed_uses_sound_full.
Proof. exact exposed_uses_sound_full_refuted. Qed.
Print Assumptions C01_exposed_uses_sound_full_refuted.
