"""C13 family `subinit`: models whose SUBGRAPHS (If branches, Loop bodies) own initializers.

ONNX scopes the names of a subgraph to that subgraph: the then-branch and the else-branch of an If, or the bodies of two
Loop nodes, may each hold an initializer called "W" with different contents.  The exporter prints a subgraph's
initializer as a Constant line inside the branch (or inlines it), and with skip_initializers=True turns every
initializer of more than 4 elements -- of whatever graph -- into a parameter of make_model(); one Python parameter
cannot stand for two tensors, so two skipped initializers that get the same Python name must be refused.

    subgraph_init_cases(rng, count)   -> (cases, rejected)     hand-made corner cases + generated ones
    skipped_in_order(model)           -> [(name, array)]       the initializers skip_initializers moves out, in the order in
                                                               which the exporter meets them (= make_model's parameters)
    dup_skipped(model)                -> bool                  two of them share a name

Every case carries `large_inits` in that order (the make_model protocol of harness/c13_rt.py) and `dup_skipped`.
Sizes straddle the thresholds: 1 (0-d / [1]: inlinable), 2..4 (kept; rank 1 inlinable, rank 2 not), 5..10 (skipped).
"""
from __future__ import annotations

import random as _random

import numpy as np
import onnx
from onnx import TensorProto as TP
from onnx import helper as h
from onnx import numpy_helper as nh

OPSET = 18


def _vi(n, t, s):
    return h.make_tensor_value_info(n, t, list(s))


def _size(t):
    return int(np.prod(list(t.dims) or [1]))


def skipped_in_order(model):
    out = []

    def graph(g):
        for i in g.initializer:
            if _size(i) > 4:
                out.append((i.name, nh.to_array(i)))
        for n in g.node:
            subs = [a for a in n.attribute if a.type == onnx.AttributeProto.GRAPH]
            if n.op_type == "If" and len(subs) == 2:  # the exporter prints the then-branch first
                subs = sorted(subs, key=lambda a: a.name != "then_branch")
            for a in subs:
                graph(a.g)

    graph(model.graph)
    return out


def dup_skipped(model):
    names = [n for n, _ in skipped_in_order(model)]
    return len(set(names)) != len(names)


class _Gen:
    def __init__(self, rng):
        self.rng = rng
        self.R = rng.choice([1, 2, 2])
        self.L = rng.choice([2, 3, 4, 5])
        self.k = 0
        self.big = None
        self.pool = rng.choice([["W", "V", "U"], ["w.0", "w_0", "v.1"], ["weight", "bias", "1w"], ["W", "w.0", "if"]])

    def fresh(self, hint):
        self.k += 1
        return f"{hint}{self.k}"

    def tensor(self, name, kind=None, base=0):
        r = self.rng
        kind = kind or r.choice(["L", "L", "RL", "RL", "1L", "s", "1"])
        shape = {"L": [self.L], "RL": [self.R, self.L], "1L": [1, self.L], "s": [], "1": [1]}[kind]
        n = int(np.prod(shape or [1]))
        vals = np.array([base + r.choice([-3, -2, -1, 1, 2, 3, 4]) for _ in range(n)], dtype=np.float32).reshape(shape)
        return nh.from_array(vals, name)

    def branch(self, tag, names, src="x", depth=0, kinds=None):
        """a subgraph without inputs that owns one initializer per name: out = src (op) w1 (op) w2 ..."""
        r = self.rng
        nodes, inits, cur = [], [], src
        for j, nm in enumerate(names):
            inits.append(self.tensor(nm, kinds[j] if kinds else (self.big if j == 0 else None), base=10 * (1 + self.k % 3)))
            o = self.fresh(tag)
            nodes.append(h.make_node(r.choice(["Add", "Mul", "Sub"]), [cur, nm], [o]))
            cur = o
        if not names:
            o = self.fresh(tag)
            nodes.append(h.make_node("Neg", [cur], [o]))
            cur = o
        return nodes, inits, cur

    def graph_of(self, tag, nodes, inits, out):
        return h.make_graph(nodes, f"{tag}_g", [], [_vi(out, TP.FLOAT, [self.R, self.L])], initializer=inits)

    def if_node(self, cond, out, tg, eg):
        if self.rng.random() < 0.5:
            return h.make_node("If", [cond], [out], then_branch=tg, else_branch=eg)
        return h.make_node("If", [cond], [out], else_branch=eg, then_branch=tg)

    def while_loop(self, tag, acc0, names, counter_inits):
        """Loop in the while form: k counts to a limit, acc = acc (op) W with W an initializer of the BODY;
        counter_inits: the constants 1 / limit are initializers of the body too (INT64 scalars, never skipped)"""
        r = self.rng
        it, cin, k, acc = (self.fresh(tag + x) for x in ("_it", "_cin", "_k", "_acc"))
        one, lim, k2, cout = (self.fresh(tag + x) for x in ("_one", "_lim", "_k2", "_cout"))
        nodes, inits = [], []
        limit = r.choice([1, 2, 3])
        if counter_inits:
            inits += [nh.from_array(np.asarray(1, dtype=np.int64), one), nh.from_array(np.asarray(limit, dtype=np.int64), lim)]
        else:
            nodes += [h.make_node("Constant", [], [one], value=nh.from_array(np.asarray(1, dtype=np.int64), "value")),
                      h.make_node("Constant", [], [lim], value=nh.from_array(np.asarray(limit, dtype=np.int64), "value"))]
        bn, binits, cur = self.branch(tag, names, src=acc)
        inits = binits + inits if r.random() < 0.5 else inits + binits
        nodes += bn + [h.make_node("Add", [k, one], [k2]), h.make_node("Less", [k2, lim], [cout])]
        body = h.make_graph(nodes, f"{tag}_body",
                            [_vi(it, TP.INT64, []), _vi(cin, TP.BOOL, []), _vi(k, TP.INT64, []), _vi(acc, TP.FLOAT, [self.R, self.L])],
                            [_vi(cout, TP.BOOL, []), _vi(k2, TP.INT64, []), _vi(cur, TP.FLOAT, [self.R, self.L])], initializer=inits)
        k0, c0, a0, kf, af = (self.fresh(tag + x) for x in ("_k0", "_c0", "_a0", "_kf", "_af"))
        pre = [h.make_node("Constant", [], [k0 + "c"], value=nh.from_array(np.asarray(0, dtype=np.int64), "value")), h.make_node("Identity", [k0 + "c"], [k0]),
               h.make_node("Constant", [], [c0 + "c"], value=nh.from_array(np.asarray(True), "value")), h.make_node("Identity", [c0 + "c"], [c0]),
               h.make_node("Identity", [acc0], [a0])]
        return pre + [h.make_node("Loop", ["", c0, k0, a0], [kf, af], body=body)], af

    def build(self, topo):
        r = self.rng
        P = self.pool
        same = r.random() < 0.55
        self.big = r.choice(["RL", "RL", "1L", "L"]) if (same and r.random() < 0.6) else None  # both siblings above the threshold more often
        tn = [P[0]] + ([P[2]] if r.random() < 0.3 else [])
        en = [P[0] if same else P[1]] + ([P[2]] if r.random() < 0.2 else [])
        main_inits, nodes = [], []
        x = "x"
        if topo == "shadow":  # (outside the ONNX name rules: the branch initializer hides a visible outer name; used before the If only)
            shadow_kind = r.choice(["RL", "RL", "1L", "L"])  # (shape inference wants one rank per name)
            main_inits.append(self.tensor(P[0], shadow_kind))
            o = self.fresh("m")
            nodes.append(h.make_node("Add", ["x", P[0]], [o]))
            x = o
            tn, en = [P[0]], [P[1]]
        if topo == "main-large":
            main_inits.append(self.tensor("M.big", "RL"))
            o = self.fresh("m")
            nodes.append(h.make_node("Mul", ["x", "M.big"], [o]))
            x = o
        if topo in ("if", "shadow", "main-large"):
            tnodes, tinits, tout = self.branch("t", tn, src=x, kinds=[shadow_kind] if topo == "shadow" else None)
            enodes, einits, eout = self.branch("e", en, src=x)
            nodes.append(self.if_node("b", "r", self.graph_of("then", tnodes, tinits, tout), self.graph_of("else", enodes, einits, eout)))
            res = "r"
        elif topo == "if-nested":
            i_t, i_ti, i_to = self.branch("it", tn, src=x)
            i_e, i_ei, i_eo = self.branch("ie", en, src=x)
            inner = self.if_node("b2", "ri", self.graph_of("ithen", i_t, i_ti, i_to), self.graph_of("ielse", i_e, i_ei, i_eo))
            onodes, oinits, oout = self.branch("ot", ["O.w"], src="ri")  # (an inner name equal to this one would hide a visible outer name)
            tg = self.graph_of("then", [inner] + onodes, oinits, oout)
            enodes, einits, eout = self.branch("e", [r.choice(P)], src=x)
            nodes.append(self.if_node("b", "r", tg, self.graph_of("else", enodes, einits, eout)))
            res = "r"
        elif topo == "loops":
            l1, a1 = self.while_loop("p", x, tn, r.random() < 0.5)
            l2, a2 = self.while_loop("q", a1, en, r.random() < 0.5)
            nodes += l1 + l2
            res = a2
        elif topo == "loop-in-if":
            ln, af = self.while_loop("p", x, tn, r.random() < 0.5)
            tg = h.make_graph(ln, "then_g", [], [_vi(af, TP.FLOAT, [self.R, self.L])],
                              initializer=[self.tensor(P[1], None)] if r.random() < 0.3 else [])
            enodes, einits, eout = self.branch("e", en, src=x)
            nodes.append(self.if_node("b", "r", tg, self.graph_of("else", enodes, einits, eout)))
            res = "r"
        else:
            raise ValueError(topo)
        nodes.append(h.make_node("Identity", [res], ["y"]))
        ins = [_vi("x", TP.FLOAT, [self.R, self.L]), _vi("b", TP.BOOL, [])]
        if topo == "if-nested":
            ins.append(_vi("b2", TP.BOOL, []))
        g = h.make_graph(nodes, "g", ins, [_vi("y", TP.FLOAT, [self.R, self.L])], initializer=main_inits)
        m = h.make_model(g, opset_imports=[h.make_opsetid("", OPSET)], ir_version=9)
        feeds = []
        for k in range(4):
            f = {"x": np.array([r.choice([-2.0, -1.0, 0.5, 1.0, 2.0, 3.0]) for _ in range(self.R * self.L)], dtype=np.float32).reshape(self.R, self.L),
                 "b": np.asarray(k % 2 == 0)}
            if topo == "if-nested":
                f["b2"] = np.asarray(k // 2 == 0)
            feeds.append(f)
        return m, feeds


TOPOLOGIES = ["if", "if", "if", "if-nested", "loops", "loop-in-if", "shadow", "main-large"]


def _demo_case():
    """the model of seeded/C13-8/demo.py: both branches call their [2,3] initializer "W" """
    wt = np.arange(6, dtype=np.float32).reshape(2, 3)
    we = -np.ones((2, 3), dtype=np.float32)
    tg = h.make_graph([h.make_node("MatMul", ["x", "W"], ["t"])], "then_body", [], [_vi("t", TP.FLOAT, ["N", 3])], initializer=[nh.from_array(wt, "W")])
    eg = h.make_graph([h.make_node("MatMul", ["x", "W"], ["e"])], "else_body", [], [_vi("e", TP.FLOAT, ["N", 3])], initializer=[nh.from_array(we, "W")])
    g = h.make_graph([h.make_node("If", ["b"], ["y"], then_branch=tg, else_branch=eg)], "branches",
                     [_vi("x", TP.FLOAT, ["N", 2]), _vi("b", TP.BOOL, [])], [_vi("y", TP.FLOAT, ["N", 3])])
    m = h.make_model(g, opset_imports=[h.make_opsetid("", OPSET)], ir_version=8)
    x = np.array([[1.0, 2.0], [3.0, -1.0]], dtype=np.float32)
    return m, [{"x": x, "b": np.asarray(True)}, {"x": x, "b": np.asarray(False)}, {"x": x * 2, "b": np.asarray(False)}]


def _case(cid, m, feeds, topo):
    return {"id": cid, "kind": "model", "origin": "subinit", "profile": "subinit", "proto": m, "feeds": feeds,
            "large_inits": skipped_in_order(m), "dup_skipped": dup_skipped(m), "topology": topo}


def subgraph_init_cases(rng, count):
    cases, rejected = [], 0
    m, feeds = _demo_case()
    cases.append(_case("subinit:demo:both-branches-own-W", m, feeds, "if"))
    attempts = 0
    while len(cases) < count + 1 and attempts < count * 6:
        attempts += 1
        topo = TOPOLOGIES[(len(cases) - 1) % len(TOPOLOGIES)]
        gen = _Gen(_random.Random(rng.getrandbits(64)))
        try:
            m, feeds = gen.build(topo)
            onnx.checker.check_model(m, full_check=True)
        except Exception:  # noqa: BLE001 -- an invalid model is not a case
            rejected += 1
            continue
        cases.append(_case(f"subinit{len(cases)}:{topo}", m, feeds, topo))
    return cases, rejected


# ----------------------------------------------------------------------------------------------- names bound more than once

def binding_profile(proto):
    """name -> kinds of its bindings over all graphs of the model ("inl": Constant node / initializer that inline_const turns
    into a literal, "skipped": initializer of more than 4 elements, "other": any other initializer, node output or graph input)"""
    prof = {}

    def inlinable(t):
        return t.data_type in (TP.FLOAT, TP.INT64) and (len(t.dims) == 0 or (len(t.dims) == 1 and 0 < t.dims[0] < 5))

    def graph(g):
        for i in g.input:
            prof.setdefault(i.name, []).append("other")
        for i in g.initializer:
            prof.setdefault(i.name, []).append("skipped" if _size(i) > 4 else ("inl" if inlinable(i) else "other"))
        for n in g.node:
            is_inl = n.op_type == "Constant" and len(n.attribute) == 1 and n.attribute[0].HasField("t") and inlinable(n.attribute[0].t)
            for o in n.output:
                if o:
                    prof.setdefault(o, []).append("inl" if is_inl else "other")
            for a in n.attribute:
                if a.type == onnx.AttributeProto.GRAPH:
                    graph(a.g)

    if isinstance(proto, onnx.ModelProto):
        graph(proto.graph)
    return prof


def reuse_features(proto):
    prof = binding_profile(proto)
    multi = {k: v for k, v in prof.items() if len(v) > 1}
    return {
        # inline_const: `constants` is keyed by ONNX name and never scoped: a literal registered in one subgraph replaces a
        # different value of that name in a sibling subgraph unless that one is inlined as well
        "inline_stale": any("inl" in v and any(x != "inl" for x in v) for v in multi.values()),
        "inline_reused": any("inl" in v for v in multi.values()),
        # skip_initializers: the parameter of make_model is also assigned inside the function (a printed initializer / node of that name)
        "skipped_assigned": any("skipped" in v and any(x != "skipped" for x in v) for v in multi.values()),
    }


# ----------------------------------------------------------------------------------------------- round-6 finding families

def round6_cases(rng):
    """directed models for three behaviours of the unmodified exporter:
      sibling-constants   a Constant `c` inlined in the then-branch, another `c` (not inlinable) in the else-branch
      string-tensor       a STRING tensor attribute whose elements contain the letters nan / inf
      value-info-type     a value_info whose element type no graph input / output uses (skip_initializers prints value_infos)"""
    N = h.make_node
    f32 = lambda v: nh.from_array(np.asarray(v, dtype=np.float32), "value")  # noqa: E731
    out = []
    x3 = [np.array(a, dtype=np.float32) for a in ([1, -2, 3], [0.5, 0.5, 2], [4, 5, 6], [-1, 0, 1])]
    # -- (a)
    def const_branch(tag, value):
        """out = x * c, reduced back to [3] when c has rank 2"""
        nodes = [N("Constant", [], ["c"], value=f32(value))]
        if np.ndim(value) == 2:
            ax = tag + "_ax"
            nodes += [N("Mul", ["x", "c"], [tag + "0"]), N("ReduceSum", [tag + "0", ax], [tag], keepdims=0)]
            return h.make_graph(nodes, tag + "_g", [], [_vi(tag, TP.FLOAT, [3])], initializer=[nh.from_array(np.array([0], dtype=np.int64), ax)])
        return h.make_graph(nodes + [N("Mul", ["x", "c"], [tag])], tag + "_g", [], [_vi(tag, TP.FLOAT, [3])])

    for k, (tv, ev) in enumerate([(3.0, np.full((1, 3), 23.0)), (np.full((1, 3), 2.0), 5.0), ([1.0, 2.0, 3.0], np.full((1, 3), 0.5)), (2.0, 7.0)]):
        g = h.make_graph([N("If", ["b"], ["y"], then_branch=const_branch("t", tv), else_branch=const_branch("e", ev))], "g",
                         [_vi("x", TP.FLOAT, [3]), _vi("b", TP.BOOL, [])], [_vi("y", TP.FLOAT, [3])])
        m = h.make_model(g, opset_imports=[h.make_opsetid("", OPSET)], ir_version=9)
        feeds = [{"x": v, "b": np.asarray(j % 2 == 0)} for j, v in enumerate(x3)]
        out.append(dict(_case(f"round6:sibling-constants:{k}", m, feeds, "sibling-constants"), family="sibling-constants"))
    # -- (b)
    words = [[b"banana", b"info"], [b"plain", b"text"], [b"nan", b"inf", b"-inf"], [b"finance"]]
    for k, ws in enumerate(words):
        t = h.make_tensor("value", TP.STRING, [len(ws)], vals=ws)
        g = h.make_graph([N("Constant", [], ["s"], value=t), N("Identity", ["s"], ["y"]), N("Neg", ["x"], ["z"])], "g", [_vi("x", TP.FLOAT, [3])],
                         [_vi("y", TP.STRING, [len(ws)]), _vi("z", TP.FLOAT, [3])])
        m = h.make_model(g, opset_imports=[h.make_opsetid("", OPSET)], ir_version=9)
        out.append(dict(_case(f"round6:string-tensor:{k}", m, [{"x": v} for v in x3[:2]], "string-tensor"), family="string-tensor"))
    # -- (c)
    for k, (vt, used) in enumerate([(TP.INT64, False), (TP.FLOAT, True), (TP.BOOL, False)]):
        nodes = [N("Shape", ["x"], ["s"]), N("Cast", ["s"], ["sf"], to=TP.FLOAT), N("Add", ["x", "sf"], ["y0"]), N("Greater", ["y0", "x"], ["m"]),
                 N("Where", ["m", "y0", "x"], ["y"])]
        vinfo = {TP.INT64: _vi("s", TP.INT64, [1]), TP.FLOAT: _vi("sf", TP.FLOAT, [1]), TP.BOOL: _vi("m", TP.BOOL, [3])}[vt]
        g = h.make_graph(nodes, "g", [_vi("x", TP.FLOAT, [3])], [_vi("y", TP.FLOAT, [3])], value_info=[vinfo],
                         initializer=[])
        m = h.make_model(g, opset_imports=[h.make_opsetid("", OPSET)], ir_version=9)
        out.append(dict(_case(f"round6:value-info-type:{k}", m, [{"x": v} for v in x3[:3]], "value-info-type"), family="value-info-type"))
    for c in out:
        onnx.checker.check_model(c["proto"], full_check=True)
    return out


def string_tensor_with_nan_inf(proto):
    def nodes(ns):
        for n in ns:
            for a in n.attribute:
                if a.type == onnx.AttributeProto.TENSOR and a.t.data_type == TP.STRING and any(b"nan" in s or b"inf" in s for s in a.t.string_data):
                    return True
                if a.type == onnx.AttributeProto.GRAPH and nodes(a.g.node):
                    return True
        return False
    return isinstance(proto, onnx.ModelProto) and nodes(proto.graph.node)


def value_info_types_not_in_interface(proto):
    if not isinstance(proto, onnx.ModelProto):
        return False
    g = proto.graph
    iface = {v.type.tensor_type.elem_type for v in list(g.input) + list(g.output)}
    return any(v.type.tensor_type.elem_type not in iface for v in g.value_info)
