(* C05, family _fuse_pad_into_conv.py, n-D: Pad and Conv as one object over any number of axes (statements only). *)
From Coq Require Import ZArith List.
Require Import OV.Rules.PadConv OV.Rules.PadConvND OV.Rules.PadConvNDProofs.
Import ListNotations.
Open Scope Z_scope.

(* Pad_0 after Pad_0 on all axes at once (induction on the axis list) *)
Theorem C05_padconv_nd_pad_pad : forall p q x idx, length p = length q -> nonnegp p ->
  atN (pad0N q (pad0N p x)) idx = atN (pad0N (addp p q) x) idx.
Proof. exact pad0N_pad0N. Qed.
Print Assumptions C05_padconv_nd_pad_pad.

(* Conv(Pad_0(x; p); pads q) = Conv(x; pads p + q): every number of axes (the channel axis may be one of them), kernel,
   strides, dilations, signal, output position; the output extents agree.  Lifts C05_padconv_fuse_sound_partial. *)
Theorem C05_padconv_nd_fuse_sound : forall w ks ss ds (p q : padsN) x,
  length p = length q -> nonnegp p ->
  convN_pads_lens ks ss ds q (pad0N p x) = convN_pads_lens ks ss ds (addp p q) x /\
  forall js, convN_pads_at w ks ss ds q (pad0N p x) js = convN_pads_at w ks ss ds (addp p q) x js.
Proof. exact fuse_pad_conv_nd_sound. Qed.
Print Assumptions C05_padconv_nd_fuse_sound.

(* the pads attribute the rule emits (zipadd in the [begins.., ends..] format) is that per-axis sum *)
Theorem C05_padconv_nd_emitted_pads : forall cb ce pb pe n,
  length cb = n -> length ce = n -> length pb = n -> length pe = n ->
  pairs_of (zipadd (cb ++ ce) (pb ++ pe)) = addp (pairs_of (pb ++ pe)) (pairs_of (cb ++ ce)).
Proof. exact pairs_of_zipadd. Qed.
Print Assumptions C05_padconv_nd_emitted_pads.

(* the one-axis model of Rules/PadConv.v is the instance with a one-element axis list *)
Theorem C05_padconv_nd_one_axis : forall k (w : nat -> Z) (f : Z -> Z),
  dotN [k] (fun ts => w (hd O ts)) (fun us => f (hd 0 us)) = dot w k f.
Proof. exact dotN_one_axis. Qed.
Print Assumptions C05_padconv_nd_one_axis.

(* ConvInteger, n-D: sound for x_zero_point = 0, refuted otherwise *)
Theorem C05_padconv_nd_convinteger_zero_point_0 : forall w ks ss ds (p q : padsN) x js,
  length p = length q -> nonnegp p ->
  convintN_host_at w ks ss ds p q 0 x js = convintN_pads_at w ks ss ds (addp p q) 0 x js.
Proof. exact fuse_pad_convinteger_nd_zero_point_0. Qed.
Print Assumptions C05_padconv_nd_convinteger_zero_point_0.

Theorem C05_padconv_nd_convinteger_zero_point_refuted :
  exists (w : list nat -> Z) (ks : list nat) (ss ds : list Z) (p q : padsN) (zp : Z) (x : sigN) (js : list Z),
  (length p = length q) /\ (nonnegp p) /\
  convintN_host_at w ks ss ds p q zp x js <> convintN_pads_at w ks ss ds (addp p q) zp x js.
Proof. exact fuse_pad_convinteger_nd_zero_point_refuted. Qed.
Print Assumptions C05_padconv_nd_convinteger_zero_point_refuted.

(* an n-D convolution element is a dot product of the flattened kernel with a weight-independent patch: the form over which
   the conv-affine (C05_convaffine) and batch-norm (C05_batchnorm) fusion theorems are stated, so they hold for the n-D
   operator as one object *)
Theorem C05_conv_nd_is_flat_dot : forall w ks ss ds x js,
  convN_at w ks ss ds x js = dotl (flatN ks w) (patchN ks ss ds x js).
Proof. exact convN_is_flat_dot. Qed.
Print Assumptions C05_conv_nd_is_flat_dot.
