(* C06 -- completeness of the matcher model on OR-free patterns with one output node: every instance is
   found, and what is returned agrees with the instance (hence uniqueness); removability. *)
From Coq Require Import List ZArith String Bool Arith Lia.
Require Import OV.Match.Pattern OV.Match.Matcher OV.Match.Spec OV.Match.SoundProofs.
Import ListNotations.

(* ------------------------------------------------------------------ small facts *)
Lemma assoc_in : forall K V (eqb : K -> K -> bool), (forall a b, eqb a b = true -> a = b) ->
  forall (k : K) (v : V) l, assoc eqb k l = Some v -> In (k, v) l.
Proof.
  induction l as [| [k' v'] t IH]; simpl; intros A; try discriminate.
  destruct (eqb k k') eqn:E.
  - inversion A; subst. apply H in E; subst. left; auto.
  - right; auto.
Qed.

Lemma index_of_spec : forall x l i j, index_of x l i = Some j -> exists k, j = i + k /\ nth_error l k = Some x.
Proof.
  induction l as [| y t IH]; intros i j H; simpl in H; try discriminate.
  destruct (Nat.eqb x y) eqn:E.
  - inversion H; subst. apply Nat.eqb_eq in E; subst. exists 0; split; auto; lia.
  - destruct (IH _ _ H) as (k & Hj & Hn). exists (S k); split; auto; lia.
Qed.

Lemma producer_from_spec : forall x ns n0 n i, producer_from x ns n0 = Some (n, i) ->
  exists k h, n = n0 + k /\ nth_error ns k = Some h /\ nth_error (h_outs h) i = Some x.
Proof.
  induction ns as [| h t IH]; intros n0 n i H; simpl in H; try discriminate.
  destruct (index_of x (h_outs h) 0) as [j|] eqn:I.
  - inversion H; subst. apply index_of_spec in I as (k & Hj & Hn). simpl in Hj; subst.
    exists 0, h; repeat split; auto; lia.
  - destruct (IH _ _ _ H) as (k & h' & Hn & Hh & Ho). exists (S k), h'; repeat split; auto; lia.
Qed.

Lemma producer_spec : forall g x n i, producer g x = Some (n, i) ->
  exists h, nth_error (g_nodes g) n = Some h /\ nth_error (h_outs h) i = Some x.
Proof.
  unfold producer; intros g x n i H. apply producer_from_spec in H as (k & h & Hn & Hh & Ho).
  simpl in Hn; subst. eauto.
Qed.

Lemma outputs_local_nth : forall s p names outs i0 k name,
  outputs_local s p names outs i0 = true -> nth_error names k = Some name ->
  exists o, nth_error outs k = Some o /\ value_is s name (KOut p (i0 + k)) (Some o) = true.
Proof.
  induction names as [| nm t IH]; intros outs i0 k name H Hn; destruct k; simpl in *; try discriminate.
  - inversion Hn; subst. destruct outs as [| o outs']; try discriminate.
    apply andb_true_iff in H as [H1 _]. exists o; split; auto. rewrite Nat.add_0_r; auto.
  - destruct outs as [| o outs']; try discriminate. apply andb_true_iff in H as [_ H2].
    destruct (IH _ _ _ _ H2 Hn) as (o' & Ho & Hv). exists o'; split; auto.
    replace (i0 + S k) with (S i0 + k) by lia; auto.
Qed.

(* ------------------------------------------------------------------ a state below an instance *)
Section Complete.
Variable fl : flags.
Variable g : hgraph.
Variable tbl : list npat.
Variable s : sigma.
Hypothesis Hok : nodes_ok g tbl s = true.

Definition sub (st : stack) : Prop :=
  (forall x b, lookup_b x st = Some b -> var_is s x b = true) /\
  (forall k v, lookup_vb k st = Some v -> key_is s k v = true) /\
  (forall q n, lookup_nb q st = Some n -> node_is s q n = true).

Lemma var_is_fun : forall x b b', var_is s x b = true -> var_is s x b' = true -> b = b'.
Proof.
  unfold var_is; intros x b b' H H'. destruct (assoc String.eqb x (s_v s)); try discriminate.
  apply bval_eqb_eq in H, H'. congruence.
Qed.

Lemma key_is_fun : forall k v v', key_is s k v = true -> key_is s k v' = true -> v = v'.
Proof.
  unfold key_is; intros k v v' H H'. destruct (assoc vkey_eqb k (s_k s)); try discriminate.
  apply ovid_eqb_eq in H, H'. congruence.
Qed.

Lemma node_is_fun : forall q n n', node_is s q n = true -> node_is s q n' = true -> n = n'.
Proof.
  unfold node_is; intros q n n' H H'. destruct (assoc Nat.eqb q (s_n s)); try discriminate.
  apply Nat.eqb_eq in H, H'. congruence.
Qed.

Lemma node_ok_of : forall q n, node_is s q n = true -> node_ok g tbl s (q, n) = true.
Proof.
  intros q n N. unfold nodes_ok in Hok. assert (N' := N). unfold node_is in N.
  destruct (assoc Nat.eqb q (s_n s)) as [m|] eqn:A; try discriminate. apply Nat.eqb_eq in N; subst m.
  apply assoc_in in A; [| intros; apply Nat.eqb_eq; auto].
  eapply forallb_forall in Hok; eauto. cbn [fst snd] in Hok. rewrite N' in Hok. auto.
Qed.

Lemma bind_complete : forall x b st, sub st -> var_is s x b = true ->
  exists st', bind x b st = Some st' /\ sub st' /\ below st' = below st /\ all_nb st' = all_nb st.
Proof.
  unfold bind; intros x b st S V. destruct (lookup_b x st) as [b'|] eqn:L.
  - assert (S0 := S). destruct S as (S1 & _). rewrite (var_is_fun _ _ _ (S1 _ _ L) V), bval_eqb_refl.
    exists st. split; [reflexivity|]. split; [exact S0|]. split; reflexivity.
  - eexists; split; [reflexivity|]. destruct st as [t bl]. split; [|split; reflexivity].
    destruct S as (S1 & S2 & S3). split; [|split]; auto.
    intros y c Hy. unfold lookup_b in Hy, L. rewrite all_b_on_top in Hy. cbn [assoc] in Hy.
    destruct (String.eqb y x) eqn:E; auto. apply String.eqb_eq in E; subst. inversion Hy; subst; auto.
Qed.

Lemma bind_key_complete : forall k v st, sub st -> key_is s k v = true ->
  exists st', bind_key k v st = Some st' /\ sub st' /\ below st' = below st /\ all_nb st' = all_nb st.
Proof.
  unfold bind_key; intros k v st S V. destruct (lookup_vb k st) as [v'|] eqn:L.
  - assert (S0 := S). destruct S as (_ & S2 & _). rewrite (key_is_fun _ _ _ (S2 _ _ L) V), ovid_eqb_refl.
    exists st. split; [reflexivity|]. split; [exact S0|]. split; reflexivity.
  - eexists; split; [reflexivity|]. destruct st as [t bl]. split; [|split; reflexivity].
    destruct S as (S1 & S2 & S3). split; [|split]; auto.
    intros y c Hy. unfold lookup_vb in Hy, L. rewrite all_vb_on_top in Hy. cbn [assoc] in Hy.
    destruct (vkey_eqb y k) eqn:E; auto. apply vkey_eqb_eq in E; subst. inversion Hy; subst; auto.
Qed.

Lemma bind_value_complete : forall name k v st, sub st -> value_is s name k v = true ->
  exists st', bind_value name k v st = Some st' /\ sub st' /\ below st' = below st /\ all_nb st' = all_nb st.
Proof.
  intros [x|] k v st S V; simpl in *; [apply bind_complete | apply bind_key_complete]; auto.
Qed.

Lemma match_attrs_complete : forall h pats st, sub st -> forallb (attr_local s h) pats = true ->
  exists st', match_attrs fl pats h st = Ok st' /\ sub st' /\ below st' = below st /\ all_nb st' = all_nb st.
Proof.
  induction pats as [| [name ap] t IH]; intros st S F; simpl in *.
  - exists st. split; [reflexivity | split; [exact S | split; reflexivity]].
  - apply andb_true_iff in F as [F1 F2]. unfold attr_local in F1; cbn [fst snd] in F1.
    destruct (assoc String.eqb name (h_attrs h)) as [a|]; destruct ap as [c | [y|] none_ok]; try discriminate.
    + unfold attr_const_eval. destruct (attr_const_matches c a) as [[|]|]; try discriminate. auto.
    + destruct (bind_complete _ _ _ S F1) as (st1 & B & S1 & B1 & N1). simpl. rewrite B. simpl.
      destruct (IH _ S1 F2) as (st' & M & S' & B' & N'). exists st'; split; [exact M | split; [exact S' | split; congruence]].
    + simpl. auto.
    + apply andb_true_iff in F1 as [Fn F1]. rewrite Fn.
      destruct (bind_complete _ _ _ S F1) as (st1 & B & S1 & B1 & N1). simpl. rewrite B. simpl.
      destruct (IH _ S1 F2) as (st' & M & S' & B' & N'). exists st'; split; [exact M | split; [exact S' | split; congruence]].
    + apply andb_true_iff in F1 as [Fn _]. rewrite Fn. simpl. auto.
Qed.

Lemma bind_outputs_complete : forall p names outs i st, sub st -> outputs_local s p names outs i = true ->
  exists st', bind_outputs fl p names outs i st = Ok st' /\ sub st' /\ below st' = below st /\ all_nb st' = all_nb st.
Proof.
  induction names as [| nm t IH]; intros outs i st S O; simpl in *.
  - exists st. split; [reflexivity | split; [exact S | split; reflexivity]].
  - destruct outs as [| o outs']; try discriminate. apply andb_true_iff in O as [O1 O2].
    destruct (bind_value_complete _ _ _ _ S O1) as (st1 & B & S1 & B1 & N1). rewrite B. simpl.
    destruct (IH _ _ _ S1 O2) as (st' & M & S' & B' & N'). exists st'; split; [exact M | split; [exact S' | split; congruence]].
Qed.

(* what is required of the recursive call, for pattern nodes below q *)
Definition rec_complete (q : pid) (rec : pid -> nid -> stack -> res stack) : Prop :=
  forall p n st, p < q -> sub st -> node_is s p n = true ->
    exists st', rec p n st = Ok st' /\ sub st' /\ below st' = below st /\
                lookup_nb p st' = Some n /\ (forall r m, lookup_nb r st = Some m -> lookup_nb r st' = Some m).

Lemma match_value_complete : forall q rec, rec_complete q rec ->
  forall pv v st, or_free_v pv = true -> refs_below tbl q pv = true -> sub st -> vlocal g s pv v = true ->
    exists st', match_value fl g tbl rec pv v st = Ok st' /\ sub st' /\ below st' = below st /\
                (forall r m, lookup_nb r st = Some m -> lookup_nb r st' = Some m).
Proof.
  intros q rec R pv v st OF RB S V. destruct pv; simpl in OF; try discriminate; simpl in V;
    apply andb_true_iff in V as [Vb V]; apply negb_true_iff in Vb; simpl; rewrite Vb.
  - eauto.
  - apply andb_true_iff in V as [V1 V2].
    destruct (bind_complete _ _ _ S V1) as (st1 & B & S1 & B1 & N1). rewrite B. simpl.
    exists st1. split; [| split; [|split]]; auto.
    + destruct v; auto. rewrite V2; auto.
    + unfold lookup_nb. rewrite N1; auto.
  - apply andb_true_iff in V as [V1 V2].
    destruct (bind_key_complete _ _ _ S V1) as (st1 & B & S1 & B1 & N1). rewrite B. simpl.
    destruct v as [x|]; try discriminate. rewrite V2.
    exists st1. split; [| split; [|split]]; auto. unfold lookup_nb. rewrite N1; auto.
  - (* a node output *)
    simpl in RB. unfold ref_ok in RB. apply andb_true_iff in RB as [RB1 RB2]. apply Nat.ltb_lt in RB1.
    destruct (nth_error tbl p) as [np|] eqn:Tp; try discriminate. apply Nat.ltb_lt in RB2.
    unfold out_of in V. destruct v as [x|]; try discriminate.
    destruct (producer g x) as [[n idx]|] eqn:P; try discriminate.
    apply andb_true_iff in V as [Vi Vn]. apply Nat.eqb_eq in Vi; subst idx.
    (* the output's name / key is consistent with the instance *)
    assert (NO := node_ok_of _ _ Vn). unfold node_ok in NO; cbn [fst snd] in NO. rewrite Tp in NO.
    destruct (producer_spec _ _ _ _ P) as (h & Hh & Ho). rewrite Hh in NO.
    unfold nlocal in NO. apply andb_true_iff in NO as [_ OL].
    destruct (nth_error (np_outs np) i) as [name|] eqn:Nm; [| apply nth_error_None in Nm; lia].
    destruct (outputs_local_nth _ _ _ _ _ _ _ OL Nm) as (o & Ho' & Vv). rewrite Ho in Ho'. inversion Ho'; subst o.
    assert (ON : out_name tbl p i = name).
    { unfold out_name. rewrite Tp. apply nth_error_nth; auto. }
    rewrite ON. simpl in Vv.
    destruct (bind_value_complete _ _ _ _ S Vv) as (st1 & B & S1 & B1 & N1). rewrite B. simpl.
    unfold match_node_output. rewrite P, Nat.eqb_refl.
    destruct (R p n st1 RB1 S1 Vn) as (st' & M & S' & B' & L' & Mono). exists st'.
    split; [| split; [|split]]; auto; try congruence.
    intros r m Lr. apply Mono. unfold lookup_nb in *. rewrite N1; auto.
Qed.

Lemma match_inputs_complete : forall q rec, rec_complete q rec ->
  forall pins ins st,
    forallb (fun i => match i with Some pv => or_free_v pv | None => true end) pins = true ->
    forallb (fun i => match i with Some pv => refs_below tbl q pv | None => true end) pins = true ->
    sub st -> inputs_local g s pins ins = true ->
    exists st', match_inputs fl g tbl rec pins ins st = Ok st' /\ sub st' /\ below st' = below st /\
                (forall r m, lookup_nb r st = Some m -> lookup_nb r st' = Some m).
Proof.
  intros q rec R. induction pins as [| pp ptl IH]; intros ins st OF RB S I; simpl in *.
  - eauto.
  - apply andb_true_iff in OF as [OF1 OF2]. apply andb_true_iff in RB as [RB1 RB2].
    apply andb_true_iff in I as [I1 I2]. destruct pp as [pv|].
    + destruct (match_value_complete q rec R _ _ _ OF1 RB1 S I1) as (st1 & M & S1 & B1 & Mono1). rewrite M. simpl.
      destruct (IH _ _ OF2 RB2 S1 I2) as (st' & M' & S' & B' & Mono'). exists st'.
      split; [| split; [|split]]; auto; try congruence.
    + destruct ins as [| [a|] atl]; try discriminate; apply IH; auto.
Qed.


Hypothesis Horfree : forallb or_free_n tbl = true.
Hypothesis Htopo : topo_from tbl tbl 0 = true.

Lemma topo_nth : forall ns q0 k np, topo_from tbl ns q0 = true -> nth_error ns k = Some np ->
  forallb (fun i => match i with Some pv => refs_below tbl (q0 + k) pv | None => true end) (np_ins np) = true.
Proof.
  induction ns as [| h t IH]; intros q0 k np T N; destruct k; simpl in *; try discriminate.
  - inversion N; subst. apply andb_true_iff in T as [T1 _]. rewrite Nat.add_0_r; auto.
  - apply andb_true_iff in T as [_ T2]. replace (q0 + S k) with (S q0 + k) by lia. eauto.
Qed.

Lemma rec_complete_weaken : forall q q' rec, q' <= q -> rec_complete q rec -> rec_complete q' rec.
Proof. unfold rec_complete; intros q q' rec L R p n st Lp. apply R; lia. Qed.

Lemma lookup_nb_bind_node : forall p n st r, lookup_nb r (bind_node p n st) = if Nat.eqb r p then Some n else lookup_nb r st.
Proof. intros p n [t bl] r. reflexivity. Qed.

Lemma match_node_complete : forall f, rec_complete f (match_node fl g tbl f).
Proof.
  induction f as [| f IH]; intros p n st Lp S N; [lia|]. simpl.
  destruct (lookup_nb p st) as [m|] eqn:L.
  - destruct S as (S1 & S2 & S3). rewrite (node_is_fun _ _ _ (S3 _ _ L) N), Nat.eqb_refl.
    exists st. split; [reflexivity|]. split; [repeat split; auto|]. split; [reflexivity|]. split; auto.
    rewrite L. f_equal. apply (node_is_fun _ _ _ (S3 _ _ L) N).
  - assert (NO := node_ok_of _ _ N). unfold node_ok in NO; cbn [fst snd] in NO.
    destruct (nth_error tbl p) as [np|] eqn:Tp; try discriminate.
    destruct (nth_error (g_nodes g) n) as [h|] eqn:Gn; try discriminate.
    unfold nlocal in NO.
    apply andb_true_iff in NO as [NO OL]. apply andb_true_iff in NO as [NO IL].
    apply andb_true_iff in NO as [NO CNT]. apply andb_true_iff in NO as [NO OA].
    apply andb_true_iff in NO as [NO AT]. apply andb_true_iff in NO as [OP DOM].
    destruct (match_attrs_complete h _ _ S AT) as (st1 & MA & S1 & B1 & N1).
    unfold node_local. rewrite OP, DOM. cbn [negb]. rewrite MA. cbn [rbind]. rewrite OA. cbn [rbind].
    assert (CNT' : (List.length (np_ins np) <? List.length (h_ins h)) && negb (np_other_ins np) = false).
    { destruct (np_other_ins np); [apply andb_false_r|]. rewrite orb_false_r in CNT. apply Nat.leb_le in CNT.
      rewrite andb_true_r. apply Nat.ltb_ge; auto. }
    rewrite CNT'.
    assert (S2 : sub (bind_node p n st1)).
    { destruct S1 as (A1 & A2 & A3). split; [|split].
      - intros x b Hx. apply A1. destruct st1; exact Hx.
      - intros k v Hk. apply A2. destruct st1; exact Hk.
      - intros r m Hr. rewrite lookup_nb_bind_node in Hr. destruct (Nat.eqb r p) eqn:E; auto.
        apply Nat.eqb_eq in E; subst. inversion Hr; subst; auto. }
    assert (OFn : forallb (fun i => match i with Some pv => or_free_v pv | None => true end) (np_ins np) = true).
    { eapply forallb_forall in Horfree; [| eapply nth_error_In; eauto]. exact Horfree. }
    assert (RB := topo_nth _ _ _ _ Htopo Tp). simpl in RB.
    assert (Lpf : p <= f) by lia.
    destruct (match_inputs_complete p (match_node fl g tbl f) (rec_complete_weaken f p _ Lpf IH)
                _ (h_ins h) _ OFn RB S2 IL) as (st3 & MI & S3 & B3 & Mono3).
    rewrite MI. cbn [rbind].
    destruct (bind_outputs_complete p _ _ 0 _ S3 OL) as (st' & BO & S' & B' & N').
    exists st'. split; [exact BO|]. split; [exact S'|]. split; [|split].
    + rewrite B', B3. rewrite <- B1. destruct st1; reflexivity.
    + unfold lookup_nb. rewrite N'. apply Mono3. rewrite lookup_nb_bind_node, Nat.eqb_refl; auto.
    + intros r m Hr. unfold lookup_nb at 1. rewrite N'. apply Mono3. rewrite lookup_nb_bind_node.
      destruct (Nat.eqb r p) eqn:E.
      * apply Nat.eqb_eq in E; subst. congruence.
      * unfold lookup_nb in *. rewrite N1; auto.
Qed.

End Complete.

(* ------------------------------------------------------------------ top level *)
Lemma inputs_local_in : forall g s pins ins pv, inputs_local g s pins ins = true -> In (Some pv) pins ->
  exists a, vlocal g s pv a = true.
Proof.
  induction pins as [| pp t IH]; intros ins pv H I; simpl in *; [contradiction|].
  apply andb_true_iff in H as [H1 H2]. destruct I as [I|I]; [subst; eauto | eauto].
Qed.

Lemma fill_inputs_inv : forall names b x v, assoc String.eqb x (fill_inputs names b) = Some v ->
  assoc String.eqb x b = Some v \/ (v = BNone /\ In x names).
Proof.
  induction names as [| y t IH]; intros b x v A; simpl in *; auto.
  destruct (assoc String.eqb y b) eqn:Ay.
  - destruct (IH _ _ _ A) as [K|[K1 K2]]; auto.
  - destruct (IH _ _ _ A) as [K|[K1 K2]]; auto. simpl in K.
    destruct (String.eqb x y) eqn:E; auto. apply String.eqb_eq in E; subst. inversion K; subst. right; auto.
Qed.

Theorem run_complete_orfree : forall fl p g root r s,
  repaired fl = true -> or_free p = true -> topo p = true ->
  output_nodes p = [r] -> outs_reachable p r ->
  instanceb g p [root] s = true ->
  exists m, run fl p g root false = Ok m /\
    (forall q n, assoc Nat.eqb q (m_nb m) = Some n -> node_is s q n = true) /\
    (forall x b, assoc String.eqb x (m_b m) = Some b -> var_is s x b = true \/ (b = BNone /\ In x (gp_inputs p))) /\
    (forall k v, assoc vkey_eqb k (m_vb m) = Some v -> key_is s k v = true).
Proof.
  intros fl p g root r s Hrep Hor Htp Hroots Hreach Hinst.
  unfold instanceb in Hinst. rewrite Hroots in Hinst. apply andb_true_iff in Hinst as [Hr Hok].
  cbn [roots_are] in Hr. rewrite andb_true_r in Hr.
  assert (NOr := node_ok_of g (gp_nodes p) s Hok _ _ Hr). unfold node_ok in NOr; cbn [fst snd] in NOr.
  destruct (nth_error (gp_nodes p) r) as [npr|] eqn:Tr; try discriminate.
  assert (Lr : r < fuel_for p). { unfold fuel_for. assert (r < List.length (gp_nodes p)) by (apply nth_error_Some; congruence). lia. }
  assert (S0 : sub s init_stack). { repeat split; intros; discriminate. }
  destruct (match_node_complete fl g (gp_nodes p) s Hok Hor Htp (fuel_for p) r root init_stack Lr S0 Hr)
    as (st & M & S & B & L & _).
  destruct (rep_flags fl Hrep) as (Hvb & Hnb & Hof).
  destruct (match_node_sound fl g (gp_nodes p) Hvb Hnb Hof _ _ _ _ _ [] M) as ((E & G & _) & _).
  assert (G0 : good g (gp_nodes p) [] init_stack). { split; [intros q n A; discriminate | reflexivity]. }
  destruct (G G0) as [Gb _]. simpl in B.
  assert (Flat := sig_of_flat st B).
  (* every node reachable from the output node is bound *)
  assert (RB : forall q, reach (gp_nodes p) r q -> exists n, lookup_nb q st = Some n).
  { intros q Rq. induction Rq as [| q np q' i Rq IH Tq Iq]; eauto.
    destruct IH as (n & Ln). destruct (Gb q n Ln) as [[]|NO].
    unfold node_ok in NO; cbn [fst snd] in NO. rewrite Tq in NO.
    destruct (nth_error (g_nodes g) n) as [h|]; try discriminate.
    unfold nlocal in NO. apply andb_true_iff in NO as [NO _]. apply andb_true_iff in NO as [_ IL].
    destruct (inputs_local_in _ _ _ _ _ IL Iq) as (a & V). simpl in V.
    apply andb_true_iff in V as [_ V]. unfold out_of in V. destruct a as [x|]; try discriminate.
    destruct (producer g x) as [[n' idx]|]; try discriminate. apply andb_true_iff in V as [_ V].
    unfold node_is in V. unfold lookup_nb. cbn [sig_of s_n] in V.
    destruct (assoc Nat.eqb q' (all_nb st)); try discriminate. eauto. }
  (* hence every output of the pattern is found *)
  assert (OV : forall outs, (forall pv, In pv outs -> In pv (gp_outs p)) ->
                 exists bs, output_values (gp_nodes p) st outs = Some bs).
  { induction outs as [| pv t IH]; intros Sub; simpl; eauto.
    destruct (IH (fun pv' I => Sub pv' (or_intror I))) as (bs & Hbs). rewrite Hbs.
    destruct (Hreach pv (Sub pv (or_introl eq_refl))) as (q & i & np & Epv & Rq & Tq & Li). subst pv.
    destruct (RB _ Rq) as (n & Ln). destruct (Gb q n Ln) as [[]|NO].
    unfold node_ok in NO; cbn [fst snd] in NO. rewrite Tq in NO.
    destruct (nth_error (g_nodes g) n) as [h|]; try discriminate.
    unfold nlocal in NO. apply andb_true_iff in NO as [_ OL].
    destruct (nth_error (np_outs np) i) as [name|] eqn:Nm; [| apply nth_error_None in Nm; lia].
    destruct (outputs_local_nth _ _ _ _ _ _ _ OL Nm) as (o & _ & Vv). simpl in Vv.
    assert (ON : out_name (gp_nodes p) q i = name). { unfold out_name. rewrite Tq. apply nth_error_nth; auto. }
    cbn [output_value]. rewrite ON. rewrite Flat in Vv. destruct name as [x|]; simpl in Vv.
    - unfold var_is in Vv; cbn [s_v] in Vv. destruct (assoc String.eqb x (pb (top st))); try discriminate. eauto.
    - unfold key_is in Vv; cbn [s_k] in Vv. destruct (assoc vkey_eqb (KOut q i) (pvb (top st))); try discriminate.
      simpl. eauto. }
  destruct (OV (gp_outs p) (fun _ I => I)) as (bs & Hbs).
  eexists. split.
  - unfold run. rewrite Hroots. unfold try_candidate. rewrite Hroots.
    change (match_roots fl g p [r] [root] init_stack)
      with (rbind (match_node fl g (gp_nodes p) (fuel_for p) r root init_stack) (fun st1 => Ok st1)).
    rewrite M. cbn [rbind]. unfold finish. rewrite B, Hbs. cbn [andb]. reflexivity.
  - cbn [m_nb m_b m_vb]. destruct S as (S1 & S2 & S3). split; [|split].
    + intros q n A. apply S3. unfold lookup_nb. replace (all_nb st) with (s_n (sig_of st)) by reflexivity.
      rewrite Flat. exact A.
    + intros x b A. apply fill_inputs_inv in A as [A|A]; auto. left. apply S1.
      unfold lookup_b. replace (all_b st) with (s_v (sig_of st)) by reflexivity. rewrite Flat. exact A.
    + intros k v A. apply S2. unfold lookup_vb. replace (all_vb st) with (s_k (sig_of st)) by reflexivity.
      rewrite Flat. exact A.
Qed.

(* two instances at the same root agree on everything the matcher binds *)
Corollary instance_unique_orfree : forall fl p g root r s1 s2,
  repaired fl = true -> or_free p = true -> topo p = true ->
  output_nodes p = [r] -> outs_reachable p r ->
  instanceb g p [root] s1 = true -> instanceb g p [root] s2 = true ->
  exists m, run fl p g root false = Ok m /\
    (forall q n, assoc Nat.eqb q (m_nb m) = Some n -> node_is s1 q n = true /\ node_is s2 q n = true).
Proof.
  intros fl p g root r s1 s2 Hrep Hor Htp Hr Hre I1 I2.
  destruct (run_complete_orfree fl p g root r s1 Hrep Hor Htp Hr Hre I1) as (m & R1 & A1 & _).
  destruct (run_complete_orfree fl p g root r s2 Hrep Hor Htp Hr Hre I2) as (m' & R2 & A2 & _).
  rewrite R1 in R2; inversion R2; subst m'. exists m; split; auto.
Qed.

(* ------------------------------------------------------------------ removability *)
Lemma consumers_from_inv : forall x ns n0 c, In c (consumers_from x ns n0) ->
  exists k hc, c = n0 + k /\ nth_error ns k = Some hc /\ In (Some x) (h_ins hc).
Proof.
  induction ns as [| h t IH]; intros n0 c H; simpl in H; [contradiction|].
  apply in_app_or in H as [H|H].
  - destruct (uses_value x h) eqn:U; [|contradiction]. destruct H as [H|[]]; subst.
    exists 0, h. repeat split; auto; try lia. unfold uses_value in U.
    apply existsb_exists in U as (o & Io & E). apply ovid_eqb_eq in E; subst; auto.
  - destruct (IH _ _ H) as (k & hc & E & N & I). exists (S k), hc. repeat split; auto; lia.
Qed.

Lemma removable_valid_to_replace : forall g matched outs,
  removable g matched outs -> valid_to_replace g matched outs = true.
Proof.
  unfold removable, valid_to_replace; intros g matched outs R.
  apply forallb_forall. intros n Hn. destruct (nth_error (g_nodes g) n) as [h|] eqn:Hh; auto.
  apply forallb_forall. intros v Hv. destruct (memb bval_eqb (BVal v) outs) eqn:Mo; auto. simpl.
  assert (Hno : ~ In (BVal v) outs). { intro I. apply memb_in_bval in I. congruence. }
  destruct (R n h v Hn Hh Hv Hno) as [R1 R2]. apply andb_true_iff; split.
  - unfold is_graph_output. destruct (memb Nat.eqb v (g_outs g)) eqn:Mg; auto.
    apply memb_in_nat in Mg. contradiction.
  - apply forallb_forall. intros c Hc. apply memb_in_nat. unfold consumers in Hc.
    apply consumers_from_inv in Hc as (k & hc & E & N & I). simpl in E; subst. eauto.
Qed.

Theorem valid_to_replace_iff : forall g matched outs,
  valid_to_replace g matched outs = true <-> removable g matched outs.
Proof. intros; split; [apply valid_to_replace_removable | apply removable_valid_to_replace]. Qed.

(* with one output node, checking removability = matching without the check + the matched nodes are removable *)
Theorem removable_iff : forall fl p g root r m,
  out_fail fl = true -> output_nodes p = [r] ->
  (run fl p g root true = Ok m <->
   run fl p g root false = Ok m /\ removable g (m_nodes m) (m_outs m)).
Proof.
  intros fl p g root r m Hof Hr. unfold run. rewrite Hr. unfold try_candidate.
  destruct (match_roots fl g p (output_nodes p) [root] init_stack) as [st| | |st]; try rewrite Hof;
    try (split; [discriminate | intros [? _]; discriminate]).
  unfold finish. destruct (below st); [|split; [discriminate | intros [? _]; discriminate]].
  destruct (output_values (gp_nodes p) st (gp_outs p)) as [outs|]; [|split; [discriminate | intros [? _]; discriminate]].
  cbn [andb]. destruct (valid_to_replace g (rev (pnodes (top st))) outs) eqn:V; cbn [negb].
  - split.
    + intro H; inversion H; subst. split; auto. cbn [m_nodes m_outs]. apply valid_to_replace_iff; auto.
    + intros [H _]; auto.
  - split; [discriminate|]. intros [H R]. inversion H; subst. cbn [m_nodes m_outs] in R.
    apply valid_to_replace_iff in R. congruence.
Qed.

(* ------------------------------------------------------------------ several output nodes *)
Lemma roots_are_length : forall s roots cand, roots_are s roots cand = true -> List.length roots = List.length cand.
Proof.
  induction roots as [| r rt IH]; intros [| c ct] H; simpl in *; try discriminate; auto.
  apply andb_true_iff in H as [_ H]. f_equal; auto.
Qed.

Section Multi.
Variable fl : flags.
Variable g : hgraph.
Variable p : gpat.
Variable s : sigma.
Hypothesis Hrep : repaired fl = true.
Hypothesis Hor : or_free p = true.
Hypothesis Htp : topo p = true.
Hypothesis Hok : nodes_ok g (gp_nodes p) s = true.

Lemma match_roots_complete : forall roots cand st,
  roots_are s roots cand = true -> sub s st ->
  exists st', match_roots fl g p roots cand st = Ok st' /\ sub s st' /\ below st' = below st /\
    (forall r m, lookup_nb r st = Some m -> lookup_nb r st' = Some m) /\
    (forall r, In r roots -> exists c, lookup_nb r st' = Some c).
Proof.
  induction roots as [| r rt IH]; intros [| c ct] st R S; simpl in R; try discriminate.
  - exists st. simpl. split; [reflexivity|]. split; [exact S|]. split; [reflexivity|]. split; [auto|]. intros r [].
  - apply andb_true_iff in R as [R1 R2].
    assert (NO := node_ok_of g (gp_nodes p) s Hok _ _ R1). unfold node_ok in NO; cbn [fst snd] in NO.
    destruct (nth_error (gp_nodes p) r) as [npr|] eqn:Tr; try discriminate.
    assert (Lr : r < fuel_for p).
    { unfold fuel_for. assert (r < List.length (gp_nodes p)) by (apply nth_error_Some; congruence). lia. }
    destruct (match_node_complete fl g (gp_nodes p) s Hok Hor Htp (fuel_for p) r c st Lr S R1)
      as (st1 & M & S1 & B1 & L1 & Mono1).
    destruct (IH ct st1 R2 S1) as (st' & M' & S' & B' & Mono' & All').
    exists st'.
    change (match_roots fl g p (r :: rt) (c :: ct) st)
      with (rbind (match_node fl g (gp_nodes p) (fuel_for p) r c st) (fun st1 => match_roots fl g p rt ct st1)).
    rewrite M. cbn [rbind]. split; [exact M'|]. split; [exact S'|]. split; [congruence|]. split.
    + intros q m Hq. apply Mono'. apply Mono1. exact Hq.
    + intros q [E|I]; [subst q; exists c; apply Mono'; exact L1 | apply All'; exact I].
Qed.

Theorem try_candidate_complete : forall cand,
  outs_reachable_multi p ->
  roots_are s (output_nodes p) cand = true ->
  exists m, try_candidate fl g p false cand = Ok m.
Proof.
  intros cand Hreach R.
  assert (S0 : sub s init_stack). { repeat split; intros; discriminate. }
  destruct (match_roots_complete _ _ _ R S0) as (st & M & S & B & _ & All).
  assert (Hl := roots_are_length _ _ _ R).
  destruct (match_roots_spec fl g p Hrep _ _ _ _ Hl M) as ((E & G & _) & _).
  assert (G0 : good g (gp_nodes p) [] init_stack). { split; [intros q n A; discriminate | reflexivity]. }
  destruct (G G0) as [Gb _]. simpl in B.
  assert (Flat := sig_of_flat st B).
  assert (RB : forall r q, In r (output_nodes p) -> reach (gp_nodes p) r q -> exists n, lookup_nb q st = Some n).
  { intros r q Ir Rq. induction Rq as [| q np q' i Rq IH Tq Iq]; [apply All; auto|].
    destruct IH as (n & Ln). destruct (Gb q n Ln) as [[]|NO].
    unfold node_ok in NO; cbn [fst snd] in NO. rewrite Tq in NO.
    destruct (nth_error (g_nodes g) n) as [h|]; try discriminate.
    unfold nlocal in NO. apply andb_true_iff in NO as [NO _]. apply andb_true_iff in NO as [_ IL].
    destruct (inputs_local_in _ _ _ _ _ IL Iq) as (a & V). simpl in V.
    apply andb_true_iff in V as [_ V]. unfold out_of in V. destruct a as [x|]; try discriminate.
    destruct (producer g x) as [[n' idx]|]; try discriminate. apply andb_true_iff in V as [_ V].
    unfold node_is in V. unfold lookup_nb. cbn [sig_of s_n] in V.
    destruct (assoc Nat.eqb q' (all_nb st)); try discriminate. eauto. }
  assert (OV : forall outs, (forall pv, In pv outs -> In pv (gp_outs p)) ->
                 exists bs, output_values (gp_nodes p) st outs = Some bs).
  { induction outs as [| pv t IH]; intros Sub; simpl; eauto.
    destruct (IH (fun pv' I => Sub pv' (or_intror I))) as (bs & Hbs). rewrite Hbs.
    destruct (Hreach pv (Sub pv (or_introl eq_refl))) as (r & q & i & np & Ir & Epv & Rq & Tq & Li). subst pv.
    destruct (RB _ _ Ir Rq) as (n & Ln). destruct (Gb q n Ln) as [[]|NO].
    unfold node_ok in NO; cbn [fst snd] in NO. rewrite Tq in NO.
    destruct (nth_error (g_nodes g) n) as [h|]; try discriminate.
    unfold nlocal in NO. apply andb_true_iff in NO as [_ OL].
    destruct (nth_error (np_outs np) i) as [name|] eqn:Nm; [| apply nth_error_None in Nm; lia].
    destruct (outputs_local_nth _ _ _ _ _ _ _ OL Nm) as (o & _ & Vv). simpl in Vv.
    assert (ON : out_name (gp_nodes p) q i = name). { unfold out_name. rewrite Tq. apply nth_error_nth; auto. }
    cbn [output_value]. rewrite ON. rewrite Flat in Vv. destruct name as [x|]; simpl in Vv.
    - unfold var_is in Vv; cbn [s_v] in Vv. destruct (assoc String.eqb x (pb (top st))); try discriminate. eauto.
    - unfold key_is in Vv; cbn [s_k] in Vv. destruct (assoc vkey_eqb (KOut q i) (pvb (top st))); try discriminate.
      simpl. eauto. }
  destruct (OV (gp_outs p) (fun _ I => I)) as (bs & Hbs).
  eexists. unfold try_candidate. rewrite M. unfold finish. rewrite B, Hbs. cbn [andb]. reflexivity.
Qed.

Lemma try_candidate_not_soft : forall rm cand st, try_candidate fl g p rm cand <> Soft st.
Proof.
  intros rm cand st. unfold try_candidate.
  destruct (match_roots fl g p (output_nodes p) cand init_stack) as [st1| | |s1]; try discriminate.
  - unfold finish. destruct (below st1); try discriminate.
    destruct (output_values (gp_nodes p) st1 (gp_outs p)); try discriminate.
    destruct (rm && negb (valid_to_replace g (rev (pnodes (top st1))) l)); discriminate.
  - destruct (out_fail fl); try discriminate. destruct (below s1); discriminate.
Qed.

Lemma first_ok_complete : forall rm cands c m,
  In c cands -> try_candidate fl g p rm c = Ok m ->
  (forall c', In c' cands -> try_candidate fl g p rm c' <> Err) ->
  exists m', first_ok fl g p rm cands = Ok m'.
Proof.
  induction cands as [| c0 t IH]; intros c m I T NE; [contradiction|]. simpl.
  destruct (try_candidate fl g p rm c0) as [m0| | |s0] eqn:T0.
  - eauto.
  - destruct I as [E|I]; [subst; congruence|]. eapply IH; eauto. intros c' I'. apply NE; right; auto.
  - exfalso. apply (NE c0); auto. left; auto.
  - exfalso. eapply try_candidate_not_soft; eauto.
Qed.

(* completeness with several output nodes: when some tuple of candidates (first = the root) carries an instance,
   a match is reported (for the first such tuple in candidate order), provided no earlier tuple makes the
   matcher raise *)
Theorem run_complete_orfree_multi : forall root cand,
  outs_reachable_multi p ->
  In cand (candidates fl p g root) ->
  instanceb g p cand s = true ->
  (forall c, In c (candidates fl p g root) -> try_candidate fl g p false c <> Err) ->
  exists m, run fl p g root false = Ok m.
Proof.
  intros root cand Hreach Ic Hinst NE.
  unfold instanceb in Hinst. apply andb_true_iff in Hinst as [R _].
  destruct (try_candidate_complete cand Hreach R) as (m & T).
  unfold run. unfold candidates in Ic, NE.
  destruct (output_nodes p) as [| r [| r2 others]] eqn:On; [contradiction| |].
  - destruct Ic as [E|[]]; subst cand. eauto.
  - eapply first_ok_complete; eauto.
Qed.

End Multi.

Theorem run_complete_orfree_multi_closed : forall fl g p s,
  repaired fl = true -> or_free p = true -> topo p = true ->
  forall root cand,
  outs_reachable_multi p ->
  In cand (candidates fl p g root) ->
  instanceb g p cand s = true ->
  (forall c, In c (candidates fl p g root) -> try_candidate fl g p false c <> Err) ->
  exists m, run fl p g root false = Ok m.
Proof.
  intros fl g p s Hrep Hor Htp root cand Hre Ic Hi NE.
  assert (Hok : nodes_ok g (gp_nodes p) s = true).
  { unfold instanceb in Hi. apply andb_true_iff in Hi as [_ H]; exact H. }
  exact (run_complete_orfree_multi fl g p s Hrep Hor Htp Hok root cand Hre Ic Hi NE).
Qed.
