(* C11 -- the repaired eager slice bounds select Python's positions for every start/stop/step, with no exception. *)
From Coq Require Import ZArith List Bool Lia ZifyBool.
Import ListNotations.
Require Import OV.Index.NumpySpec OV.Index.OnnxSlice OV.Index.ConverterIdx OV.Index.EagerIdx OV.Index.SliceProofs
               OV.Index.EagerFix.
Open Scope Z_scope.

Lemma eager_bounds_c_false : forall d a b s, eager_bounds_c false d a b s = eager_bounds d a b s.
Proof. intros. unfold eager_bounds_c. destruct (eager_bounds d a b s) as [[x y] st]. reflexivity. Qed.

Lemma eslice_spec_c_false : forall p, eslice_spec_c false p = eslice_spec p.
Proof.
  intros p. unfold eslice_spec_c, eslice_spec. destruct (e_comp p); try reflexivity. rewrite eager_bounds_c_false. reflexivity.
Qed.

(* cl = false is the model of the unrepaired code *)
Lemma eager_ops_c_false : forall shape idx, eager_ops_c false shape idx = eager_ops true shape idx.
Proof.
  intros. unfold eager_ops_c, eager_ops. rewrite (map_ext _ _ eslice_spec_c_false). reflexivity.
Qed.

Lemma py_slice_start_below : forall d b st z, 0 <= d -> st < 0 -> z < - d ->
  py_slice d (Some z) b (Some st) = Some [].
Proof.
  intros d b st z Hd Hst Hz. unfold py_slice, step_of. assert (st =? 0 = false) as -> by lia.
  unfold py_adjust. cbv zeta. assert (st <? 0 = true) as -> by lia. assert (z <? 0 = true) as -> by lia.
  replace (Z.max (z + d) (-1)) with (-1) by lia. f_equal. apply range_list_empty_neg; [assumption|].
  destruct b as [e|]; [|lia]. destruct (e <? 0) eqn:?; lia.
Qed.

Lemma onnx_slice_zero_zero : forall d st, 0 <= d -> st < 0 -> onnx_slice d 0 0 st = Some [].
Proof.
  intros d st Hd Hst. unfold onnx_slice. assert (st =? 0 = false) as -> by lia. cbn [Z.ltb Z.compare].
  assert (0 <? st = false) as -> by lia. f_equal. apply range_list_empty_neg; [assumption|]. unfold clamp. lia.
Qed.

(* the repaired Slice operands: Python's positions for every dimension, start, stop and step -- no corner left *)
Theorem eager_slice_fixed_eq_python : forall d a b s, 0 <= d ->
  eager_slice_c true d a b s = py_slice d (bval a) (bval b) (bval s).
Proof.
  intros d a b s Hd. unfold eager_slice_c, eager_bounds_c.
  destruct (eager_bounds d a b s) as [[x y] st] eqn:Eb. cbn [andb].
  destruct (negb (match bval s with None => true | Some st0 => 0 <? st0 end) && (x <? - d)) eqn:Ec.
  - (* clamped: a non-positive step and a start below -d *)
    apply andb_true_iff in Ec. destruct Ec as [Ep Ex].
    destruct (bval s) as [z|] eqn:Hs; [|discriminate]. unfold eager_bounds in Eb. rewrite Hs in Eb.
    assert (0 <? z = false) as Hz by (destruct (0 <? z); [discriminate|reflexivity]). rewrite Hz in Eb.
    injection Eb as <- <- <-. unfold dflt in *. rewrite Hs.
    destruct (Z.eq_dec z 0) as [->|Hnz]; [reflexivity|].
    destruct (bval a) as [za|] eqn:Ha.
    + rewrite (py_slice_start_below d (bval b) z za) by lia. apply onnx_slice_zero_zero; lia.
    + (* omitted start: d - 1 < -d only for d = 0 *)
      assert (d = 0) as -> by lia. rewrite onnx_slice_zero_zero by lia.
      unfold py_slice, step_of. assert (z =? 0 = false) as -> by lia. unfold py_adjust. cbv zeta. assert (z <? 0 = true) as -> by lia.
      symmetry. f_equal. apply range_list_empty_neg; [lia|]. destruct (bval b) as [e|]; [|lia]. destruct (e <? 0) eqn:?; lia.
  - (* not clamped: the corner cannot occur *)
    pose proof (eager_slice_eq_python d a b s Hd) as E. unfold eager_slice in E. rewrite Eb in E. apply E.
    unfold neg_start_hazard. destruct (bval s) as [z|] eqn:Hs; [|reflexivity]. destruct (bval a) as [za|] eqn:Ha; [|reflexivity].
    unfold eager_bounds in Eb. rewrite Hs in Eb. unfold dflt in Eb. rewrite Ha, Hs in Eb.
    destruct (0 <? z) eqn:Hz; injection Eb as <- <- <-.
    + assert (z <? 0 = false) as -> by lia. reflexivity.
    + cbn [negb andb] in Ec. assert (za <? - d = false) as -> by lia. destruct (z <? 0), (1 <=? d); reflexivity.
Qed.

Example eager_slice_fixed_instance :   (* X[-6::-1] on an axis of length 4: unrepaired [0], repaired and Python [] *)
  eager_slice_c false 4 (BConst (-6)) BNone (BConst (-1)) = Some [0] /\
  eager_slice_c true 4 (BConst (-6)) BNone (BConst (-1)) = Some [] /\
  py_slice 4 (Some (-6)) None (Some (-1)) = Some [].
Proof. vm_compute. repeat split. Qed.
