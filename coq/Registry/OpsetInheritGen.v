(* C17 -- the inheritance and translation statements on the regenerated data (Gen/OpsetMethods.v: classes with
   their base classes and own methods as extracted from the Python ast; Gen/OpsetSchemas.v: onnx.defs), decided by
   evaluation and lifted through the general theorems.  A class deriving from the wrong base, or a method
   defined in the wrong class, makes this file fail to compile. *)
From Coq Require Import List String ZArith Bool Lia.
Import ListNotations.
Require Import OV.Registry.OpsetMethod OV.Registry.OpsetMethodProofs OV.Registry.OpsetEmit OV.Registry.OpsetEmitProofs
               OV.Registry.OpsetChain OV.Registry.OpsetChainProofs OV.Registry.OpsetGen
               OV.Registry.OpsetInherit OV.Registry.OpsetInheritProofs
               OV.Registry.OpsetTranslate OV.Registry.OpsetTranslateProofs.
Local Open Scope string_scope.
Local Open Scope list_scope.

Lemma gen_uniq_keys : uniq_keysb gen_schemas = true.
Proof. vm_compute. reflexivity. Qed.

(* every (class, operator) of the 33 extracted classes (ai.onnx, ai.onnx.ml, ai.onnx.preview): the class that
   supplies the method along the resolution order is the class of the schema's since_version *)
Lemma gen_inherit_ok : inherit_ok gen_schemas gen_classes = true.
Proof. vm_compute. reflexivity. Qed.

(* every chain: same domain, versions N, N-1, ..., 1 *)
Lemma gen_chains_shape : chains_shape_ok gen_classes = true.
Proof. vm_compute. reflexivity. Qed.

Theorem gen_inherited_method_resolves : forall c, In c gen_classes ->
  forall op s, dyn_getitem gen_schemas c op = Some s ->
    (covered c = true -> exists m, static_lookup gen_classes c op = Some m) /\
    forall m, static_lookup gen_classes c op = Some m ->
      exists l pre d post, mro_of gen_classes c = Some l /\ l = pre ++ d :: post /\
        (forall k, In k pre -> lookup_in (c_methods k) op = None) /\
        lookup_in (c_methods d) op = Some m /\
        c_domain d = c_domain c /\ c_version d = s_since s /\ m_since m = s_since s /\
        static_schema gen_schemas m = Some s /\
        c_version d = (c_version c - Z.of_nat (List.length pre))%Z /\
        (lookup_in (c_methods c) op = None -> (s_since s < c_version c)%Z /\ exists pre', pre = c :: pre').
Proof.
  intros c I op s R.
  destruct (inherit_sound _ _ gen_inherit_ok gen_uniq_keys c I op s R) as [H1 H2].
  split; auto. intros m L.
  destruct (H2 m L) as [l [pre [d [post [M [El [A [B [C [D [E [F G]]]]]]]]]]]].
  pose proof gen_chains_shape as S. unfold chains_shape_ok in S. rewrite forallb_forall in S.
  specialize (S c I). rewrite M in S. rewrite El in S.
  destruct (shape_version_at _ _ _ _ S) as [V _].
  exists l, pre, d, post.
  split; [exact M|]. split; [exact El|]. split; [exact A|]. split; [exact B|]. split; [exact C|].
  split; [exact D|]. split; [exact E|]. split; [exact F|]. split; [exact V|].
  intro NL. destruct (G NL) as [pre' P]. split; [|exists pre'; exact P].
  rewrite P in V. cbn [List.length] in V. lia.
Qed.

(* the translated node under the import of its own opset version *)
Theorem gen_translated_call : forall c, In c gen_classes -> forall op m, static_lookup gen_classes c op = Some m ->
  forall imp, assoc (c_domain c) imp = Some (c_version c) ->
  exists s, node_schema gen_schemas imp (translate_call c op) = Some s /\ dyn_getitem gen_schemas c op = Some s /\
            (gen_exempt s = false -> static_schema gen_schemas m = Some s /\ mirrors m s).
Proof. exact (translated_call_denotes_method_schema _ _ _ gen_registry_ok). Qed.

Theorem gen_standard_calls_resolve : forall calls nodes imp, translate_body calls = Some (nodes, imp) ->
  forall c op m, In (c, op) calls -> In c gen_classes -> c_domain c = "" -> static_lookup gen_classes c op = Some m ->
    exists s, node_schema gen_schemas imp (translate_call c op) = Some s /\
              (gen_exempt s = false -> static_schema gen_schemas m = Some s /\ mirrors m s).
Proof. exact (standard_calls_resolve _ _ _ gen_registry_ok). Qed.

(* the version pairs the harness builds its mixed-opset scripts from: complete for onnx.defs as installed *)
Definition gen_changed_pairs : list vpair := changed_pairs gen_schemas.
Definition gen_late_ops : list (string * string * Z) := late_ops gen_schemas.

Theorem gen_changed_pairs_complete : forall name dom N1 N2 s1 s2,
  resolve gen_schemas name N1 dom = Some s1 -> resolve gen_schemas name N2 dom = Some s2 ->
  (s_since s1 < s_since s2)%Z -> In (dom, name, s_since s1, s_since s2) gen_changed_pairs.
Proof. exact (schema_changed_pairs_complete gen_schemas). Qed.

Theorem gen_late_ops_histories : forall d n k, In (d, n, k) gen_late_ops ->
  (1 < k)%Z /\ resolve gen_schemas n (k - 1) d = None /\ exists s, resolve gen_schemas n k d = Some s /\ s_since s = k.
Proof. intros d n k. exact (late_op_miss_then_hit gen_schemas d n k gen_uniq_keys). Qed.

(* not degenerate: Softmax changed between 11 and 13, Celu appears at 12, LabelEncoder (ai.onnx.ml) changed 2 -> 4 *)
Definition vpair_is (d n : string) (k1 k2 : Z) (p : vpair) : bool :=
  let '(d', n', a, b) := p in String.eqb d d' && String.eqb n n' && Z.eqb k1 a && Z.eqb k2 b.
Example gen_pairs_nonempty :
  existsb (vpair_is "" "Softmax" 11 13) gen_changed_pairs = true /\
  existsb (vpair_is "ai.onnx.ml" "LabelEncoder" 2 4) gen_changed_pairs = true /\
  existsb (fun x => let '(d, n, k) := x in String.eqb d "" && String.eqb n "Celu" && Z.eqb k 12) gen_late_ops = true /\
  Nat.leb 200 (List.length gen_changed_pairs) = true /\ Nat.leb 80 (List.length gen_late_ops) = true.
Proof. vm_compute. repeat split. Qed.
