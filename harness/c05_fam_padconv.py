"""C05 family: _fuse_pad_into_conv.py (fuse_pad_into_conv[_integer]_rule, normalize_pad_format_conv[_integer]_rule).

Model coq/Rules/PadConv.v, proofs PadConvProofs.v, property theorems Props/C05_padconv.v.
Correspondence: each single rule applied through onnxscript.rewriter.rewrite to generated hosts (Pad parameter space:
pads with/without `axes`, negative / permuted axes, non-spatial and negative pads, mode, constant_value forms;
Conv: ranks 3-5, kernel, strides, dilations, group, own pads, auto_pad; ConvInteger with/without zero point);
fired?/emitted `pads` are compared inside Coq with `fuse_impl`/`fuse_fixed` and `normalize false/true`;
the pure helpers fill_pads_with_axes and compute_pads are additionally called directly.
Direct oracle: host vs rewritten host on onnxruntime + onnx.reference, 3 integer-valued inputs, exact comparison.
"""
from __future__ import annotations

import numpy as np

from harness import c05_b_util as U
from harness.common import cbool, clist, cnat, copt, cz

FAM = "padconv"
AP = {None: "AP_absent", "NOTSET": "NOTSET", "VALID": "VALID", "SAME_UPPER": "SAME_UPPER", "SAME_LOWER": "SAME_LOWER"}


# ------------------------------------------------------------------ fuse stream

def _fuse_instance(rng, i, tier):
    n = rng.choice([1, 2, 2, 2, 3])                      # spatial rank
    rank = n + 2
    integer = (i % 5 == 4)
    inst = dict(n=n, rank=rank, integer=integer, const_kind=("init", "node")[i % 2])
    # which conjunct (if any) is falsified
    miss = rng.choice(["none"] * 6 + ["batch", "channel", "negative", "mode", "cval", "auto_pad", "pads_input", "cval_input", "axes_input"])
    inst["miss"] = miss
    axes_form = rng.choice(["absent", "absent", "spatial", "spatial_neg", "permuted", "subset", "all"])
    if axes_form == "absent" or axes_form == "all":
        axes = list(range(rank))
    elif axes_form == "spatial":
        axes = list(range(2, rank))
    elif axes_form == "spatial_neg":
        axes = [a - rank for a in range(2, rank)]
    elif axes_form == "permuted":
        axes = list(range(2, rank))
        rng.shuffle(axes)
        axes = [a if rng.random() < 0.5 else a - rank for a in axes]
    else:
        axes = [rng.choice(range(2, rank))]
    if miss in ("batch", "channel") and axes_form not in ("absent", "all"):
        axes = [0, 1] + axes if axes_form != "subset" else [0 if miss == "batch" else 1] + axes
    N = len(axes)
    begins = [rng.choice([0, 0, 1, 2]) for _ in range(N)]
    ends = [rng.choice([0, 1, 1, 3]) for _ in range(N)]
    for t, a in enumerate(axes):
        if a % rank < 2:
            begins[t] = ends[t] = 0
    if miss == "batch":
        t = [a % rank for a in axes].index(0)
        begins[t] = 1
    if miss == "channel":
        t = [a % rank for a in axes].index(1)
        ends[t] = 1
    if miss == "negative":
        t = rng.choice([t for t, a in enumerate(axes) if a % rank >= 2])
        if rng.random() < 0.5:
            begins[t] = -1
        else:
            ends[t] = -1
    inst.update(axes=None if (axes_form == "absent" and miss != "axes_input") else axes, pads=begins + ends)
    inst["mode"] = rng.choice(["reflect", "edge"]) if miss == "mode" else rng.choice([None, "constant"])
    inst["cval"] = rng.choice([1, -2]) if miss == "cval" else rng.choice(["absent", 0, 0, "empty"] if inst["axes"] is None else [0, 0, "empty"])
    inst["auto_pad"] = rng.choice(["VALID", "SAME_UPPER", "SAME_LOWER"]) if miss == "auto_pad" else rng.choice([None, "NOTSET"])
    inst["kernel"] = [rng.choice([1, 2, 3]) for _ in range(n)]
    inst["strides"] = rng.choice([None, [rng.choice([1, 2]) for _ in range(n)]])
    inst["dil"] = rng.choice([None, None, [rng.choice([1, 2]) for _ in range(n)]])
    inst["group"] = rng.choice([1, 1, 2]) if not integer else 1
    inst["conv_pads"] = None if (miss == "auto_pad" or rng.random() < 0.5) else [rng.choice([0, 1, 2]) for _ in range(2 * n)]
    inst["xdims"] = [rng.choice([1, 2]), 2 * inst["group"]] + [rng.choice([6, 7, 8]) for _ in range(n)]
    inst["cout"] = 2 * inst["group"]
    inst["zp"] = rng.choice(["absent", 0, 0, 5, "input"]) if integer else "absent"
    return inst


def _fuse_host(inst):
    rank, n = inst["rank"], inst["n"]
    dt = "uint8" if inst["integer"] else "float32"
    nodes, inits, inputs = [], [], [("x", dt, inst["xdims"])]

    def const(name, arr):
        if inst["const_kind"] == "init":
            inits.append(U.init(name, arr))
        else:
            nodes.append(U.const_node(name, arr))
        return name

    pad_in = ["x"]
    if inst["miss"] == "pads_input":
        inputs.append(("pads", "int64", [len(inst["pads"])]))
        pad_in.append("pads")
    else:
        pad_in.append(const("pads", np.array(inst["pads"], np.int64)))
    cv = inst["cval"]
    if inst["miss"] == "cval_input":
        inputs.append(("cv", dt, []))
        pad_in.append("cv")
    elif cv == "absent":
        pass
    elif cv == "empty":
        pad_in.append("")
    else:
        pad_in.append(const("cv", np.array(abs(cv) if inst["integer"] else cv, dt)))
    if inst["axes"] is not None:
        while len(pad_in) < 3:
            pad_in.append("")
        if inst["miss"] == "axes_input":
            inputs.append(("axes", "int64", [len(inst["axes"])]))
            pad_in.append("axes")
        else:
            pad_in.append(const("axes", np.array(inst["axes"], np.int64)))
    while pad_in and pad_in[-1] == "":
        pad_in.pop()
    pattrs = {} if inst["mode"] is None else {"mode": inst["mode"]}
    nodes.append(U.node("Pad", pad_in, ["p"], **pattrs))
    # padded channel count decides the weight shape
    filled_c = 0
    axes = inst["axes"] if inst["axes"] is not None else list(range(rank))
    N = len(axes)
    for t, a in enumerate(axes):
        if a % rank == 1:
            filled_c = inst["pads"][t] + inst["pads"][t + N]
    cin = inst["xdims"][1] + filled_c
    g = inst["group"] if cin % inst["group"] == 0 else 1
    rs = np.random.RandomState(len(inst["pads"]) + sum(inst["kernel"]))
    if inst["integer"]:
        w = rs.randint(0, 4, [inst["cout"], cin // g] + inst["kernel"]).astype(np.uint8)
    else:
        w = rs.randint(-2, 3, [inst["cout"], cin // g] + inst["kernel"]).astype(np.float32)
    cattrs = {}
    if inst["auto_pad"] is not None:
        cattrs["auto_pad"] = inst["auto_pad"]
    if inst["strides"] is not None:
        cattrs["strides"] = inst["strides"]
    if inst["dil"] is not None and inst["auto_pad"] in (None, "NOTSET", "VALID"):
        cattrs["dilations"] = inst["dil"]
    if g != 1:
        cattrs["group"] = g
    if inst["conv_pads"] is not None:
        cattrs["pads"] = inst["conv_pads"]
    cin_names = ["p", const("w", w)]
    if inst["integer"]:
        if inst["zp"] == "input":
            inputs.append(("xzp", "uint8", []))
            cin_names.append("xzp")
        elif inst["zp"] != "absent":
            cin_names.append(const("xzp", np.array(inst["zp"], np.uint8)))
    nodes.append(U.node("ConvInteger" if inst["integer"] else "Conv", cin_names, ["y"], **cattrs))
    nodes.sort(key=lambda nd: 0 if nd.op_type == "Constant" else 1)
    outs = [("y", "int32" if inst["integer"] else "float32", [f"d{k}" for k in range(rank)])]
    return U.model(nodes, inputs, outs, inits=inits)


def _fuse_feeds(inst, k):
    rs = np.random.RandomState(100 + k)
    if inst["integer"]:
        f = {"x": rs.randint(0, 9, inst["xdims"]).astype(np.uint8)}
        if inst["zp"] == "input":
            f["xzp"] = np.array(3, np.uint8)
    else:
        f = {"x": rs.randint(-4, 5, inst["xdims"]).astype(np.float32)}
    if inst["miss"] == "pads_input":
        f["pads"] = np.array(inst["pads"], np.int64)
    if inst["miss"] == "cval_input":
        f["cv"] = np.array(0, f["x"].dtype)
    if inst["miss"] == "axes_input":
        f["axes"] = np.array(inst["axes"], np.int64)
    return f


def _fuse_lit(inst):
    cv0 = inst["cval"] in ("absent", "empty", 0)
    return ("{| fp_rank := %s; fp_pads := %s; fp_axes := %s; fp_mode_constant := %s; fp_cval_zero := %s; "
            "fp_auto_pad_notset := %s; fp_conv_pads := %s; fp_integer := %s; fp_xzp_zero := %s |}") % (
        cnat(inst["rank"]), U.czl(inst["pads"]), copt(inst["axes"], U.czl), cbool(inst["mode"] in (None, "constant")), cbool(cv0),
        cbool(inst["auto_pad"] in (None, "NOTSET")), copt(inst["conv_pads"], U.czl), cbool(inst["integer"]),
        cbool(inst["zp"] in ("absent", 0)))


def _fuse_stream(ctx, mod, n_inst):
    rng = ctx.rng
    cases, meta = [], []
    fired = nonconst = 0
    # witnesses of the `_refuted` theorems, replayed on every run whatever the seed
    corpus = [dict(n=2, rank=4, integer=True, const_kind="init", miss="none", axes=None, pads=[0, 0, 1, 1, 0, 0, 1, 1], mode=None, cval="absent",
                   auto_pad=None, kernel=[3, 3], strides=None, dil=None, group=1, conv_pads=None, xdims=[1, 2, 6, 6], cout=2, zp=5),
              dict(n=2, rank=4, integer=False, const_kind="init", miss="negative", axes=[2, 3], pads=[-1, 0, 0, 1], mode=None, cval=0,
                   auto_pad=None, kernel=[2, 2], strides=None, dil=None, group=1, conv_pads=[1, 0, 1, 0], xdims=[1, 2, 6, 6], cout=2, zp="absent"),
              dict(n=2, rank=4, integer=False, const_kind="node", miss="cval", axes=None, pads=[0, 0, 1, 0, 0, 0, 0, 1], mode="constant", cval=1,
                   auto_pad=None, kernel=[2, 2], strides=None, dil=None, group=1, conv_pads=None, xdims=[1, 2, 6, 6], cout=2, zp="absent")]
    for i in range(n_inst + len(corpus)):
        inst = corpus[i] if i < len(corpus) else _fuse_instance(rng, i, ctx.tier)
        host = _fuse_host(inst)
        if not U.host_ok(host):
            ctx.tie_broken("harness", f"{FAM}:fuse", f"generated host is not checker-valid: {inst}")
            continue
        rule = mod.fuse_pad_into_conv_integer_rule if inst["integer"] else mod.fuse_pad_into_conv_rule
        new, exc = U.apply(host, [rule])
        klass = ("fuse", inst["integer"], inst["miss"], inst["axes"] is None, inst["conv_pads"] is None, inst["n"],
                 inst["zp"] if inst["integer"] else "-")
        ctx.case(klass)
        if exc is not None:
            U.report(ctx, FAM, f"fuse:raises:{type(exc).__name__}", "rule raised", {"instance": inst}, [repr(exc)[:200]])
            continue
        opname = "ConvInteger" if inst["integer"] else "Conv"
        did = U.ops(new) == [opname]
        obs = None
        if did:
            fired += 1
            a = U.attrs(U.nodes_of(new, opname)[0])
            obs = list(a.get("pads", []))
        reasons, _ = U.oracle(host, new, [_fuse_feeds(inst, k) for k in range(3)], exact=True)
        if reasons:
            kc = "convinteger-nonzero-zero-point" if (inst["integer"] and inst["zp"] not in ("absent", 0) and inst["miss"] == "none") else f"fuse:{inst['miss']}"
            U.report(ctx, FAM, kc, f"Pad fused into {opname} changes the model", {"instance": inst, "emitted_pads": obs}, reasons)
        if inst["miss"] in ("pads_input", "cval_input", "axes_input"):
            nonconst += 1
            if did:
                ctx.tie_broken("correspondence", f"{FAM}:fuse", f"fired with a non-constant Pad operand: {inst}")
            continue
        cases.append(f"({_fuse_lit(inst)}, {copt(obs, U.czl)})")
        meta.append(inst)
    ok, di, df, raw = U.eval_cases(ctx, ["OV.Rules.PadConv"], "fuse_case", cases, "fuse_dis")
    if not ok:
        ctx.tie_broken("correspondence", f"{FAM}:fuse:model-evaluation", raw[-800:])
        return
    nbad, variant = U.settle(ctx, FAM, "fuse", meta, di, df,
                             lambda m: "convinteger-zero-point" if (m["integer"] and m["zp"] not in ("absent", 0)) else None)
    ctx.sample({"family": FAM, "stream": "fuse", "instance": meta[len(meta) // 2]})
    ctx.cover(padconv_fuse_instances=n_inst, padconv_fuse_fired=fired, padconv_fuse_nonconst_near_misses=nonconst,
              padconv_fuse_variant=variant)
    ctx.obligation("correspondence padconv/fuse: fired? and emitted pads = PadConv.fuse_impl or fuse_fixed on every instance", nbad == 0)


# ------------------------------------------------------------------ normalize stream

def _norm_instance(rng, i):
    n = rng.choice([1, 2, 2, 3])
    inst = dict(n=n, integer=(i % 7 == 6))
    inst["auto_pad"] = rng.choice([None, "NOTSET", "VALID", "SAME_UPPER", "SAME_UPPER", "SAME_LOWER", "SAME_LOWER"])
    inst["kernel"] = [rng.choice([1, 2, 3, 4]) for _ in range(n)]
    inst["kernel_attr"] = rng.random() < 0.5
    inst["strides"] = rng.choice([None, [rng.choice([1, 2, 3]) for _ in range(n)]])
    inst["dil"] = rng.choice([None, None, [1] * n, [rng.choice([1, 2]) for _ in range(n)], [2] * n])
    inst["xs"] = [rng.choice([5, 6, 7, 8, 9]) for _ in range(n)]
    dl = inst["dil"] or [1] * n
    inst["xs"] = [max(x, (k - 1) * d + 1) for x, k, d in zip(inst["xs"], inst["kernel"], dl)]      # the dilated kernel must fit
    inst["sym"] = rng.random() < 0.12          # one symbolic spatial input dim (near miss for SAME_*)
    inst["group"] = rng.choice([1, 1, 2]) if not inst["integer"] else 1
    inst["bias"] = (not inst["integer"]) and rng.random() < 0.4
    return inst


def _norm_host(inst):
    n = inst["n"]
    dt = "uint8" if inst["integer"] else "float32"
    g = inst["group"]
    xdims = [1, 2 * g] + list(inst["xs"])
    decl = list(xdims)
    if inst["sym"]:
        decl[2] = "H"
    rs = np.random.RandomState(sum(inst["kernel"]) * 7 + n)
    if inst["integer"]:
        w = rs.randint(0, 4, [2 * g, 2] + inst["kernel"]).astype(np.uint8)
    else:
        w = rs.randint(-2, 3, [2 * g, 2] + inst["kernel"]).astype(np.float32)
    attrs = {}
    if inst["auto_pad"] is not None:
        attrs["auto_pad"] = inst["auto_pad"]
    if inst["kernel_attr"]:
        attrs["kernel_shape"] = inst["kernel"]
    if inst["strides"] is not None:
        attrs["strides"] = inst["strides"]
    if inst["dil"] is not None:
        attrs["dilations"] = inst["dil"]
    if g != 1:
        attrs["group"] = g
    ins = ["x", "w"]
    inits = [U.init("w", w)]
    if inst["bias"]:
        ins.append("b")
        inits.append(U.init("b", np.arange(2 * g, dtype=np.float32)))
    nodes = [U.node("ConvInteger" if inst["integer"] else "Conv", ins, ["y"], **attrs)]
    m = U.model(nodes, [("x", dt, decl)], [("y", "int32" if inst["integer"] else "float32", [f"d{k}" for k in range(n + 2)])], inits=inits)
    return m, xdims


def _doc_same_pads(inst):
    """ONNX Conv, auto_pad=SAME_*: output ceil(x/s); total = max(0, (out-1)*s + (k-1)*d+1 - x); the odd element goes to the end
    for SAME_UPPER, to the beginning for SAME_LOWER (= PadConv.total_spec / split_pads, proved to give that output).
    -> (pads [begins..., ends...], spatial output dims)"""
    n = inst["n"]
    ss = inst["strides"] or [1] * n
    ds = inst["dil"] or [1] * n
    b, e, outs = [], [], []
    for x, k, s_, d in zip(inst["xs"], inst["kernel"], ss, ds):
        out = -(-x // s_)
        total = max(0, (out - 1) * s_ + (k - 1) * d + 1 - x)
        p1 = total // 2
        lo, hi = (p1, total - p1) if inst["auto_pad"] == "SAME_UPPER" else (total - p1, p1)
        b.append(lo)
        e.append(hi)
        outs.append(out)
    return b + e, outs


def _spec_host(host, inst, opname):
    """the host re-stated per the operator document in a form onnxruntime executes: auto_pad removed, explicit document pads"""
    import onnx
    from onnx import helper
    m = onnx.ModelProto()
    m.CopyFrom(host)
    nd = [x for x in m.graph.node if x.op_type == opname][0]
    pads, outs = _doc_same_pads(inst)
    keep = [a for a in nd.attribute if a.name not in ("auto_pad", "pads")]
    del nd.attribute[:]
    nd.attribute.extend(keep)
    nd.attribute.append(helper.make_attribute("pads", pads))
    return m, outs


def _norm_lit(inst, in_shape, out_shape):
    def shp(s):
        return copt(s, lambda l: clist([copt(d, cz) for d in l]))
    return ("{| np_auto := %s; np_in := %s; np_out := %s; np_kernel := %s; np_strides := %s; np_dil := %s; np_pads := None |}") % (
        AP[inst["auto_pad"]], shp(in_shape), shp(out_shape), U.czl(inst["kernel"]), copt(inst["strides"], U.czl), copt(inst["dil"], U.czl))


def _ir_shapes(host):
    """input/output shapes exactly as the rule will see them (onnx_ir after deserialisation)."""
    import onnx_ir as ir
    mm = ir.serde.deserialize_model(host)
    nd = [x for x in mm.graph if x.op_type in ("Conv", "ConvInteger")][0]

    def conv(s):
        if s is None:
            return None
        return [d if isinstance(d, int) else None for d in s]
    return conv(nd.inputs[0].shape), conv(nd.outputs[0].shape)


def _norm_stream(ctx, mod, n_inst):
    import onnx
    rng = ctx.rng
    cases, meta = [], []
    fired = 0
    corpus = [dict(n=2, integer=False, auto_pad="SAME_UPPER", kernel=[3, 3], kernel_attr=False, strides=None, dil=[2, 2], xs=[7, 7], sym=False, group=1, bias=False),
              dict(n=2, integer=False, auto_pad="SAME_LOWER", kernel=[3, 2], kernel_attr=True, strides=[2, 2], dil=[2, 1], xs=[8, 7], sym=False, group=1, bias=True),
              dict(n=1, integer=False, auto_pad="SAME_LOWER", kernel=[2], kernel_attr=False, strides=[3], dil=None, xs=[7], sym=False, group=1, bias=False)]
    for i in range(n_inst + len(corpus)):
        inst = corpus[i] if i < len(corpus) else _norm_instance(rng, i)
        host, xdims = _norm_host(inst)
        # let the graph output carry the inferred (static) shape, as a model produced by an exporter would
        tmp = onnx.ModelProto()
        tmp.CopyFrom(host)
        del tmp.graph.output[0].type.tensor_type.shape.dim[:]
        tmp.graph.output[0].type.tensor_type.ClearField("shape")
        try:
            inf = onnx.shape_inference.infer_shapes(tmp, strict_mode=True)
            host = inf
        except Exception:
            pass
        if not U.host_ok(host):
            ctx.tie_broken("harness", f"{FAM}:normalize", f"generated host is not checker-valid: {inst}")
            continue
        rule = mod.normalize_pad_format_conv_integer_rule if inst["integer"] else mod.normalize_pad_format_conv_rule
        opname = "ConvInteger" if inst["integer"] else "Conv"
        in_shape, out_shape = _ir_shapes(host)
        new, exc = U.apply(host, [rule])
        dil_matters = inst["auto_pad"] in ("SAME_UPPER", "SAME_LOWER") and inst["dil"] is not None and any(
            d > 1 and k > 1 for d, k in zip(inst["dil"], inst["kernel"]))
        inst["dil_matters"] = dil_matters
        ctx.case(("normalize", inst["integer"], inst["auto_pad"], inst["n"], inst["strides"] is None, dil_matters, inst["sym"], inst["kernel_attr"]))
        if exc is not None:
            U.report(ctx, FAM, f"normalize:raises:{type(exc).__name__}", "rule raised", {"instance": inst}, [repr(exc)[:200]])
            continue
        a0 = U.attrs(U.nodes_of(host, opname)[0])
        a1 = U.attrs(U.nodes_of(new, opname)[0])
        did = a0 != a1
        obs = None
        if did:
            fired += 1
            if a1.get("auto_pad") != b"NOTSET":
                ctx.tie_broken("correspondence", f"{FAM}:normalize", f"fired but auto_pad is {a1.get('auto_pad')}: {inst}")
            obs = list(a1.get("pads", [0] * (2 * inst["n"])))
        feeds = []
        for k in range(3):
            rs = np.random.RandomState(200 + k)
            feeds.append({"x": (rs.randint(0, 9, xdims).astype(np.uint8) if inst["integer"] else rs.randint(-4, 5, xdims).astype(np.float32))})
        spec, shapes = None, None
        if inst["auto_pad"] in ("SAME_UPPER", "SAME_LOWER"):
            spec, outs = _spec_host(host, inst, opname)
            shapes = [[xdims[0], 2 * inst["group"]] + outs]
        n_mis = len(U.SPEC_MISMATCH)
        reasons, ncmp = U.oracle(host, new, feeds, exact=True, spec_host=spec, host_shapes=shapes)
        if len(U.SPEC_MISMATCH) > n_mis:
            ctx.tie_broken("harness", f"{FAM}:normalize", f"{U.SPEC_MISMATCH[-1]} on {inst}")
        if reasons:
            kc = "normalize-auto-pad-ignores-dilations" if dil_matters else f"normalize:{inst['auto_pad']}"
            U.report(ctx, FAM, kc, f"auto_pad={inst['auto_pad']} normalised to explicit pads changes the model",
                     {"instance": inst, "emitted_pads": obs, "input_shape": in_shape, "output_shape": out_shape}, reasons)
        cases.append(f"({_norm_lit(inst, in_shape, out_shape)}, {copt(obs, U.czl)})")
        meta.append(inst)
    # direct calls of compute_pads (pure helper)
    direct = 0
    for _ in range(60 if ctx.tier == "quick" else 600):
        n = rng.choice([1, 2, 3])
        xs = [rng.randint(1, 12) for _ in range(n)]
        ss = [rng.randint(1, 4) for _ in range(n)]
        ks = [rng.randint(1, 5) for _ in range(n)]
        ds = [rng.choice([1, 1, 2, 3]) for _ in range(n)]
        ys = [-(-x // s) for x, s in zip(xs, ss)]
        ap = rng.choice(["SAME_UPPER", "SAME_LOWER", "VALID", "NOTSET"])
        attrs = {"kernel_shape": ks, "strides": ss, "auto_pad": ap, "dilations": ds}
        try:
            got = [int(v) for v in mod.NormalizePadFormatConv.compute_pads(xs, ys, attrs)]
        except Exception as e:
            ctx.tie_broken("correspondence", f"{FAM}:compute_pads", f"raised {e!r} on {xs, ys, attrs}")
            continue
        inst = dict(n=n, auto_pad=ap if ap != "NOTSET" else "VALID", kernel=ks, strides=ss, dil=ds, direct=True,
                    dil_matters=ap.startswith("SAME") and any(d > 1 and k > 1 for d, k in zip(ds, ks)))
        cases.append(f"({_norm_lit(inst, [1, 1] + xs, [1, 1] + ys)}, {copt(got, U.czl)})")
        meta.append(inst)
        direct += 1
        ctx.case(("compute_pads", ap, n, inst["dil_matters"]))
    ok, di, df, raw = U.eval_cases(ctx, ["OV.Rules.PadConv"], "norm_case", cases, "norm_dis")
    if not ok:
        ctx.tie_broken("correspondence", f"{FAM}:normalize:model-evaluation", raw[-800:])
        return
    nbad, variant = U.settle(ctx, FAM, "normalize", meta, di, df, lambda m: "dilations" if m["dil_matters"] else None)
    ctx.cover(padconv_normalize_instances=n_inst, padconv_normalize_fired=fired, padconv_compute_pads_direct=direct,
              padconv_normalize_variant=variant, c05b_oracle_stats=dict(U.STATS))
    ctx.obligation("correspondence padconv/normalize: fired? and emitted pads = PadConv.normalize (as read or repaired) on every instance; compute_pads called directly", nbad == 0)


def _fill_direct(ctx, mod):
    rng = ctx.rng
    cases, meta = [], []
    for _ in range(150 if ctx.tier == "quick" else 1500):
        rank = rng.randint(1, 5)
        axes = list(range(rank))
        rng.shuffle(axes)
        axes = axes[: rng.randint(0, rank)]
        if rng.random() < 0.15 and axes:
            axes.append(rng.choice(axes))          # repeated axis: the later entry wins (python semantics)
        pads = [rng.randint(-3, 6) for _ in range(2 * len(axes))]
        got = [int(v) for v in mod.fill_pads_with_axes(pads, axes, rank)]
        cases.append(f"({U.czl(pads)}, {clist([cnat(a) for a in axes])}, {cnat(rank)}, {U.czl(got)})")
        meta.append((pads, axes, rank, got))
        ctx.case(("fill_pads_with_axes", rank, len(axes)))
    ok, vals, raw = ctx.coq_eval(["OV.Rules.PadConv"], f"Definition cases : list fill_case := {clist(cases)}.\nEval vm_compute in (fill_dis cases).")
    from harness import common
    bad = common.parse_nat_list(vals[0]) if ok and vals else None
    if bad is None:
        ctx.tie_broken("correspondence", f"{FAM}:fill:model-evaluation", raw[-800:])
        return
    for i in bad[:5]:
        ctx.tie_broken("correspondence", f"{FAM}:fill_pads_with_axes", f"{meta[i]}: model differs")
    ctx.obligation("correspondence padconv: fill_pads_with_axes called directly = PadConv.fill_pads_with_axes", not bad)


def _special(ctx, mod):
    """hand-picked hosts: overridable initializer operands, Pad output with a second consumer, the full rule set."""
    # 1. `pads` is an initializer that is also a graph input (a default value, not a constant)
    w = np.ones((2, 2, 3, 3), np.float32)
    m = U.model([U.node("Pad", ["x", "pads"], ["p"]), U.node("Conv", ["p", "w"], ["y"])],
                [("x", "float32", [1, 2, 5, 5]), ("pads", "int64", [8])], [("y", "float32", [1, 2, "h", "w"])],
                inits=[U.init("w", w), U.init("pads", np.array([0, 0, 1, 1, 0, 0, 1, 1], np.int64))])
    new, exc = U.apply(m, [mod.fuse_pad_into_conv_rule])
    ctx.case(("special", "overridable-pads"))
    if exc is None:
        x = np.arange(50, dtype=np.float32).reshape(1, 2, 5, 5)
        reasons, _ = U.oracle(m, new, [{"x": x, "pads": np.zeros(8, np.int64)}, {"x": x, "pads": np.array([0, 0, 2, 0, 0, 0, 0, 2], np.int64)}])
        if reasons and U.ops(new) == ["Conv"]:
            U.report(ctx, FAM, "overridable-initializer-operand", "Pad.pads is an initializer that is also a graph input (overridable), rule fired",
                     {"host": "Conv(Pad(x, pads)), pads both initializer and graph input", "feeds": "pads overridden with zeros"}, reasons)
    # 2. Pad output used twice: the other consumer must keep seeing the padded tensor
    m = U.model([U.node("Pad", ["x", "pads"], ["p"]), U.node("Conv", ["p", "w"], ["y"]), U.node("Neg", ["p"], ["z"])],
                [("x", "float32", [1, 2, 5, 5])], [("y", "float32", [1, 2, "h", "w"]), ("z", "float32", [1, 2, "a", "b"])],
                inits=[U.init("w", w), U.init("pads", np.array([0, 0, 1, 2, 0, 0, 0, 1], np.int64))])
    for rules, tag in (([mod.fuse_pad_into_conv_rule], "single"), (mod.rules, "set")):
        new, exc = U.apply(m, rules)
        ctx.case(("special", "pad-two-consumers", tag))
        if exc is not None:
            U.report(ctx, FAM, "special:two-consumers:raises", "rule raised", {}, [repr(exc)[:200]])
            continue
        reasons, _ = U.oracle(m, new, [{"x": np.arange(50, dtype=np.float32).reshape(1, 2, 5, 5)}])
        if reasons:
            U.report(ctx, FAM, "special:pad-two-consumers", "Pad with a second consumer", {"rules": tag}, reasons)
    # 3. whole rule set: auto_pad conv behind a Pad (normalise, then fuse)
    for ap in ("VALID", "SAME_UPPER", "SAME_LOWER"):
        for st in (1, 2):
            m = U.model([U.node("Pad", ["x", "pads"], ["p"]), U.node("Conv", ["p", "w"], ["y"], auto_pad=ap, strides=[st, st])],
                        [("x", "float32", [1, 2, 6, 5])], [("y", "float32", [1, 2, "h", "w"])],
                        inits=[U.init("w", w), U.init("pads", np.array([0, 0, 1, 0, 0, 0, 2, 1], np.int64))])
            new, exc = U.apply(m, mod.rules)
            ctx.case(("special", "set", ap, st))
            if exc is not None:
                U.report(ctx, FAM, "special:set:raises", "rule set raised", {"auto_pad": ap}, [repr(exc)[:200]])
                continue
            reasons, _ = U.oracle(m, new, [{"x": np.arange(60, dtype=np.float32).reshape(1, 2, 6, 5) % 7}])
            if reasons:
                U.report(ctx, FAM, f"special:set:{ap}", "normalise + fuse through the exported rule set", {"auto_pad": ap, "stride": st}, reasons)


def family(ctx):
    from onnxscript.rewriter.rules.common import _fuse_pad_into_conv as mod
    ctx.assume("Conv/ConvInteger with explicit pads = valid convolution of the zero-padded (ConvInteger: zero-point-padded) input; "
               "auto_pad SAME_* = pads of total (ceil(x/s)-1)*s + (k-1)*d+1 - x split as in the operator document (PadConv.v states it in 1-D; "
               "measured on onnx.reference / onnxruntime for every instance)")
    ctx.assume("padconv: shape annotations read by normalize_pad_format (static spatial dims of Conv input/output) are truthful")
    q = ctx.tier == "quick"
    _fuse_stream(ctx, mod, 150 if q else 1500)
    _norm_stream(ctx, mod, 100 if q else 1000)
    _fill_direct(ctx, mod)
    _special(ctx, mod)
