"""C10 -- translator from the installed onnx.defs to coq/Gen/VersionSchemas.v, and the oracles around it.

The converter re-stamps every node without an adapter (node.version = to_version).  That is right only if the
schema in force at the next opset accepts every node the previous one accepted, with the same reading of
omitted attributes.  regenerate_schemas() writes, for every ai.onnx operator, its history over the supported
range (the schema in force at the lowest supported opset, then every later version up to the highest) as
Gallina records; coq/Version/SchemaProofs.v proves upward_compat_sound once and for all and evaluates the
table obligation (adapter registered or upward_compatb, exceptions listed) against what onnx.defs says now.
Fail-closed: anything the translator does not recognise breaks the tie.
"""
from __future__ import annotations

from harness.common import cbool, clist, copt, cstr, cz

OPTS = {"Single": "FSingle", "Optional": "FOptional", "Variadic": "FVariadic"}


def _all_schemas():
    import onnx.defs
    by = {}
    for s in onnx.defs.get_all_schemas_with_history():
        if s.domain in ("", "ai.onnx"):
            by.setdefault(s.name, []).append(s)
    for l in by.values():
        l.sort(key=lambda s: s.since_version)
    return by


def histories(lo, hi):
    """op -> [schema in force at lo (if any)] + [schemas with lo < since <= hi]"""
    out = {}
    for name, l in sorted(_all_schemas().items()):
        base = [s for s in l if s.since_version <= lo]
        later = [s for s in l if lo < s.since_version <= hi]
        h = base[-1:] + later
        if h:
            out[name] = h
    return out


class Untranslatable(Exception):
    pass


def describe(s):
    """One OpSchema as plain python data (also used by the python cross-check of the Coq exceptions)."""
    tc = {}
    for c in s.type_constraints:
        if c.type_param_str in tc:
            raise Untranslatable(f"{s.name}-{s.since_version}: duplicate type constraint {c.type_param_str}")
        tc[c.type_param_str] = list(c.allowed_type_strs)

    def formal(p, last):
        opt = p.option.name
        if opt not in OPTS:
            raise Untranslatable(f"{s.name}-{s.since_version}: formal option {opt}")
        if opt == "Variadic" and not last:
            raise Untranslatable(f"{s.name}-{s.since_version}: variadic formal {p.name} is not the last one")
        if p.type_str in tc:
            types = tc[p.type_str]
        elif "(" in p.type_str and p.type_str.endswith(")"):
            types = [p.type_str]
        else:
            raise Untranslatable(f"{s.name}-{s.since_version}: type string {p.type_str!r} of {p.name} is neither a constraint nor a type")
        if not isinstance(p.is_homogeneous, bool) or not isinstance(p.min_arity, int):
            raise Untranslatable(f"{s.name}-{s.since_version}: formal {p.name} flags")
        return (opt, p.type_str, tuple(types), bool(p.is_homogeneous), int(p.min_arity))

    ins = [formal(p, i == len(s.inputs) - 1) for i, p in enumerate(s.inputs)]
    outs = [formal(p, i == len(s.outputs) - 1) for i, p in enumerate(s.outputs)]
    attrs = []
    for name in sorted(s.attributes):
        a = s.attributes[name]
        kind = int(a.type)
        if not (1 <= kind <= 14):
            raise Untranslatable(f"{s.name}-{s.since_version}: attribute {name} has type {a.type}")
        d = a.default_value
        dflt = None
        if d is not None and int(d.type) != 0:
            if int(d.type) != kind or d.name != name:
                raise Untranslatable(f"{s.name}-{s.since_version}: default of {name} has another type/name")
            dflt = d.SerializeToString(deterministic=True).hex()
        if a.required and dflt is not None:
            raise Untranslatable(f"{s.name}-{s.since_version}: required attribute {name} with a default")
        attrs.append((name, kind, bool(a.required), dflt))
    # the arity bounds the checker uses must be the ones the formals imply
    n_in = len(ins)
    want_max = 2147483647 if ins and ins[-1][0] == "Variadic" else n_in
    if s.max_input != want_max and not (ins and ins[-1][0] == "Variadic"):
        raise Untranslatable(f"{s.name}-{s.since_version}: max_input {s.max_input} vs {n_in} formals")
    return {"since": int(s.since_version), "deprecated": bool(s.deprecated), "ins": ins, "outs": outs, "attrs": attrs}


def regenerate_schemas(ctx, lo, hi):
    try:
        hs = {op: [describe(s) for s in h] for op, h in histories(lo, hi).items()}
    except Untranslatable as e:
        ctx.tie_broken("translator", "onnx.defs", str(e))
        return None
    tsets = {}

    def tset(types):
        if types not in tsets:
            tsets[types] = f"ts{len(tsets)}"
        return tsets[types]

    def c_formal(f):
        opt, tv, types, hom, mn = f
        return f"(Formal {OPTS[opt]} {cstr(tv)} {tset(types)} {cbool(hom)} {mn}%nat)"

    def c_attr(a):
        name, kind, req, dflt = a
        return f"(AttrDecl {cstr(name)} {cz(kind)} {cbool(req)} {copt(dflt, cstr)})"

    def c_schema(d):
        return (f"(Schema {cz(d['since'])} {cbool(d['deprecated'])} {clist(d['ins'], c_formal)} "
                f"{clist(d['outs'], c_formal)} {clist(d['attrs'], c_attr)})")

    rows = []
    for op in sorted(hs):
        rows.append(f"  ({cstr(op)}, {clist(hs[op], c_schema)})")
    defs = "\n".join(f"Definition {n} : list string := {clist(t, cstr)}." for t, n in tsets.items())
    import onnx
    text = (f"(* GENERATED by harness/c10_schemas.py from onnx.defs of onnx {onnx.__version__}: for every ai.onnx operator the schema in force at opset {lo}\n"
            f"   followed by every later version up to opset {hi} *)\n"
            "From Coq Require Import ZArith List String.\nImport ListNotations.\nRequire Import OV.Version.Schema.\nLocal Open Scope Z_scope.\n"
            + defs + "\n"
            "Definition schema_table : list (string * list schema) :=\n [" + ";\n".join(rows) + "].\n")
    ctx.gen("VersionSchemas", text)
    return hs


# ----------------------------------------------------------------------------- python twin of upward_compatb (cross-check only)

def _formal_compat(o, n):
    return ((o[0] == n[0] or (o[0] == "Single" and n[0] == "Optional")) and set(o[2]) <= set(n[2]) and n[4] <= o[4])


def _formals_compat(fo, fn):
    if len(fn) < len(fo):
        return False
    for o, n in zip(fo, fn):
        if not _formal_compat(o, n):
            return False
    if fo and fo[-1][0] == "Variadic" and len(fn) != len(fo):
        return False
    return all(n[0] == "Optional" for n in fn[len(fo):])


def _shares(f, g):
    return f[3] and g[3] and f[1] == g[1]


def py_upward_compat(o, n):
    """(bool, [reasons]) -- same test as Schema.upward_compatb, with reasons for the evidence"""
    why = []
    if n["deprecated"]:
        why.append("new schema deprecated")
    if not _formals_compat(o["ins"], n["ins"]):
        why.append("inputs: formal removed / made stricter / new non-optional formal / type removed")
    if not _formals_compat(o["outs"], n["outs"]):
        why.append("outputs: formal removed / made stricter / type removed")
    pairs = list(zip(o["ins"], n["ins"])) + list(zip(o["outs"], n["outs"]))
    for i, p in enumerate(pairs):
        for q in pairs[i + 1:]:
            if _shares(p[1], q[1]) and not _shares(p[0], q[0]):
                why.append(f"type variable {p[1][1]} of the new schema ties positions the old one left independent ({p[0][1]} / {q[0][1]})")
    dn = {a[0]: a for a in n["attrs"]}
    do = {a[0]: a for a in o["attrs"]}
    for a in o["attrs"]:
        b = dn.get(a[0])
        if b is None:
            why.append(f"attribute {a[0]} removed")
        elif b[1] != a[1]:
            why.append(f"attribute {a[0]} changed type")
        elif b[3] != a[3]:
            why.append(f"attribute {a[0]} changed default")
    for b in n["attrs"]:
        a = do.get(b[0])
        if b[2] and (a is None or not a[2]):
            why.append(f"attribute {b[0]} is required in the new schema only")
    return (not why), why


def py_exceptions(hs, keys):
    have = {(o, v) for d, o, v, up in keys if d == "" and up}
    out = []
    for op in sorted(hs):
        h = hs[op]
        for a, b in zip(h, h[1:]):
            ok, why = py_upward_compat(a, b)
            if not ok and (op, b["since"] - 1) not in have:
                out.append((op, b["since"], why))
    return out


def steps_summary(hs, keys):
    """for the evidence: every (op, new version) step with how it is discharged"""
    have = {(o, v) for d, o, v, up in keys if d == "" and up}
    n_steps = n_adapt = n_compat = 0
    for op, h in hs.items():
        for a, b in zip(h, h[1:]):
            n_steps += 1
            if (op, b["since"] - 1) in have:
                n_adapt += 1
            elif py_upward_compat(a, b)[0]:
                n_compat += 1
    return {"operators": len(hs), "steps": n_steps, "by_adapter": n_adapt, "by_upward_compat": n_compat}


def doc_changed(lo, hi):
    """(op, new version) whose doc string differs from the previous version's: behaviour changes a schema cannot show"""
    out = []
    for op, h in histories(lo, hi).items():
        for a, b in zip(h, h[1:]):
            if (a.doc or "").strip() != (b.doc or "").strip():
                out.append((op, b.since_version))
    return out


# ----------------------------------------------------------------------------- documented semantics of re-stamped operators
# Classification of every version step whose doc string changed, made by READING the two doc strings.  Keyed by the hash of
# the pair so that a changed doc string (another onnx) is unclassified -> the tie breaks (fail-closed).
#   widening    : more types / ranks / a new optional input / a new enum value; nodes valid before mean what they meant
#   neutral-attr: a new optional attribute whose default is the old behaviour (possibly together with widening)
#   editorial   : rewording, formatting, corrected formulas that describe what implementations always did
#   behavioural : the documented result of a node that was valid before changes
DOC_CLASSES = {
    ("Attention", 24, "c66facbf08"): ("widening", "new optional input nonpad_kv_seqlen; attn_mask and is_causal may now be combined (was: only one)"),
    ("AveragePool", 19, "1fe77445cd"): ("neutral-attr", "new attribute dilations (default 1); output-shape formulas rewritten (explicit/auto padding)"),
    ("AveragePool", 22, "e2158f5d4b"): ("behavioural", "ceil_mode: sliding windows that would start in the right padded region are ignored (output one shorter)"),
    ("Cast", 19, "dd6fb9566a"): ("neutral-attr", "float8 destination types; attribute saturate (default 1) applies to float8 destinations only"),
    ("Cast", 24, "0213fe081e"): ("behavioural", "saturating cast of +-Inf to E4M3FNUZ / E5M2FNUZ gives +-FLT_MAX (was NaN); FLOAT8E8M0 and round_mode added"),
    ("DFT", 20, "b4a9e64865"): ("behavioural", "axis attribute (default 1) becomes an input (default -2)"),
    ("DequantizeLinear", 19, "ac341d3bfb"): ("widening", "float8 types"),
    ("DequantizeLinear", 21, "854ce22c58"): ("neutral-attr", "blocked quantization: block_size (default 0 = per-tensor/per-axis as before); int4/uint4/16-bit types"),
    ("DequantizeLinear", 23, "dcfa068065"): ("neutral-attr", "output_dtype (default 0 = type of x_scale as before)"),
    ("GridSample", 20, "74d1db5cd3"): ("behavioural", "mode names bilinear/bicubic -> linear/cubic and default renamed; N-D inputs"),
    ("GroupNormalization", 21, "b698a1570c"): ("behavioural", "scale and bias per channel instead of per group; stash_type"),
    ("MaxPool", 22, "d0bf1bcc39"): ("behavioural", "ceil_mode: sliding windows that would start in the right padded region are ignored (output one shorter)"),
    ("Pad", 19, "40dbfde9f4"): ("widening", "new mode value wrap"),
    ("QuantizeLinear", 19, "f59ba8c8c9"): ("neutral-attr", "float8 types; saturate (default 1, float8 only)"),
    ("QuantizeLinear", 21, "a310b77a2f"): ("neutral-attr", "blocked quantization (block_size default 0), output_dtype (default 0), 16-bit and 4-bit types"),
    ("QuantizeLinear", 23, "0d635ef62f"): ("neutral-attr", "x and y_scale may differ in type; precision (default 0 = as before)"),
    ("QuantizeLinear", 25, "ea7a4874c3"): ("widening", "int2/uint2"),
    ("ReduceMax", 20, "b391359f80"): ("widening", "boolean input (False < True)"),
    ("ReduceMin", 20, "a76954635b"): ("widening", "boolean input (False < True)"),
    ("Resize", 19, "6a5569cb19"): ("editorial", "formula typeset as a code block"),
}
_DOC_CTOR = {"widening": "DWidening", "neutral-attr": "DNeutralAttr", "editorial": "DEditorial", "behavioural": "DBehavioural"}


def doc_steps(lo, hi):
    """[(op, new version, hash, class or None, note)] for every step whose doc string changed"""
    import hashlib
    out = []
    for op, h in histories(lo, hi).items():
        for a, b in zip(h, h[1:]):
            da, db = (a.doc or "").strip(), (b.doc or "").strip()
            if da != db:
                hsh = hashlib.sha1((da + "\0" + db).encode()).hexdigest()[:10]
                c = DOC_CLASSES.get((op, b.since_version, hsh))
                out.append((op, b.since_version, hsh, c[0] if c else None, c[1] if c else ""))
    return out


def regenerate_doc_steps(ctx, lo, hi):
    steps = doc_steps(lo, hi)
    missing = [(o, v, h) for o, v, h, c, _ in steps if c is None]
    if missing:
        ctx.tie_broken("translator", "onnx.defs/doc-strings", f"doc-changed version steps without a reading-based classification (new doc text?): {missing}")
        return None
    rows = "; ".join(f"({cstr(o)}, {cz(v)}, {_DOC_CTOR[c]})" for o, v, _, c, _ in steps)
    text = ("(* GENERATED by harness/c10_schemas.py: every ai.onnx version step inside the supported range whose doc string changed, with the\n"
            "   classification of the change made by reading both doc strings (harness/c10_schemas.DOC_CLASSES, keyed by the hash of the pair) *)\n"
            "From Coq Require Import ZArith List String.\nImport ListNotations.\nRequire Import OV.Version.Schema.\nLocal Open Scope Z_scope.\n"
            f"Definition doc_steps : list (string * Z * docclass) :=\n  [{rows}].\n")
    ctx.gen("VersionDocSteps", text)
    return steps
