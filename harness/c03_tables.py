"""Translator for C03 / C04: tables and the order of tests of FoldConstantsPass.process_node, read from the
current source of onnxscript/optimizer/_constant_folding.py with `ast` (fail-closed) and written to
coq/Gen/FoldTables.v.  Opt/Fold.v imports the tables; Opt/FoldProofs.v proves (by computation) that the order
of tests found in the source is the order the model implements, so a re-ordering in the source breaks a proof."""
from __future__ import annotations

import ast
import os

from harness import common
from harness.common import clist, copt, cstr, cz

SRC = "onnxscript/optimizer/_constant_folding.py"


class Untranslatable(Exception):
    pass


def _const(node):
    """Evaluate a constant expression made of literals, tuples/lists/sets, frozenset(...), int products."""
    if isinstance(node, ast.Constant):
        return node.value
    if isinstance(node, (ast.List, ast.Tuple)):
        return [_const(e) for e in node.elts] if isinstance(node, ast.List) else tuple(_const(e) for e in node.elts)
    if isinstance(node, ast.Set):
        return sorted(_const(e) for e in node.elts)
    if isinstance(node, ast.Call) and isinstance(node.func, ast.Name) and node.func.id == "frozenset" and len(node.args) == 1:
        return _const(node.args[0])
    if isinstance(node, ast.BinOp) and isinstance(node.op, ast.Mult):
        return _const(node.left) * _const(node.right)
    if isinstance(node, ast.UnaryOp) and isinstance(node.op, ast.USub):
        return -_const(node.operand)
    raise Untranslatable(f"line {getattr(node, 'lineno', '?')}: {ast.dump(node)[:80]}")


# markers of the tests of process_node, in the order the model (Opt/Fold.v: decide / generic_fold) applies them
MARKERS = [
    ("replace_input_with", "subst-inputs"),
    ("is_ref", "reference-attribute"),           # optional: only in the repaired source
    ("_process_constant_node", "constant-value"),
    ("_do_inference", "shape-inference"),
    ("_opset_imports", "opset-import"),
    ("lookup_evaluators", "partial-evaluators"),
    ("_is_onnx_op", "constant-keep"),           # second occurrence of _is_onnx_op(node, "Constant")
    ("_is_control_flow_op", "control-flow"),     # second occurrence
    ("_is_non_deterministic_op", "non-deterministic"),
    ("is_graph_input", "graph-input"),
    ("const_value", "all-inputs-constant"),
    ("should_fold", "should-fold"),
    ("DEFAULT_CONSTANT_FOLD_BLACKLIST", "black-list"),
    ("input_size_limit", "input-size"),
    ("_DEFAULT_ALWAYS_FOLD_OPS", "always-fold"),
    ("evaluate", "reference-evaluator"),
    ("new_constant", "function-constant"),
    ("new_initializer", "initializer"),
    ("register_initializer", "register-initializer"),
]


OPTIONAL_MARKERS = {"reference-attribute"}


def _inlinable_helpers(cls):
    """Private methods of the class that are used exactly once (`self._helper` occurs once in the whole class), carry no decorator and whose
    body is a statement list without any `return` or with a single trailing `return E`: a call statement `self._helper(args)` /
    `v = self._helper(args)` / `return self._helper(args)` then behaves like the body spliced in at the call (parameters bound to the
    arguments), so the ORDER in which process_node applies its tests is the order read with the body in place of the call."""
    uses = {}
    for n in ast.walk(cls):
        if isinstance(n, ast.Attribute) and isinstance(n.value, ast.Name) and n.value.id == "self":
            uses[n.attr] = uses.get(n.attr, 0) + 1
    res = {}
    for m in cls.body:
        if not (isinstance(m, ast.FunctionDef) and m.name.startswith("_") and not m.name.startswith("__") and not m.decorator_list):
            continue
        if uses.get(m.name, 0) != 1 or any(isinstance(x, (ast.Yield, ast.YieldFrom, ast.Await, ast.Global, ast.Nonlocal)) for x in ast.walk(m)):
            continue
        if any(isinstance(x, (ast.FunctionDef, ast.AsyncFunctionDef, ast.Lambda, ast.ClassDef)) for x in ast.walk(m) if x is not m):
            continue
        rets = [x for x in ast.walk(m) if isinstance(x, ast.Return)]
        if rets and not (len(rets) == 1 and rets[0] is m.body[-1] and rets[0].value is not None):
            continue
        res[m.name] = (m, len(rets))
    return res


def _helper_calls(fn, helpers):
    """[(statement, helper name)] for the call statements of fn that call an inlinable helper directly"""
    res = []
    for st in ast.walk(fn):
        if isinstance(st, (ast.Expr, ast.Assign, ast.AnnAssign, ast.Return)) and isinstance(getattr(st, "value", None), ast.Call):
            f = st.value.func
            if isinstance(f, ast.Attribute) and isinstance(f.value, ast.Name) and f.value.id == "self" and f.attr in helpers:
                res.append((st, f.attr))
    return res


def _first_lines(fn, helpers=None):
    """For each marker name: sorted positions (inside process_node) where an Attribute / Name / Call with that identifier occurs.  A position
    is (line, 0, 0) for process_node's own text and (line of the call statement, 1, line inside the helper) for the body of a private
    single-use helper method called there (see _inlinable_helpers), i.e. the positions of the text with the helper spliced in."""
    occ = {}

    def collect(root, key):
        for node in ast.walk(root):
            name = None
            if isinstance(node, ast.Attribute):
                name = node.attr
            elif isinstance(node, ast.Name):
                name = node.id
            if name is not None:
                occ.setdefault(name, []).append(key(node))
    collect(fn, lambda n: (n.lineno, 0, 0))
    for st, h in _helper_calls(fn, helpers or {}):
        for b in helpers[h][0].body:
            collect(b, lambda n, st=st: (st.lineno, 1, n.lineno))
    return {k: sorted(set(v)) for k, v in occ.items()}


def translate(repo):
    path = os.path.join(repo, SRC)
    tree = ast.parse(open(path).read())
    consts = {}
    registry = []
    cls = None
    for node in tree.body:
        if isinstance(node, ast.Assign) and len(node.targets) == 1 and isinstance(node.targets[0], ast.Name):
            name = node.targets[0].id
            if name in ("DEFAULT_CONSTANT_FOLD_BLACKLIST", "_NON_DETERMINISTIC_OPS", "_DEFAULT_ALWAYS_FOLD_OPS",
                        "DEFAULT_CONSTANT_FOLD_INPUT_SIZE_LIMIT", "DEFAULT_CONSTANT_FOLD_OUTPUT_SIZE_LIMIT"):
                consts[name] = _const(node.value)
        if isinstance(node, ast.FunctionDef):
            for dec in node.decorator_list:
                if isinstance(dec, ast.Call) and isinstance(dec.func, ast.Name) and dec.func.id == "register":
                    if not dec.args:
                        raise Untranslatable(f"line {dec.lineno}: register without op name")
                    op = _const(dec.args[0])
                    dom, lo, hi = "", None, None
                    if len(dec.args) > 1:
                        dom = _const(dec.args[1])
                    for kw in dec.keywords:
                        if kw.arg == "domain":
                            dom = _const(kw.value)
                        elif kw.arg == "version":
                            v = _const(kw.value)
                            if isinstance(v, int):
                                lo = hi = v
                            elif isinstance(v, tuple) and len(v) == 2:
                                lo, hi = v
                            elif v is not None:
                                raise Untranslatable(f"line {dec.lineno}: version {v!r}")
                        else:
                            raise Untranslatable(f"line {dec.lineno}: register keyword {kw.arg}")
                    registry.append((dom, op, lo, hi, node.name))
        if isinstance(node, ast.ClassDef) and node.name == "FoldConstantsPass":
            cls = node
    for k in ("DEFAULT_CONSTANT_FOLD_BLACKLIST", "_NON_DETERMINISTIC_OPS", "_DEFAULT_ALWAYS_FOLD_OPS",
              "DEFAULT_CONSTANT_FOLD_INPUT_SIZE_LIMIT", "DEFAULT_CONSTANT_FOLD_OUTPUT_SIZE_LIMIT"):
        if k not in consts:
            raise Untranslatable(f"table {k} not found")
    if cls is None:
        raise Untranslatable("class FoldConstantsPass not found")
    pn = next((n for n in cls.body if isinstance(n, ast.FunctionDef) and n.name == "process_node"), None)
    if pn is None:
        raise Untranslatable("FoldConstantsPass.process_node not found")
    helpers = _inlinable_helpers(cls)
    occ = _first_lines(pn, helpers)
    # order of the tests: walk the markers, each must occur after the previous one
    order, last = [], (0, 0, 0)
    for ident, tag in MARKERS:
        lines = [ln for ln in occ.get(ident, []) if ln > last]
        if not lines:
            if tag not in OPTIONAL_MARKERS:
                order.append(("MISSING:" + tag, 0))
            continue
        last = lines[0]
        order.append((tag, last))
    # number of `return` statements / raise statements in process_node: a new early exit changes the count
    n_ret = sum(isinstance(x, ast.Return) for x in ast.walk(pn))
    n_raise = sum(isinstance(x, ast.Raise) for x in ast.walk(pn))
    for _st, h in _helper_calls(pn, helpers):
        # the single trailing `return E` of an inlined helper is the value of the call, not an exit of process_node
        n_raise += sum(isinstance(x, ast.Raise) for x in ast.walk(helpers[h][0]))
    always = [tuple(p) for p in consts["_DEFAULT_ALWAYS_FOLD_OPS"]]
    txt = "(* GENERATED by harness/c03_tables.py from " + SRC + " -- do not edit *)\n"
    txt += "From Coq Require Import List String ZArith.\nImport ListNotations.\nLocal Open Scope string_scope.\n\n"
    txt += f"Definition blacklist : list string := {clist(consts['DEFAULT_CONSTANT_FOLD_BLACKLIST'], cstr)}.\n"
    txt += f"Definition non_deterministic_ops : list string := {clist(sorted(consts['_NON_DETERMINISTIC_OPS']), cstr)}.\n"
    txt += "Definition always_fold_ops : list (string * string) := " + clist([f"({cstr(a)}, {cstr(b)})" for a, b in always]) + ".\n"
    txt += f"Definition default_input_size_limit : Z := {cz(consts['DEFAULT_CONSTANT_FOLD_INPUT_SIZE_LIMIT'])}.\n"
    txt += f"Definition default_output_size_limit : Z := {cz(consts['DEFAULT_CONSTANT_FOLD_OUTPUT_SIZE_LIMIT'])}.\n"
    txt += "(* registered partial evaluators in source order: (domain, op, min_version, max_version) *)\n"
    txt += "Definition registry : list (string * string * option Z * option Z) := " + \
        clist([f"({cstr(d)}, {cstr(o)}, {copt(lo, cz)}, {copt(hi, cz)})" for d, o, lo, hi, _ in registry]) + ".\n"
    txt += "Definition registry_functions : list string := " + clist([f for *_, f in registry], cstr) + ".\n"
    txt += "(* order in which process_node applies its tests (identifier first met after the previous one) *)\n"
    txt += "Definition process_node_order : list string := " + clist([t for t, _ in order], cstr) + ".\n"
    txt += f"Definition process_node_returns : nat := {n_ret}.\nDefinition process_node_raises : nat := {n_raise}.\n"
    # does _get_numpy_value refuse to read the const_value of a graph input (overridable initializer)?
    gnv = next((n for n in tree.body if isinstance(n, ast.FunctionDef) and n.name == "_get_numpy_value"), None)
    if gnv is None:
        raise Untranslatable("_get_numpy_value not found")
    guard = any(isinstance(x, ast.Attribute) and x.attr == "is_graph_input" for x in ast.walk(gnv))
    txt += f"Definition numpy_value_guards_graph_inputs : bool := {'true' if guard else 'false'}.\n"
    # does _clear_unused_initializers keep initializers that are graph inputs?
    cui = next((n for n in tree.body if isinstance(n, ast.FunctionDef) and n.name == "_clear_unused_initializers"), None)
    if cui is None:
        raise Untranslatable("_clear_unused_initializers not found")
    keep = any(isinstance(x, ast.Attribute) and x.attr == "is_graph_input" for x in ast.walk(cui))
    txt += f"Definition clear_keeps_graph_inputs : bool := {'true' if keep else 'false'}.\n"
    # naming of the Unsqueeze outputs created by concat_from_sequence (new_axis = 1)
    cfs = next((n for n in tree.body if isinstance(n, ast.FunctionDef) and n.name == "concat_from_sequence"), None)
    if cfs is None:
        raise Untranslatable("concat_from_sequence not found")
    templates = []
    for x in ast.walk(cfs):
        if isinstance(x, ast.Call) and isinstance(x.func, ast.Attribute) and x.func.attr == "Unsqueeze":
            for kw in x.keywords:
                if kw.arg == "_outputs":
                    templates.append(ast.unparse(kw.value))
    schemes = {"[f'{node_input.name}_unsqueeze']": 0, "[f'{output_name}_{i}_unsqueeze']": 1}
    if len(templates) != 1 or templates[0] not in schemes:
        raise Untranslatable(f"concat_from_sequence: unknown naming of the Unsqueeze outputs {templates}")
    scheme = schemes[templates[0]]
    if scheme == 1:
        src = ast.unparse(cfs)
        if "output_name = node.outputs[0].name" not in src or "for i, node_input in enumerate(inputs)" not in src.replace("(i, node_input)", "i, node_input"):
            raise Untranslatable("concat_from_sequence: output_name / i are not what the model assumes")
    txt += f"Definition unsqueeze_name_scheme : nat := {scheme}.\n"
    # split_to_sequence: is a missing split value (with a known non 1-D shape) handled before `.ndim` is read?
    sts = next((n for n in tree.body if isinstance(n, ast.FunctionDef) and n.name == "split_to_sequence"), None)
    if sts is None:
        raise Untranslatable("split_to_sequence not found")
    none_guard = False
    for x in ast.walk(sts):
        if isinstance(x, ast.If) and isinstance(x.test, ast.Compare) and isinstance(x.test.left, ast.Name) \
                and x.test.left.id == "split_value" and len(x.test.ops) == 1 and isinstance(x.test.ops[0], ast.Is) \
                and isinstance(x.test.comparators[0], ast.Constant) and x.test.comparators[0].value is None:
            if not (len(x.body) == 1 and isinstance(x.body[0], ast.Return)):
                raise Untranslatable("split_to_sequence: unexpected handling of split_value is None")
            none_guard = True
    txt += f"Definition split_value_none_guard : bool := {'true' if none_guard else 'false'}.\n"
    # cast_like: is the saturate attribute of CastLike handed to the new Cast node?
    cl = next((n for n in tree.body if isinstance(n, ast.FunctionDef) and n.name == "cast_like"), None)
    if cl is None:
        raise Untranslatable("cast_like not found")
    casts = [x for x in ast.walk(cl) if isinstance(x, ast.Call) and isinstance(x.func, ast.Attribute) and x.func.attr == "Cast"]
    with_sat = [x for x in casts if any(kw.arg == "saturate" for kw in x.keywords)]
    if not casts or len(casts) > 2 or any(kw.arg not in ("to", "saturate") for x in casts for kw in x.keywords):
        raise Untranslatable("cast_like: unexpected Cast construction")
    if with_sat and "_get_int_attribute(node, 'saturate', None)" not in ast.unparse(cl):
        raise Untranslatable("cast_like: saturate is not read from the CastLike node as the model assumes")
    txt += f"Definition castlike_keeps_saturate : bool := {'true' if with_sat else 'false'}.\n"
    # add: a symbolic dimension plus a negative constant is not recorded as a symbolic sum
    addf = next((n for n in tree.body if isinstance(n, ast.FunctionDef) and n.name == "add"), None)
    if addf is None:
        raise Untranslatable("add evaluator not found")
    neg_tests = [x for x in ast.walk(addf) if isinstance(x, ast.Compare) and isinstance(x.left, ast.Name) and x.left.id in ("dim0", "dim1")
                 and len(x.ops) == 1 and isinstance(x.ops[0], ast.Lt) and isinstance(x.comparators[0], ast.Constant) and x.comparators[0].value == 0]
    if len(neg_tests) not in (0, 2):
        raise Untranslatable("add evaluator: unexpected sign tests")
    txt += f"Definition add_rejects_negative_constant : bool := {'true' if neg_tests else 'false'}.\n"
    # process_node: are nodes with an attribute given by reference (ir.Attr.is_ref()) kept, right after the input redirection?
    skip_ref = any(t == "reference-attribute" for t, _ in order)
    if skip_ref:
        guards = [x for x in ast.walk(pn) if isinstance(x, ast.If) and "is_ref()" in ast.unparse(x.test)]
        if len(guards) != 1 or ast.unparse(guards[0].test) != "any((attr.is_ref() for attr in node.attributes.values()))" \
                or not (len(guards[0].body) == 1 and isinstance(guards[0].body[0], ast.Return) and ast.unparse(guards[0].body[0]) == "return None"):
            raise Untranslatable("process_node: the reference-attribute guard is not the one the model knows")
    txt += f"Definition skips_reference_attributes : bool := {'true' if skip_ref else 'false'}.\n"
    # concat: is a zero-length operand dropped only when its other dims are known to match a kept reference operand?
    ccf = next((n for n in tree.body if isinstance(n, ast.FunctionDef) and n.name == "concat"), None)
    if ccf is None:
        raise Untranslatable("concat evaluator not found")
    inner = {n.name for n in ast.walk(ccf) if isinstance(n, ast.FunctionDef)} - {"concat"}
    csrc = ast.unparse(ccf)
    if inner == {"has_zero_size"}:
        concat_fixed = False
        if "new_inputs = [x for x in inputs if not has_zero_size(x)]" not in csrc:
            raise Untranslatable("concat evaluator: the as-read form drops operands in a way the model does not know")
    elif inner == {"has_zero_size", "same_except_axis"}:
        concat_fixed = True
        needed = ["ref_index = zero_size.index(False) if False in zero_size else 0", "reference = inputs[ref_index]",
                  "if not zero_size[i] or i == ref_index or (not same_except_axis(x, reference))",
                  "if len(new_inputs) == 1:", "dim.value is None or dim.value != ref_dim.value", "if not -rank <= axis < rank:",
                  "if i == axis % rank:", "len(shape) != len(ref_shape)"]
        missing = [t for t in needed if t not in csrc]
        if missing:
            raise Untranslatable(f"concat evaluator: the repaired form differs from what the model knows: {missing[:2]}")
    else:
        raise Untranslatable(f"concat evaluator: unknown helper functions {sorted(inner)}")
    txt += f"Definition concat_drop_checks_other_dims : bool := {'true' if concat_fixed else 'false'}.\n"
    # identity: are type and shape also propagated forward (input -> output)?
    idf = next((n for n in tree.body if isinstance(n, ast.FunctionDef) and n.name == "identity"), None)
    if idf is None:
        raise Untranslatable("identity evaluator not found")
    src = ast.unparse(idf)
    fwd_type = "output.type = input.type" in src
    fwd_shape = "output.shape = input.shape" in src
    if fwd_type != fwd_shape:
        raise Untranslatable("identity evaluator: forward propagation of type and shape differ from what the model knows")
    if fwd_type and ("elif output.type is None" not in src or "if output.shape is None" not in src):
        raise Untranslatable("identity evaluator: unexpected form of the forward propagation")
    txt += f"Definition identity_forwards_type : bool := {'true' if fwd_type else 'false'}.\n"
    return txt, {"registry": [(d, o, lo, hi) for d, o, lo, hi, _ in registry], "order": order, "returns": n_ret,
                 "guard": guard, "clear_keeps": keep, "concat_fixed": concat_fixed, "skip_ref": skip_ref}


# ------------------------------------------------------------------------------------------- reads of constant values
# Every place of _constant_folding.py that reads the constant value of an ir.Value, enumerated fail-closed: attribute reads
# `.const_value` and calls of the accessors below.  Each site is classified by HOW the read is kept away from the default of an
# initializer that is also a graph input (an overridable default); a read that fits none of the classes is unguarded and needs an
# entry in CONST_READ_REASONS (why the read cannot bake a default in), else the generated obligation all_const_reads_guarded fails.
CONST_ACCESSORS = ("_get_numpy_value", "get_constant_value")
# accessors built on the accessors above (their own body is classified like every other function; calls of them need no entry)
GUARD_CLASSES = ("via-_get_numpy_value", "via-guarded-local-wrapper", "behind-is_graph_input-return",
                 "dominated-by-_get_numpy_value-not-None", "after-graph-input-early-return")
# (qualified function, source text of the statement) -> reason; nothing in the current source needs one
CONST_READ_REASONS: dict = {}


def _parents(tree):
    par = {}
    for p in ast.walk(tree):
        for c in ast.iter_child_nodes(p):
            par[c] = p
    return par


def _is_guard_if(st, var=None):
    """`if <var>.is_graph_input(): return None` (a statement of a function body)"""
    if not (isinstance(st, ast.If) and isinstance(st.test, ast.Call) and isinstance(st.test.func, ast.Attribute)
            and st.test.func.attr == "is_graph_input" and isinstance(st.test.func.value, ast.Name) and not st.test.args and not st.orelse):
        return False
    if var is not None and st.test.func.value.id != var:
        return False
    body = [s for s in st.body if not (isinstance(s, ast.Expr) and isinstance(s.value, ast.Constant))]
    return len(body) == 1 and isinstance(body[0], ast.Return) and (body[0].value is None or (isinstance(body[0].value, ast.Constant) and body[0].value.value is None))


def const_read_sites(tree):
    """-> (sites, numpy_value_guard_ok) ; sites = [(lineno, function, kind, class-or-'', statement text)]"""
    par = _parents(tree)

    def chain(n):
        res = []
        while n in par:
            n = par[n]
            res.append(n)
        return res

    def qual(n):
        return ".".join(reversed([a.name for a in chain(n) if isinstance(a, (ast.FunctionDef, ast.AsyncFunctionDef, ast.ClassDef))]))

    def stmt_of(n):
        while n in par and not isinstance(n, ast.stmt):
            n = par[n]
        return n

    def func_of(n):
        return next((a for a in chain(n) if isinstance(a, (ast.FunctionDef, ast.AsyncFunctionDef, ast.Lambda))), None)

    # _get_numpy_value: `if val.is_graph_input(): return None` is a top-level statement that precedes the first read of val.const_value
    gnv = next((n for n in tree.body if isinstance(n, ast.FunctionDef) and n.name == "_get_numpy_value"), None)
    if gnv is None or not gnv.args.args:
        raise Untranslatable("_get_numpy_value not found")
    gvar = gnv.args.args[0].arg
    greads = sorted(x.lineno for x in ast.walk(gnv) if isinstance(x, ast.Attribute) and x.attr == "const_value" and isinstance(x.ctx, ast.Load))
    gguards = [s.lineno for s in gnv.body if _is_guard_if(s, gvar)]
    rebinds = [x for x in ast.walk(gnv) if isinstance(x, ast.Name) and x.id == gvar and isinstance(x.ctx, ast.Store)]
    gnv_ok = bool(gguards) and bool(greads) and min(gguards) < greads[0] and not rebinds

    sites = []
    for n in ast.walk(tree):
        if isinstance(n, ast.Constant) and n.value in ("const_value",) + CONST_ACCESSORS:
            raise Untranslatable(f"line {n.lineno}: the name {n.value!r} as a string (getattr?)")
        if isinstance(n, ast.Name) and n.id in CONST_ACCESSORS and not (isinstance(par.get(n), ast.Call) and par[n].func is n):
            raise Untranslatable(f"line {n.lineno}: {n.id} used other than by a direct call (alias)")
        if isinstance(n, ast.Attribute) and n.attr in CONST_ACCESSORS:
            raise Untranslatable(f"line {n.lineno}: attribute access .{n.attr}")
        if isinstance(n, ast.Attribute) and n.attr == "const_value" and isinstance(n.ctx, ast.Del):
            raise Untranslatable(f"line {n.lineno}: del of const_value")
        kind = cls = None
        fn = func_of(n)
        if isinstance(n, ast.Call) and isinstance(n.func, ast.Name) and n.func.id == "_get_numpy_value":
            kind, cls = "call:_get_numpy_value", ("via-_get_numpy_value" if gnv_ok else "")
        elif isinstance(n, ast.Call) and isinstance(n.func, ast.Name) and n.func.id == "get_constant_value":
            kind = "call:get_constant_value"
            # the local wrapper must be a def in an enclosing function; its own reads are classified below (all must be guarded)
            defs = [d for a in chain(n) if isinstance(a, ast.FunctionDef) for d in a.body if isinstance(d, ast.FunctionDef) and d.name == "get_constant_value"]
            cls = "via-guarded-local-wrapper" if len(defs) == 1 else ""
        elif isinstance(n, ast.Attribute) and n.attr == "const_value" and isinstance(n.ctx, ast.Load):
            kind, cls = "read:.const_value", ""
            base = n.value.id if isinstance(n.value, ast.Name) else None
            if fn is gnv and base == gvar and gnv_ok:
                cls = "behind-is_graph_input-return"
            elif base is not None and isinstance(fn, ast.FunctionDef):
                # (a) inside `if <v> is not None:` with `<v> = _get_numpy_value(<base>, ...)` the statement just before it, same body
                for a in chain(n):
                    if a is fn:
                        break
                    if isinstance(a, ast.If) and isinstance(a.test, ast.Compare) and isinstance(a.test.left, ast.Name) and len(a.test.ops) == 1 \
                            and isinstance(a.test.ops[0], ast.IsNot) and isinstance(a.test.comparators[0], ast.Constant) \
                            and a.test.comparators[0].value is None and any(n is d for s in a.body for d in ast.walk(s)):
                        v = a.test.left.id
                        holder = par.get(a)
                        body = getattr(holder, "body", [])
                        k = next((i for i, s in enumerate(body) if s is a), None)
                        prev = body[k - 1] if k else None
                        if isinstance(prev, ast.Assign) and len(prev.targets) == 1 and isinstance(prev.targets[0], ast.Name) and prev.targets[0].id == v \
                                and isinstance(prev.value, ast.Call) and isinstance(prev.value.func, ast.Name) and prev.value.func.id == "_get_numpy_value" \
                                and prev.value.args and isinstance(prev.value.args[0], ast.Name) and prev.value.args[0].id == base and gnv_ok:
                            cls = "dominated-by-_get_numpy_value-not-None"
                # (b) process_node: the read ranges over node.inputs and comes after the early return on a graph input among node.inputs
                if not cls and fn.name == "process_node":
                    comp = next((a for a in chain(n) if isinstance(a, (ast.GeneratorExp, ast.ListComp))), None)
                    over_inputs = comp is not None and len(comp.generators) == 1 and ast.unparse(comp.generators[0].iter) == "node.inputs" \
                        and isinstance(comp.generators[0].target, ast.Name) and comp.generators[0].target.id == base
                    early = [s for s in fn.body if isinstance(s, ast.If) and ast.unparse(s.test) == "any((x.is_graph_input() for x in node.inputs if x is not None))"
                             and s.body and isinstance(s.body[-1], ast.Return) and not s.orelse]
                    top = next((a for a in [n] + chain(n) if par.get(a) is fn), None)
                    if over_inputs and early and top is not None and early[0].lineno < top.lineno:
                        cls = "after-graph-input-early-return"
        if kind is None:
            continue
        text = " ".join(ast.unparse(stmt_of(n)).split("\n")[0].split())[:100]
        sites.append((n.lineno, qual(n), kind, cls, text))
    sites.sort()
    # the body of the local wrapper get_constant_value must itself contain only guarded reads
    for ln, q, kind, cls, text in sites:
        if kind == "call:get_constant_value" and cls:
            inner = [s for s in sites if s[1].endswith(".get_constant_value") or s[1] == "get_constant_value"]
            if not inner or any(not s[3] for s in inner):
                sites[sites.index((ln, q, kind, cls, text))] = (ln, q, kind, "", text)
    return sites, gnv_ok


def const_reads_text(sites, gnv_ok):
    """coq/Gen/ConstReads.v"""
    txt = "(* GENERATED by harness/c03_tables.py from " + SRC + " -- do not edit *)\n"
    txt += "From Coq Require Import List String.\nImport ListNotations.\nLocal Open Scope string_scope.\n\n"
    txt += "(* every read of the constant value of an ir.Value in the file: (function, kind, guard class or \"\", reason or \"\") *)\n"
    rows = []
    for _ln, q, kind, cls, text in sites:
        reason = CONST_READ_REASONS.get((q, text), "")
        rows.append(f"({cstr(q)}, {cstr(kind)}, {cstr(cls)}, {cstr(reason)})")
    txt += "Definition const_read_sites : list (string * string * string * string) := " + clist(rows) + ".\n"
    txt += f"Definition numpy_value_guard_precedes_read : bool := {'true' if gnv_ok else 'false'}.\n"
    # does the data handed to node-level ONNX shape inference go through _get_numpy_value (size_limit=20)?
    di = [s for s in sites if s[1].endswith("_do_inference.get_constant_value")]
    through = bool(di) and all(s[3] for s in di) and any(s[2] == "call:_get_numpy_value" for s in di)
    txt += f"Definition do_inference_reads_through_numpy_value : bool := {'true' if through else 'false'}.\n"
    lim = None
    for s in di:
        if s[2] == "call:_get_numpy_value" and "size_limit=" in s[4]:
            try:
                lim = int(s[4].split("size_limit=")[1].split(")")[0].split(",")[0])
            except ValueError:
                lim = None
    txt += f"Definition do_inference_size_limit : nat := {lim if lim is not None else 0}.\n"
    return txt, through, lim


def move_inits_text(tree):
    """coq/Gen/MoveInits.v: the shape of _move_initializers_to_graph (Opt/MoveInits.v is its model)"""
    fn = next((n for n in tree.body if isinstance(n, ast.FunctionDef) and n.name == "_move_initializers_to_graph"), None)
    if fn is None:
        raise Untranslatable("_move_initializers_to_graph not found")
    if [a.arg for a in fn.args.args] != ["src", "dst"]:
        raise Untranslatable("_move_initializers_to_graph: parameters are not (src, dst)")
    # locals renamed by binding position (src, dst, the counter, the loop variable, the popped value, the chosen name): a renaming of locals
    # cannot change what the function does; the shape below is compared on the canonical names
    import copy
    from harness import c01_pynorm as PN
    fn = copy.deepcopy(fn)
    try:
        PN.alpha(fn)
    except PN.NotNormalisable as e:
        raise Untranslatable(f"_move_initializers_to_graph: {e}")
    S, D, C, N, I, U = (f"_v0_{i}" for i in range(6))
    body = [s for s in fn.body if not (isinstance(s, ast.Expr) and isinstance(s.value, ast.Constant))]
    if len(body) != 2 or ast.unparse(body[0]) not in (f"{C}: dict[str, int] = {{}}", f"{C} = {{}}") or not isinstance(body[1], ast.For) \
            or ast.unparse(body[1].target) != N or ast.unparse(body[1].iter) != f"list({S}.initializers)" or body[1].orelse:
        raise Untranslatable("_move_initializers_to_graph: not `counter = {}` followed by `for name in list(src.initializers)`")
    loop = body[1].body
    texts = [ast.unparse(s).split("\n")[0] for s in loop]
    search = [s for s in loop if isinstance(s, (ast.While, ast.If)) and ast.unparse(s.test) == f"{U} in {D}.initializers"]
    if len(search) != 1 or search[0].orelse:
        raise Untranslatable("_move_initializers_to_graph: no single `new_name in dst.initializers` test")
    bump = [ast.unparse(x) for x in search[0].body]
    if bump[:2] != [f"{C}[{N}] = {C}.get({N}, 0) + 1", f"{U} = f'{{{N}}}_{{{C}[{N}]}}'"]:
        raise Untranslatable(f"_move_initializers_to_graph: unknown way of choosing the next name {bump[:2]}")
    if isinstance(search[0], ast.While) and len(bump) != 2:
        raise Untranslatable("_move_initializers_to_graph: the while loop does more than bump the name")
    if texts[0] != f"{I} = {S}.initializers.pop({N})" or texts[1] != f"{U} = {N}" or texts[-1] != f"{D}.register_initializer({I})":
        raise Untranslatable(f"_move_initializers_to_graph: unexpected loop body {texts}")
    if f"{I}.name = {U}" not in ast.unparse(fn):
        raise Untranslatable("_move_initializers_to_graph: the moved value is not renamed")
    loops = isinstance(search[0], ast.While)
    txt = "(* GENERATED by harness/c03_tables.py from " + SRC + " -- do not edit *)\n"
    txt += "(* _move_initializers_to_graph: is the fresh-name search a `while new_name in dst.initializers` loop? *)\n"
    txt += f"Definition fresh_name_search_loops : bool := {'true' if loops else 'false'}.\n"
    return txt, loops


def regenerate(ctx):
    try:
        txt, info = translate(common.REPO)
        tree = ast.parse(open(os.path.join(common.REPO, SRC)).read())
        mtxt, loops = move_inits_text(tree)
        info["move_inits_search_loops"] = loops
        ctx.gen("MoveInits", mtxt)
        sites, gnv_ok = const_read_sites(tree)
        rtxt, through, lim = const_reads_text(sites, gnv_ok)
        info["const_read_sites"] = sites
        info["const_reads_unguarded"] = [s for s in sites if not s[3] and not CONST_READ_REASONS.get((s[1], s[4]))]
        info["do_inference_through_numpy_value"] = through
        info["do_inference_size_limit"] = lim
        ctx.gen("ConstReads", rtxt)
    except Untranslatable as e:
        ctx.tie_broken("translator", SRC, str(e))
        return None
    except (OSError, SyntaxError) as e:
        ctx.tie_broken("translator", SRC, repr(e))
        return None
    ctx.gen("FoldTables", txt)
    return info
