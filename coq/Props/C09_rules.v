(* C09 property theorems, third file: the units that used to be "differential only" (ReshapeReshape, SlicesSplit,
   Flatten2Reshape, the sequence evaluators, the numeric part of broadcast_to_matmul) and ranks of shape values.
   Statements only, each closed by `exact`. *)
From Coq Require Import String ZArith List Bool.
Require Import OV.Shape.SymDim OV.Shape.PartialEval OV.Shape.Extra OV.Shape.ExtraProofs OV.Shape.Extra2 OV.Shape.Extra2Proofs.
Require OV.Rules.Reshape OV.Rules.ReshapeProofs OV.Rules.SliceCollapse OV.Rules.MatmulGemm OV.Rules.MatmulGemmProofs.
Import ListNotations.
Open Scope Z_scope.

(* ---- ReshapeReshape.  xs = any runtime shape of x; resolve = ONNX Reshape (None = rejected). *)
Theorem C09_reshape_reshape_subst_known_sound : forall az mid s2 od out,
  Reshape.resolve az mid s2 = Some out -> Reshape.truthful od out ->
  Reshape.resolve az mid (Reshape.subst_known od s2) = Some out.
Proof. exact subst_known_sound. Qed.
Print Assumptions C09_reshape_reshape_subst_known_sound.

Theorem C09_reshape_reshape_annotated_sound : forall xs s1 az1 mid s2 az2 out o s' az',
  Reshape.resolve az1 xs s1 = Some mid -> Reshape.nonneg mid = true -> Reshape.resolve az2 mid s2 = Some out ->
  (forall so, o = Some so -> Reshape.truthful (to_decl so) out) ->
  rr_rule o s2 az2 = Some (s', az') ->
  Reshape.resolve az' xs s' = Some out.
Proof. exact reshape_reshape_annotated_sound. Qed.
Print Assumptions C09_reshape_reshape_annotated_sound.

Theorem C09_reshape_reshape_decline_needed : exists xs s1 mid s2 out,
  Reshape.resolve false xs s1 = Some mid /\ Reshape.resolve false mid s2 = Some out /\ rr_rule None s2 false = None /\
  Reshape.resolve (snd (rr_naive s2 false)) xs (fst (rr_naive s2 false)) <> Some out.
Proof. exact reshape_reshape_decline_needed. Qed.
Print Assumptions C09_reshape_reshape_decline_needed.

Theorem C09_reshape_reshape_decline_two_zeros : exists xs s1 mid s2 out,
  Reshape.resolve false xs s1 = Some mid /\ Reshape.resolve false mid s2 = Some out /\ rr_rule None s2 false = None /\
  Reshape.resolve false xs s2 <> Some out.
Proof. exact reshape_reshape_decline_two_zeros. Qed.
Print Assumptions C09_reshape_reshape_decline_two_zeros.

(* ---- SlicesSplit: only the last dim has to be static; every other dim is free (0 included) *)
Theorem C09_slices_split_sound : forall s axis b0 e0 b1 e1, ss_check (Some s) axis b0 e0 b1 e1 = true ->
  forall rho cx, shape_denotes rho s cx ->
  (axis = -1 \/ axis = Z.of_nat (List.length cx) - 1) /\
  exists d crest, rev cx = d :: crest /\ 0 < d /\
    forall (A : Type) (l : list A), Z.of_nat (List.length l) = d ->
      (SliceCollapse.slice1 b0 e0 l, SliceCollapse.slice1 b1 e1 l) = SliceCollapse.split2 l.
Proof. exact slices_split_sound. Qed.
Print Assumptions C09_slices_split_sound.

(* ---- Flatten2Reshape: an emitted target is right for every consistent runtime shape iff it is not [0; -1] *)
Theorem C09_flatten_target_correct_iff : forall a a0 a1, fl_class a a0 a1 ->
  (forall sh, fl_consistent a a0 a1 sh -> reshape_out false sh [a0; a1] = Some (flat2 a sh)) <-> fl_target_ok [a0; a1] = true.
Proof. exact flatten_target_correct_iff. Qed.
Print Assumptions C09_flatten_target_correct_iff.

(* ---- sequence evaluators at the level of shapes *)
Theorem C09_chunks_length : forall {A} sizes (l : list A), List.length (chunks sizes l) = List.length sizes.
Proof. exact @chunks_length. Qed.
Print Assumptions C09_chunks_length.

Theorem C09_chunks_concat : forall {A} sizes (l : list A), fold_right Nat.add 0%nat sizes = List.length l -> concat (chunks sizes l) = l.
Proof. exact @chunks_concat. Qed.
Print Assumptions C09_chunks_concat.

Theorem C09_split_vector_keepdims1_sound : forall sh ax sizes, stsq_emitted true sh ax sizes = stsq_spec sh ax sizes.
Proof. exact split_vector_keepdims1_sound. Qed.
Print Assumptions C09_split_vector_keepdims1_sound.

Theorem C09_split_vector_keepdims0_refuted : exists sh ax sizes, stsq_emitted false sh ax sizes <> stsq_spec sh ax sizes.
Proof. exact split_vector_keepdims0_refuted. Qed.
Print Assumptions C09_split_vector_keepdims0_refuted.

Theorem C09_stack_shape_sound : forall s ax k, (ax <= List.length s)%nat -> (1 <= k)%nat ->
  concat_shape (Z.of_nat ax) (repeat (unsqueeze_shape ax s) k) = Some (stack_shape ax k s).
Proof. exact stack_shape_sound. Qed.
Print Assumptions C09_stack_shape_sound.

Theorem C09_seq_at_sound : forall {A} (l : list A) i, py_index l i = onnx_seq_at l i.
Proof. exact @seq_at_sound. Qed.
Print Assumptions C09_seq_at_sound.

(* ---- broadcast_to_matmul: the whole check, at every binding (only all-int annotations pass, and they are the runtime shapes) *)
Theorem C09_b2m_check_sound : forall a b sc, b2m_check (Some a) (Some b) sc = true ->
  forall rho ca cb, shape_denotes rho a ca -> shape_denotes rho b cb ->
  MatmulGemmProofs.positive_dims ca -> MatmulGemmProofs.positive_dims cb ->
  MatmulGemm.matmul_shape ca cb = Some sc.
Proof. exact b2m_check_sound. Qed.
Print Assumptions C09_b2m_check_sound.

(* ---- ranks of shape values *)
Theorem C09_sym_length_is_rlen : forall e s, sv_sym (erase e) = Some s -> List.length s = rlen e.
Proof. exact sym_length_is_rlen. Qed.
Print Assumptions C09_sym_length_is_rlen.

Theorem C09_squeeze_then_flat_rank : forall e r, rrank e = Some r -> rrank (RKeepE KReshapeFlat (RKeepE KSqueeze e)) = Some 1%nat.
Proof. exact squeeze_then_flat_rank. Qed.
Print Assumptions C09_squeeze_then_flat_rank.

Theorem C09_squeeze_scalar_rejected_by_gather : forall e r idx, rrank e = Some r -> rlen e = 1%nat ->
  rrank (RGatherE (RKeepE KSqueeze e) idx) = None.
Proof. exact squeeze_scalar_rejected_by_gather. Qed.
Print Assumptions C09_squeeze_scalar_rejected_by_gather.
