(* C08 property theorems, advanced indexing with integer index tensors (core.py: aten_index / _aten_index_onnx, aten_index_put): statements only.

   Axes are lists of labels of an arbitrary type: the theorems say, for every mask of index positions (any number of index
   tensors, adjacent or not, leading / trailing / omitted None entries), every rank and every label list, that
   - aten_index: Transpose(reordered positions), GatherND, Transpose(perm) yields exactly PyTorch's axis order
     (broadcast index axes in place when the index tensors are adjacent, in front otherwise);
   - aten_index_put: the transposed self has the indexed axes first in index order (so ScatterND's index tuples address them),
     `values` laid out as PyTorch broadcasts it is moved by values_perm onto the update layout ScatterND expects, and the
     final Transpose(inverse_perm) restores self's axis order.
   Shapes are the instance "label = extent" with the index shapes broadcast (numpy rule, Max in the graph).
   NOT covered: the gathered / scattered values themselves (GatherND / ScatterND kernels incl. negative index wrap and
   accumulate; direct oracle), boolean index tensors, Expand of `values` (broadcast compatibility: oracle). *)
From Coq Require Import ZArith List Bool Permutation.
Require Import OV.Torch.Onnx OV.Torch.Onnx2 OV.Torch.Aten OV.Torch.IndexModel OV.Torch.IndexProofs.
Import ListNotations.

Theorem C08_index_axes : forall A m (B s : list A), length m <= length s ->
  aten_index_axes m B s = Some (torch_index_axes m B s).
Proof. exact aten_index_correct. Qed.
Print Assumptions C08_index_axes.

Theorem C08_index_shape : forall m idx s out, torch_index_shape m idx s = Some out -> aten_index_shape m idx s = Some out.
Proof. exact aten_index_shape_correct. Qed.
Print Assumptions C08_index_shape.

Theorem C08_index_put_transposed_axes : forall A m (s : list A), length m <= length s ->
  permute (put_perm m (length s)) s = Some (select m s ++ reject m s).
Proof. exact put_transposed_axes. Qed.
Print Assumptions C08_index_put_transposed_axes.

Theorem C08_index_put_values_aligned : forall A m (B s : list A), length m <= length s ->
  aten_put_values_axes m B s = Some (put_target_axes m B s).
Proof. exact put_values_aligned. Qed.
Print Assumptions C08_index_put_values_aligned.

Theorem C08_index_put_axes_restored : forall A m (s : list A), length m <= length s -> aten_index_put_axes m s = Some s.
Proof. exact aten_index_put_axes_correct. Qed.
Print Assumptions C08_index_put_axes_restored.

Theorem C08_inverse_perm : forall A p (s t : list A),
  Permutation p (seq 0 (length s)) -> permute p s = Some t -> permute (inverse_perm p) t = Some s.
Proof. exact inverse_perm_correct. Qed.
Print Assumptions C08_inverse_perm.

(* non-vacuity *)
Example ex_index_middle : aten_index_axes [false; true; true] [10; 11] [2; 3; 4; 5] = Some [2; 10; 11; 5]
  /\ torch_index_axes [false; true; true] [10; 11] [2; 3; 4; 5] = [2; 10; 11; 5].
Proof. split; reflexivity. Qed.
Example ex_index_split : aten_index_axes [true; false; true] [10] [2; 3; 4; 5] = Some [10; 3; 5]
  /\ index_perm [true; false; true] 4 = [0; 2; 1; 3] /\ final_perm 2 1 5 = [2; 0; 1; 3; 4].
Proof. repeat split; reflexivity. Qed.
Example ex_index_put : put_perm [false; true; true] 4 = [1; 2; 0; 3] /\ inverse_perm [1; 2; 0; 3] = [2; 0; 1; 3]
  /\ aten_put_values_axes [false; true; true] [10] [2; 3; 4; 5] = Some [10; 2; 5] /\ values_perm 1 1 3 = [1; 0; 2]
  /\ aten_index_put_axes [false; true; true] [2; 3; 4; 5] = Some [2; 3; 4; 5].
Proof. repeat split; reflexivity. Qed.
