From Coq Require Import ZArith List Bool Lia.
Require Import OV.Rules.NoOp OV.Rules.BShape OV.Rules.BShapeProofs.
Import ListNotations.
Local Open Scope Z_scope.

(* With an exact constant test every rule is an identity on exact rationals, for all x and all constants. *)
Theorem noop_exact_sound : forall o r c x,
  0 < snd c -> 0 < snd x -> check_exact o r c = true -> req (lhs o c x) x.
Proof.
  intros o r [m d] [a b] Hd Hb H. unfold check_exact in H. apply andb_true_iff in H as [_ H].
  unfold exact in H. apply Z.eqb_eq in H. cbn [fst snd] in *.
  destruct o; cbn [target] in H; unfold req, lhs, rmul, radd, rsub, rdiv; cbn [fst snd]; subst m; ring.
Qed.

(* On integer tensors the shipped isclose test *is* exact: an integer close to 0 / 1 equals it. *)
Lemma isclose_int_exact : forall z t, (t = 0 \/ t = 1) -> isclose (of_int z) t = true -> z = t.
Proof.
  intros z t Ht H. unfold isclose, of_int in H. apply Z.leb_le in H. lia.
Qed.

Theorem noop_int_sound : forall o r c x,
  check o r (of_int c) = true -> lhs_int o c x = x.
Proof.
  intros o r c x H. unfold check in H. apply andb_true_iff in H as [_ H].
  assert (c = target o) as -> by (apply isclose_int_exact; [destruct o; cbn; auto|exact H]).
  destruct o; cbn [lhs_int target]; unfold idiv; try lia. apply Z.quot_1_r.
Qed.

(* On float tensors it is not: a constant that is only approximately 1 (or 0) is accepted and changes the values.
   Witnesses: x * (1 + 2^-20) at x = 2^20 (float32 1.00000095..), x + 10^-9 at x = 0. *)
Theorem noop_isclose_mul_refuted : exists c x, 0 < snd c /\ 0 < snd x /\ check MulR 0 c = true /\ ~ req (lhs MulR c x) x.
Proof. exists (1048577, 1048576), (1048576, 1). repeat split; try reflexivity. unfold req. vm_compute. discriminate. Qed.

Theorem noop_isclose_add_refuted : exists c x, 0 < snd c /\ 0 < snd x /\ check AddR 0 c = true /\ ~ req (lhs AddR c x) x.
Proof. exists (1, 1000000000), (0, 1). repeat split; try reflexivity. unfold req. vm_compute. discriminate. Qed.

Theorem noop_isclose_refuted_all : forall o, exists c x, 0 < snd c /\ 0 < snd x /\ check o 0 c = true /\ ~ req (lhs o c x) x.
Proof.
  destruct o;
    [exists (1048577, 1048576), (1048576, 1) | exists (1048577, 1048576), (1048576, 1)
    | exists (1, 1000000000), (0, 1) | exists (1, 1000000000), (0, 1) | exists (1, 1000000000), (0, 1)
    | exists (1048577, 1048576), (1048576, 1)];
    repeat split; try reflexivity; unfold req; vm_compute; discriminate.
Qed.

(* exactly which constants are accepted for target 1: |c - 1| <= 1e-5 * max(|c|, 1) (abs_tol never matters there) *)
Lemma isclose_one_spec : forall m d, 0 < d ->
  (isclose (m, d) 1 = true <-> Z.abs (m - d) * 100000 <= Z.max (Z.abs m) d).
Proof.
  intros m d Hd. unfold isclose. rewrite Z.leb_le. lia.
Qed.

(* result shape: the matcher demands a 0-d constant, and a 0-d operand never changes the broadcast shape *)
Theorem noop_shape_sound : forall xs, bcast xs [] = Some xs /\ bcast [] xs = Some xs.
Proof. intro xs. split; [apply bcast_scalar_r|apply bcast_scalar_l]. Qed.

Example noop_example : check MulR 0 (of_int 1) = true /\ check MulR 1 (of_int 1) = false /\ check AddR 0 (3, 100) = false.
Proof. repeat split; reflexivity. Qed.
