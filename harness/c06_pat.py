"""C06 helpers: pattern / host descriptions -> real objects, real pattern objects -> abstract form,
abstract forms -> Coq literals (coq/Match/Pattern.v).

Descriptions (plain python data, JSON-able):

  value pattern   None | ["any"] | ["var", name] | ["ovar", name]            (Var(name, can_match_none=True))
                  | ["const", value, rel|None, abs|None]                   value: number or list of numbers
                  | ["out", j, i]                                          output i of pattern node j
                  | ["or", k]                                              the k-th OR value of the pattern
  attr pattern    ["c", value] | ["v", name] | ["ov", name] | ["av", name|None, none_ok]
  node pattern    {"op": str, "dom": None|str, "prefix": bool, "dom_prefix": None|str (domain = PrefixPattern, built by another opset builder), "attrs": [[name, attrpat]...], "other_attrs": None|bool,
                   "other_ins": None|bool, "ins": [value pattern...], "outs": int | [name|None ...]}
  pattern         {"params": [names], "nodes": [...], "ors": [{"alts": [vp...], "name": .., "tagv": .., "tags": None|[..]}],
                   "outs": [vp...]}                   (an OR value is created at its first use and shared afterwards)
  host            {"nodes": [{"op","dom","attrs":[[name,value]],"ins":[vid|None],"outs":[vid]}], "inputs":[vid], "outs":[vid],
                   "consts": {vid: number | [numbers] | "other" | {"shape": [dims], "data": [numbers, row-major]}}}
                  (number = 0-d tensor, list = rank-1 tensor, dict = a tensor of any shape -- also a second way of
                  writing ranks 0 and 1 --, "other" = a 2x2 tensor the model does not read)
"""
from __future__ import annotations

import inspect
from fractions import Fraction

import numpy as np

from harness.common import cbool, clist, cnat, copt, cstr, cz


class TranslationError(Exception):
    pass


# ----------------------------------------------------------------------------- description -> real pattern

def build_pattern_fn(desc):
    """A pattern function with the parameters named in desc['params'] (read through inspect.signature)."""
    from onnxscript.rewriter import pattern as P

    params = list(desc["params"])

    def fn(op, *args):
        fn.created = []              # the NodePattern objects in the order of the description (= creation order)
        env = dict(zip(params, args))
        outs_of = {}
        ors = {}

        def vp(d, explicit=False):
            if d is None:
                return None
            k = d[0]
            if k == "any":
                return P.ANY_VALUE
            if k == "var":
                return env[d[1]]
            if k == "ovar":
                return P.Var(d[1], can_match_none=True)
            if k == "const":
                v = d[1]
                if d[2] is None and d[3] is None and not explicit:
                    return v          # promoted by _to_value_pattern
                kw = {}
                if d[2] is not None:
                    kw["rel_tol"] = d[2]
                if d[3] is not None:
                    kw["abs_tol"] = d[3]
                return P.Constant(v, **kw)
            if k == "out":
                return outs_of[d[1]][d[2]]
            if k == "or":
                if d[1] not in ors:           # created at first use; shared afterwards
                    o = desc["ors"][d[1]]
                    kw = {}
                    if o.get("name") is not None:
                        kw["name"] = o["name"]
                    if o.get("tagv") is not None:
                        kw["tag_var"] = o["tagv"]
                    if o.get("tags") is not None:
                        kw["tag_values"] = o["tags"]
                    ors[d[1]] = P.OrValue([vp(a, explicit=True) for a in o["alts"]], **kw)
                return ors[d[1]]
            raise ValueError(d)

        def ap(d):
            k = d[0]
            if k == "c":
                return d[1]
            if k == "v":
                return env[d[1]]
            if k == "ov":
                return P.Var(d[1], can_match_none=True)
            if k == "av":
                return P.AttrVar(d[1], can_match_none=bool(d[2]))
            raise ValueError(d)

        for j, nd in enumerate(desc["nodes"]):
            kw = {}
            if nd.get("dom") is not None:
                kw["_domain"] = nd["dom"]
            if nd.get("other_attrs") is not None:
                kw["_allow_other_attributes"] = nd["other_attrs"]
            if nd.get("other_ins") is not None:
                kw["_allow_other_inputs"] = nd["other_ins"]
            outs = nd.get("outs", 1)
            if outs != 1:
                kw["_outputs"] = outs
            for name, a in nd.get("attrs", []):
                kw[name] = ap(a)
            base = op
            if nd.get("dom_prefix") is not None:
                # a node built by another opset builder whose domain is a prefix pattern: pattern.torch_module_op
                # (domain "pkg.torch*") or OpsetPatternBuilder(PrefixPattern(..)); such nodes are not recorded in the
                # pattern function's builder (GraphPattern._nodes) but take part in the match
                from onnxscript.rewriter import _pattern_ir as I
                base = P.torch_module_op if nd["dom_prefix"] == "pkg.torch" else P.OpsetPatternBuilder(I.PrefixPattern(nd["dom_prefix"]))
            builder = base.submodule(nd["op"]) if nd.get("prefix") else getattr(base, nd["op"])
            r = builder(*[vp(i) for i in nd["ins"]], **kw)
            outs_of[j] = list(r) if isinstance(r, (list, tuple)) else [r]
            fn.created.append(outs_of[j][0].producer())
        res = [vp(o) for o in desc["outs"]]
        return res[0] if len(res) == 1 else res

    fn.__signature__ = inspect.Signature(
        [inspect.Parameter("op", inspect.Parameter.POSITIONAL_OR_KEYWORD)]
        + [inspect.Parameter(p, inspect.Parameter.POSITIONAL_OR_KEYWORD) for p in params])
    return fn


def build_pattern(desc):
    from onnxscript.rewriter import pattern as P
    return P.Pattern(build_pattern_fn(desc))


# ----------------------------------------------------------------------------- real GraphPattern -> abstract

def _all_pattern_nodes(gp, I, hint=None):
    """The node patterns of the pattern: GraphPattern._nodes (recorded by the pattern function's builder, creation order)
    plus the nodes reachable from the outputs that another opset builder made (torch_module_op, ...), merged into one
    order in which every node comes after the producers it refers to (creation order when everything is recorded)."""
    recorded = list(gp)
    rank = {id(n): j for j, n in enumerate(recorded)}
    found = list(recorded)

    def deps_of_value(v, acc):
        if v is None:
            return
        if type(v) is I.NodeOutputPattern:
            acc.append(v.producer())
        elif type(v) is I.BacktrackingOr:
            for a in v._values:
                deps_of_value(a, acc)
        elif type(v) is I.OpIdDispatchOr:
            for _, (_, a) in v._op_to_pattern.items():
                deps_of_value(a, acc)

    def deps(n):
        acc = []
        for v in n.inputs:
            deps_of_value(v, acc)
        return acc

    todo = []
    for v in gp.outputs:
        deps_of_value(v, todo)
    todo += recorded
    seen = {id(n) for n in found}
    while todo:
        n = todo.pop()
        if id(n) not in seen:
            seen.add(id(n))
            found.append(n)
        for d in deps(n):
            if id(d) not in seen:
                todo.append(d)
    if len(found) == len(recorded):
        return recorded
    if hint is not None and {id(n) for n in hint} >= {id(n) for n in found}:
        # creation order as the harness saw it (only the ORDER is taken from the hint; the nodes are those found above)
        hrank = {id(n): k for k, n in enumerate(hint)}
        prio = {id(n): (hrank[id(n)], 0) for n in found}
    else:
        prio = {id(n): (rank.get(id(n), len(recorded)), k) for k, n in enumerate(found)}
    placed, order = set(), []
    while len(order) < len(found):
        ready = [n for n in found if id(n) not in placed and all(id(d) in placed for d in deps(n))]
        if not ready:
            raise TranslationError("cyclic pattern")
        n = min(ready, key=lambda n: prio[id(n)])
        placed.add(id(n))
        order.append(n)
    return order


def abstract_of_real(gp, created=None):
    """Translate a real _pattern_ir.GraphPattern into the abstract form of coq/Match/Pattern.v (fail-closed)."""
    from onnxscript.rewriter import _pattern_ir as I

    nodes = _all_pattern_nodes(gp, I, created)
    index = {id(n): j for j, n in enumerate(nodes)}
    keys = {}

    def key(obj):
        return keys.setdefault(id(obj), len(keys))

    def spat(s):
        if type(s) is I.StringConstantPattern:
            return ("exact", s.value())
        if type(s) is I.PrefixPattern:
            return ("prefix", s._value)
        raise TranslationError(f"string pattern {type(s).__name__}")

    def out_ref(v):
        prod = v.producer()
        if id(prod) not in index:
            raise TranslationError("NodeOutputPattern of a node outside the pattern's node list")
        if prod.outputs[v.output_index] is not v:
            raise TranslationError("NodeOutputPattern is not its producer's output object")
        return (index[id(prod)], v.output_index)

    def vp(v):
        if v is None:
            return None
        t = type(v)
        if t is I.AnyValue:
            return ("any",)
        if t is I.Var:
            if v.name is None or v.check_method is not None:
                raise TranslationError("unnamed Var / Var with check")
            return ("var", v.name, bool(v.can_match_none))
        if t is I.Constant:
            return ("const", key(v), v._value, v._rel_tol, v._abs_tol)
        if t is I.NodeOutputPattern:
            return ("out",) + out_ref(v)
        if t is I.BacktrackingOr:
            return ("or", key(v), v.name, v.tag_var, [(tg, vp(a)) for tg, a in zip(v._tag_values, v._values)])
        if t is I.OpIdDispatchOr:
            alts = []
            for opid, (tg, a) in v._op_to_pattern.items():
                if type(a) is not I.NodeOutputPattern:
                    raise TranslationError("OpIdDispatchOr alternative is not a NodeOutputPattern")
                q, i = out_ref(a)
                if (nodes[q].domain.value(), nodes[q].op.value(), "") != opid:
                    raise TranslationError("OpIdDispatchOr key differs from the alternative's op identifier")
                alts.append((tg, (q, i)))
            return ("disp", key(v), v.name, v.tag_var, alts)
        raise TranslationError(f"value pattern {t.__name__}")

    def ap(a):
        t = type(a)
        if t is I.AttrConstantPattern:
            if a.name is not None or a.can_match_none:
                raise TranslationError("AttrConstantPattern with name")
            return ("c", a._value)
        if t is I.AttrVar:
            return ("v", a.name, bool(a.can_match_none))
        raise TranslationError(f"attribute pattern {t.__name__}")

    out_nodes = []
    for n in nodes:
        if type(n) is not I.NodePattern:
            raise TranslationError(f"node pattern {type(n).__name__}")
        if n.check_method is not None:
            raise TranslationError("node-level check")
        for i, o in enumerate(n.outputs):
            if type(o) is not I.NodeOutputPattern or o.output_index != i or o.producer() is not n:
                raise TranslationError("node outputs")
        out_nodes.append({
            "op": spat(n.op), "dom": spat(n.domain),
            "attrs": [(name, ap(a)) for name, a in n.attributes.items()],
            "other_attrs": bool(n.allow_other_attributes), "other_ins": bool(n.allow_other_inputs),
            "ins": [vp(v) for v in n.inputs], "outs": [o.name for o in n.outputs],
            "opid": n.op_identifier(),
        })
        exp = (out_nodes[-1]["dom"][1], out_nodes[-1]["op"][1], "") if out_nodes[-1]["dom"][0] == "exact" and out_nodes[-1]["op"][0] == "exact" else None
        if n.op_identifier() is not None and n.op_identifier() != exp:
            raise TranslationError("op_identifier")
        out_nodes[-1]["id_known"] = n.op_identifier() is not None
    for v in gp.inputs:
        if type(v) is not I.Var or v.name is None:
            raise TranslationError("pattern input")
    roots = []
    for r in gp.output_nodes:
        if id(r) not in index:
            raise TranslationError("output node outside the node list")
        roots.append(index[id(r)])
    return {"nodes": out_nodes, "inputs": [v.name for v in gp.inputs], "outs": [vp(v) for v in gp.outputs], "roots": roots}


# ----------------------------------------------------------------------------- description -> abstract (for the spec)

def abstract_of_desc(desc):
    """What the description *means* according to the documentation of the pattern API
    (defaults: other attributes allowed, other inputs not allowed, domain "")."""
    keys = {}
    counter = [0]

    def fresh():
        counter[0] += 1
        return ("c", counter[0])

    def vp(d):
        if d is None:
            return None
        k = d[0]
        if k == "any":
            return ("any",)
        if k == "var":
            return ("var", d[1], False)
        if k == "ovar":
            return ("var", d[1], True)
        if k == "const":
            return ("const", fresh(), d[1], 1e-5 if d[2] is None else d[2], 1e-8 if d[3] is None else d[3])
        if k == "out":
            return ("out", d[1], d[2])
        if k == "or":
            o = desc["ors"][d[1]]
            tags = o.get("tags") or list(range(len(o["alts"])))
            return ("or", ("o", d[1]), o.get("name"), o.get("tagv"), [(tg, vp(a)) for tg, a in zip(tags, o["alts"])])
        raise ValueError(d)

    def ap(d):
        k = d[0]
        if k == "c":
            return ("c", d[1])
        if k == "v":
            return ("v", d[1], False)
        if k == "ov":
            return ("v", d[1], True)
        if k == "av":
            return ("v", d[1], bool(d[2]))
        raise ValueError(d)

    nodes = []
    for nd in desc["nodes"]:
        outs = nd.get("outs", 1)
        outs = [None] * outs if isinstance(outs, int) else list(outs)
        nodes.append({
            "op": ("prefix" if nd.get("prefix") else "exact", nd["op"]),
            "dom": ("exact", nd["dom"]) if nd.get("dom") is not None else
                   (("prefix", nd["dom_prefix"]) if nd.get("dom_prefix") is not None else ("exact", "")),
            "attrs": [(name, ap(a)) for name, a in nd.get("attrs", [])],
            "other_attrs": True if nd.get("other_attrs") is None else bool(nd["other_attrs"]),
            "other_ins": False if nd.get("other_ins") is None else bool(nd["other_ins"]),
            "ins": [vp(i) for i in nd["ins"]], "outs": outs,
        })
    return {"nodes": nodes, "inputs": list(desc["params"]), "outs": [vp(o) for o in desc["outs"]]}


# ----------------------------------------------------------------------------- host description -> real model

def all_nodes(h):
    """outer nodes (values of the enclosing graph) first, then the nodes of the graph being matched"""
    return list(h.get("outer_nodes", [])) + list(h["nodes"])


def foreign_values(h):
    out = set(h.get("outer_inputs", []))
    for nd in h.get("outer_nodes", []):
        out.update(nd["outs"])
    for k in h.get("outer_consts", {}):
        out.add(int(k))
    return out


def build_host(h):
    """Returns (model, graph to match in, values: vid -> ir.Value, nodes: [ir.Node] in the order of all_nodes(h)).

    With "outer_nodes"/"outer_inputs"/"outer_consts" the matched graph is the then-branch of an If node of an
    enclosing graph whose values it uses directly (values of another graph for the matcher)."""
    from onnxscript import ir

    vals = {}

    def const(v, c):
        if c == "other":
            arr = np.array([[1.0, 2.0], [3.0, 4.0]], dtype=np.float32)
        elif isinstance(c, dict):
            arr = np.array(c["data"], dtype=np.float32).reshape([int(d) for d in c["shape"]])
        else:
            arr = np.array(c, dtype=np.float32)
        val = ir.Value(name=f"c{v}", const_value=ir.tensor(arr, name=f"c{v}"),
                       type=ir.TensorType(ir.DataType.FLOAT), shape=ir.Shape(list(arr.shape)))
        vals[v] = val
        return val

    def inp(v):
        vals[v] = ir.Value(name=f"v{v}", type=ir.TensorType(ir.DataType.FLOAT), shape=ir.Shape([3]))
        return vals[v]

    def mk_nodes(descs, prefix):
        nodes = []
        for j, nd in enumerate(descs):
            attrs = []
            for name, a in nd.get("attrs", []):
                if isinstance(a, bool):
                    raise ValueError("bool attribute")
                if isinstance(a, int):
                    attrs.append(ir.AttrInt64(name, a))
                elif isinstance(a, str):
                    attrs.append(ir.AttrString(name, a))
                else:
                    attrs.append(ir.AttrInt64s(name, list(a)))
            node = ir.Node(nd.get("dom") or "", nd["op"], [None if i is None else vals[i] for i in nd["ins"]], attrs,
                           num_outputs=len(nd["outs"]), name=f"{prefix}{j}")
            for o, val in zip(nd["outs"], node.outputs):
                val.name = f"v{o}"
                val.type = ir.TensorType(ir.DataType.FLOAT)
                val.shape = ir.Shape([3])
                vals[o] = val
            nodes.append(node)
        return nodes

    nested = bool(h.get("outer_nodes") or h.get("outer_inputs") or h.get("outer_consts"))
    outer_inits = [const(v, c) for v, c in sorted((int(k), c) for k, c in h.get("outer_consts", {}).items())]
    outer_inputs = [inp(v) for v in h.get("outer_inputs", [])]
    outer_nodes = mk_nodes(h.get("outer_nodes", []), "o")
    inits = [const(v, c) for v, c in sorted((int(k), c) for k, c in h.get("consts", {}).items())]
    inputs = [inp(v) for v in h["inputs"]]
    nodes = mk_nodes(h["nodes"], "n")
    g = ir.Graph(inputs, [vals[o] for o in h["outs"]], nodes=nodes, initializers=inits,
                 opset_imports={"": 18, "custom": 1}, name="host")
    if not nested:
        return ir.Model(g, ir_version=9), g, vals, nodes
    cond = ir.Value(name="cond", type=ir.TensorType(ir.DataType.BOOL), shape=ir.Shape([]))
    els_in = ir.Value(name="e_in", type=ir.TensorType(ir.DataType.FLOAT), shape=ir.Shape([3]))
    els_nodes = [ir.Node("", "Identity", [outer_inputs[0] if outer_inputs else cond], num_outputs=1, name=f"e{k}")
                 for k in range(len(h["outs"]))]
    els = ir.Graph([], [n.outputs[0] for n in els_nodes], nodes=els_nodes, opset_imports={"": 18}, name="else")
    del els_in
    if_node = ir.Node("", "If", [cond], [ir.AttrGraph("then_branch", g), ir.AttrGraph("else_branch", els)],
                      num_outputs=len(h["outs"]), name="if")
    top = ir.Graph([cond] + outer_inputs, list(if_node.outputs), nodes=outer_nodes + [if_node], initializers=outer_inits,
                   opset_imports={"": 18, "custom": 1}, name="top")
    return ir.Model(top, ir_version=9), g, vals, outer_nodes + nodes


# ----------------------------------------------------------------------------- Coq literals

def cq(x):
    f = Fraction(x)
    return f"(Qmake {cz(f.numerator)} {f.denominator}%positive)"


def c_attrval(a):
    if isinstance(a, bool):
        raise TranslationError("bool attribute value")
    if isinstance(a, int):
        return f"(AInt {cz(a)})"
    if isinstance(a, str):
        return f"(AStr {cstr(a)})"
    if isinstance(a, (list, tuple)) and all(isinstance(i, int) and not isinstance(i, bool) for i in a):
        return f"(AInts {clist(a, cz)})"
    raise TranslationError(f"attribute value {a!r}")


def c_spat(s):
    return f"({'SExact' if s[0] == 'exact' else 'SPrefix'} {cstr(s[1])})"


def c_cpat(value, rel, abs_):
    if isinstance(value, (list, tuple)):
        return f"(CPVec {clist(value, cq)} {cq(rel)} {cq(abs_)})"
    return f"(CPScalar {cq(value)} {cq(rel)} {cq(abs_)})"


def c_tag(t):
    if isinstance(t, bool) or not isinstance(t, int):
        raise TranslationError(f"tag value {t!r}")
    return cz(t)


def c_vpat(v):
    k = v[0]
    if k == "any":
        return "PAny"
    if k == "var":
        return f"(PVar {cstr(v[1])} {cbool(v[2])})"
    if k == "const":
        return f"(PConst {cnat(v[1])} {c_cpat(v[2], v[3], v[4])})"
    if k == "out":
        return f"(POut {cnat(v[1])} {cnat(v[2])})"
    if k == "or":
        alts = clist(v[4], lambda ta: f"({c_tag(ta[0])}, {c_vpat(ta[1])})")
        return f"(POr {cnat(v[1])} {copt(v[2], cstr)} {copt(v[3], cstr)} {alts})"
    if k == "disp":
        alts = clist(v[4], lambda ta: f"({c_tag(ta[0])}, ({cnat(ta[1][0])}, {cnat(ta[1][1])}))")
        return f"(PDisp {cnat(v[1])} {copt(v[2], cstr)} {copt(v[3], cstr)} {alts})"
    raise TranslationError(str(v))


def c_apat(a):
    if a[0] == "c":
        return f"(APConst {c_attrval(a[1])})"
    return f"(APVar {copt(a[1], cstr)} {cbool(a[2])})"


def c_npat(n):
    attrs = clist(n["attrs"], lambda na: f"({cstr(na[0])}, {c_apat(na[1])})")
    ins = clist(n["ins"], lambda i: copt(i, c_vpat))
    outs = clist(n["outs"], lambda o: copt(o, cstr))
    return (f"(mkNP {c_spat(n['op'])} {c_spat(n['dom'])} {attrs} {cbool(n['other_attrs'])} {ins} "
            f"{cbool(n['other_ins'])} {outs} {cbool(n.get('id_known', True))})")


def c_gpat(a):
    return f"(mkGP {clist(a['nodes'], c_npat)} {clist(a['inputs'], cstr)} {clist(a['outs'], c_vpat)})"


def c_cval(c):
    if c == "other":
        return "COther"
    if isinstance(c, dict):
        n = 1
        for d in c["shape"]:
            n *= int(d)
        if n != len(c["data"]):
            raise TranslationError(f"tensor constant {c!r}: shape and data disagree")
        return f"(CTensor {clist([int(d) for d in c['shape']], cnat)} {clist([float(np.float32(x)) for x in c['data']], cq)})"
    if isinstance(c, (list, tuple)):
        return f"(CVec {clist([float(np.float32(x)) for x in c], cq)})"
    return f"(CScalar {cq(float(np.float32(c)))})"


def c_hgraph(h):
    foreign = foreign_values(h)

    def node(nd):
        attrs = clist(nd.get("attrs", []), lambda na: f"({cstr(na[0])}, {c_attrval(na[1])})")
        ins = clist(nd["ins"], lambda i: copt(i, cnat))
        return f"(mkHN {cstr(nd['op'])} {cstr(nd.get('dom') or '')} {attrs} {ins} {clist(nd['outs'], cnat)})"
    allc = dict(h.get("outer_consts", {}))
    allc.update(h.get("consts", {}))
    consts = clist(sorted((int(k), c) for k, c in allc.items()), lambda kc: f"({cnat(kc[0])}, {c_cval(kc[1])})")
    return f"(mkHG {clist(all_nodes(h), node)} {clist(h['outs'], cnat)} {consts} {clist(sorted(foreign), cnat)})"


def c_bval(b):
    k = b[0]
    if k == "none":
        return "BNone"
    if k == "val":
        return f"(BVal {cnat(b[1])})"
    if k == "attr":
        return f"(BAttr {cstr(b[1])} {c_attrval(b[2])})"
    if k == "tag":
        return f"(BTag {c_tag(b[1])})"
    raise TranslationError(str(b))
