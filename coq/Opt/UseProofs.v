(* Redirecting USES along a name map rho at every depth (node inputs, outputs of nested graphs) preserves evaluation when
   the environments are related by rho and no name bound inside the graph is touched by rho (`stable`), for arbitrary
   kernels.  Used by common-subexpression elimination (uses in nested graphs, graph-output paths) and by the
   de-duplication of initializers. *)
From Coq Require Import List String ZArith Bool Lia.
Require Import OV.Graph.Syntax OV.Graph.Sem OV.Graph.Names OV.Graph.SemProofs OV.Opt.Fold OV.Opt.SemLemmas.
Require Import OV.Opt.Cse OV.Opt.Use.
Import ListNotations.
Local Open Scope list_scope.

Lemma use_node_eq : forall rho d o ins outs a subs,
  use_node rho (Node d o ins outs a subs) = Node d o (map (option_map rho) ins) outs a (use_subs rho subs).
Proof. intros. reflexivity. Qed.
Lemma use_graph_eq : forall rho i ii ns o, use_graph rho (Graph i ii ns o) = Graph i ii (use_nodes rho ns) (map rho o).
Proof. intros. reflexivity. Qed.
Lemma binds_node_eq : forall d o ins outs a subs, binds_node (Node d o ins outs a subs) = outs ++ binds_subs subs.
Proof. intros. reflexivity. Qed.
Lemma binds_graph_eq : forall i ii ns o, binds_graph (Graph i ii ns o) = i ++ binds_nodes ns.
Proof. intros. reflexivity. Qed.

Definition stable (rho : vname -> vname) (B : list vname) : Prop :=
  forall b, In b B -> rho b = b /\ forall x, rho x = b -> x = b.
Lemma stable_incl rho B B' : incl B' B -> stable rho B -> stable rho B'.
Proof. intros I S b Hb. apply S, I, Hb. Qed.

Lemma find_sub_use rho name subs sg : find_sub name subs = Some sg ->
  find_sub name (use_subs rho subs) = Some (use_graph rho sg) /\ incl (binds_graph sg) (binds_subs subs).
Proof.
  induction subs as [|[k h] t IH]; cbn [find_sub use_subs binds_subs]; [discriminate|].
  destruct (String.eqb k name).
  - intro H; inversion H; subst. split; [reflexivity|apply incl_appl, incl_refl].
  - intro H. destruct (IH H) as [F I]. split; [exact F|apply incl_appr; exact I].
Qed.

Section P.
  Variable V : Type.
  Variable sem : string -> string -> list (string * attrv) -> list (option V) -> option (list V).
  Variable truth : V -> option bool.
  Variable trip : V -> option nat.
  Variable of_nat : nat -> V.
  Variable of_bool : bool -> V.
  Variable limit : nat.
  Variable rho : vname -> vname.

  Notation env := (list (vname * V)).
  Notation eval_node := (eval_node V sem truth trip of_nat of_bool limit).
  Notation run := (run V sem truth trip of_nat of_bool limit).
  Notation eval_graph := (eval_graph V sem truth trip of_nat of_bool limit).

  (* what is bound to v at x on the left is bound to v at rho x on the right *)
  Definition rel (e e' : env) : Prop := forall x v, lookup e x = Some v -> lookup e' (rho x) = Some v.

  Lemma bind_combine xs : forall vs (e a : env), bind xs vs e = Some a -> a = combine xs vs ++ e /\ List.length xs = List.length vs.
  Proof.
    induction xs as [|x t IH]; intros [|v vt] e a; cbn; try discriminate.
    - intro H; inversion H. auto.
    - destruct (bind t vt e) as [r|] eqn:B; cbn; [|discriminate]. intro H; inversion H; subst.
      destruct (IH vt e r B) as [-> L]. split; [reflexivity|cbn; lia].
  Qed.

  Lemma rel_app (bl e e' : env) : stable rho (map fst bl) -> rel e e' -> rel (bl ++ e) (bl ++ e').
  Proof.
    induction bl as [|[y w] t IH]; intros S R; [exact R|].
    assert (St : stable rho (map fst t)) by (eapply stable_incl; [|exact S]; intros z Hz; right; exact Hz).
    destruct (S y (or_introl eq_refl)) as [Sy Sy'].
    intros x v. cbn. destruct (String.eqb x y) eqn:E.
    - apply String.eqb_eq in E. subst x. rewrite Sy, String.eqb_refl. auto.
    - intro H. pose proof (IH St R x v H) as H'.
      destruct (String.eqb (rho x) y) eqn:E'; [|exact H'].
      apply String.eqb_eq in E'. apply Sy' in E'. subst. rewrite String.eqb_refl in E. discriminate.
  Qed.

  Definition graph_ok (F : nat) : Prop := forall e e' g args r, rel e e' -> stable rho (binds_graph g) ->
    eval_graph F e g args = Some r -> eval_graph F e' (use_graph rho g) args = Some r.

  Lemma node_use F e e' n a : graph_ok F -> rel e e' -> stable rho (binds_node n) ->
    eval_node (eval_graph F) e n = Some a ->
    exists bl, a = bl ++ e /\ map fst bl = n_outs n /\ eval_node (eval_graph F) e' (use_node rho n) = Some (bl ++ e').
  Proof.
    intros G R S H. destruct n as [dom op ins outs attrs subs]. rewrite use_node_eq. rewrite binds_node_eq in S. cbn [n_outs].
    destruct (eval_node_refines V sem truth trip of_nat of_bool limit (eval_graph F) (eval_graph F) e e' rho
                dom op ins outs attrs subs (use_subs rho subs) a R) as [vals [B [a' [E' B']]]].
    - intros name sg Fs. destruct (find_sub_use rho name subs sg Fs) as [F' I]. exists (use_graph rho sg). split; [exact F'|].
      intros args r Hr. apply (G e e' sg args r R); [|exact Hr].
      eapply stable_incl; [|exact S]. intros z Hz. apply in_or_app. right. apply I. exact Hz.
    - exact H.
    - destruct (bind_combine outs vals e a B) as [-> L]. destruct (bind_combine outs vals e' a' B') as [-> _].
      exists (combine outs vals). split; [reflexivity|]. split; [|exact E'].
      clear - L. revert vals L. induction outs as [|o t IH]; intros [|v vt] L; cbn in *; try lia; [reflexivity|].
      f_equal. apply IH. lia.
  Qed.

  Lemma run_use F ns : graph_ok F -> forall e e' a, rel e e' -> stable rho (binds_nodes ns) ->
    run (eval_graph F) e ns = Some a ->
    exists bl, a = bl ++ e /\ run (eval_graph F) e' (use_nodes rho ns) = Some (bl ++ e') /\ rel (bl ++ e) (bl ++ e') /\
               incl (map fst bl) (binds_nodes ns).
  Proof.
    intros G. induction ns as [|n t IH]; intros e e' a R S; cbn [Sem.run use_nodes map binds_nodes].
    - intro H; inversion H; subst. exists []. cbn. repeat split; auto. intros z [].
    - cbn [binds_nodes] in S.
      assert (Sn : stable rho (binds_node n)) by (eapply stable_incl; [|exact S]; apply incl_appl, incl_refl).
      assert (St : stable rho (binds_nodes t)) by (eapply stable_incl; [|exact S]; apply incl_appr, incl_refl).
      destruct (eval_node (eval_graph F) e n) as [a1|] eqn:E; [|discriminate]. intro H.
      destruct (node_use F e e' n a1 G R Sn E) as [bl1 [-> [Hb E']]]. rewrite E'.
      assert (R1 : rel (bl1 ++ e) (bl1 ++ e')).
      { apply rel_app; [|exact R]. rewrite Hb. eapply stable_incl; [|exact Sn].
        destruct n as [d o i u at_ s]. rewrite binds_node_eq. cbn. apply incl_appl, incl_refl. }
      destruct (IH (bl1 ++ e) (bl1 ++ e') a R1 St H) as [bl2 [-> [Rn [R2 I2]]]].
      exists (bl2 ++ bl1). rewrite <- !app_assoc. repeat split; auto.
      rewrite map_app. apply incl_app; [apply incl_appr; exact I2|].
      rewrite Hb. apply incl_appl. destruct n as [d o i u at_ s]. rewrite binds_node_eq. cbn. apply incl_appl, incl_refl.
  Qed.

  Theorem use_graph_sound : forall F, graph_ok F.
  Proof.
    induction F as [|f IH]; [intros e e' g args r _ _ H; discriminate|].
    intros e e' g args r R S. destruct g as [gi gn ns go]. rewrite use_graph_eq. rewrite binds_graph_eq in S.
    cbn [Sem.eval_graph]. unfold Sem.eval_body. cbn [g_ins g_nodes g_outs].
    destruct (bind gi args e) as [e0|] eqn:B; [|discriminate].
    destruct (bind_combine gi args e e0 B) as [-> L].
    destruct (bind_both V gi args e e' _ B) as [e0' B']. rewrite B'. destruct (bind_combine gi args e' e0' B') as [-> _].
    assert (R0 : rel (combine gi args ++ e) (combine gi args ++ e')).
    { apply rel_app; [|exact R]. eapply stable_incl; [|exact S].
      intros z Hz. apply in_or_app. left. clear - Hz L. revert args L Hz. induction gi as [|x t IHg]; intros [|v vt] L Hz; cbn in *; try tauto; try lia.
      destruct Hz as [Hz|Hz]; [left; exact Hz|right; apply (IHg vt); [lia|exact Hz]]. }
    destruct (run (eval_graph f) (combine gi args ++ e) ns) as [a|] eqn:Rn; [|discriminate].
    destruct (run_use f ns IH _ _ a R0 (stable_incl rho _ _ (incl_appr _ (incl_refl _)) S) Rn) as [bl [-> [Rn' [R1 _]]]].
    intro Ho.
    match goal with |- match ?X with _ => _ end = _ => replace X with (Some (bl ++ combine gi args ++ e')) end.
    apply (lookups_map V _ _ rho R1 go r Ho).
  Qed.
End P.
