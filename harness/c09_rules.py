"""C09, third group of families: the units that used to be differential-only.  ReshapeReshape (annotated output, 0 / -1 /
allowzero), SlicesSplit.check, Flatten2Reshape targets (class + the iff against the binding sweep), SplitToSequence with a
vector split (keepdims), broadcast_to_matmul whole check, ranks of shape-value expressions.  Decisions compared in Coq
(coq/Shape/Extra2.v); oracle = onnxruntime (optimisations off) + onnx.reference at every binding to {0,1,2,3,7}."""
from __future__ import annotations

import types

import numpy as np

from harness import common
from harness import c09_util as U
from harness.c09_more import _c, _eval_bad, _model, _oshape, _vi
from harness.common import cbool, clist, cnat, copt, cz

REQ = ["OV.Shape.SymDim", "OV.Shape.PartialEval", "OV.Shape.Extra", "OV.Shape.Extra2"]


def _oracle(ctx, key, what, host, new, shapes, cap, replay, feeds_extra=None):
    """Original vs rewritten at every binding; returns (n_executed, first failing binding or None)."""
    fr = U.Free()
    inst = {k: fr.inst_shape(k, s) for k, s in shapes.items()}
    r_old, r_new = U.Runner(host), U.Runner(new)
    n = 0
    for b in U.bindings(ctx.rng, fr.vars, cap):
        feeds = {k: U.int_data(U.concretise(s, b), 2) for k, s in inst.items()}
        feeds.update(feeds_extra or {})
        a, a2 = r_old.run_ort(feeds), r_old.run_ref(feeds)
        if a[0] != "ok":
            continue
        n += 1
        bb, b2 = r_new.run_ort(feeds), r_new.run_ref(feeds)
        good = bb[0] == "ok" and U.same_outputs(a[1], bb[1])
        if good and a2[0] == "ok":        # the reference evaluator rejects some empty tensors the runtime accepts (Flatten)
            good = b2[0] == "ok" and U.same_outputs(a2[1], b2[1])
        if not good:
            if key is not None:
                ctx.violation(key, f"{what}: differs from / is rejected unlike the original at {b}: {U.describe(a[1])[0]['shape']} vs "
                              f"{U.describe(bb[1])[0]['shape'] if bb[0] == 'ok' else bb[1][:120]}", dict(replay, binding=b))
            return n, b
    return n, None


# ============================================================================= ReshapeReshape
def fam_reshape_reshape(ctx):
    from onnx import TensorProto, helper, numpy_helper

    from onnxscript import rewriter
    from onnxscript.rewriter.rules.common import _basic_rules as basic
    rng = ctx.rng
    T = TensorProto.INT64
    n = 70 if ctx.tier == "quick" else 500
    bases = [(["N", 4], [[-1, 2], [0, 2, 2], [-1]], [[-1, 2, 2], [0, 2], [0, -1], [-1, 4], [0, 0], [2, -1], [-1], [0, 2, -1], [0, 0, 2]]),
             (["N", 2, 3], [[-1, 6], [0, 6], [0, 3, 2], [-1, 3]], [[-1, 2, 3], [0, 2, 3], [0, -1], [0, 0], [-1, 6], [0, 3, -1], [0, 0, 3]]),
             ([2, "N"], [[-1, 2], [0, -1]], [[2, -1], [0, -1], [-1, 2], [0, 0]])]
    insts = [(["N", 6], [-1, 3], [0, 2, -1], 0, ["N", 2, 3]), (["N", 4], [-1, 2], [0, -1], 0, None), (["N", 4], [-1, 2], [0, 0], 0, None),
             (["N", 4], [-1, 2], [0, 2], 1, None), (["N", 4], [0, 2, 2], [0, -1], 0, ["N", 4])]
    for _ in range(n):
        x, s1s, s2s = rng.choice(bases)
        s1, s2 = rng.choice(s1s), rng.choice(s2s)
        az2 = int(rng.random() < 0.3)
        o = "honest" if rng.random() < 0.5 else None
        insts.append((x, s1, s2, az2, o))
    lits, meta = [], []
    stats = {"fired": 0, "executed": 0, "annotation_untruthful": 0}
    for x, s1, s2, az2, o in insts:
        kw = {"allowzero": 1} if az2 else {}
        if o == "honest":
            # an annotation that is truthful at every binding: dims that are the same at N = 2 and N = 3 may be static
            plain = _model([helper.make_node("Reshape", ["x", "r1"], ["a"]), helper.make_node("Reshape", ["a", "r2"], ["out"], **kw)],
                           [_vi("x", T, x)], [_vi("out", T, [None] * len(s2))], [_c("r1", s1), _c("r2", s2)])
            rp = U.Runner(plain)
            outs = [rp.run_ort({"x": U.int_data(tuple(nn if d == "N" else d for d in x), 1)}) for nn in (2, 3, 5)]
            if any(r[0] != "ok" for r in outs):
                o = None
            else:
                shs = [np.asarray(r[1][0]).shape for r in outs]
                o = [int(shs[0][i]) if (shs[0][i] == shs[1][i] == shs[2][i] and rng.random() < 0.7) else rng.choice(["K", None]) for i in range(len(s2))]
        vinfo = [_vi("r", T, o)] if o is not None else []
        host = _model([helper.make_node("Reshape", ["x", "r1"], ["a"]), helper.make_node("Reshape", ["a", "r2"], ["r"], **kw), helper.make_node("Identity", ["r"], ["out"])],
                      [_vi("x", T, x)], [_vi("out", T, [None] * len(s2))], [_c("r1", s1), _c("r2", s2)], vinfo)
        new = rewriter.rewrite(host, pattern_rewrite_rules=[basic.reshape_reshape_rule])
        resh = [nd for nd in new.graph.node if nd.op_type == "Reshape"]
        obs = None
        if len(resh) == 1:
            consts = {i.name: numpy_helper.to_array(i) for i in new.graph.initializer}
            az = [a.i for a in resh[0].attribute if a.name == "allowzero"]
            obs = ([int(v) for v in consts[resh[0].input[1]].tolist()], bool(az[0]) if az else False)
        stats["fired"] += obs is not None
        # the annotation must be truthful for the theorem to apply: checked on the original at N = 3
        truthful = True
        if o is not None:
            r = U.Runner(host).run_ort({"x": U.int_data(U.concretise([3 if d == "N" else d for d in x], {}), 1)})
            if r[0] == "ok":
                truthful = U.truthful([d if isinstance(d, int) else None for d in o], np.asarray(r[1][0]).shape, {})
        if not truthful:
            stats["annotation_untruthful"] += 1
            continue
        c_obs = "None" if obs is None else f"(Some ({U.czs(obs[0])}, {cbool(obs[1])}))"
        lits.append(f"({_oshape(o)}, {U.czs(s2)}, {cbool(bool(az2))}, {c_obs})")
        meta.append((x, s1, s2, az2, o, obs))
        ctx.case(("reshape-reshape", len(s2), 0 in s2, -1 in s2, az2, o is not None, obs is not None))
        if obs is not None:
            k, _ = _oracle(ctx, "C09:reshape-reshape:result-differs", f"Reshape(Reshape(x:{x}, {s1}), {s2}, allowzero={az2}) annotated {o} -> Reshape(x, {obs})",
                           host, new, {"x": x}, 10, {"family": "reshape-reshape", "x": x, "s1": s1, "s2": s2, "az2": az2, "o": o})
            stats["executed"] += k
    val = _eval_bad(ctx, REQ, f"Definition cases : list rr_case := {clist(lits)}.\nEval vm_compute in (disagreeing rr_agrees 0 cases).", "reshape-reshape")
    bad = common.parse_nat_list(val) if val is not None else None
    for k in bad or []:
        ctx.tie_broken("correspondence", "reshape-reshape", f"(x, s1, s2, allowzero, output annotation, observed target) = {meta[k]}: Coq rr_rule differs")
    ctx.obligation("correspondence reshape-reshape: target / allowzero emitted (or refusal) by the real ReshapeReshape = Coq rr_rule "
                   "(annotated positive output dims written in, 0 / -1 / allowzero handling)", bad == [])
    ctx.cover(reshape_reshape_instances=len(lits), reshape_reshape=stats)


# ============================================================================= SlicesSplit.check (called directly: the two-output pattern does not match in hosts)
def fam_slices_split(ctx):
    import onnx_ir as ir

    from onnxscript.rewriter.rules.common import _basic_rules as basic
    rng = ctx.rng
    rule = basic.SlicesSplit()
    context = types.SimpleNamespace(graph_or_function=types.SimpleNamespace(opset_imports={"": 18}))

    def val(name, shape=None, const=None):
        v = ir.Value(name=name, shape=None if shape is None else ir.Shape([d if isinstance(d, int) else ir.SymbolicDim(d) for d in shape]))
        if const is not None:
            v.const_value = ir.tensor(np.array(const, dtype=np.int64))
        return v

    insts = [(["N", 4], -1, 0, 2, 2, 4), (["N", 4], 1, 0, 2, 2, 4), (["N", "M"], -1, 0, 2, 2, 4), (["N", 5], -1, 0, 2, 2, 5), ([None, 6], -1, 0, 3, 3, 6),
             (["N", 4], 0, 0, 2, 2, 4), ([0, 4], -1, 0, 2, 2, 4), (["N", 0], -1, 0, 0, 0, 0), (["N", 4], -1, 1, 2, 2, 4), (["N", 4], -1, 0, 2, 3, 4)]
    for _ in range(60 if ctx.tier == "quick" else 400):
        rank = rng.randint(1, 3)
        d = rng.choice([2, 4, 6, 3, "N", None, 0])
        x = [rng.choice(["N", "M", None, 0, 2]) for _ in range(rank - 1)] + [d]
        dd = d if isinstance(d, int) else 4
        axis = rng.choice([-1, rank - 1, rank - 1, 0, -2])
        b0 = rng.choice([0, 0, 0, 1])
        b1 = rng.choice([dd // 2, dd // 2, dd // 2 + 1])
        e0 = rng.choice([b1, b1, b1 - 1])
        e1 = rng.choice([dd, dd, dd + 1])
        insts.append((x, axis, b0, e0, b1, e1))
    lits, meta = [], []
    for x, axis, b0, e0, b1, e1 in insts:
        try:
            res = rule.check(context, val("x", x), val("b0", const=[b0]), val("e0", const=[e0]), val("ax0", const=[axis]),
                             val("b1", const=[b1]), val("e1", const=[e1]), val("ax1", const=[axis]))
            obs = bool(res)
        except Exception as e:  # noqa: BLE001
            ctx.tie_broken("correspondence", "slices-split", f"SlicesSplit.check raised {e!r} on {(x, axis, b0, e0, b1, e1)}")
            continue
        lits.append(f"(Some {U.cshape(x)}, ({cz(axis)}, {cz(b0)}, {cz(e0)}, {cz(b1)}, {cz(e1)}), {cbool(obs)})")
        meta.append((x, axis, b0, e0, b1, e1, obs))
        ctx.case(("slices-split", len(x), type(x[-1]).__name__, axis, obs))
    val_ = _eval_bad(ctx, REQ, f"Definition cases : list ss_case := {clist(lits)}.\nEval vm_compute in (disagreeing ss_agrees 0 cases).", "slices-split")
    bad = common.parse_nat_list(val_) if val_ is not None else None
    for k in bad or []:
        ctx.tie_broken("correspondence", "slices-split", f"(x, axis, b0, e0, b1, e1, accepted) = {meta[k]}: Coq ss_check differs")
    ctx.obligation("correspondence slices-split: real SlicesSplit.check (called on IR values; symbolic / unknown / zero leading dims, static or symbolic last dim) = Coq ss_check",
                   bad == [] and sum(1 for m in meta if m[-1]) >= 3)
    ctx.cover(slices_split_instances=len(lits), slices_split_accepted=sum(1 for m in meta if m[-1]))


# ============================================================================= Flatten2Reshape: class of the target + the iff
def fam_flatten(ctx):
    from onnx import TensorProto, helper, numpy_helper

    from onnxscript import rewriter
    from onnxscript.rewriter.rules.common import _basic_rules as basic
    rng = ctx.rng
    T = TensorProto.INT64
    insts = [(["N", "C1", "C2", "C3"], 1), (["N", "M"], 1), (["N", 3, 4], 1), ([2, "N"], 1), (["N", 2], 0), (["N", 2], 2), (["N", "M", 3], 2), ([2, 3, "N"], 1), ([2, 3, "N"], 2)]
    for _ in range(50 if ctx.tier == "quick" else 300):
        rank = rng.randint(1, 4)
        x = [rng.choice(["N", "N", "M", None, 2, 3]) for _ in range(rank)]
        insts.append((x, rng.randint(0, rank)))
    lits, meta = [], []
    stats = {"fired": 0, "targets_right_for_every_binding": 0, "targets_0_m1": 0}
    iff_ok = True
    for x, axis in insts:
        host = _model([helper.make_node("Flatten", ["x"], ["y"], axis=axis), helper.make_node("Identity", ["y"], ["out"])], [_vi("x", T, x)], [_vi("out", T, [None, None])])
        new = rewriter.rewrite(host, pattern_rewrite_rules=[basic.flatten_to_reshape_rule])
        resh = [nd for nd in new.graph.node if nd.op_type == "Reshape"]
        if not resh:
            ctx.case(("flatten", len(x), axis, "declined"))
            continue
        consts = {i.name: numpy_helper.to_array(i) for i in new.graph.initializer}
        ns = [int(v) for v in consts[resh[0].input[1]].tolist()]
        stats["fired"] += 1
        lits.append(f"({U.cshape(x)}, {cnat(axis)}, {U.czs(ns)})")
        meta.append((x, axis, ns))
        ok_all = ns != [0, -1]
        ctx.case(("flatten", len(x), axis, tuple(ns), ok_all))
        k, fail = _oracle(ctx, None, "", host, new, {"x": x}, 30 if ctx.tier == "quick" else 125, {})
        if ok_all:
            stats["targets_right_for_every_binding"] += 1
            if fail is not None:
                iff_ok = False
                ctx.violation("C09:flatten-to-reshape:target-wrong-although-in-a-sound-class", f"Flatten(x:{x}, axis={axis}) -> Reshape(x, {ns}) differs at {fail}",
                              {"family": "flatten", "x": x, "axis": axis, "target": ns, "binding": fail})
        else:
            stats["targets_0_m1"] += 1
            if fail is None:
                iff_ok = False
                ctx.tie_broken("correspondence", "flatten", f"Flatten(x:{x}, axis={axis}) -> Reshape(x, [0,-1]): C09_flatten_target_correct_iff predicts a failing binding (dim 0 = 0), none found")
            else:
                ctx.violation("C09:flatten-to-reshape:zero-dim-with-inferred-dim", f"Flatten(x:{x}, axis={axis}) -> Reshape(x, [0,-1]) is rejected / differs at {fail}",
                              {"family": "flatten", "x": x, "axis": axis, "target": ns, "binding": fail})
    val = _eval_bad(ctx, REQ, f"Definition cases : list fl_case := {clist(lits)}.\nEval vm_compute in (disagreeing fl_agrees 0 cases).", "flatten")
    bad = common.parse_nat_list(val) if val is not None else None
    for k in bad or []:
        ctx.tie_broken("correspondence", "flatten", f"(x, axis, emitted target) = {meta[k]}: not in the classes of C09_flatten_target_correct_iff (entry -1, copy 0 at axis 1, or the static product)")
    ctx.obligation("correspondence flatten: every target emitted by the real Flatten2Reshape lies in the classes of C09_flatten_target_correct_iff, and the "
                   "binding sweep fails exactly for the targets the theorem excludes ([0,-1])", bad == [] and iff_ok)
    ctx.cover(flatten_instances=len(insts), flatten=stats)


# ============================================================================= SplitToSequence with a vector split
def fam_split_vector(ctx):
    from onnx import TensorProto, helper

    from onnxscript import optimizer
    T = TensorProto.INT64
    lits, meta = [], []
    kd0_seen = False
    for sh, sizes in [([4, 2], [1, 1, 2]), ([4, "M"], [2, 2]), ([4, 2], [1, 1, 1, 1]), ([3, "M"], [1, 2])]:
        for kd in (1, 0):
            obs_all, differs = [], None
            for i in range(len(sizes)):
                host = _model([helper.make_node("SplitToSequence", ["x", "sp"], ["seq"], axis=0, keepdims=kd), helper.make_node("SequenceAt", ["seq", "pos"], ["y"]),
                               helper.make_node("Shape", ["y"], ["out"])], [_vi("x", T, sh)], [_vi("out", T, [None])], [_c("sp", sizes), _c("pos", i, ())])
                new = optimizer.optimize(host)
                cx = [2 if not isinstance(d, int) else d for d in sh]
                feeds = {"x": U.int_data(tuple(cx), 1)}
                a, b = U.Runner(host).run_ort(feeds), U.Runner(new).run_ort(feeds)
                a2 = U.Runner(host).run_ref(feeds)
                obs_all.append([int(v) for v in np.asarray(b[1][0]).tolist()] if b[0] == "ok" else None)
                if a[0] == "ok" and a2[0] == "ok" and not (b[0] == "ok" and U.same_outputs(a[1], b[1])) and differs is None:
                    differs = (i, [int(v) for v in np.asarray(a[1][0]).tolist()], obs_all[-1])
            cx = [2 if not isinstance(d, int) else d for d in sh]
            lits.append(f"({cbool(bool(kd))}, {U.czs(cx)}, 0%nat, {U.czs(sizes)}, {clist([copt(o, U.czs) for o in obs_all])})")
            meta.append((sh, sizes, kd, obs_all))
            ctx.case(("split-vector", tuple(sizes), kd, differs is not None))
            if differs is not None:
                kd0_seen = kd0_seen or kd == 0
                ctx.violation("C09:split-to-sequence:vector-split-keepdims-0-squeezed" if kd == 0 else "C09:split-to-sequence:vector-split:differs",
                              f"SplitToSequence(x:{sh}, split={sizes}, axis=0, keepdims={kd}): chunk {differs[0]} has shape {differs[1]} in the original "
                              f"(keepdims is ignored when split is given) and {differs[2]} after optimize()", {"family": "split-vector", "shape": sh, "sizes": sizes, "keepdims": kd})
    val = _eval_bad(ctx, REQ, f"Definition cases : list stsq_case := {clist(lits)}.\nEval vm_compute in (disagreeing stsq_agrees 0 cases).", "split-vector")
    bad = common.parse_nat_list(val) if val is not None else None
    for k in bad or []:
        ctx.tie_broken("correspondence", "split-vector", f"(shape, sizes, keepdims, chunk shapes after optimize()) = {meta[k]}: Coq stsq_emitted differs")
    ctx.obligation("correspondence split-vector: chunk shapes produced by the optimized model = Coq stsq_emitted (Split, plus Squeeze of every chunk when keepdims=0: "
                   "refuted by C09_split_vector_keepdims0_refuted, replayed on the real code)", bad == [] and kd0_seen)


# ============================================================================= broadcast_to_matmul: the whole check
def fam_b2m(ctx):
    from onnx import TensorProto, helper

    from onnxscript import rewriter
    from onnxscript.rewriter.rules.common import _broadcast_to_matmul as b2m
    F = TensorProto.FLOAT
    lits, meta = [], []
    for a_sh, b_sh, sa, sc in [([2, 3, 4], [4, 5], [6, 4], [2, 3, 5]), (["N", 3, 4], [4, 5], [-1, 4], [-1, 3, 5]), ([2, 3, 4], [4, "M"], [6, 4], [2, 3, -1]),
                               ([None, 3, 4], [4, 5], [-1, 4], [-1, 3, 5]), ([1, 3, 4], [4, 5], [3, 4], [1, 3, 5]), ([3, 4], [4, 5], [3, 4], [3, 5]),
                               ([2, 3, 4], [None, 5], [6, 4], [2, 3, 5]), ([5, 2, 3, 4], [4, 5], [30, 4], [5, 2, 3, 5]), ([2, 3, 4], [4, 5], [6, 4], [6, 5]),
                               ([2, 3, 4], [4, 5], [6, 4], [3, 2, 5]), ([2, 3, 4], [2, 4, 5], [2, 3, 4], [2, 3, 5]), ([2, 3, 4], [3, 4, 5], [2, 3, 4], [2, 3, 5]),
                               ([4], [4, 5], [1, 4], [5]), ([2, 3, 4], [4], [6, 4], [2, 3])]:
        try:
            host = _model([helper.make_node("Reshape", ["a", "sa"], ["ra"]), helper.make_node("MatMul", ["ra", "b"], ["m"]), helper.make_node("Reshape", ["m", "sc"], ["y"]),
                           helper.make_node("Identity", ["y"], ["out"])], [_vi("a", F, a_sh), _vi("b", F, b_sh)], [_vi("out", F, [None] * len(sc))], [_c("sa", sa), _c("sc", sc)])
        except Exception:  # noqa: BLE001
            continue
        new = rewriter.rewrite(host, pattern_rewrite_rules=b2m.rules)
        fired = "Reshape" not in [nd.op_type for nd in new.graph.node]
        lits.append(f"(Some {U.cshape(a_sh)}, Some {U.cshape(b_sh)}, {U.czs(sc)}, {cbool(fired)})")
        meta.append((a_sh, b_sh, sc, fired))
        ctx.case(("b2m-check", fired, len(a_sh), len(b_sh), any(not isinstance(d, int) for d in a_sh + b_sh)))
    val = _eval_bad(ctx, REQ, f"Definition cases : list b2m2_case := {clist(lits)}.\nEval vm_compute in (disagreeing b2m2_agrees 0 cases).", "b2m-check")
    bad = common.parse_nat_list(val) if val is not None else None
    for k in bad or []:
        ctx.tie_broken("correspondence", "b2m-check", f"(a, b, shape_c, fired) = {meta[k]}: Coq b2m_check (guard + MatmulGemm.check_bcast on the annotations) differs")
    ctx.obligation("correspondence b2m-check: broadcast_to_matmul fires iff Coq b2m_check (all-int guard and the numeric check of OV.Rules.MatmulGemm)",
                   bad == [] and sum(1 for m in meta if m[3]) >= 3)


# ============================================================================= ranks of shape-value expressions
_KEEP = ["KIdentity", "KCastSame", "KSqueeze", "KSqueezeNoAxes0", "KReshapeFlat", "KReshape0", "KReshapeScalar"]
_OPAQ = ["ONegNeg", "OUnsqueeze0", "OCastRound", "OReshape1N"]


def _rk_tree(rng, depth):
    u = rng.random()
    if depth <= 0 or u < 0.25:
        if rng.random() < 0.3:
            return ("const", [rng.choice([1, 2, 3]) for _ in range(rng.randint(1, 2))])
        a = rng.choice([0, 1, 0])
        return ("shape", a, rng.choice([None, a + 1]))
    if u < 0.5:
        return ("keep", rng.choice(_KEEP), _rk_tree(rng, depth - 1))
    if u < 0.65:
        return ("opaque", rng.choice(_OPAQ), _rk_tree(rng, depth - 1))
    if u < 0.78:
        return ("concat", _rk_tree(rng, depth - 1), _rk_tree(rng, depth - 1))
    if u < 0.9:
        return ("add", _rk_tree(rng, depth - 1), _rk_tree(rng, 0))
    return ("gather", _rk_tree(rng, depth - 1), [0])


def _rk_coq(t, zshape):
    k = t[0]
    if k == "const":
        return f"(RConstE {U.czs(t[1])})"
    if k == "shape":
        return f"(RShapeE {U.cshape(zshape)} {cz(t[1])} {copt(t[2], cz)})"
    if k == "keep":
        return f"(RKeepE {t[1]} {_rk_coq(t[2], zshape)})"
    if k == "opaque":
        return f"(ROpaqueE {t[1]} {_rk_coq(t[2], zshape)})"
    if k == "concat":
        return f"(RConcatE {_rk_coq(t[1], zshape)} {_rk_coq(t[2], zshape)})"
    if k == "add":
        return f"(RAddE {_rk_coq(t[1], zshape)} {_rk_coq(t[2], zshape)})"
    return f"(RGatherE {_rk_coq(t[1], zshape)} {U.czs(t[2])})"


class _RkEmit:
    def __init__(self):
        self.nodes, self.inits, self.n = [], [], 0

    def fresh(self, p):
        self.n += 1
        return f"{p}{self.n}"

    def const(self, arr):
        from onnx import numpy_helper
        name = self.fresh("c")
        self.inits.append(numpy_helper.from_array(np.array(arr, dtype=np.int64).reshape(len(arr)), name))
        return name

    def emit(self, t):
        from onnx import TensorProto, helper
        N = helper.make_node
        k = t[0]
        if k == "const":
            return self.const(t[1])
        out = self.fresh("v")
        if k == "shape":
            kw = {"start": t[1]}
            if t[2] is not None:
                kw["end"] = t[2]
            self.nodes.append(N("Shape", ["z"], [out], **kw))
        elif k == "concat":
            self.nodes.append(N("Concat", [self.emit(t[1]), self.emit(t[2])], [out], axis=0))
        elif k == "add":
            self.nodes.append(N("Add", [self.emit(t[1]), self.emit(t[2])], [out]))
        elif k == "gather":
            self.nodes.append(N("Gather", [self.emit(t[1]), self.const(t[2])], [out], axis=0))
        elif k == "keep":
            v = self.emit(t[2])
            kind = t[1]
            if kind == "KIdentity":
                self.nodes.append(N("Identity", [v], [out]))
            elif kind == "KCastSame":
                self.nodes.append(N("Cast", [v], [out], to=TensorProto.INT64))
            elif kind == "KSqueeze":
                self.nodes.append(N("Squeeze", [v], [out]))
            elif kind == "KSqueezeNoAxes0":
                self.nodes.append(N("Identity", [v], [out]))      # placeholder kind: rank unchanged
            elif kind == "KReshapeFlat":
                self.nodes.append(N("Reshape", [v, self.const([-1])], [out]))
            elif kind == "KReshape0":
                self.nodes.append(N("Reshape", [v, self.const([0])], [out]))
            else:
                self.nodes.append(N("Reshape", [v, self.const([])], [out]))
        else:
            v = self.emit(t[2])
            kind = t[1]
            mid = self.fresh("v")
            if kind == "ONegNeg":
                self.nodes += [N("Neg", [v], [mid]), N("Neg", [mid], [out])]
            elif kind == "OUnsqueeze0":
                self.nodes.append(N("Unsqueeze", [v, self.const([0])], [out]))
            elif kind == "OCastRound":
                self.nodes += [N("Cast", [v], [mid], to=TensorProto.INT32), N("Cast", [mid], [out], to=TensorProto.INT64)]
            else:
                self.nodes.append(N("Reshape", [v, self.const([1, -1])], [out]))
        return out


def fam_ranks(ctx):
    import onnx
    from onnx import TensorProto, helper

    from onnxscript import optimizer
    rng = ctx.rng
    T = TensorProto.INT64
    n = 70 if ctx.tier == "quick" else 500
    lits, meta = [], []
    stats = {"accepted": 0, "rejected": 0, "optimized_compared": 0}
    one = ("shape", 0, 1)
    corpus = [(["N", 3], ("gather", ("keep", "KSqueeze", one), [0])),                       # Gather on a scalar: rejected
              (["N", 3], ("concat", ("keep", "KSqueeze", one), one)),                       # Concat of a scalar: rejected
              (["N", 3], ("keep", "KReshape0", ("keep", "KSqueeze", one))),                 # 0 copies a dim a scalar does not have
              (["N", 3], ("add", ("shape", 0, None), ("const", [1, 2, 3]))),                # [2] + [3]: not broadcastable
              (["N", 3], ("keep", "KReshapeScalar", ("shape", 0, None))),                   # two elements into a scalar
              (["N", 3], ("keep", "KReshapeFlat", ("keep", "KSqueeze", one))),              # the symint pattern: rank 1
              (["N", 3], ("add", ("keep", "KSqueeze", one), ("keep", "KSqueeze", ("shape", 1, 2)))),
              (["N", 3], ("gather", ("opaque", "OUnsqueeze0", ("shape", 0, None)), [0])),
              (["N", 3], ("gather", ("opaque", "OReshape1N", ("shape", 0, None)), [1]))]    # [1,2] has one row: index 1 rejected
    pool = corpus + [(rng.choice([["N", 3], ["N"], [2, "M"], ["N", "N"]]), _rk_tree(rng, rng.choice([1, 2, 3]))) for _ in range(n)]
    for zshape, tree in pool:
        em = _RkEmit()
        v = em.emit(tree)
        em.nodes.append(helper.make_node("Identity", [v], ["out"]))
        g = helper.make_graph(em.nodes, "g", [_vi("z", T, zshape)], [helper.make_tensor_value_info("out", T, None)], initializer=em.inits)
        host = helper.make_model(g, opset_imports=[helper.make_opsetid("", 18)], ir_version=9)
        cz_ = tuple(2 if not isinstance(d, int) else d for d in zshape)
        feeds = {"z": np.zeros(cz_, dtype=np.int64)}
        r_old = U.Runner(host)
        a, a2 = r_old.run_ort(feeds), r_old.run_ref(feeds)
        if (a[0] == "ok") != (a2[0] == "ok"):
            continue                                 # the runtimes disagree about accepting the original: not modelled
        obs = np.asarray(a[1][0]).ndim if a[0] == "ok" else None
        stats["accepted" if obs is not None else "rejected"] += 1
        lits.append(f"({_rk_coq(tree, zshape)}, {copt(obs, cnat)})")
        meta.append((zshape, tree, obs))
        ctx.case(("rank", obs, tree[0], tree[1] if tree[0] in ("keep", "opaque") else None))
        if obs is not None:
            try:
                new = optimizer.optimize(host)
            except Exception as e:  # noqa: BLE001
                ctx.violation(f"C09:rank:optimize-raises:{type(e).__name__}", f"optimize() raised {e!r} on {tree} over z:{zshape}", {"family": "ranks", "tree": tree, "z": zshape})
                continue
            r_new = U.Runner(new)
            for nb in (0, 1, 2, 3, 7):
                f2 = {"z": np.zeros(tuple(nb if not isinstance(d, int) else d for d in zshape), dtype=np.int64)}
                x, y = r_old.run_ort(f2), r_new.run_ort(f2)
                if x[0] != "ok":
                    continue
                stats["optimized_compared"] += 1
                if not (y[0] == "ok" and U.same_outputs(x[1], y[1])):
                    ctx.violation("C09:rank:optimize-changes-result", f"{tree} over z:{zshape} at size {nb}: {U.describe(x[1])} vs {U.describe(y[1]) if y[0] == 'ok' else y[1][:100]}",
                                  {"family": "ranks", "tree": tree, "z": zshape, "size": nb, "model": onnx.helper.printable_graph(host.graph)})
                    break
    body = (f"Definition cases : list (rexp * option nat) := {clist(lits)}.\n"
            "Definition on_eqb (a b : option nat) := match a, b with Some x, Some y => Nat.eqb x y | None, None => true | _, _ => false end.\n"
            "Eval vm_compute in (disagreeing (fun c : rexp * option nat => let '(e, o) := c in on_eqb (rrank e) o) 0 cases).")
    val = _eval_bad(ctx, REQ, body, "ranks")
    bad = common.parse_nat_list(val) if val is not None else None
    for k in bad or []:
        ctx.tie_broken("correspondence", "ranks", f"(z, tree, rank on the runtimes | rejected) = {meta[k]}: Coq rrank differs")
    ctx.obligation("correspondence ranks: rank (or rejection) of Squeeze / Unsqueeze / Reshape / Gather / Concat / Add chains over shape values on "
                   "onnxruntime + onnx.reference = Coq rrank", bad == [] and stats["accepted"] >= 10 and stats["rejected"] >= 3)
    ctx.cover(rank_instances=len(lits), ranks=stats)


FAMILIES = [fam_reshape_reshape, fam_slices_split, fam_flatten, fam_split_vector, fam_b2m, fam_ranks]
