(* C13 (session 6, round 2): initializers OWNED BY SUBGRAPHS (If branches, Loop bodies) in the emission model.

   Source (onnx_export.py, _Exporter._translate_graph_body -- the same code runs for the main graph and for every
   subgraph):  for each initializer of the graph, in order,
     - skip_initializers and more than _SMALL_TENSOR_SIZE elements:  its Python name is looked up; when that Python name
       is already a key of `skipped_initializers` the exporter raises RuntimeError("Initializer ... is already present in
       skipped_initializers"), otherwise the initializer is recorded under that name (it becomes a parameter of
       make_model) and NOTHING is printed for it;
     - otherwise a node Constant(value=init) -> init.name is made and handed to _translate_node (so it is printed as
       a Constant line inside the branch / body, or inlined by inline_const).

   Representation.  OV.Graph.Syntax has names only in `g_inits`; the values of the MAIN graph's initializers are the
   separate list `ivals` (as before).  A NESTED graph that owns k initializers is written
       Graph ins [w1; ..; wk] (Constant(value = t1) -> w1 :: .. :: Constant(value = tk) -> wk :: nodes) outs
   i.e. `g_inits` lists their names and the first k nodes are the Constant nodes the exporter makes for them.  Under
   OV.Graph.Sem this graph already has the ONNX meaning (an initializer of a subgraph is a constant bound when the
   subgraph is entered), because eval_body ignores g_inits and runs the nodes.

   The model is a transformation of the graph in front of Export/EmitCF.v export_cf (which refuses nested g_inits):
     strip_top false g    the markers are dropped, every nested initializer stays as its Constant node   (option off)
     strip_top true g     ... and the Constant nodes of the nested initializers with more than small_tensor_size
                          elements are removed                                                            (option on)
     nested_skipped g     the names of the removed ones, in the order in which the exporter meets them (a graph's
                          own initializers first, then its nodes in order; for an If the then-branch first, whatever
                          the order of the two attributes)
   With the option on, the exporter refuses iff two skipped initializers (main graph or nested, of any graphs) get
   the same Python name; otherwise make_model takes the main graph's skipped initializers followed by the nested ones.
   No proofs in this file. *)
From Coq Require Import List String Bool Arith ZArith.
Require Import OV.Export.Cleanup.
Require Import OV.Graph.Syntax OV.Graph.Names OV.Graph.Sem OV.Script.Syntax OV.Gen.ExportTables OV.Export.Emit OV.Export.EmitCF
               OV.Export.EmitOpts.
Import ListNotations.
Local Open Scope string_scope.

(* the Constant node made for an initializer that skip_initializers moves out: its name *)
Definition init_skipped (skip : bool) (n : node) : option vname :=
  match n with
  | Node _ _ _ [o] [(_, a)] _ => if skip && Z.ltb (Z.of_nat small_tensor_size) (tensor_size a) then Some o else None
  | _ => None
  end.

(* ---- the graph the exporter prints --------------------------------------------------------------------------- *)
Fixpoint strip_node (skip : bool) (n : node) : node :=
  let 'Node d o i u a subs := n in
  Node d o i u a
    ((fix go (l : list (string * graph)) : list (string * graph) :=
        match l with [] => [] | (k, g) :: t => (k, strip_graph skip g) :: go t end) subs)
with strip_graph (skip : bool) (g : graph) : graph :=
  let 'Graph ins inits nodes outs := g in
  Graph ins []
    ((fix go (k : list vname) (l : list node) : list node :=
        match l with
        | [] => []
        | n :: t =>
          match k with
          | [] => strip_node skip n :: go [] t
          | _ :: k' => match init_skipped skip n with Some _ => go k' t | None => n :: go k' t end
          end
        end) inits nodes)
    outs.

Definition strip_top (skip : bool) (g : graph) : graph :=
  Graph (g_ins g) (g_inits g) (map (strip_node skip) (g_nodes g)) (g_outs g).

(* ---- the skipped initializers of the nested graphs, in the exporter's order -------------------------------- *)
Definition if_order (subs : list (string * graph)) : list (string * graph) :=
  match subs with
  | [(n0, g0); (n1, g1)] => if String.eqb n0 "else_branch" then [(n1, g1); (n0, g0)] else subs
  | _ => subs
  end.

Fixpoint nsk_node (n : node) : list vname :=
  let 'Node d o i u a subs := n in
  let per := (fix go (l : list (string * graph)) : list (list vname) :=
                match l with [] => [] | (k, g) :: t => nsk_graph g :: go t end) subs in
  (* then-branch first: the lists are swapped when the first attribute is the else branch *)
  match subs, per with
  | [(n0, _); _], [l0; l1] => if String.eqb o "If" && String.eqb n0 "else_branch" then (l1 ++ l0)%list else (l0 ++ l1)%list
  | _, _ => List.concat per
  end
with nsk_graph (g : graph) : list vname :=
  let 'Graph ins inits nodes outs := g in
  (fix go (k : list vname) (l : list node) : list vname :=
     match l with
     | [] => []
     | n :: t =>
       match k with
       | [] => (nsk_node n ++ go [] t)%list
       | _ :: k' => match init_skipped true n with Some w => w :: go k' t | None => go k' t end
       end
     end) inits nodes.

Definition nested_skipped (g : graph) : list vname := flat_map nsk_node (g_nodes g).

(* does any nested graph own an initializer? *)
Fixpoint owns_node (n : node) : bool :=
  let 'Node d o i u a subs := n in
  (fix go (l : list (string * graph)) : bool :=
     match l with [] => false | (k, g) :: t => owns_graph g || go t end) subs
with owns_graph (g : graph) : bool :=
  let 'Graph ins inits nodes outs := g in
  negb (is_nil inits) ||
  (fix go (l : list node) : bool := match l with [] => false | n :: t => owns_node n || go t end) nodes.
Definition owns_nested (g : graph) : bool := existsb owns_node (g_nodes g).

(* ---- the exporter with initializers of subgraphs --------------------------------------------------------------- *)
Section ExportSI.
  Variable kw : list string.
  Variable prename rename : vname -> string.
  Variable infun : bool.
  Variable use_ops : option bool.
  Variable inline : option inline_fx.

  (* the ONNX names of all skipped initializers in the order in which `skipped_initializers` is filled *)
  Definition all_skipped (ivals : list (vname * attrv)) (g : graph) : list vname :=
    (map fst (skipped_ivals ivals) ++ nested_skipped g)%list.

  Definition export_si (skip : bool) (fname : string) (ivals : list (vname * attrv)) (g : graph) : option (func * list string) :=
    if skip then
      let g' := strip_top true g in
      let rm := fst (scan rename infun inline true ivals g') in
      if nodupb (map (tr_with rename rm) (all_skipped ivals g)) then
        match export_cf kw prename rename infun use_ops inline true fname ivals g' with
        | Some (f, sk) => Some (f, (sk ++ map (tr_with rename rm) (nested_skipped g))%list)
        | None => None
        end
      else None   (* RuntimeError: Initializer ... is already present in skipped_initializers *)
    else export_cf kw prename rename infun use_ops inline false fname ivals (strip_top false g).
End ExportSI.

(* every skipped initializer, main graph and nested, as a leading graph input (the graph whose program is printed) *)
Definition lift_all (ivals : list (vname * attrv)) (g : graph) : graph :=
  Graph (map fst (skipped_ivals ivals) ++ nested_skipped g ++ g_ins g)%list (map fst (kept_ivals ivals))
        (g_nodes (strip_top true g)) (g_outs g).

(* the (name, tensor) pairs of the skipped nested initializers, in the same order (their values are what
   make_model is called with) *)
Definition init_pair (n : node) : option (vname * attrv) :=
  match n with
  | Node _ _ _ [o] [(_, a)] _ => if Z.ltb (Z.of_nat small_tensor_size) (tensor_size a) then Some (o, a) else None
  | _ => None
  end.
Fixpoint nskv_node (n : node) : list (vname * attrv) :=
  let 'Node d o i u a subs := n in
  let per := (fix go (l : list (string * graph)) : list (list (vname * attrv)) :=
                match l with [] => [] | (k, g) :: t => nskv_graph g :: go t end) subs in
  match subs, per with
  | [(n0, _); _], [l0; l1] => if String.eqb o "If" && String.eqb n0 "else_branch" then (l1 ++ l0)%list else (l0 ++ l1)%list
  | _, _ => List.concat per
  end
with nskv_graph (g : graph) : list (vname * attrv) :=
  let 'Graph ins inits nodes outs := g in
  (fix go (k : list vname) (l : list node) : list (vname * attrv) :=
     match l with
     | [] => []
     | n :: t =>
       match k with
       | [] => (nskv_node n ++ go [] t)%list
       | _ :: k' => match init_pair n with Some p => p :: go k' t | None => go k' t end
       end
     end) inits nodes.
Definition nested_skipped_vals (g : graph) : list (vname * attrv) := flat_map nskv_node (g_nodes g).
