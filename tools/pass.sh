#!/bin/bash
# pass.sh <log> Cxx...: quick checks one after the other on the unchanged tree (evidence refreshed), one summary line each
log=$1; shift
for p in "$@"; do
  s=$(date +%s); out=$(VERIF_SEED=${VERIF_SEED:-0} /verif/check $p --tier ${TIER:-quick} 2>&1); rc=$?
  echo "$p exit=$rc $(( $(date +%s) - s ))s $(echo "$out" | grep -E "^\[$p\] tier" | tail -1)" >> $log
  echo "$out" | grep -E "^VIOLATION|^  \(" | cut -c1-400 >> $log
done
