"""C03 -- optimize() never changes what a model computes (DESIGN.md section 5, C03).

Model: coq/Opt/Fold.v (FoldConstantsPass: decision procedure of process_node, traversal, If inlining, output
replacement); theorems: coq/Props/C03.v; tie: (i) translator harness/c03_tables.py -> coq/Gen/FoldTables.v (tables, order
of the tests of process_node, guards), (ii) decision-trace + resulting-graph correspondence harness/c03_trace.py
(real pass wrapped in-process vs the Gallina model evaluated in Coq), (iii) direct oracle: original vs optimized model
on onnxruntime (ORT_DISABLE_ALL) and onnx.reference for every entry point and sampled option tuples.
"""
from __future__ import annotations

import collections

from harness import c03_check as K
from harness import c03_gen as G
from harness import c03_tables

PROPERTY = "C03"
LEVEL = "proof"


def regenerate(ctx):
    return c03_tables.regenerate(ctx)


def replay(doc):
    return K.replay(doc)


def run(ctx):
    ctx.assume("kernel semantics is abstract in every theorem (Section variables); `ref_agrees` (onnx.reference used for folding = runtime "
               "kernel), Constant / Identity kernels and the truth value of a boolean scalar are hypotheses (coq/Opt/FoldTheorems.v: oracles), "
               "measured by running original and optimized models on onnxruntime and onnx.reference")
    ctx.assume("op-specific partial evaluators (Cast/CastLike/Reshape/Expand/Abs -> Identity, Shape/Size/Gather -> Constant, Concat, Dropout, "
               "sequence ops) enter the pass theorems through the hypothesis pe_ok (locally sound replacement) - the only hypothesis about the "
               "pass left in C03_fold_graph_sound_partial; their soundness needs truthful type/shape annotations and is covered by the "
               "correspondence + differential oracle only; the theorems hold for models passing the freshness side conditions of the strict "
               "model (evaluated on every compared model; the class that fails them - an If branch returning its own initializer - is counted)")
    ctx.assume("Opt/Fold.v models the pass with onnx_shape_inference=False (node-level ONNX shape inference is not modelled); names stand for "
               "ir.Value objects, faithful on models whose value names are unique across graphs/functions (generated so; others are skipped "
               "by the correspondence and still covered by the differential oracle)")
    ctx.assume("stages implemented by onnx_ir (Inline, DCE, lift constants / subgraph initializers, dedup, CSE, OutputFix, NameFix) and the "
               "rewrite rules (C05/C07) are covered differentially only; float outputs are compared up to round-off (tight for integer-valued "
               "data flows), NaN / infinities must coincide, ints / bools / strings bit-equal")
    info = regenerate(ctx)
    ctx.check_props()
    ctx.build(["Opt/FoldInst.vo"])          # the executable instance used by the correspondence
    rng = ctx.rng
    quick = ctx.tier == "quick"

    # (ii) decision-trace correspondence of fold_constants
    n_trace = 60 if quick else 400
    tstats = K.trace_stream(ctx, rng, K.dag_stream(rng, n_trace, overridable_every=0), "C03")
    agree = tstats["agree"] + tstats["agree(outside-theorem-side-conditions)"]
    ctx.obligation("correspondence fold_constants: per-node decisions and resulting graph of the real pass = Opt/Fold.v on every compared model",
                   tstats["disagree"] == 0 and agree > 0, f"{dict(tstats)}")
    if agree < n_trace // 3:
        ctx.tie_broken("correspondence", "fold-trace:generator-degenerate", f"only {agree} of {n_trace} cases compared: {dict(tstats)}")

    # (iii) direct oracle
    stats = collections.Counter()
    discards = collections.Counter()
    feats = collections.Counter()
    n_dag = 90 if quick else 700
    import itertools
    for c in itertools.chain(K.corpus_stream(rng, "C03"), K.dag_stream(rng, n_dag, overridable_every=9, start=1000)):
        if not isinstance(c, G.Case):
            discards["generator-error: " + c[1][:60]] += 1
            continue
        base, reason = K.validity(c)
        if base is None:
            discards[reason.split(":")[0].split("(")[0].strip()] += 1
            continue
        stats["valid-dag-models"] += 1
        for f in c.features:
            feats[f] += 1
        ctx.case(("dag", tuple(f for f in c.features if not f.startswith("value_info"))[:12]))
        K.differential(ctx, c, base, K.run_plan(rng, ctx.tier, c), stats)
        if stats["valid-dag-models"] == 3:
            ctx.sample({"ident": c.ident, "features": c.features, "nodes": len(c.model.graph.node), "feeds": len(c.feeds)})
    n_lift = 70 if quick else None
    for c in K.lifted_stream(rng, n_lift or 0, thorough=not quick):
        base, reason = K.validity(c, need_deterministic=True)
        if base is None:
            discards["lifted: " + reason.split(":")[0].split("(")[0].strip()] += 1
            continue
        stats["valid-lifted-models"] += 1
        ctx.case(("lifted", c.kind, c.features[-1] if c.features else ""))
        plan = [("optimize", None, False), ("fold_constants", None, rng.random() < 0.5)]
        if not quick:
            plan += [("optimize", K.R.option_tuples(rng, 2)[1], True), ("rewrite", None, False)]
        K.differential(ctx, c, base, plan, stats)
    if stats["valid-dag-models"] < n_dag // 2:
        ctx.tie_broken("harness", "generator-degenerate", f"only {stats['valid-dag-models']} valid DAG models of {n_dag}: {dict(discards)}")
    ctx.obligation("direct oracle: every entry point / option tuple leaves the outputs of every valid generated model unchanged "
                   "(known findings excepted)", stats["violations"] == 0 or not ctx.violations, f"{dict(stats)}")
    ctx.cover(trace=dict(tstats), oracle=dict(stats), discarded=dict(discards),
              feature_histogram=dict(sorted(feats.items())),
              translator={"registry": len(info["registry"]) if info else None, "guards_graph_inputs": info.get("guard") if info else None},
              generator="typed random DAGs (profiles mixed/fold/control/rules/seq): constants as initializers / Constant attrs, shape chains, "
                        "Cast/CastLike chains, If/Loop capturing outer values and owning initializers, sequence ops, Dropout variants, zero-size "
                        "tensors, model-local functions with attribute references, overridable initializer-inputs; ONNX node tests lifted "
                        "(inputs -> initializers / Constant nodes, wrapped in If, chained)")
    if ctx.tier == "thorough":
        ctx.coqchk(["Props.C03"])
