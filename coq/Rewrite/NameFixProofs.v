(* C07: rewriting followed by NameFixPass keeps the graph equivalent and the interface names unchanged. *)
From Coq Require Import List String ZArith Bool.
Require Import OV.Graph.Syntax OV.Graph.Sem OV.Graph.Names OV.Graph.SemProofs.
Require Import OV.Builder.Inline OV.Builder.InlineProofs.
Require Import OV.Rewrite.Apply OV.Rewrite.ApplyProofs OV.Rewrite.PassProofs OV.Rewrite.NameFix.
Import ListNotations.
Local Open Scope string_scope.
Local Open Scope list_scope.

Section NameFix.
  Variable V : Type.
  Variable sem : string -> string -> list (string * attrv) -> list (option V) -> option (list V).
  Variable truth : V -> option bool.
  Variable trip : V -> option nat.
  Variable of_nat : nat -> V.
  Variable of_bool : bool -> V.
  Variable limit : nat.
  Notation eval_graph := (eval_graph V sem truth trip of_nat of_bool limit).

  Lemma inv_id : forall vis (e : list (vname * V)), inv V vis [] [] e e.
  Proof. intros vis e x Hx. cbn. exists x. split; reflexivity. Qed.

  Lemma map_same : forall l : list vname, map same l = l.
  Proof. induction l; cbn; auto. unfold same at 1. rewrite IHl. reflexivity. Qed.

  (* NameFix alone: same values for every input, same input names, same output names *)
  Theorem namefix_sound : forall rn vis g, namefix_okb rn vis g = true ->
    (forall fuel e args, eval_graph fuel e g args = eval_graph fuel e (namefix rn g) args) /\
    g_ins (namefix rn g) = g_ins g /\ g_inits (namefix rn g) = g_inits g /\ g_outs (namefix rn g) = g_outs g.
  Proof.
    intros rn vis g H. unfold namefix_okb in H. apply andb_true_iff in H. destruct H as [H Ho].
    apply andb_true_iff in H. destruct H as [Hg Hk]. apply graph_eqb_eq in Hg.
    split; [|split; [|split]].
    - intros fuel e args. rewrite <- Hg at 1.
      apply (eval_graph_rel V sem truth trip of_nat of_bool limit [] [] rn same fuel g vis [] e e args (inv_id vis e) Hk).
    - destruct g as [ins inits nodes outs]. cbn. apply map_same.
    - destruct g as [ins inits nodes outs]. cbn. apply map_same.
    - clear Hg Hk. revert Ho. generalize (g_outs (namefix rn g)) (g_outs g).
      induction l as [|x t IH]; intros [|y u] H; cbn in H; try discriminate; auto.
      apply andb_true_iff in H. destruct H as [H1 H2]. apply String.eqb_eq in H1. subst. f_equal. auto.
  Qed.

  (* the composition the rewriter performs: one sound application (at any nesting level), then NameFix *)
  Theorem rewrite_then_namefix_sound : forall p a X g g' rn vis,
    apply_at p a g = Some g' -> ok_at V sem truth trip of_nat of_bool limit p a X g ->
    namefix_okb rn vis g' = true ->
    (forall fuel outer args, eval_graph fuel outer g args = eval_graph fuel outer (namefix rn g') args) /\
    g_ins (namefix rn g') = g_ins g /\ g_inits (namefix rn g') = g_inits g /\ g_outs (namefix rn g') = g_outs g.
  Proof.
    intros p a X g g' rn vis Ha Hok Hn. destruct (namefix_sound rn vis g' Hn) as [E [I1 [I2 I3]]].
    destruct (apply_outputs_preserved p a g g' Ha) as [P1 [P2 P3]].
    split; [|rewrite I1, I2, I3; auto].
    intros fuel outer args. rewrite <- E.
    apply (apply_at_sound V sem truth trip of_nat of_bool limit p a X g g' Ha Hok).
  Qed.

  (* ... and a whole pass (repeated and overlapping matches), then NameFix *)
  Theorem pass_then_namefix_sound : forall l g g' rn vis,
    apply_pass (map fst l) g = Some g' -> pass_ok V sem truth trip of_nat of_bool limit l g ->
    namefix_okb rn vis g' = true ->
    forall fuel outer args, eval_graph fuel outer g args = eval_graph fuel outer (namefix rn g') args.
  Proof.
    intros l g g' rn vis Ha Hok Hn fuel outer args. destruct (namefix_sound rn vis g' Hn) as [E _]. rewrite <- E.
    apply (apply_pass_sound V sem truth trip of_nat of_bool limit l g g' Ha Hok).
  Qed.
End NameFix.
