(* C09 -- completeness table (model file, no proofs): every partial evaluator registered in
   onnxscript/optimizer/_constant_folding.py and every rewrite rule / shape helper of the anchored files
   (regenerated from the source into Gen/ShapeUsers.v on every run) must appear here with
     - the shape-reading features it is EXPECTED to use (a change of that set must be looked at), and
     - either the C09 theorems (for every valuation) that model it, or "differential only" with the reason, or
       "no shape use" (only allowed when the feature set is empty).
   Shape/CoverageProofs.v proves coverage_okb = true over the regenerated lists; the harness checks that every cited
   theorem is a theorem of Props/C09*.v. *)
From Coq Require Import String List Bool.
Require Import OV.Shape.SymDim OV.Gen.ShapeUsers.
Import ListNotations.
Local Open Scope string_scope.

Inductive status := Modelled (thms : list string) | Differential (reason : string) | NoShapeUse.
Definition entry := (string * (list string * status))%type.

Definition seq_reason := "the recorded symbolic value is a list of values (an ONNX sequence), no dimension is read; sequence folding is observed by the optimize() oracle (split-to-sequence models) and by C03/C04".

Definition evaluator_table : list entry := [
  ("Add/add", (["SymbolicDim"; "get_shape_value"; "set_sym_value"],
     Modelled ["C09_shape_value_sound"; "C09_shape_value_nonneg"; "C09_abs_identity_shipped_refuted"]));
  ("Abs/abs", (["get_shape_value"], Modelled ["C09_abs_identity_sound"]));
  ("Gather/gather", (["get_shape_value"; "set_sym_value"], Modelled ["C09_shape_value_sound"; "C09_shape_value_constant_fold_sound"]));
  ("Reshape/reshape", (["SymbolicDim"; "_same_shape"; "dims"; "get_shape_value"; "set_sym_value"; "shape"],
     Modelled ["C09_reshape_identity_sound"; "C09_shape_value_sound"]));
  ("Squeeze/squeeze", (["get_shape_value"; "set_sym_value"], Modelled ["C09_shape_value_sound"]));
  ("Cast/cast", ([], NoShapeUse));
  ("CastLike/cast_like", ([], NoShapeUse));
  ("Shape/shape", (["set_sym_value"; "shape"], Modelled ["C09_shape_value_sound"; "C09_shape_value_constant_fold_sound"]));
  ("Size/size", (["shape"], Modelled ["C09_size_fold_sound"; "C09_size_fold_static_iff"]));
  ("If/if_op", ([], NoShapeUse));
  ("Identity/identity", (["SymbolicDim"; "_merge_shapes"; "set_sym_value"; "shape"],
     Modelled ["C09_merge_shapes_sound"; "C09_merge_dims_keeps_int"; "C09_shape_value_sound"]));
  ("SequenceConstruct/sequence_construct", (["set_sym_value"],
     Modelled ["C09_seq_at_sound"; "C09_stack_shape_sound"]));
  ("Concat/concat", (["dims"; "get_shape_value"; "set_sym_value"; "shape"],
     Modelled ["C09_concat_drop_shape_sound"; "C09_concat_drop_all_shape_sound"; "C09_block_concat_drop";
               "C09_concat_drop_accepts_exactly_refuted"; "C09_concat_drop_fixed_accepts_exactly"; "C09_keq_except_sound";
               "C09_shape_value_sound"]));
  ("Dropout/dropout v(12, None)", ([], NoShapeUse));
  ("Expand/expand", (["SymbolicDim"; "_same_shape"; "dims"; "get_shape_value"; "shape"],
     Modelled ["C09_expand_identity_sound"; "C09_expand_identity_const_sound"]));
  ("ConcatFromSequence/concat_from_sequence", (["get_sym_value"],
     Modelled ["C09_stack_shape_sound"; "C09_chunks_concat"; "C09_concat_drop_fixed_accepts_exactly"; "C09_split_concat_roundtrip"]));
  ("SplitToSequence/split_to_sequence", (["is_static"; "shape"],
     Modelled ["C09_split_scalar_sound"; "C09_static_shape_valuation_independent"; "C09_chunks_length"; "C09_chunks_concat"; "C09_split_vector_keepdims1_sound"; "C09_split_vector_keepdims0_refuted";
               "C09_split_scalar_emitted_accepts_iff"; "C09_split_scalar_emitted_empty_axis_refuted"; "C09_split_scalar_fixed_exact"; "C09_split_concat_roundtrip"]));
  ("SequenceAt/sequence_at", (["get_sym_value"; "set_sym_value"],
     Modelled ["C09_seq_at_sound"; "C09_seq_at_accepts_iff"]))
].

Definition rule_table : list entry := [
  ("_basic_rules.py:SqueezeReshape", (["has_rank"], Modelled ["C09_squeeze_reshape_1d_sound"]));
  ("_basic_rules.py:CastIdentity", ([], NoShapeUse));
  ("_basic_rules.py:CastCast", ([], NoShapeUse));
  ("_basic_rules.py:ExpandIdentity", (["dims"; "shape"], Modelled ["C09_expand_identity_const_sound"]));
  ("_basic_rules.py:ReshapeReshape", (["shape"],
     Modelled ["C09_reshape_reshape_annotated_sound"; "C09_reshape_reshape_subst_known_sound"; "C09_reshape_reshape_decline_needed"; "C09_reshape_reshape_decline_two_zeros";
               "C09_reshape_reshape_accepts_iff"; "C09_reshape_reshape_no_zero_copy_exact"; "C09_reshape_reshape_zero_copy_exact"; "C09_reshape_reshape_zero_copy_widens_iff";
               "C09_reshape_reshape_accepts_full_refuted"]));
  ("_basic_rules.py:SlicesSplit", (["shape"],
     Modelled ["C09_slices_split_sound"; "C09_slices_split_accepts_iff"; "C09_slices_split_last_dim_necessary"; "C09_slices_split_symbolic_last_dim_no_constants"]));
  ("_basic_rules.py:TransposeIdentity", ([], NoShapeUse));
  ("_basic_rules.py:TransposeTranspose", ([], NoShapeUse));
  ("_basic_rules.py:UnsqueezeUnsqueeze", ([], NoShapeUse));
  ("_basic_rules.py:Flatten2Reshape", (["shape"],
     Modelled ["C09_flatten_target_correct_iff"; "C09_flatten_no_constant_target"; "C09_flatten_to_reshape_refuted"]));
  ("_collapse_slices.py:collapse_slice_rule", (["is_dynamic"; "shape"], Modelled ["C09_collapse_slice1_sound"]));
  ("_collapse_slices.py:collapse_slice2_rule", (["same_shape"; "shape"], Modelled ["C09_iu_same_shape_sound"; "C09_collapse_slice_window"]));
  ("_materialize_reshape_shape.py:MaterializeReshapeShape", (["shape"], Modelled ["C09_materialize_reshape_sound"]));
  ("_remove_expand_before_binary_op.py:_ExpandFirstInput", (["SymbolicDim"; "rank"; "shape"],
     Modelled ["C09_expand_binop_shape_sound"; "C09_expand_binop_values"]));
  ("_remove_expand_before_binary_op.py:_ExpandSecondInput", (["SymbolicDim"; "rank"; "shape"],
     Modelled ["C09_expand_binop_shape_sound"; "C09_expand_binop_values"]));
  ("_redundant_scatter_nd.py:ScatterAllDynamic", (["same_dim"; "shape"], Modelled ["C09_scatter_dyn_sound"; "C09_scatter_dyn_values"; "C09_scatter_dyn_attrs_sound"; "C09_scatter_dyn_end_ignored_refuted"]));
  ("_redundant_scatter_nd.py:ScatterAllStatic", (["same_shape"; "shape"], Modelled ["C09_scatter_static_sound"; "C09_scatter_full_range"]));
  ("_broadcast_to_matmul.py:two_reshapes_matmul_reshape_rule", (["SymbolicDim"; "shape"],
     Modelled ["C09_b2m_check_sound"; "C09_b2m_guard_static"; "C09_static_shape_valuation_independent"]));
  ("_broadcast_to_matmul.py:one_reshape_matmul_reshape_rule", (["SymbolicDim"; "shape"],
     Modelled ["C09_b2m_check_sound"; "C09_b2m_guard_static"; "C09_static_shape_valuation_independent"]));
  ("_ir_utils.py:has_rank", (["rank"; "shape"], Modelled ["C09_squeeze_reshape_1d_sound"]));
  ("_ir_utils.py:broadcast_keeps_rank", (["rank"; "shape"],
     Modelled ["C09_rank_valuation_independent"; "C09_broadcast_keeps_rank_sound"; "C09_broadcast_keeps_rank_no_reference"]));
  ("_ir_utils.py:get_dim", (["SymbolicDim"; "rank"; "shape"],
     Modelled ["C09_get_dim_sound"; "C09_get_dim_none_iff"]));
  ("_ir_utils.py:same_shape", (["has_unknown_dim"], Modelled ["C09_iu_same_shape_sound"]));
  ("_ir_utils.py:same_dim", (["SymbolicDim"], Modelled ["C09_same_dim_sound"]))
].

Fixpoint lookup (k : string) (t : list entry) : option (list string * status) :=
  match t with [] => None | (k', v) :: t' => if String.eqb k k' then Some v else lookup k t' end.
Definition status_ok (feats : list string) (st : status) : bool :=
  match st with
  | NoShapeUse => match feats with [] => true | _ => false end
  | Modelled [] => false
  | Modelled _ => true
  | Differential r => negb (String.eqb r "")
  end.
Definition entry_ok (t : list entry) (e : string * list string) : bool :=
  match lookup (fst e) t with
  | Some (f, st) => forallb2 String.eqb f (snd e) && status_ok f st
  | None => false                      (* a new or renamed evaluator / rule *)
  end.
Fixpoint nodup_keys (l : list string) : bool :=
  match l with [] => true | k :: t => negb (existsb (String.eqb k) t) && nodup_keys t end.
Definition covers (t : list entry) (gen : list (string * list string)) : bool :=
  forallb (entry_ok t) gen
  && forallb (fun en => existsb (String.eqb (fst en)) (map fst gen)) t      (* no stale entry: removed / renamed *)
  && nodup_keys (map fst gen).
Definition coverage_okb : bool := covers evaluator_table evaluators && covers rule_table rule_units.

(* the entries that break the obligation (for the harness' message) *)
Definition uncovered (t : list entry) (gen : list (string * list string)) : list string :=
  map fst (filter (fun e => negb (entry_ok t e)) gen)
  ++ map (fun en => "stale:" ++ fst en) (filter (fun en => negb (existsb (String.eqb (fst en)) (map fst gen))) t).
Definition cited (t : list entry) : list string :=
  flat_map (fun en => match snd (snd en) with Modelled l => l | _ => [] end) t.
Definition n_modelled (t : list entry) : nat := List.length (filter (fun en => match snd (snd en) with Modelled _ => true | _ => false end) t).
Definition n_differential (t : list entry) : nat := List.length (filter (fun en => match snd (snd en) with Differential _ => true | _ => false end) t).
