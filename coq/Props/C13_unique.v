(* C13 property theorems about the unique-name wrapper of the exporter (`_make_unique_name_mapper`, repair C13_07 of the
   finding "two ONNX names become one Python variable").  Statements only.
   Export/Unique.v `uniq_map base seq` is the wrapper's final dictionary after the exporter translated the ONNX names
   of `seq` in that order, `base` being the wrapped renamer (the clean-up, or the short-name mapper).
   Not covered: that the search for a free suffix always succeeds (the model bounds it by 1 + |used| candidates and
   returns None otherwise; the harness evaluates the model on every generated model's names: always Some);
   non-ASCII names (Export/Cleanup.v works on bytes). *)
From Coq Require Import List String.
Import ListNotations.
Require Import OV.Gen.ExportTables OV.Export.Cleanup OV.Export.Unique OV.Export.UniqueProofs.
Local Open Scope string_scope.

(* distinct ONNX names never share a Python name; one ONNX name has one Python name; every name of seq has one *)
Theorem C13_unique_names_pairwise_distinct : forall base seq m, uniq_map base seq = Some m ->
  (forall a b y, In (a, y) m -> In (b, y) m -> a = b) /\ (forall a y z, In (a, y) m -> In (a, z) m -> y = z) /\
  (forall x, In x seq -> exists y, In (x, y) m).
Proof. exact uniq_map_injective. Qed.
Print Assumptions C13_unique_names_pairwise_distinct.

(* a name is the wrapped renamer's name, or that name followed by `_<decimal number>` *)
Theorem C13_unique_names_shape : forall base seq m x y, uniq_map base seq = Some m -> In (x, y) m ->
  y = base x \/ exists k, y = suffixed (base x) k.
Proof. exact uniq_map_shape. Qed.
Print Assumptions C13_unique_names_shape.

(* with the exporter's clean-up (keyword table regenerated from the source) every name handed out is an ASCII Python
   identifier that is not a keyword, for every sequence of non-empty names *)
Theorem C13_unique_names_valid_identifiers : forall seq m, ~ In "" seq -> uniq_map (cleanup kwlist) seq = Some m ->
  forall x y, In x seq -> In (x, y) m -> pynameb kwlist y = true.
Proof. exact uniq_cleanup_pynames_kwlist. Qed.
Print Assumptions C13_unique_names_valid_identifiers.

(* for any wrapped renamer that yields usable names (the short names v<k> do) *)
Theorem C13_unique_names_valid_identifiers_any_base : forall base seq m, (forall x, In x seq -> pynameb kwlist (base x) = true) ->
  uniq_map base seq = Some m -> forall x y, In x seq -> In (x, y) m -> pynameb kwlist y = true.
Proof. exact (uniq_map_pynames kwlist kwlist_wf). Qed.
Print Assumptions C13_unique_names_valid_identifiers_any_base.

(* the witness of C13_cleanup_injective_refuted through the wrapper: `a.b` and `a_b` get `a_b` and `a_b_0` *)
Example C13_unique_names_example : uniq_names ["a.b"; "a_b"; "x"] ["a_b"; "a_b"; "x"] = Some ["a_b"; "a_b_0"; "x"].
Proof. exact uniq_example. Qed.
