(* C08 -- aten_div_mode on integer tensors goes through float32.  For operands of magnitude < 2^24 the detour is
   exact (floor and trunc), beyond that it is not (witness). *)
From Coq Require Import ZArith Bool Lia ZifyBool.
Require Import OV.Torch.F32.
Local Open Scope Z_scope.

Lemma pow2_pos : forall k, 0 < 2 ^ k \/ k < 0.
Proof. intro k. destruct (Z_lt_le_dec k 0); [right; assumption | left; apply Z.pow_pos_nonneg; lia]. Qed.

(* the exponent chosen by quot_exp is not too large: 2^k <= x / y *)
Lemma quot_exp_lower : forall x y, 0 < x -> 0 < y ->
  let k := quot_exp x y in (0 <= k -> y * 2 ^ k <= x) /\ (k < 0 -> y <= x * 2 ^ (- k)).
Proof.
  intros x y Hx Hy. cbv zeta. unfold quot_exp.
  pose proof (Z.log2_spec x Hx) as [Hx1 Hx2]. pose proof (Z.log2_spec y Hy) as [Hy1 Hy2].
  pose proof (Z.log2_nonneg x) as Hlx. pose proof (Z.log2_nonneg y) as Hly.
  remember (Z.log2 x) as la eqn:Hla. remember (Z.log2 y) as lb eqn:Hlb. clear Hla Hlb.
  destruct (0 <=? la - lb) eqn:E0.
  - destruct (x <? y * 2 ^ (la - lb)) eqn:E1.
    + (* k = k0 - 1 *)
      split; intro Hk.
      * (* 1 <= k0: y * 2^(k0-1) < 2^(lb+1) * 2^(k0-1) = 2^la <= x *)
        assert (H : 2 ^ Z.succ lb * 2 ^ (la - lb - 1) = 2 ^ la) by (rewrite <- Z.pow_add_r by lia; f_equal; lia).
        assert (0 < 2 ^ (la - lb - 1)) by (apply Z.pow_pos_nonneg; lia). nia.
      * (* k0 = 0, k = -1: y < 2^(lb+1) = 2^(la+1) <= 2 x *)
        assert (la = lb) by lia. replace (- (la - lb - 1)) with 1 by lia. rewrite Z.pow_1_r.
        assert (2 ^ Z.succ lb = 2 * 2 ^ la) by (rewrite Z.pow_succ_r by lia; f_equal; f_equal; lia). lia.
    + split; intro Hk; lia.
  - destruct (x * 2 ^ (- (la - lb)) <? y) eqn:E1.
    + split; intro Hk; [lia|].
      (* y < 2^(lb+1) = 2^la * 2^(lb - la + 1) <= x * 2^(-(k0-1)) *)
      replace (- (la - lb - 1)) with (lb - la + 1) by lia.
      assert (H : 2 ^ la * 2 ^ (lb - la + 1) = 2 ^ Z.succ lb) by (rewrite <- Z.pow_add_r by lia; f_equal; lia).
      assert (0 < 2 ^ (lb - la + 1)) by (apply Z.pow_pos_nonneg; lia). nia.
    + split; intro Hk; lia.
Qed.

(* rounding p/q to the nearest integer *)
Lemma rne_div_exact : forall p q, 0 < q -> p mod q = 0 -> rne_div p q = p / q.
Proof. intros p q Hq H. unfold rne_div. rewrite H. replace (2 * 0 <? q) with true by lia. reflexivity. Qed.

(* the core: with j fractional bits (y < 2^(j+1)) rounding x * 2^j / y never reaches an integer multiple of 2^j
   unless x / y is an integer *)
Lemma rne_core : forall x y j, 0 <= x -> 0 < y -> 0 <= j -> y < 2 ^ (j + 1) ->
  let m := rne_div (x * 2 ^ j) y in
  let n := x / y in
  (x mod y = 0 -> m = n * 2 ^ j) /\ (x mod y <> 0 -> n * 2 ^ j < m < (n + 1) * 2 ^ j).
Proof.
  intros x y j Hx Hy Hj Hyj. cbv zeta.
  pose proof (Z.div_mod x y ltac:(lia)) as Hd. pose proof (Z.mod_pos_bound x y Hy) as Hr.
  remember (x / y) as n eqn:Hn0. remember (x mod y) as r eqn:Hr0.
  assert (Hp : 0 < 2 ^ j) by (apply Z.pow_pos_nonneg; lia).
  assert (Hp1 : 2 ^ (j + 1) = 2 * 2 ^ j) by (rewrite Z.pow_add_r by lia; lia).
  assert (HX : x * 2 ^ j = y * (n * 2 ^ j) + r * 2 ^ j) by nia.
  pose proof (Z.div_mod (r * 2 ^ j) y ltac:(lia)) as Hd2. pose proof (Z.mod_pos_bound (r * 2 ^ j) y Hy) as Hr2.
  remember ((r * 2 ^ j) / y) as g eqn:Hg00. remember ((r * 2 ^ j) mod y) as h eqn:Hh00.
  assert (Hg0 : 0 <= g) by (subst g; apply Z.div_pos; nia).
  assert (Hg1 : g < 2 ^ j) by (subst g; apply Z.div_lt_upper_bound; nia).
  clear Hg00 Hh00 Hn0 Hr0.
  assert (Hf : (x * 2 ^ j) / y = n * 2 ^ j + g).
  { symmetry. apply Z.div_unique with (r := h); [left; lia | nia]. }
  assert (Hm : (x * 2 ^ j) mod y = h).
  { symmetry. apply Z.mod_unique with (q := n * 2 ^ j + g); [left; lia | nia]. }
  unfold rne_div. rewrite Hf, Hm. split.
  - intro H0. assert (g = 0 /\ h = 0) as [-> ->] by (rewrite H0 in *; nia).
    replace (2 * 0 <? y) with true by lia. lia.
  - intro Hne. assert (Hr1 : 1 <= r) by lia.
    destruct (2 * h <? y) eqn:E1.
    + (* rounded down: g >= 1, else h = r 2^j >= 2^j and 2h >= 2^(j+1) > y *)
      assert (1 <= g) by nia. lia.
    + assert (Hup : g <= 2 ^ j - 2).
      { (* g = 2^j - 1 forces h <= y - 2^j, hence 2h < y *)
        destruct (Z_le_gt_dec g (2 ^ j - 2)); [assumption|]. exfalso.
        assert (g = 2 ^ j - 1) by lia. assert (h = r * 2 ^ j - y * (2 ^ j - 1)) by nia. nia. }
      destruct (y <? 2 * h) eqn:E2; [lia|].
      assert (1 <= g) by (destruct (Z_le_gt_dec 1 g); [assumption | exfalso; assert (g = 0) by lia; subst g; nia]).
      destruct (Z.even (n * 2 ^ j + g)); lia.
Qed.

Definition two24 : Z := 16777216.

(* |q| rounded to float32, then floored / ceiled *)
Lemma round24_floor : forall A B, 0 < A < two24 -> 0 < B < two24 ->
  let '(m, e) := round24 A B in
  (0 <= e -> m * 2 ^ e = A / B /\ A mod B = 0) /\
  (e < 0 -> (A mod B = 0 -> m = (A / B) * 2 ^ (- e)) /\
            (A mod B <> 0 -> (A / B) * 2 ^ (- e) < m < (A / B + 1) * 2 ^ (- e))).
Proof.
  intros A B HA HB. unfold round24, two24 in *.
  destruct (quot_exp_lower A B ltac:(lia) ltac:(lia)) as [Hk1 Hk2].
  remember (quot_exp A B) as k eqn:Hk0. clear Hk0.
  destruct (0 <=? k - 23) eqn:Ee; split; intro He; try lia.
  - (* k >= 23: B * 2^k <= A < 2^24 forces B = 1 and k = 23 *)
    specialize (Hk1 ltac:(lia)).
    assert (Hp : 2 ^ k = 2 ^ 23 * 2 ^ (k - 23)) by (rewrite <- Z.pow_add_r by lia; f_equal; lia).
    assert (Hq : 0 < 2 ^ (k - 23)) by (apply Z.pow_pos_nonneg; lia).
    change (2 ^ 23) with 8388608 in Hp.
    assert (B * 2 ^ (k - 23) = 1) by nia.
    assert (B = 1) by nia. subst B. assert (2 ^ (k - 23) = 1) by lia.
    replace (1 * 2 ^ (k - 23)) with 1 by lia.
    rewrite rne_div_exact by (try lia; apply Z.mod_1_r). rewrite !Z.div_1_r, Z.mod_1_r. lia.
  - (* j = 23 - k fractional bits *)
    replace (- (k - 23)) with (23 - k) by lia.
    assert (Hj : 0 <= 23 - k) by lia.
    assert (HBj : B < 2 ^ (23 - k + 1)).
    { assert (Hp : 0 < 2 ^ (23 - k)) by (apply Z.pow_pos_nonneg; lia).
      assert (Hp1 : 2 ^ (23 - k + 1) = 2 * 2 ^ (23 - k)) by (rewrite Z.pow_add_r by lia; lia).
      assert (HL : B * 8388608 <= A * 2 ^ (23 - k)).
      { destruct (Z_lt_le_dec k 0).
        - specialize (Hk2 ltac:(lia)).
          assert (2 ^ (23 - k) = 8388608 * 2 ^ (- k)) by (change 8388608 with (2 ^ 23); rewrite <- Z.pow_add_r by lia; f_equal; lia).
          nia.
        - specialize (Hk1 ltac:(lia)).
          assert (2 ^ k * 2 ^ (23 - k) = 8388608) by (change 8388608 with (2 ^ 23); rewrite <- Z.pow_add_r by lia; f_equal; lia).
          nia. }
      nia. }
    exact (rne_core A B (23 - k) ltac:(lia) ltac:(lia) Hj HBj).
Qed.

Lemma floor_of_round : forall m j n, 0 < 2 ^ j -> n * 2 ^ j <= m < (n + 1) * 2 ^ j -> m / 2 ^ j = n.
Proof. intros m j n Hp H. symmetry. apply Z.div_unique with (r := m - n * 2 ^ j); [left; lia | lia]. Qed.

Lemma round24_value : forall A B, 0 < A < two24 -> 0 < B < two24 ->
  let '(m, e) := round24 A B in
  let n := A / B in
  (* floor and ceiling of the rounded quotient are those of the exact quotient *)
  (if 0 <=? e then m * 2 ^ e else m / 2 ^ (- e)) = n /\
  (if 0 <=? e then - m * 2 ^ e else (- m) / 2 ^ (- e)) = (if A mod B =? 0 then - n else - n - 1).
Proof.
  intros A B HA HB. pose proof (round24_floor A B HA HB) as H.
  destruct (round24 A B) as [m e]. cbv zeta. destruct H as [H1 H2].
  destruct (0 <=? e) eqn:Ee.
  - destruct (H1 ltac:(lia)) as [Hv Hr]. rewrite Hr. cbn [Z.eqb]. lia.
  - destruct (H2 ltac:(lia)) as [Hz Hnz].
    assert (Hp : 0 < 2 ^ (- e)) by (apply Z.pow_pos_nonneg; lia).
    destruct (A mod B =? 0) eqn:Er.
    + rewrite (Hz ltac:(lia)). split.
      * apply Z.div_mul; lia.
      * replace (- (A / B * 2 ^ (- e))) with ((- (A / B)) * 2 ^ (- e)) by ring. apply Z.div_mul; lia.
    + specialize (Hnz ltac:(lia)). split.
      * apply floor_of_round; lia.
      * apply floor_of_round; [assumption|]. lia.
Qed.

Lemma cast_f32_exact : forall z, Z.abs z < two24 -> cast_f32 z = z.
Proof.
  intros z Hz. unfold cast_f32. destruct (z =? 0) eqn:E0; [lia|].
  pose proof (round24_value (Z.abs z) 1 ltac:(unfold two24 in *; lia) ltac:(unfold two24; lia)) as H.
  destruct (round24 (Z.abs z) 1) as [m e]. cbv zeta in H. destruct H as [H _].
  rewrite H. rewrite Z.div_1_r. lia.
Qed.

Lemma div_opp_cases : forall A B, 0 < B -> 0 <= A ->
  (- A) / B = (if A mod B =? 0 then - (A / B) else - (A / B) - 1).
Proof.
  intros A B HB HA. destruct (A mod B =? 0) eqn:E.
  - apply Z.div_opp_l_z; lia.
  - apply Z.div_opp_l_nz; lia.
Qed.

Lemma div_by_signs : forall a b, a <> 0 -> b <> 0 ->
  a / b = (if Z.sgn a * Z.sgn b =? 1 then Z.abs a / Z.abs b
           else if Z.abs a mod Z.abs b =? 0 then - (Z.abs a / Z.abs b) else - (Z.abs a / Z.abs b) - 1).
Proof.
  intros a b Ha Hb.
  destruct (Z_lt_le_dec a 0) as [Han | Hap]; destruct (Z_lt_le_dec b 0) as [Hbn | Hbp].
  - replace (Z.sgn a * Z.sgn b =? 1) with true by lia.
    replace (Z.abs a) with (- a) by lia. replace (Z.abs b) with (- b) by lia. symmetry. apply Z.div_opp_opp. lia.
  - replace (Z.sgn a * Z.sgn b =? 1) with false by lia. replace (Z.abs b) with b by lia.
    remember (Z.abs a) as A eqn:HA. replace a with (- A) by lia. apply div_opp_cases; lia.
  - replace (Z.sgn a * Z.sgn b =? 1) with false by lia. replace (Z.abs a) with a by lia.
    remember (Z.abs b) as B eqn:HB. replace b with (- B) by lia.
    rewrite <- (Z.div_opp_opp a (- B)) by lia. replace (- - B) with B by lia. apply div_opp_cases; lia.
  - replace (Z.sgn a * Z.sgn b =? 1) with true by lia.
    replace (Z.abs a) with a by lia. replace (Z.abs b) with b by lia. reflexivity.
Qed.

Theorem div_mode_int_correct : forall a b,
  Z.abs a < two24 -> 0 < Z.abs b < two24 ->
  aten_div_mode_int true a b = a / b /\ aten_div_mode_int false a b = Z.quot a b.
Proof.
  intros a b Ha Hb. unfold aten_div_mode_int.
  rewrite (cast_f32_exact a Ha), (cast_f32_exact b ltac:(lia)).
  unfold f32_div. destruct (a =? 0) eqn:E0.
  - assert (a = 0) by lia. subst a. rewrite Z.div_0_l by lia. rewrite Z.quot_0_l by lia. split; reflexivity.
  - pose proof (round24_value (Z.abs a) (Z.abs b) ltac:(lia) ltac:(lia)) as H.
    destruct (round24 (Z.abs a) (Z.abs b)) as [m e]. cbv zeta in H. destruct H as [Hf Hc].
    unfold f32_floor, f32_trunc. split.
    + rewrite (div_by_signs a b) by lia.
      assert (Hs : Z.sgn a * Z.sgn b = 1 \/ Z.sgn a * Z.sgn b = -1) by lia.
      destruct Hs as [-> | ->].
      * cbn [Z.eqb Pos.eqb]. replace (1 * m) with m by lia. exact Hf.
      * cbn [Z.eqb]. replace (-1 * m) with (- m) by lia. rewrite Hc. destruct (Z.abs a mod Z.abs b =? 0); reflexivity.
    + rewrite Hf. rewrite (Z.quot_div a b) by lia. reflexivity.
Qed.

(* beyond 2^24 the cast to float32 already loses the operand *)
Theorem div_mode_int_refuted : exists a b, b <> 0 /\ aten_div_mode_int true a b <> a / b /\ aten_div_mode_int false a b <> Z.quot a b.
Proof. exists 16777217, 1. vm_compute. repeat split; discriminate. Qed.

Example div_mode_int_example : aten_div_mode_int true (-7) 2 = -4 /\ aten_div_mode_int false (-7) 2 = -3
  /\ aten_div_mode_int true 16777215 (-4096) = -4096 /\ aten_div_mode_int false 16777215 (-4096) = -4095.
Proof. vm_compute. repeat split; reflexivity. Qed.
