(* Proofs about coq/Rules/ConvAffine.v (C05, _fuse_conv_affine.py). *)
From Coq Require Import ZArith QArith List Bool Lia Ring.
Require Import OV.Rules.ConvAffine.
Import ListNotations.
Local Open Scope Z_scope.

Section CRing.
  Variable F : Type.
  Variables (zero one : F) (add mul sub : F -> F -> F) (opp : F -> F).
  Hypothesis Rth : ring_theory zero one add mul sub opp (@eq F).
  Add Ring Rr : Rth.

  Notation dotp := (dotp F zero add mul).
  Notation conv_out := (conv_out F zero add mul).
  Notation affine := (affine F add mul).
  Notation sum := (sum F zero add).
  Notation scaled_w := (scaled_w F mul).
  Notation affine_conv_b := (affine_conv_b F zero add mul).
  Notation conv_affine_b := (conv_affine_b F add mul).

  Lemma dotp_scale : forall ws xs s, dotp (scaled_w ws s) xs = mul (dotp ws xs) s.
  Proof.
    induction ws as [|w ws IH]; intros xs s; simpl; [ring|].
    destruct xs as [|[v|] xs]; simpl; [ring| |]; rewrite IH; ring.
  Qed.

  (* Conv followed by a scalar affine map: every convolution (any pads, strides, dilations, groups, rank) *)
  Theorem conv_affine_sound : forall ws b xs s o,
    affine s o (conv_out ws b xs) = conv_out (scaled_w ws s) (conv_affine_b b s o) xs.
  Proof.
    intros. unfold ConvAffine.affine, ConvAffine.conv_out, ConvAffine.conv_affine_b. rewrite dotp_scale. ring.
  Qed.

  (* scalar affine map followed by Conv: only when no kernel tap falls into the padding *)
  Theorem affine_conv_sound : forall ws b xs s o, (length ws <= length xs)%nat ->
    conv_out ws b (map (fun v => Some (affine s o v)) xs) =
    conv_out (scaled_w ws s) (affine_conv_b ws b o) (map Some xs).
  Proof.
    intros ws b xs s o. revert xs. unfold ConvAffine.conv_out, ConvAffine.affine_conv_b.
    induction ws as [|w ws IH]; intros xs L; simpl.
    - ring.
    - destruct xs as [|v xs]; simpl in L; [lia|]. simpl.
      assert (L' : (length ws <= length xs)%nat) by lia.
      specialize (IH xs L'). unfold ConvAffine.affine in *.
      transitivity (add (add (mul w (add (mul v s) o)) (ConvAffine.dotp F zero add mul ws (map (fun v0 => Some (add (mul v0 s) o)) xs))) b); [reflexivity|].
      replace (add (add (mul w (add (mul v s) o)) (ConvAffine.dotp F zero add mul ws (map (fun v0 => Some (add (mul v0 s) o)) xs))) b)
         with (add (mul w (add (mul v s) o)) (add (ConvAffine.dotp F zero add mul ws (map (fun v0 => Some (add (mul v0 s) o)) xs)) b)) by ring.
      rewrite IH. ring.
  Qed.
End CRing.

(* a tap inside the padding sees 0, not `offset`: with padding the fusion is wrong (this is why the pattern pins pads) *)
Theorem affine_conv_padding_refuted : exists ws b s o,
  conv_out Z 0 Z.add Z.mul ws b [None] <>
  conv_out Z 0 Z.add Z.mul (scaled_w Z Z.mul ws s) (affine_conv_b Z 0 Z.add Z.mul ws b o) [None].
Proof. exists [1], 0, 1, 1. vm_compute. discriminate. Qed.

(* ---------------------------------------------------------------- shape of the fused bias b[M]*scale + offset *)

Lemma bcast_rev_ones : forall r M, bcast_rev [M] (repeat 1 r) = match r with O => [M] | S r' => M :: repeat 1 r' end.
Proof. destruct r; intros; simpl; [reflexivity|]. destruct (M =? 1) eqn:E; [apply Z.eqb_eq in E; subst|]; reflexivity. Qed.

Lemma rev_repeat : forall (A : Type) (a : A) n, rev (repeat a n) = repeat a n.
Proof.
  induction n; simpl; auto. rewrite IHn. clear. induction n; simpl; auto. rewrite IHn. reflexivity.
Qed.

Theorem bias_times_singleton_shape : forall M r,
  bcast [M] (ones r) = repeat 1 (r - 1) ++ [M].
Proof.
  intros. unfold bcast, ones. rewrite rev_repeat. change (rev [M]) with [M]. rewrite bcast_rev_ones.
  destruct r; [reflexivity|]. cbn [rev]. rewrite rev_repeat. cbn [Nat.sub]. rewrite Nat.sub_0_r. reflexivity.
Qed.

Lemma bcast_rev_tail_ones : forall r r2 M, bcast_rev (M :: repeat 1 r) (repeat 1 r2) = M :: repeat 1 (Nat.max r (r2 - 1)).
Proof.
  intros. destruct r2; simpl; [rewrite Nat.max_0_r; reflexivity|].
  assert (H : forall a b, bcast_rev (repeat 1 a) (repeat 1 b) = repeat 1 (Nat.max a b)).
  { induction a; destruct b; simpl; auto. rewrite IHa. reflexivity. }
  rewrite H, Nat.sub_0_r. destruct (M =? 1) eqn:E; [apply Z.eqb_eq in E; subst|]; reflexivity.
Qed.

(* the bias emitted by ConvAffineFusion as read has rank max(1, rank scale, rank offset): a valid Conv bias iff both <= 1 *)
Theorem conv_affine_bias_rank : forall M rs ro,
  length (bcast (bcast [M] (ones rs)) (ones ro)) = Nat.max 1 (Nat.max rs ro).
Proof.
  intros. rewrite bias_times_singleton_shape. unfold bcast, ones.
  rewrite rev_app_distr, !rev_repeat. change (rev [M]) with [M]. cbn [app].
  rewrite bcast_rev_tail_ones. rewrite rev_length. cbn [length]. rewrite repeat_length. lia.
Qed.

Theorem conv_affine_bias_rank_refuted : exists M rs ro,
  length (bcast (bcast [M] (ones rs)) (ones ro)) <> 1%nat.
Proof. exists 3, 4%nat, 0%nat. vm_compute. discriminate. Qed.

Theorem ca_fixed_rank_one : forall p out, ca_rule true p = Some out -> snd out = 1%nat /\
  (scale_rank p <= length (cw_shape p))%nat /\ (offset_rank p <= length (cw_shape p))%nat.
Proof.
  unfold ca_rule, ca_check. intros p out H.
  destruct (consts_ok p); [|discriminate].
  destruct (match ck p with AffineConv => pads_attr_zero4 p | ConvAffine => true end); [|discriminate].
  cbn [andb] in H.
  destruct (scale_rank p <=? length (cw_shape p))%nat eqn:A; [|discriminate].
  destruct (offset_rank p <=? length (cw_shape p))%nat eqn:B; [|discriminate].
  cbn in H. inversion H; subst. cbn. apply Nat.leb_le in A. apply Nat.leb_le in B. auto.
Qed.
