(* C10 -- the nodes built by the three registered adapters are valid under the schema of the version they are stamped
   with (and, re-stamped, under every later supported version), given the typing of the node they replace. *)
From Coq Require Import ZArith List Bool String Lia.
Import ListNotations.
Require Import OV.Gen.VersionTables OV.Gen.VersionSchemas OV.Version.Model OV.Version.Adapters OV.Version.Schema
               OV.Version.Std OV.Version.StdProofs OV.Version.SchemaProofs OV.Version.SchemaStd OV.Version.SchemaStdProofs.
Local Open Scope Z_scope.

Ltac split_in H := vm_compute in H; repeat (destruct H as [<-|H]); try contradiction.

(* ---------------------------------------------------------------- DFT 19 -> 20 *)
Theorem dft_replacement_valid : forall fx n news t0 t1,
  dft_19_20 fx n = AReplace news -> present 0 n = true ->
  In t0 (in_types "DFT" 19 0) -> In t1 (in_types "DFT" 19 1) ->
  valid_list 20 news (dft_infos t0 t1) = true.
Proof.
  intros fx n news t0 t1 H Hp Ht0 Ht1. unfold dft_19_20 in H. unfold present in *.
  destruct (n_ins n) as [|b0 r] eqn:Ei; [discriminate|]. cbn in Hp. subst b0.
  destruct (get_int n "axis" (if fx_dft_axis fx then Some 1 else None)) as [a|]; [|discriminate].
  injection H as <-.
  destruct (get_int n "inverse" (Some 0)), (get_int n "onesided" (Some 0));
    destruct r as [|[] r']; split_in Ht0; split_in Ht1; vm_compute; reflexivity.
Qed.

(* ---------------------------------------------------------------- GridSample 19 -> 20 *)
Theorem gridsample_replacement_valid : forall n news tx tg,
  gridsample_19_20 n = AReplace news -> present 0 n = true -> present 1 n = true ->
  In tx (in_types "GridSample" 19 0) -> In tg (in_types "GridSample" 19 1) ->
  valid_list 20 news (gs_infos tx tg) = true.
Proof.
  intros n news tx tg H H0 H1 Hx Hg. unfold gridsample_19_20 in H. unfold present in *.
  destruct (n_ins n) as [|b0 [|b1 r]] eqn:Ei; try discriminate. cbn in H0, H1. subst b0 b1.
  destruct (get_str n "mode" (Some "linear"%string)) as [m|]; [|discriminate].
  destruct (gs_rename m) as [m'|] eqn:Em; [|discriminate]. injection H as <-.
  assert (Hm : m' = "linear"%string \/ m' = "cubic"%string).
  { unfold gs_rename in Em. destruct (String.eqb m "bilinear"); [inversion Em; auto|].
    destruct (String.eqb m "bicubic"); [inversion Em; auto|discriminate]. }
  destruct (get_int n "align_corners" (Some 0)), (get_str n "padding_mode" (Some "zeros"%string));
    destruct Hm as [-> | ->]; split_in Hx; split_in Hg; vm_compute; reflexivity.
Qed.

(* ---------------------------------------------------------------- GroupNormalization 20 -> 21 *)
Theorem groupnorm_replacement_valid : forall fx n g d T,
  (forall v, lookup "epsilon" (n_attrs n) = Some v -> exists b, v = AFlt b) ->
  In T (in_types "GroupNormalization" 20 0) ->
  valid_list 21 (gn_new_nodes fx n g d) (gn_infos T) = true.
Proof.
  intros fx n g d T He HT. unfold gn_new_nodes.
  destruct (fx_gn_eps fx); [destruct (lookup "epsilon" (n_attrs n)) as [v|] eqn:El;
    [destruct (He v eq_refl) as [b ->]|]|]; split_in HT; vm_compute; reflexivity.
Qed.

(* ---------------------------------------------------------------- re-stamped up to any later supported version *)
Lemma valid_list_restamp : forall v t ns infos,
  valid_list v ns infos = true -> ops_quiet_clear v t ns = true -> v <= t ->
  valid_list t ns infos = true.
Proof.
  intros v t ns infos H Hq Hvt. unfold valid_list in *. apply andb_true_iff in H as [Hl H]. rewrite Hl. cbn.
  rewrite forallb_forall in *. intros [m i] Hin. specialize (H _ Hin). cbn [fst snd] in *.
  unfold ops_quiet_clear in Hq. rewrite forallb_forall in Hq.
  specialize (Hq m (in_combine_l _ _ _ _ Hin)). apply andb_true_iff in Hq as [Hq1 Hq2].
  eapply (restamped_valid m m i v t); eauto.
Qed.

Theorem dft_converted_valid : forall fx n news t0 t1 t,
  dft_19_20 fx n = AReplace news -> present 0 n = true ->
  In t0 (in_types "DFT" 19 0) -> In t1 (in_types "DFT" 19 1) -> 20 <= t ->
  valid_list t news (dft_infos t0 t1) = true.
Proof.
  intros fx n news t0 t1 t H Hp H0 H1 Ht. eapply valid_list_restamp; [eapply dft_replacement_valid; eauto| |exact Ht].
  unfold dft_19_20 in H. destruct (n_ins n); [discriminate|].
  destruct (get_int n "axis" _); [|discriminate]. injection H as <-. reflexivity.
Qed.

Theorem gridsample_converted_valid : forall n news tx tg t,
  gridsample_19_20 n = AReplace news -> present 0 n = true -> present 1 n = true ->
  In tx (in_types "GridSample" 19 0) -> In tg (in_types "GridSample" 19 1) -> 20 <= t ->
  valid_list t news (gs_infos tx tg) = true.
Proof.
  intros n news tx tg t H H0 H1 Hx Hg Ht.
  eapply valid_list_restamp; [eapply gridsample_replacement_valid; eauto| |exact Ht].
  unfold gridsample_19_20 in H. destruct (n_ins n) as [|? [|? ?]]; try discriminate.
  destruct (get_str n "mode" _); [|discriminate]. destruct (gs_rename s); [|discriminate]. injection H as <-. reflexivity.
Qed.

Theorem groupnorm_converted_valid : forall fx n g d T t,
  (forall v, lookup "epsilon" (n_attrs n) = Some v -> exists b, v = AFlt b) ->
  In T (in_types "GroupNormalization" 20 0) -> 21 <= t ->
  valid_list t (gn_new_nodes fx n g d) (gn_infos T) = true.
Proof.
  intros fx n g d T t He HT Ht. eapply valid_list_restamp; [eapply groupnorm_replacement_valid; eauto| |exact Ht].
  reflexivity.
Qed.

(* hypotheses satisfiable: float input, int64 dft_length; the old DFT node is valid at 19 with exactly this typing *)
Lemma dft_converted_example : exists news,
  dft_19_20 flags_fixed (Node "DFT" true None false [("onesided"%string, AInt 1)] [true; true] [] []) = AReplace news /\
  valid_at schema_table "DFT" 19 (vnode_of (Node "DFT" true None false [("onesided"%string, AInt 1)] [true; true] [] [])
                                           (NInfo ["tensor(float)"%string; i64] [Some "tensor(float)"%string] [])) = true /\
  In "tensor(float)"%string (in_types "DFT" 19 0) /\ In i64 (in_types "DFT" 19 1) /\
  valid_list 25 news (dft_infos "tensor(float)" i64) = true /\ List.length news = 2%nat.
Proof. eexists. vm_compute. repeat split; auto 10. Qed.

Lemma adapter_typing_nonvacuous :
  In "tensor(float)"%string (in_types "GridSample" 19 0) /\ In "tensor(float)"%string (in_types "GridSample" 19 1) /\
  In "tensor(float)"%string (in_types "GroupNormalization" 20 0) /\
  valid_list 25 (gn_new_nodes flags_fixed gn_static 2 3) (gn_infos "tensor(float)") = true.
Proof. vm_compute. intuition auto. Qed.

Lemma past_adapter_quiet_example :
  q_from 20 "DFT" = true /\ q_from 20 "GridSample" = true /\ q_from 20 "GroupNormalization" = false /\
  q_from 21 "GroupNormalization" = true /\ q_from 19 "DFT" = false /\ q_from 18 "Cast" = true.
Proof. vm_compute. repeat split; reflexivity. Qed.
