(* C07 property theorems: as_function extraction, WHICH values may be copied into the function body
   (_rewrite_rule.py::_copy_for_function).  A value with a const_value that is a GRAPH INPUT (an initializer also listed in
   graph.input: a default the caller may override) must never be copied: side condition FnConstIn.copied_not_inputs_okb,
   evaluated by harness/c07.py on every traced extraction (events_copied_okb / mevents_copied_okb over the graph inputs of
   the container); hosts with overridable inputs are run on onnxruntime / onnx.reference with default AND overriding feeds.
   Not covered: copied values produced by a Constant NODE before the match (copied_stable_okb excludes values defined in
   `pre`; the traced condition only excludes graph inputs).
   Statements only, each closed by `exact`; Print Assumptions beneath. *)
From Coq Require Import List String ZArith Bool.
Require Import OV.Graph.Syntax OV.Graph.Sem OV.Graph.Names OV.Graph.SemProofs.
Require Import OV.Rewrite.Apply OV.Rewrite.FnCall OV.Rewrite.State OV.Rewrite.FnConst OV.Rewrite.FnConstSemProofs
               OV.Rewrite.FnConstIn OV.Rewrite.FnConstInProofs.
Import ListNotations.

(* the whole graph, EVERY argument list (overriding ones included): the call of the extracted function in place of the matched
   segment evaluates like the original when no copied value is a graph input or defined before the match and the enclosing
   environment (the initializers) binds each copied value to what its Constant produces.  The environment hypothesis of
   C07_as_function_with_constants_sound is gone *)
Theorem C07_as_function_copied_initializers_sound :
  forall V sem truth trip of_nat of_bool limit cmap fuel f dom op attrs ins cattrs M outs X cvs outer gi gn pre suf gouts args,
    (forall ws, sem dom op attrs (map Some ws)
                = eval_graph V sem truth trip of_nat of_bool limit (S f) [] (fn_graph ins (fn_body cmap cattrs M) outs) ws) ->
    extract_const_okb dom op ins cmap cattrs M outs = true ->
    copied_stable_okb gi pre cmap = true ->
    subset ins (free_reads [] M) = true -> subset outs (defs_nodes M) = true ->
    Forall2 (fun ca v => sem ""%string "Constant"%string (snd ca) [] = Some [v]) (combine cmap cattrs) cvs ->
    consts_bound V cmap cattrs cvs outer ->
    (forall x, In x (defs_nodes M) -> ~ In x outs -> In x X) ->
    disjoint X (names_nodes suf) -> disjoint X gouts ->
    eval_graph V sem truth trip of_nat of_bool limit (S fuel) outer (Graph gi gn (pre ++ M ++ suf) gouts) args
    = eval_graph V sem truth trip of_nat of_bool limit (S fuel) outer
                 (Graph gi gn (pre ++ [call_of dom op attrs ins outs] ++ suf) gouts) args.
Proof. exact as_function_const_inits_sound. Qed.
Print Assumptions C07_as_function_copied_initializers_sound.

Theorem C07_copied_values_are_not_graph_inputs : forall gi cmap,
  copied_not_inputs_okb gi cmap = true -> forall t, In t (map fst cmap) -> ~ In t gi.
Proof. exact copied_not_inputs_sound. Qed.
Print Assumptions C07_copied_values_are_not_graph_inputs.

Theorem C07_copied_stable_implies_not_inputs : forall gi pre cmap,
  copied_stable_okb gi pre cmap = true -> copied_not_inputs_okb gi cmap = true.
Proof. exact copied_stable_splits. Qed.
Print Assumptions C07_copied_stable_implies_not_inputs.

(* necessity: a copied graph input with default 2 -- the invariant holds with no argument and fails when the caller passes 5 *)
Theorem C07_copied_graph_input_refuted :
  let cmap := [("w", "c")]%string in
  let cattrs := [[("value", AStr "2")]]%string in
  copied_not_inputs_okb ["w"%string] cmap = false /\
  consts_bound nat cmap cattrs [2] [("w"%string, 2)] /\
  (forall e0, bind ["w"%string] [5] [("w"%string, 2)] = Some e0 -> ~ consts_bound nat cmap cattrs [2] e0).
Proof. exact copied_input_refuted. Qed.
Print Assumptions C07_copied_graph_input_refuted.
