(* Further stages of optimize_ir as model transformers over (graph, initializer table) (Opt/PipelineProofs.v: imodel), linked
   to what other properties prove:
     fold      = Opt/Fold.v fold_graph started from the state that knows the table's values (C03's own theorem),
     rewrite   = the node iteration of Rewrite/Apply.v (C07: sweep over first_rule) with every proposal guarded by C07's executable
                 side conditions; a rule proposes an application together with the names X it may clobber,
     namefix   = Rewrite/NameFix.v (C07),
     outputfix = onnx_ir OutputFixPass on the main graph: an output listed again gets  x_alias_i = Identity(x)  appended,
     unused functions = a table of function identifiers, those not reachable from the graph's calls are dropped.
   No proofs in this file. *)
From Coq Require Import List String ZArith Bool.
Require Import OV.Graph.Syntax OV.Graph.Names OV.Opt.Fold OV.Opt.Inits OV.Opt.Pipeline OV.Rewrite.Apply OV.Rewrite.NameFix.
Import ListNotations.
Local Open Scope string_scope.

(* ---- rewrite: a rule looks at the node list and a root position and proposes (application, clobbered names) *)
Definition rule := list node -> nat -> option (app * list vname).
Definition guarded (outs : list vname) (r : rule) : list node -> nat -> option app :=
  fun ns i => match r ns i with
              | Some (a, X) => if side_okb a ns outs X then Some a else None
              | None => None
              end.
Definition rewrite_nodes (fuel : nat) (rules : list rule) (outs : list vname) (ns : list node) : option (list node * list app) :=
  sweep fuel (first_rule (map (guarded outs) rules)) 0 ns [].

(* ---- OutputFix, duplicated outputs of the main graph *)
Definition alias_name (x : vname) (i : nat) : vname := x ++ "_alias_" ++ nat_to_string i.
Fixpoint fix_dup_outs (i : nat) (seen : list vname) (outs : list vname) : list vname * list node :=
  match outs with
  | [] => ([], [])
  | x :: t =>
    if mem x seen then
      let '(o', ns) := fix_dup_outs (S i) seen t in
      (alias_name x i :: o', Node "" "Identity" [Some x] [alias_name x i] [] [] :: ns)
    else let '(o', ns) := fix_dup_outs (S i) (x :: seen) t in (x :: o', ns)
  end.
(* the real pass appends the Identity nodes in output order; fresh = the alias names occur nowhere in the graph *)
Definition output_fix (g : graph) : option graph :=
  let 'Graph gi ii ns go := g in
  let '(go', news) := fix_dup_outs 0 [] go in
  if forallb (fun n => forallb (fun y => negb (mem y (names_graph g))) (n_outs n)) news && nodupb (flat_map n_outs news)
  then Some (Graph gi ii (ns ++ news) go') else None.

(* ---- RemoveUnusedFunctions over a table (identifier, body): keep what is reachable from the calls of the main graph *)
Definition fid := (string * string)%type.
Definition fid_eqb (a b : fid) : bool := String.eqb (fst a) (fst b) && String.eqb (snd a) (snd b).
Fixpoint calls_node (d : nat) (n : node) : list fid :=
  match d with
  | O => []
  | S d' => (n_dom n, n_op n) :: flat_map (fun kg => flat_map (calls_node d') (g_nodes (snd kg))) (n_subs n)
  end.
Definition calls_graph (g : graph) : list fid := flat_map (calls_node (depth_graph g)) (g_nodes g).
Definition ftab := list (fid * graph).
Fixpoint reach (fuel : nat) (ft : ftab) (used : list fid) (work : list fid) : list fid :=
  match fuel with
  | O => used
  | S f =>
    match work with
    | [] => used
    | c :: w =>
      if existsb (fid_eqb c) used then reach f ft used w
      else match find (fun e => fid_eqb (fst e) c) ft with
           | Some (_, body) => reach f ft (c :: used) (calls_graph body ++ w)%list
           | None => reach f ft used w
           end
    end
  end.
Definition remove_unused_functions (g : graph) (ft : ftab) : ftab :=
  let used := reach (S (List.length ft) * S (List.length (calls_graph g) + List.length (flat_map (fun e => calls_graph (snd e)) ft))) ft [] (calls_graph g) in
  filter (fun e => existsb (fid_eqb (fst e)) used) ft.
