"""C14 implementation runner: executed as a subprocess (common.run_impl) with PYTHONPATH=$OSVERIF_REPO and a given
PYTHONHASHSEED.  stdin: {"ops": [op ids]} ; stdout (last line): {"results": [...]} -- one entry per op, in order.
Every op runs in this one process, so op k has ops 0..k-1 as its history."""
import hashlib
import json
import os
import sys
import warnings

warnings.filterwarnings("ignore")
sys.path.insert(0, os.path.dirname(os.path.abspath(__file__)))


def install_field_trace():
    """Log every read/write of an instance attribute of a RewriteRuleClassBase object, grouped by match attempt
    (one RewriteRule.try_rewrite call = check() and possibly rewrite())."""
    from onnxscript.rewriter import _rewrite_rule as rr
    attempts = []

    def cname(obj):
        t = type(obj)
        mod = t.__module__
        if mod.startswith("onnxscript.rewriter."):
            mod = mod[len("onnxscript.rewriter."):]
        return mod.replace(".", "/") + ":" + t.__name__

    def ga(self, name):
        try:
            v = object.__getattribute__(self, name)
        except AttributeError:
            if attempts and not name.startswith("__"):
                attempts[-1].setdefault(cname(self), []).append(["R", name])
            raise
        if attempts and not name.startswith("__") and name in object.__getattribute__(self, "__dict__"):
            attempts[-1].setdefault(cname(self), []).append(["R", name])
        return v

    def sa(self, name, value):
        if attempts:
            attempts[-1].setdefault(cname(self), []).append(["W", name])
        object.__setattr__(self, name, value)

    rr.RewriteRuleClassBase.__getattribute__ = ga
    rr.RewriteRuleClassBase.__setattr__ = sa
    orig = rr.RewriteRule.try_rewrite

    def try_rewrite(self, *a, **k):
        if not attempts or attempts[-1]:
            attempts.append({})
        return orig(self, *a, **k)

    rr.RewriteRule.try_rewrite = try_rewrite
    return attempts


def main():
    payload = json.loads(sys.stdin.read())
    trace = install_field_trace() if payload.get("trace_fields") else None
    import c14_ops  # noqa: E402  (imports onnxscript from PYTHONPATH)
    import onnx
    out = []
    for oid in payload["ops"]:
        entry = {"id": oid}
        try:
            res = c14_ops.OPS[oid]()
            entry["ok"] = True
            entry["sha"] = {k: hashlib.sha256(v).hexdigest()[:24] for k, v in sorted(res.items())}
            if payload.get("want_bytes") and "function" in res:
                entry["function_hex"] = res["function"].hex()
            if payload.get("want_bytes") and "model" in res and not oid.startswith("s_") and len(res["model"]) < 20000:
                entry["model_hex"] = res["model"].hex()
            obs = {k: v.decode()[:300] for k, v in res.items() if k.startswith(("eager_", "proto_", "obs_"))}
            if obs:
                entry["obs"] = obs
            if "flag" in res:
                entry["flag"] = res["flag"].decode()
            if "model" in res and not oid.startswith("s_"):
                m = onnx.ModelProto()
                m.ParseFromString(res["model"])
                entry["optypes"] = [n.op_type for n in m.graph.node]
        except BaseException as e:  # the op failed: its result is the exception class
            if isinstance(e, (KeyboardInterrupt, SystemExit, MemoryError)):
                raise
            entry["ok"] = False
            entry["err"] = type(e).__name__
            entry["msg"] = str(e)[:200]
        out.append(entry)
    import onnxscript
    if trace is not None:
        print(json.dumps({"results": out, "trace": [a for a in trace if a], "hashseed": os.environ.get("PYTHONHASHSEED"),
                          "repo": os.path.dirname(os.path.dirname(onnxscript.__file__))}))
        return
    print(json.dumps({"results": out, "hashseed": os.environ.get("PYTHONHASHSEED"), "repo": os.path.dirname(os.path.dirname(onnxscript.__file__))}))


if __name__ == "__main__":
    main()
