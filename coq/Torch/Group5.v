(* C08 (fifth group of families) -- spec (PyTorch), ONNX operators and the compositions emitted by
     aten_select_scatter, aten_slice_scatter, aten_repeat_interleave_self_int, aten_repeat_interleave_Tensor (core.py),
     aten_pixel_shuffle, aten_pixel_unshuffle, aten_max_dim, aten_min_dim, aten_atleast_1d / _2d / _3d (core.py),
     aten_reflection_pad1d / 2d / 3d, aten_replication_pad1d / 2d / 3d, aten_group_norm, aten_glu (nn.py), aten_native_group_norm (core.py).
   `None` = the operator document calls the node invalid / tracing raises (aten side), PyTorch raises (torch side).
   No proofs in this file. *)
From Coq Require Import ZArith List Bool String.
Require Import OV.Torch.Onnx OV.Torch.Onnx2 OV.Torch.Onnx3 OV.Torch.Spec OV.Torch.Spec2 OV.Torch.Aten OV.Torch.Aten2.
Import ListNotations.
Local Open Scope string_scope.
Local Open Scope Z_scope.

Definition dflt (d : Z) (o : option Z) : Z := match o with Some v => v | None => d end.

(* Shape-15 with start / end attributes: a negative value counts from the back, both are clamped into [0, rank] *)
Definition shape_slice (s : list Z) (start end_ : Z) : list Z :=
  let r := zlen s in
  let cl := fun v => clampZ 0 r (if v <? 0 then v + r else v) in
  take (cl end_ - cl start) (drop (cl start) s).
(* Range(a, b, 1) on integers *)
Definition range_list (a b : Z) : list Z := map (fun i => a + i) (iota (b - a)).

(* ================================================================== along one axis (slab type arbitrary) *)
Section Axis5.
Context {A : Type}.

(* ------------------------------------------------------------------ aten_select_scatter(self, src, dim, index):
     update = Unsqueeze(src, axes=[dim]); indices = Expand(index, Shape(update)); ScatterElements(self, indices, update, axis=dim).
   ScatterElements-18 (reduction none) along the axis when every entry of `indices` is i and `updates` has extent 1 there:
   slab i (in [-n, n-1], negative counts from the back) is replaced by the update *)
Definition put_at (xs : list A) (p : Z) (u : A) : list A := (take p xs ++ u :: drop (p + 1) xs)%list.
Definition scatter_elements_const (xs : list A) (i : Z) (u : A) : option (list A) :=
  let n := zlen xs in
  if (- n <=? i) && (i <? n) then Some (put_at xs (if i <? 0 then i + n else i) u) else None.
(* r = rank of self; Unsqueeze's axis refers to its output rank r, ScatterElements' axis to rank r: both accept [-r, r-1] *)
Definition aten_select_scatter (r dim : Z) (xs : list A) (u : A) (index : Z) : option (Z * list A) :=
  obind (norm_axis r dim) (fun a => obind (scatter_elements_const xs index u) (fun ys => Some (a, ys))).
(* torch.select_scatter: dim wrapped (rank >= 1), index in [-n, n) *)
Definition torch_select_scatter (r dim : Z) (xs : list A) (u : A) (index : Z) : option (Z * list A) :=
  obind (torch_axis r dim) (fun a =>
    let n := zlen xs in
    if (- n <=? index) && (index <? n) then Some (a, put_at xs (if index <? 0 then index + n else index) u) else None).

(* ------------------------------------------------------------------ aten_slice_scatter(self, src, dim, start, end, step):
     index_base = Unsqueeze(Slice(Range(0, Shape(self)[dim], 1), start | 0, end | INT64_MAX, axes 0, step), -1);
     if dim != 0 (and src has rank >= 1): dims = list(range(rank)); dims[0], dims[dim] = dims[dim], dims[0];
        self, src = Transpose(self, dims), Transpose(src, dims);
     output = ScatterND(self, index_base, src); transposed back with the same perm.
   python list indexing: dim in [-rank, rank - 1], IndexError otherwise *)
Definition swap0_perm (r dim : Z) : option (list Z) :=
  obind (norm_axis r dim) (fun d => Some (map (fun i => if i =? 0 then d else if i =? d then 0 else i) (iota r))).
(* ScatterND-18 with indices of shape [k, 1] on the first axis: row indices[j] := updates[j], in order; the shapes must fit *)
Fixpoint scatter_rows (xs : list A) (pos : list Z) (us : list A) : option (list A) :=
  match pos, us with
  | [], [] => Some xs
  | p :: pos', u :: us' => if (0 <=? p) && (p <? zlen xs) then scatter_rows (put_at xs p u) pos' us' else None
  | _, _ => None
  end.
Definition aten_slice_scatter (r dim : Z) (xs us : list A) (start end_ : option Z) (step : Z) : option (Z * list A) :=
  obind (norm_axis r dim) (fun a =>                                         (* Gather(Shape(self), dim) *)
  obind (slice_axis (iota (zlen xs)) (dflt 0 start) (dflt INT64_MAX end_) step) (fun pos =>
  obind (if dim =? 0 then Some [] else swap0_perm r dim) (fun p =>
  if (dim =? 0) || is_perm r p then obind (scatter_rows xs pos us) (fun ys => Some (a, ys)) else None))).
(* torch.slice_scatter: the slabs that self.slice(dim, start, end, step) selects are replaced by the slabs of src, which must be as many *)
Definition torch_slice_scatter (r dim : Z) (xs us : list A) (start end_ : option Z) (step : Z) : option (Z * list A) :=
  obind (torch_axis r dim) (fun a =>
  obind (torch_slice (iota (zlen xs)) start end_ step) (fun pos =>
  obind (scatter_rows xs pos us) (fun ys => Some (a, ys)))).
End Axis5.

Definition skel_select_scatter (dim index : Z) : skel :=
  [("Unsqueeze", [[dim]]); ("Shape", [[0]]); ("Expand", [[index]]); ("ScatterElements", [[dim]])].
Definition skel_slice_scatter (r dim : Z) (start end_ : option Z) (step : Z) : skel :=
  ([("Shape", [[0]]); ("Gather", [[0]; [dim]]); ("Range", [[0]; [1]])]
   ++ (match start with Some v => [("Unsqueeze", [[v]; [0]])] | None => [] end)
   ++ (match end_ with Some v => [("Unsqueeze", [[v]; [0]])] | None => [] end)
   ++ [("Unsqueeze", [[step]; [0]]);
       ("Slice", ((match start with Some _ => [] | None => [[0]] end) ++ (match end_ with Some _ => [] | None => [[INT64_MAX]] end) ++ [[0]])%list);
       ("Unsqueeze", [[-1]])]
   ++ (if dim =? 0 then [("ScatterND", [])]
       else match swap0_perm r dim with
            | Some p => [("Transpose", [p]); ("Transpose", [p]); ("ScatterND", []); ("Transpose", [p])]
            | None => []
            end))%list.

(* ================================================================== aten_repeat_interleave_self_int(self, repeats: int, dim):
     dim None: self = Reshape(self, [-1]); dim = 0; rank = 1
     pos_dim = (dim + rank) % rank                              (python %: ZeroDivisionError for rank 0)
     tiled = Expand(Unsqueeze(self, [pos_dim + 1]), tiles)      tiles = [1] * (rank + 1); tiles[pos_dim + 1] = repeats
     Reshape(tiled, Concat(Shape(self, start=0, end=dim), [-1], Shape(self, start=pos_dim + 1)))       (allowzero = 0) *)
Definition ri_tiles (r pos k : Z) : list Z := (repeat 1 (Z.to_nat (pos + 1)) ++ k :: repeat 1 (Z.to_nat (r - pos - 1)))%list.
Definition aten_repeat_interleave_int_shape (s : list Z) (k : Z) (dim : option Z) : option (list Z) :=
  let '(s1, d, r) := match dim with None => ([prodZ s], 0, 1) | Some d => (s, d, zlen s) end in
  if r =? 0 then None
  else
    let pos := (d + r) mod r in
    obind (unsqueeze_axes s1 [pos + 1]) (fun u =>
    obind (expand_shape u (ri_tiles r pos k)) (fun t =>
      reshape_shape t (shape_slice s1 0 d ++ [-1] ++ shape_slice s1 (pos + 1) r)%list false)).
(* torch.repeat_interleave(self, int repeats, dim): every slab along dim repeated; dim None flattens; a 0-d self takes no dim *)
Definition torch_repeat_interleave_int_shape (s : list Z) (k : Z) (dim : option Z) : option (list Z) :=
  if k <? 0 then None
  else match dim with
       | None => Some [prodZ s * k]
       | Some d => if zlen s =? 0 then None
                   else obind (wrap_dim (zlen s) d) (fun a => obind (nthZ s a) (fun n => Some (replace_at s a (n * k))))
       end.
Definition skel_repeat_interleave_int (s : list Z) (k : Z) (dim : option Z) : skel :=
  let '(d, r) := match dim with None => (0, 1) | Some d => (d, zlen s) end in
  let pos := (d + r) mod r in
  ((match dim with None => [("Reshape", [[0]; [-1]])] | Some _ => [] end)
   ++ [("Unsqueeze", [[pos + 1]]); ("Expand", [ri_tiles r pos k]); ("Shape", [[d]; [0]]); ("Shape", [[pos + 1]]);
       ("Concat", [[0]; [-1]]); ("Reshape", [[0]])])%list.

(* ================================================================== aten_repeat_interleave_Tensor, registered for
   aten::repeat_interleave.Tensor(Tensor repeats): self = Range(0, n); ci = CumSum(repeats); trange = Range(0, ci[-1]);
   rows = Less(trange, Unsqueeze(ci, -1)); srows = n - ReduceSum(Cast(rows), axis 0); GatherND(self, srows) *)
Fixpoint cumsum_z (acc : Z) (l : list Z) : list Z :=
  match l with [] => [] | x :: t => (acc + x) :: cumsum_z (acc + x) t end.
Definition count_gt (j : Z) (ci : list Z) : Z := zlen (filter (fun c => j <? c) ci).
Definition last_opt {A} (l : list A) : option A := match rev l with x :: _ => Some x | [] => None end.
Definition repeat_interleave_indices (reps : list Z) : option (list Z) :=
  let ci := cumsum_z 0 reps in
  option_map (fun total => map (fun j => zlen reps - count_gt j ci) (iota total)) (last_opt ci).   (* Gather(ci, [-1]) needs an element *)
Definition aten_repeat_interleave_tensor (reps : list Z) : option (list Z) :=
  obind (repeat_interleave_indices reps) (fun idx => gather_axis (iota (zlen reps)) idx).
(* torch.repeat_interleave(repeats): index i repeated repeats[i] times; negative counts are refused *)
Fixpoint ri_from (b : Z) (reps : list Z) : list Z :=
  match reps with [] => [] | r :: t => (repeat b (Z.to_nat r) ++ ri_from (b + 1) t)%list end.
Definition torch_repeat_interleave_tensor (reps : list Z) : option (list Z) :=
  if existsb (fun r => r <? 0) reps then None else Some (ri_from 0 reps).
Definition skel_repeat_interleave_tensor : skel :=
  [("Shape", [[-1]]); ("Squeeze", [[0]]); ("Range", [[0]; [1]]); ("Reshape", [[0]; [-1]]); ("Reshape", [[0]; [-1; 1]]);
   ("CumSum", [[0]; [0]; [0]]); ("Gather", [[0]; [-1]]); ("Squeeze", [[0]]); ("Range", [[0]; [1]]); ("Unsqueeze", [[-1]]); ("Less", []);
   ("Shape", [[1]; [0]]); ("Cast", [[7]]); ("ReduceSum", [[1]; [0]; [0]]); ("Sub", []); ("Reshape", [[0]; [-1]]); ("Unsqueeze", [[-1]]);
   ("GatherND", [[0]]); ("Reshape", [[0]; [-1]])].

(* ================================================================== aten_pixel_shuffle / aten_pixel_unshuffle
   DepthToSpace-13 (CRD or DCR): [N, C, H, W] -> [N, C / b^2, H * b, W * b], C divisible by b^2 *)
Definition depth_to_space_shape (s : list Z) (b : Z) : option (list Z) :=
  match s with
  | [n; c; h; w] => if (0 <? b) && (c mod (b * b) =? 0) then Some [n; c / (b * b); h * b; w * b] else None
  | _ => None
  end.
(* rank 4: DepthToSpace; otherwise Reshape(self, [-1] ++ Shape(self, start=-3)); DepthToSpace;
   Reshape(., Shape(self, end=-3) ++ Shape(., start=1), allowzero=1) *)
Definition aten_pixel_shuffle_shape (s : list Z) (r : Z) : option (list Z) :=
  if zlen s =? 4 then depth_to_space_shape s r
  else obind (reshape_shape s (-1 :: shape_slice s (-3) (zlen s)) false) (fun s4 =>
       obind (depth_to_space_shape s4 r) (fun d =>
         reshape_shape d (shape_slice s 0 (-3) ++ drop 1 d)%list true)).
(* torch.pixel_shuffle: [.., C * r^2, H, W] -> [.., C, H * r, W * r] *)
Definition torch_pixel_shuffle_shape (s : list Z) (r : Z) : option (list Z) :=
  if (zlen s <? 3) || (r <=? 0) then None
  else match drop (zlen s - 3) s with
       | [c; h; w] => if c mod (r * r) =? 0 then Some (take (zlen s - 3) s ++ [c / (r * r); h * r; w * r])%list else None
       | _ => None
       end.
Definition skel_pixel_shuffle (s : list Z) (r : Z) : skel :=
  if zlen s =? 4 then [("DepthToSpace", [[r]])]
  else [("Shape", [[-3]; [0]]); ("Shape", [[-3]]); ("Concat", [[0]; [-1]]); ("Reshape", [[0]]); ("DepthToSpace", [[r]]);
        ("Shape", [[1]]); ("Concat", [[0]]); ("Reshape", [[1]])].
(* aten_pixel_unshuffle: Reshape to 4-D as above; h = Div(H, r), w = Div(W, r) (integer Div truncates);
   Reshape [-1, C, h, r, w, r]; Transpose perm [0, 1, 3, 5, 2, 4]; Reshape [-1, C * r * r, h, w]; Reshape to batch dims (allowzero=1) *)
Definition aten_pixel_unshuffle_shape (s : list Z) (r : Z) : option (list Z) :=
  obind (reshape_shape s (-1 :: shape_slice s (-3) (zlen s)) false) (fun s4 =>
  match s4 with
  | [_; c; hr; wr] =>
    if r =? 0 then None
    else let h := Z.quot hr r in let w := Z.quot wr r in
         obind (reshape_shape s4 [-1; c; h; r; w; r] false) (fun s6 =>
         obind (transpose_shape s6 (Some [0; 1; 3; 5; 2; 4])) (fun t6 =>
         obind (reshape_shape t6 [-1; c * (r * r); h; w] false) (fun o4 =>
           reshape_shape o4 (shape_slice s 0 (-3) ++ drop 1 o4)%list true)))
  | _ => None
  end).
(* torch.pixel_unshuffle: [.., C, H * r, W * r] -> [.., C * r^2, H, W] *)
Definition torch_pixel_unshuffle_shape (s : list Z) (r : Z) : option (list Z) :=
  if (zlen s <? 3) || (r <=? 0) then None
  else match drop (zlen s - 3) s with
       | [c; h; w] => if (h mod r =? 0) && (w mod r =? 0) then Some (take (zlen s - 3) s ++ [c * (r * r); h / r; w / r])%list else None
       | _ => None
       end.
Definition skel_pixel_unshuffle (r : Z) : skel :=
  [("Shape", [[-3]; [0]]); ("Shape", [[-3]]); ("Concat", [[0]; [-1]]); ("Reshape", [[0]]);
   ("Shape", [[2]; [1]]); ("Shape", [[3]; [2]]); ("Shape", [[4]; [3]]); ("Div", [[r]]); ("Div", [[r]]);
   ("Concat", [[0]; [-1]; [r]; [r]]); ("Reshape", [[0]]); ("Transpose", [[0; 1; 3; 5; 2; 4]]); ("Mul", [[r]; [r]]); ("Mul", []);
   ("Concat", [[0]; [-1]]); ("Reshape", [[0]]); ("Shape", [[1]]); ("Concat", [[0]]); ("Reshape", [[1]])].

(* ================================================================== aten_max_dim / aten_min_dim(self, dim, keepdim) -> (values, indices)
   rank 0: (self, Constant 0) -- dim is not looked at; otherwise ReduceMax(self, Reshape(dim, [-1]), keepdims), ArgMax(self, axis=dim, keepdims) *)
Definition aten_maxmin_dim_shapes (s : list Z) (dim : Z) (keepdim : bool) : option (list Z * list Z) :=
  if zlen s =? 0 then Some ([], [])
  else obind (reduce_shape s (Some [dim]) keepdim) (fun v => obind (argmax_shape s dim keepdim) (fun i => Some (v, i))).
(* torch.max(self, dim, keepdim): dim wrapped (0-d accepts 0 / -1), the reduced extent must not be 0 *)
Definition torch_maxmin_dim_shapes (s : list Z) (dim : Z) (keepdim : bool) : option (list Z * list Z) :=
  obind (wrap_dim (zlen s) dim) (fun a =>
    if zlen s =? 0 then Some ([], [])
    else match nthZ s a with
         | Some n => if n =? 0 then None else let o := reduce_dims s 0 [a] keepdim in Some (o, o)
         | None => None
         end).
Definition b2z5 (b : bool) : Z := if b then 1 else 0.
Definition skel_maxmin_dim (is_min : bool) (s : list Z) (dim : Z) (keepdim : bool) : skel :=
  if zlen s =? 0 then []
  else [("Reshape", [[0]; [dim]; [-1]]); ((if is_min then "ReduceMin" else "ReduceMax"), [[b2z5 keepdim]; [0]]);
        ((if is_min then "ArgMin" else "ArgMax"), [[dim]; [b2z5 keepdim]; [0]])].

(* ================================================================== aten_atleast_1d / 2d / 3d (python branches on the rank) *)
Definition aten_atleast_shape (k : Z) (s : list Z) : option (list Z) :=
  let r := zlen s in
  if k =? 1 then (if r =? 0 then reshape_shape s [1] false else Some s)
  else if k =? 2 then (if r <=? 1 then reshape_shape s [1; -1] false else Some s)
  else (if r <=? 1 then reshape_shape s [1; -1; 1] false else if r =? 2 then unsqueeze_axes s [-1] else Some s).
(* torch.atleast_1d / 2d / 3d (TensorShape.cpp) *)
Definition torch_atleast_shape (k : Z) (s : list Z) : list Z :=
  if k =? 1 then match s with [] => [1] | _ => s end
  else if k =? 2 then match s with [] => [1; 1] | [n] => [1; n] | _ => s end
  else match s with [] => [1; 1; 1] | [n] => [1; n; 1] | [a; b] => [a; b; 1] | _ => s end.
Definition skel_atleast (k : Z) (s : list Z) : skel :=
  let r := zlen s in
  ((if k =? 1 then (if r =? 0 then [("Reshape", [[0]; [1]])] else [])
    else if k =? 2 then (if r <=? 1 then [("Reshape", [[0]; [1; -1]])] else [])
    else (if r <=? 1 then [("Reshape", [[0]; [1; -1; 1]])] else if r =? 2 then [("Unsqueeze", [[-1]])] else []))
   ++ [("Identity", [])])%list.

(* ================================================================== aten_reflection_pad{1,2,3}d / aten_replication_pad{1,2,3}d:
   Pad(self, _process_padding(padding, rank), mode) -- the same list reordering as aten_pad (Aten2.pad_paddings), shape rule Pad-18.
   PyTorch (ReflectionPad.cpp / ReplicationPadding.cpp / PadNd.cpp): input of rank e + 1 or e + 2, 2 * e pad entries (last dimension first),
   reflection additionally needs each pad smaller than the extent; the extents are those of constant_pad_nd *)
Definition torch_padnd_shape (reflect : bool) (e : Z) (s pad : list Z) : option (list Z) :=
  let r := zlen s in
  if negb ((r =? e + 1) || (r =? e + 2)) || negb (zlen pad =? 2 * e) then None
  else obind (torch_pad_shape s pad) (fun out =>
       if forallb (fun i => let '(b, en) := torch_pad_pair r pad i in
                            match nthZ s i with Some n => negb reflect || ((b <? n) && (en <? n)) | None => false end) (iota r)
          && forallb (fun d => 0 <? d) (drop (r - e) out)
       then Some out else None).
Definition skel_padnd (s pad : list Z) : skel := [("Pad", [pad_paddings (zlen s) pad])].

(* ================================================================== aten_group_norm / aten_native_group_norm (weight, bias given or not):
     input_reshaped = Reshape(input, [0, group, -1]); InstanceNormalization; Reshape(norm, Shape(input)[, allowzero=1 in native]);
     weight_full = Unsqueeze(weight, Range(1, rank - 1, 1)); Mul, Add (broadcast)
     native only: Reshape(input, [N, group, -1]); ReduceMean(axes [2], keepdims 0) for mean and rstd *)
Definition aten_group_norm_shape (native : bool) (s : list Z) (g : Z) : option (list Z) :=
  obind (nthZ s 1) (fun c =>
  obind (reshape_shape s [0; g; -1] false) (fun s3 =>
  obind (reshape_shape s3 s native) (fun n1 =>
  obind (unsqueeze_axes [c] (range_list 1 (zlen s - 1))) (fun w => bcast_shape n1 w)))).
Definition aten_native_group_norm_stats (s : list Z) (g : Z) : option (list Z) :=
  obind (nthZ s 0) (fun n => obind (reshape_shape s [n; g; -1] false) (fun s3 => reduce_shape s3 (Some [2]) false)).
(* torch.group_norm: input [N, C, ..], C divisible by num_groups > 0; native_group_norm also returns mean and rstd of shape [N, group] *)
Definition torch_group_norm_shape (s : list Z) (g : Z) : option (list Z) :=
  match s with
  | _ :: c :: _ => if (0 <? g) && (c mod g =? 0) then Some s else None
  | _ => None
  end.
Definition torch_native_group_norm_stats (s : list Z) (g : Z) : option (list Z) :=
  match s with
  | n :: c :: _ => if (0 <? g) && (c mod g =? 0) then Some [n; g] else None
  | _ => None
  end.
Definition skel_default_wb (has_w has_b : bool) : skel :=
  ((if has_w then [] else [("Shape", [[2]; [1]]); ("Expand", [])]) ++ (if has_b then [] else [("Shape", [[2]; [1]]); ("Expand", [])]))%list.
Definition skel_group_norm (has_w has_b : bool) (s : list Z) (g : Z) : skel :=
  (skel_default_wb has_w has_b
   ++ [("Reshape", [[0]; [g]; [-1]]); ("Concat", [[0]; [0]; [-1]]); ("Reshape", [[0]]); ("CastLike", []); ("Expand", []); ("CastLike", []);
       ("Expand", []); ("InstanceNormalization", []); ("Shape", [[0]]); ("Reshape", [[0]]); ("Sub", [[zlen s]; [1]]); ("Range", [[1]; [1]]);
       ("Unsqueeze", []); ("Unsqueeze", []); ("CastLike", []); ("Mul", []); ("CastLike", []); ("Add", [])])%list.
Definition skel_native_group_norm (has_w has_b : bool) (s : list Z) (g : Z) : skel :=
  (skel_default_wb has_w has_b
   ++ [("Reshape", [[0]; [g]; [-1]]); ("Concat", [[0]; [0]; [-1]]); ("Reshape", [[0]]); ("CastLike", [[1]]); ("Expand", []); ("CastLike", [[0]]);
       ("Expand", []); ("InstanceNormalization", []); ("Shape", [[0]]); ("Reshape", [[1]]); ("Range", [[1]; [zlen s - 1]; [1]]);
       ("Unsqueeze", []); ("Unsqueeze", []); ("CastLike", []); ("Mul", []); ("CastLike", []); ("Add", []);
       ("Shape", [[1]; [0]]); ("Concat", [[0]; [-1]]); ("Reshape", [[0]]); ("ReduceMean", [[1]; [0]; [2]]); ("Sub", []); ("Mul", []);
       ("ReduceMean", [[0]; [0]; [2]]); ("Add", []); ("Sqrt", []); ("Div", [[1]]); ("ReduceMean", [[0]; [0]; [2]])])%list.

(* ================================================================== aten_glu(self, dim): first, second = Split(self, axis=dim, num_outputs=2);
   Mul(first, Sigmoid(second)) (broadcast) *)
Definition aten_glu_shape (s : list Z) (dim : Z) : option (list Z) :=
  obind (norm_axis (zlen s) dim) (fun a =>
  obind (nthZ s a) (fun n =>
  obind (split_num_outputs n 2) (fun parts =>
    match parts with
    | [p; q] => bcast_shape (replace_at s a p) (replace_at s a q)
    | _ => None
    end))).
(* torch.glu: rank >= 1, the extent of dim even *)
Definition torch_glu_shape (s : list Z) (dim : Z) : option (list Z) :=
  if zlen s =? 0 then None
  else obind (wrap_dim (zlen s) dim) (fun a => obind (nthZ s a) (fun n => if n mod 2 =? 0 then Some (replace_at s a (n / 2)) else None)).
Definition skel_glu (dim : Z) : skel := [("pkg.onnxscript.torch_lib::aten_glu", [[dim]])].
