(* Eager mode as an executable model (DESIGN 5, C01): what `OnnxFunction.__call__` does with a script function.

     values.OnnxFunction.__call__ -> evaluator.default().eval_function: tensor parameters are wrapped in tensor.Tensor
     (`_adapt_to_eager_mode`), attribute parameters stay Python values, then THE PYTHON FUNCTION ITSELF runs:
       * a variable holds a Tensor (ET) or a plain Python value (EP: literal, module constant, attribute parameter,
         the `int` a `for` loop draws from `range`): nothing is evaluated for a Python value until an operator sees it;
       * `a + b` is Python's operator dispatch: Tensor.__add__(a, b) when a is a Tensor, the REFLECTED method of b
         (Tensor.__radd__) when only b is one, a TypeError when Tensor has no such method (Gen.ScriptTables.tensor_methods
         is regenerated from tensor.py); `a < b` with a Python value on the left is answered by the mirrored
         comparison of b; `%` chooses fmod by the dtype of the left tensor; `!=` is Equal then Not; `not t` is Python's
         `not bool(t)` (a Python bool); `-t` is Tensor.__neg__;
       * every operator method and every `op.X(...)` ends in values.Op.__call__ -> BaseEvaluator.eval_op:
         `autocast.dynamic_cast_inputs` (= cast_inputs: the same two passes as the converter, so the same `cast_plan`)
         turns each Python value into a tensor of the dtype of the tensor bound to its type variable, or of the default
         dtype of its Python type (`dyn_cast l None`), then `_eval` (the kernel `sem`) runs; keyword arguments are the
         attributes (a name there is the Python value of an attribute parameter);
       * calling another script function: eval_function again: Python values among the actual tensor parameters are
         promoted by `_adapt_to_eager_mode` (`fun_cast`: np.array(x), float64 for a Python float), the callee's result is
         abstract here as in Script/PySem.v (`sem "this" name`);
       * `if c:` / `while c:` call Tensor.__bool__ (`truth`), `range(n)` calls Tensor.__index__ (`trip`);
       * the result goes through `_adapt_to_user_mode`, which accepts Tensors only (a returned Python value is a TypeError).

   The evaluator is written in writer style: besides the result it returns the sequence of evaluator calls, bool() and
   index() events in evaluation order; harness/c01_eager.py compares that sequence with the recorded trace of the real
   evaluator.  Anything this model does not define is None (Python arithmetic between two Python values, and/or,
   a Tensor passed as an attribute, ...).  No proofs in this file. *)
From Coq Require Import List String ZArith Bool.
Require Import OV.Graph.Syntax OV.Script.Syntax OV.Script.Sets OV.Gen.ScriptTables OV.Script.Translate.
Import ListNotations.
Local Open Scope string_scope.

(* Python's data model (language definition, not onnxscript): the method implementing an operator, and the method of the
   RIGHT operand Python falls back to when the left operand's type does not implement it *)
Definition py_dunder : list (string * string) :=
  [("Add", "__add__"); ("Sub", "__sub__"); ("Mult", "__mul__"); ("Div", "__truediv__"); ("Mod", "__mod__");
   ("Pow", "__pow__"); ("MatMult", "__matmul__"); ("BitAnd", "__and__"); ("BitOr", "__or__");
   ("Lt", "__lt__"); ("LtE", "__le__"); ("Gt", "__gt__"); ("GtE", "__ge__"); ("Eq", "__eq__"); ("NotEq", "__ne__");
   ("USub", "__neg__")].

Definition py_reflected : list (string * string) :=
  [("__add__", "__radd__"); ("__sub__", "__rsub__"); ("__mul__", "__rmul__"); ("__truediv__", "__rtruediv__");
   ("__mod__", "__rmod__"); ("__pow__", "__rpow__"); ("__matmul__", "__rmatmul__"); ("__and__", "__rand__");
   ("__or__", "__ror__");
   ("__lt__", "__gt__"); ("__le__", "__ge__"); ("__gt__", "__lt__"); ("__ge__", "__le__"); ("__eq__", "__eq__"); ("__ne__", "__ne__")].

(* a Python value given as a keyword argument / bound to an attribute parameter, as an ONNX attribute value *)
Definition lit_kwattr (l : lit) : attrv :=
  match l with
  | LInt z => AInt z
  | LFloat b => AFloat b
  | LBool b => AInt (if b then 1 else 0)%Z
  | LInts zs => AInts zs
  end.

Section Eager.
  Variable V : Type.
  Variable sem : string -> string -> list (string * attrv) -> list (option V) -> option (list V).
  Variable truth : V -> option bool.                 (* Tensor.__bool__ *)
  Variable trip : V -> option nat.                   (* Tensor.__index__ under range() *)
  Variable while_limit : nat.
  Variable globals : list (string * lit).
  Variable dyn_cast : lit -> option V -> option V.   (* autocast.cast_pyvalue_to_os_tensor(pyvalue, dtype of the tensor | None) *)
  Variable fun_cast : lit -> option V.               (* evaluator._adapt_to_eager_mode on a Python scalar *)
  Variable is_float : V -> bool.                     (* Tensor.__mod__: is the dtype a float type *)

  Inductive eval :=
  | ET (v : V)
  | EP (l : lit).

  Inductive event :=
  | EvOp (dom op : string) (attrs : list (string * attrv)) (args : list (option V)) (outs : list V)
  | EvBool (v : V) (b : bool)
  | EvIndex (v : V) (n : nat).

  Definition eenv := list (string * eval).

  Fixpoint elookup (e : eenv) (x : string) : option eval :=
    match e with [] => None | (y, v) :: t => if String.eqb x y then Some v else elookup t x end.

  Definition escalar (a : eval) : bool := match a with EP _ => true | ET _ => false end.

  (* writer: result + events in evaluation order *)
  Definition W (A : Type) : Type := option (A * list event).
  Definition wret {A} (a : A) : W A := Some (a, []).
  Definition wbind {A B} (m : W A) (f : A -> W B) : W B :=
    match m with
    | None => None
    | Some (a, l1) => match f a with None => None | Some (b, l2) => Some (b, (l1 ++ l2)%list) end
    end.
  Definition wlift {A} (o : option A) : W A := match o with Some a => Some (a, []) | None => None end.

  (* ---------------------------------------------------------------- dynamic_cast_inputs *)

  Definition target_of (p : option nat) (all : list (option eval)) : option (option V) :=
    match p with
    | None => Some None
    | Some j => match nth j all None with
                | Some (ET y) => Some (Some y)
                | Some (EP l') => option_map Some (dyn_cast l' None)      (* not reachable: a plan never points at a Python value *)
                | None => Some None
                end
    end.

  Definition cast_arg (a : option eval) (p : option nat) (all : list (option eval)) : option (option V) :=
    match a with
    | None => Some None
    | Some (ET v) => Some (Some v)
    | Some (EP l) => match target_of p all with
                     | Some tgt => option_map Some (dyn_cast l tgt)
                     | None => None
                     end
    end.

  Fixpoint epromote_args (args : list (option eval)) (plan : list (option nat)) (all : list (option eval))
    : option (list (option V)) :=
    match args with
    | [] => Some []
    | a :: t =>
      match epromote_args t (tl plan) all, cast_arg a (match plan with p :: _ => p | [] => None end) all with
      | Some t', Some a' => Some (a' :: t')
      | _, _ => None
      end
    end.

  Definition epromoted (op : string) (args : list (option eval)) : option (list (option V)) :=
    match lookup_assoc op op_typevars with
    | None => epromote_args args [] args                       (* no signature: every Python value gets its default dtype *)
    | Some tvs =>
      match cast_plan tvs (map (option_map escalar) args) with
      | None => None                                           (* ValueError: more actual than formal parameters *)
      | Some plan => epromote_args args plan args
      end
    end.

  (* BaseEvaluator._eval *)
  Definition ecall (dom op : string) (attrs : list (string * attrv)) (args : list (option V)) : W (list V) :=
    match sem dom op attrs args with
    | Some outs => Some (outs, [EvOp dom op attrs args outs])
    | None => None
    end.

  (* values.Op.__call__ -> eval_op *)
  Definition eop (op : string) (attrs : list (string * attrv)) (args : list (option eval)) : W (list V) :=
    match epromoted op args with
    | Some a' => ecall "" op attrs a'
    | None => None
    end.

  Definition eop1 (op : string) (attrs : list (string * attrv)) (args : list (option eval)) : W eval :=
    match eop op attrs args with
    | Some ([v], lg) => Some (ET v, lg)
    | _ => None
    end.

  (* one operator method of tensor.Tensor *)
  Definition emethod (m : tmethod) (self : V) (other : option eval) : W eval :=
    match m, other with
    | TPlain o false, Some x => eop1 o [] [Some (ET self); Some x]
    | TPlain o true, Some x => eop1 o [] [Some x; Some (ET self)]
    | TPlain o _, None => eop1 o [] [Some (ET self)]
    | TModByDtype, Some x => eop1 "Mod" (if is_float self then [("fmod", AInt 1)] else []) [Some (ET self); Some x]
    | TNotEqual, Some x =>
      wbind (eop1 "Equal" [] [Some (ET self); Some x])
            (fun t => match t with ET tv => eop1 "Not" [] [Some (ET tv)] | EP _ => None end)
    | _, None => None
    end.

  Definition emethod_named (m : string) (self : V) (other : option eval) : W eval :=
    match lookup_assoc m tensor_methods with
    | Some tm => emethod tm self other
    | None => None                                             (* TypeError: unsupported operand type(s) *)
    end.

  (* Python's binary operator dispatch *)
  Definition ebinary (op : string) (a b : eval) : W eval :=
    match lookup_assoc op py_dunder with
    | None => None                                             (* and / or: not overloadable, not modelled *)
    | Some m =>
      match a, b with
      | ET va, _ => emethod_named m va (Some b)
      | EP _, ET vb => match lookup_assoc m py_reflected with
                       | Some r => emethod_named r vb (Some a)
                       | None => None
                       end
      | EP _, EP _ => None                                     (* Python arithmetic on two Python values: not modelled *)
      end
    end.

  Definition lit_truth (l : lit) : bool :=
    match l with
    | LInt z => negb (Z.eqb z 0)
    | LBool b => b
    | LFloat bits => negb (Z.eqb bits 0 || Z.eqb bits 2147483648)
    | LInts zs => match zs with [] => false | _ => true end
    end.

  Definition etruth (a : eval) : W bool :=
    match a with
    | ET v => match truth v with Some b => Some (b, [EvBool v b]) | None => None end
    | EP l => wret (lit_truth l)
    end.

  Definition etrip (a : eval) : W nat :=
    match a with
    | ET v => match trip v with Some n => Some (n, [EvIndex v n]) | None => None end
    | EP (LInt z) => wret (Z.to_nat z)
    | EP (LBool b) => wret (if b then 1 else 0)
    | EP _ => None                                             (* TypeError: 'float' object cannot be interpreted as an integer *)
    end.

  Definition ekw (env : eenv) (kw : string * kwarg) : option (string * attrv) :=
    match kw with
    | (k, KLit a) => Some (k, a)
    | (k, KName x) => match elookup env x with
                      | Some (EP l) => Some (k, lit_kwattr l)
                      | _ => None                              (* a Tensor as attribute value / unbound: not modelled *)
                      end
    end.

  Fixpoint ekws (env : eenv) (kws : list (string * kwarg)) : option (list (string * attrv)) :=
    match kws with
    | [] => Some []
    | kw :: t => match ekw env kw, ekws env t with
                 | Some a, Some r => Some (a :: r)
                 | _, _ => None
                 end
    end.

  (* actual tensor parameters of a call to another script function: _adapt_to_eager_mode *)
  Fixpoint adapt_args (args : list (option eval)) : option (list (option V)) :=
    match args with
    | [] => Some []
    | a :: t =>
      match adapt_args t with
      | None => None
      | Some t' =>
        match a with
        | None => Some (None :: t')
        | Some (ET v) => Some (Some v :: t')
        | Some (EP l) => match fun_cast l with Some v => Some (Some v :: t') | None => None end
        end
      end
    end.

  Definition ecallee (env : eenv) (f : callee) (kws : list (string * kwarg)) (vals : list (option eval)) : W (list V) :=
    match ekws env kws with
    | None => None
    | Some attrs =>
      match f with
      | COp name => eop name attrs vals
      | CFun name => match adapt_args vals with
                     | Some a' => ecall "this" name attrs a'
                     | None => None
                     end
      end
    end.

  Fixpoint eval_e (env : eenv) (e : expr) {struct e} : W eval :=
    match e with
    | EVar x =>
      match elookup env x with
      | Some v => wret v
      | None => match lookup_assoc x globals with
                | Some l => wret (EP l)
                | None => None                                 (* NameError *)
                end
      end
    | ELit l => wret (EP l)
    | EUn op a =>
      wbind (eval_e env a)
            (fun va => match va with
                       | ET v =>
                         if String.eqb op "Not" then wbind (etruth (ET v)) (fun b => wret (EP (LBool (negb b))))
                         else match lookup_assoc op py_dunder with
                              | Some m => emethod_named m v None
                              | None => None
                              end
                       | EP _ => None                          (* Python arithmetic: not modelled *)
                       end)
    | EBin op a b => wbind (eval_e env a) (fun va => wbind (eval_e env b) (fun vb => ebinary op va vb))
    | ECmp op a b => wbind (eval_e env a) (fun va => wbind (eval_e env b) (fun vb => ebinary op va vb))
    | ECall f args kws =>
      wbind ((fix go (l : list (option expr)) : W (list (option eval)) :=
                match l with
                | [] => wret []
                | None :: t => wbind (go t) (fun vs => wret (None :: vs))
                | Some a :: t => wbind (eval_e env a) (fun v => wbind (go t) (fun vs => wret (Some v :: vs)))
                end) args)
            (fun vals => match ecallee env f kws vals with
                         | Some ([v], lg) => Some (ET v, lg)
                         | _ => None
                         end)
    end.

  Definition eval_multi (env : eenv) (e : expr) : W (list V) :=
    match e with
    | ECall f args kws =>
      wbind ((fix go (l : list (option expr)) : W (list (option eval)) :=
                match l with
                | [] => wret []
                | None :: t => wbind (go t) (fun vs => wret (None :: vs))
                | Some a :: t => wbind (eval_e env a) (fun v => wbind (go t) (fun vs => wret (Some v :: vs)))
                end) args)
            (fun vals => ecallee env f kws vals)
    | _ => None
    end.

  Fixpoint ebind (xs : list string) (vs : list V) (env : eenv) : option eenv :=
    match xs, vs with
    | [], [] => Some env
    | x :: xt, v :: vt => ebind xt vt ((x, ET v) :: env)
    | _, _ => None
    end.

  Inductive eoutcome :=
  | ENormal (env : eenv)
  | EBreak (env : eenv)
  | EReturn (vs : list V).

  Fixpoint eval_rets (env : eenv) (es : list expr) : W (list V) :=
    match es with
    | [] => wret []
    | e :: t => wbind (eval_e env e)
                      (fun v => match v with
                                | ET tv => wbind (eval_rets env t) (fun vs => wret (tv :: vs))
                                | EP _ => None                 (* _adapt_to_user_mode: TypeError: Unexpected type *)
                                end)
    end.

  Section Stmt.
    Variable exec : list stmt -> eenv -> W eoutcome.           (* blocks one nesting level down *)

    Fixpoint efor_iter (i : string) (body : list stmt) (k j : nat) (env : eenv) {struct k} : W eoutcome :=
      match k with
      | O => wret (ENormal env)
      | S k' =>
        wbind (exec body ((i, EP (LInt (Z.of_nat j))) :: env))       (* the loop variable is a Python int *)
              (fun o => match o with
                        | ENormal env' => efor_iter i body k' (S j) env'
                        | EBreak env' => wret (ENormal env')
                        | EReturn vs => wret (EReturn vs)
                        end)
      end.

    Fixpoint ewhile_iter (c : string) (body : list stmt) (k : nat) (env : eenv) {struct k} : W eoutcome :=
      match elookup env c with
      | None => None
      | Some vc =>
        wbind (etruth vc)
              (fun b => if b then
                          match k with
                          | O => None
                          | S k' =>
                            wbind (exec body env)
                                  (fun o => match o with
                                            | ENormal env' => ewhile_iter c body k' env'
                                            | EBreak env' => wret (ENormal env')
                                            | EReturn vs => wret (EReturn vs)
                                            end)
                          end
                        else wret (ENormal env))
      end.

    Definition eexec_stmt (s : stmt) (env : eenv) : W eoutcome :=
      match s with
      | SAssign x e => wbind (eval_e env e) (fun v => wret (ENormal ((x, v) :: env)))
      | STuple xs e => wbind (eval_multi env e) (fun vs => wlift (option_map ENormal (ebind xs vs env)))
      | SReturn es => wbind (eval_rets env es) (fun vs => wret (EReturn vs))
      | SBreak => wret (EBreak env)
      | SIf c t f => wbind (eval_e env c) (fun vc => wbind (etruth vc) (fun b => if b then exec t env else exec f env))
      | SFor i bound body => wbind (eval_e env bound) (fun vb => wbind (etrip vb) (fun n => efor_iter i body n 0 env))
      | SWhile c body => ewhile_iter c body while_limit env
      end.

    Fixpoint eexec_list (ss : list stmt) (env : eenv) {struct ss} : W eoutcome :=
      match ss with
      | [] => wret (ENormal env)
      | s :: rest => wbind (eexec_stmt s env)
                           (fun o => match o with
                                     | ENormal env' => eexec_list rest env'
                                     | o' => wret o'
                                     end)
      end.
  End Stmt.

  Fixpoint eexec_block (fuel : nat) (ss : list stmt) (env : eenv) {struct fuel} : W eoutcome :=
    match fuel with
    | O => None
    | S fu => eexec_list (eexec_block fu) ss env
    end.

  (* the attribute parameters: Python values, every one must be given (defaults are applied by Python itself: the
     caller of this model passes the effective values) *)
  Fixpoint ebind_attrs (aps : list (string * akind * bool)) (avals : list (string * lit)) (env : eenv) : option eenv :=
    match aps with
    | [] => Some env
    | (a, _, _) :: t => match lookup_assoc a avals with
                        | Some l => ebind_attrs t avals ((a, EP l) :: env)
                        | None => None                         (* TypeError: missing required argument *)
                        end
    end.

  Definition eval_eager_log (fuel : nat) (f : func) (xs : list V) (avals : list (string * lit)) : W (list V) :=
    match ebind (f_tparams f) xs [] with
    | None => None
    | Some env0 =>
      match ebind_attrs (f_aparams f) avals env0 with
      | None => None
      | Some env1 =>
        match eexec_block fuel (f_body f) env1 with
        | Some (EReturn vs, lg) => Some (vs, lg)
        | _ => None
        end
      end
    end.

  Definition eval_eager (fuel : nat) (f : func) (xs : list V) (avals : list (string * lit)) : option (list V) :=
    option_map fst (eval_eager_log fuel f xs avals).
End Eager.
