(* C06 -- syntax of rewriter patterns and of host graphs (model of onnxscript/rewriter/_pattern_ir.py
   and of the part of onnx_ir the matcher looks at).  No proofs in this file.

   Pattern nodes live in a table (`gp_nodes`), and are referred to by their index: this is the
   object identity the Python relies on (`node_bindings[pattern_node]`, `lookup_node`).
   Unnamed value patterns (Constant, OrValue) carry a key `k` standing for their Python object
   identity (`value_bindings[pattern_value]`); a NodeOutputPattern is identified by (node, index). *)
From Coq Require Import List ZArith String Bool QArith Qabs.
Import ListNotations.
Close Scope Q_scope.
Local Open Scope string_scope.

Definition vid := nat.   (* host value *)
Definition nid := nat.   (* host node = index into g_nodes *)
Definition pid := nat.   (* pattern node = index into gp_nodes *)

(* ------------------------------------------------------------------ attributes *)
Inductive attrval := AInt (z : Z) | AStr (s : string) | AInts (l : list Z).

(* AttrConstantPattern | AttrVar(name, can_match_none) *)
Inductive apat := APConst (a : attrval) | APVar (name : option string) (none_ok : bool).

(* ------------------------------------------------------------------ constants *)
(* a value's const_value as the matcher reads it (constant_value.numpy()): `CScalar q` a 0-d tensor, `CVec l` a rank-1
   tensor, `CTensor shape l` a tensor of ANY shape given with its elements in row-major order (the harness uses it for
   rank >= 2 and, as a second encoding, for ranks 0 and 1), `COther` a constant the matcher cannot read as numbers.
   `cval_view` is the common reading: (shape, elements in row-major order). *)
Inductive cval := CScalar (q : Q) | CVec (l : list Q) | COther | CTensor (shape : list nat) (l : list Q).
Definition cval_view (c : cval) : option (list nat * list Q) :=
  match c with
  | CScalar q => Some ([], [q])
  | CVec l => Some ([List.length l], l)
  | CTensor sh l => Some (sh, l)
  | COther => None
  end.
(* Constant(value, rel_tol, abs_tol): scalar or 1-D list *)
Inductive cpat := CPScalar (q rel abs : Q) | CPVec (l : list Q) (rel abs : Q).

(* ------------------------------------------------------------------ string patterns *)
Inductive spat := SExact (s : string) | SPrefix (s : string).

(* ------------------------------------------------------------------ value patterns *)
Inductive vpat :=
| PAny                                                     (* AnyValue *)
| PVar (x : string) (none_ok : bool)                       (* Var(name, can_match_none) *)
| PConst (k : nat) (c : cpat)                              (* Constant, always unnamed *)
| POut (p : pid) (i : nat)                                 (* NodeOutputPattern(producer p, output_index i); its
                                                              name is the i-th entry of the producer's np_outs *)
| POr (k : nat) (name : option string) (tagv : option string) (alts : list (Z * vpat))
                                                           (* BacktrackingOr(values, name, tag_var, tag_values) *)
| PDisp (k : nat) (name : option string) (tagv : option string) (alts : list (Z * (pid * nat))).
                                                           (* OpIdDispatchOr: every alternative is the
                                                              NodeOutputPattern (q, i); dispatch on q's op id *)

Record npat := mkNP {
  np_op : spat;
  np_dom : spat;
  np_attrs : list (string * apat);
  np_other_attrs : bool;                 (* allow_other_attributes (default true) *)
  np_ins : list (option vpat);
  np_other_ins : bool;                   (* allow_other_inputs (default false) *)
  np_outs : list (option string);        (* names of the NodeOutputPatterns *)
  np_id_known : bool                     (* op_identifier() is not None: true for nodes built by the API from constant
                                            op/domain; false for the copies made by NodePattern.clone (commute) *)
}.

Record gpat := mkGP {
  gp_nodes : list npat;                  (* creation order (OpsetPatternBuilder.nodes()) *)
  gp_inputs : list string;               (* names of the pattern function's parameters *)
  gp_outs : list vpat
}.

(* ------------------------------------------------------------------ host graph *)
Record hnode := mkHN {
  h_op : string;
  h_dom : string;
  h_attrs : list (string * attrval);
  h_ins : list (option vid);
  h_outs : list vid
}.

Record hgraph := mkHG {
  g_nodes : list hnode;
  g_outs : list vid;                     (* graph outputs *)
  g_consts : list (vid * cval);          (* values with a const_value *)
  g_foreign : list vid                   (* values whose .graph is not the graph being matched *)
}.

(* ------------------------------------------------------------------ things a name can be bound to *)
Inductive bval := BNone | BVal (v : vid) | BAttr (name : string) (a : attrval) | BTag (t : Z).

(* identity of an unnamed value pattern *)
Inductive vkey := KOut (p : pid) (i : nat) | KObj (k : nat).

(* ------------------------------------------------------------------ decidable equalities *)
Fixpoint list_eqb {A} (eqb : A -> A -> bool) (a b : list A) : bool :=
  match a, b with
  | [], [] => true
  | x :: a', y :: b' => eqb x y && list_eqb eqb a' b'
  | _, _ => false
  end.

Definition attrval_eqb (a b : attrval) : bool :=
  match a, b with
  | AInt x, AInt y => Z.eqb x y
  | AStr x, AStr y => String.eqb x y
  | AInts x, AInts y => list_eqb Z.eqb x y
  | _, _ => false
  end.

Definition bval_eqb (a b : bval) : bool :=
  match a, b with
  | BNone, BNone => true
  | BVal x, BVal y => Nat.eqb x y
  | BAttr n x, BAttr m y => String.eqb n m && attrval_eqb x y
  | BTag x, BTag y => Z.eqb x y
  | _, _ => false
  end.

Definition vkey_eqb (a b : vkey) : bool :=
  match a, b with
  | KOut p i, KOut q j => Nat.eqb p q && Nat.eqb i j
  | KObj k, KObj l => Nat.eqb k l
  | _, _ => false
  end.

Definition ovid_eqb (a b : option vid) : bool :=
  match a, b with
  | None, None => true
  | Some x, Some y => Nat.eqb x y
  | _, _ => false
  end.

Definition bv (v : option vid) : bval := match v with Some x => BVal x | None => BNone end.

(* ------------------------------------------------------------------ association lists *)
Fixpoint assoc {K V} (eqb : K -> K -> bool) (k : K) (l : list (K * V)) : option V :=
  match l with
  | [] => None
  | (k', v) :: t => if eqb k k' then Some v else assoc eqb k t
  end.

Definition memb {A} (eqb : A -> A -> bool) (x : A) (l : list A) : bool := existsb (eqb x) l.

(* ------------------------------------------------------------------ host graph queries *)
Fixpoint index_of (x : vid) (l : list vid) (i : nat) : option nat :=
  match l with
  | [] => None
  | y :: t => if Nat.eqb x y then Some i else index_of x t (S i)
  end.

Fixpoint producer_from (x : vid) (ns : list hnode) (n : nid) : option (nid * nat) :=
  match ns with
  | [] => None
  | h :: t => match index_of x (h_outs h) 0 with
              | Some i => Some (n, i)
              | None => producer_from x t (S n)
              end
  end.
(* value.producer() and value.index() *)
Definition producer (g : hgraph) (x : vid) : option (nid * nat) := producer_from x (g_nodes g) 0.

Definition foreign (g : hgraph) (x : vid) : bool := memb Nat.eqb x (g_foreign g).
Definition is_graph_output (g : hgraph) (x : vid) : bool := memb Nat.eqb x (g_outs g).
Definition uses_value (x : vid) (h : hnode) : bool := existsb (fun o => ovid_eqb o (Some x)) (h_ins h).

(* consumers of x: indices of the nodes having x among their inputs *)
Fixpoint consumers_from (x : vid) (ns : list hnode) (n : nid) : list nid :=
  match ns with
  | [] => []
  | h :: t => (if uses_value x h then [n] else []) ++ consumers_from x t (S n)
  end.
Definition consumers (g : hgraph) (x : vid) : list nid := consumers_from x (g_nodes g) 0.

(* ------------------------------------------------------------------ string patterns *)
Definition spat_matches (p : spat) (s : string) : bool :=
  match p with
  | SExact t => String.eqb s t
  | SPrefix t => String.prefix t s
  end.

(* (domain, op) when both are constants: the key under which OrValue / commute() see the node *)
Definition np_opid_decl (np : npat) : option (string * string) :=
  match np_dom np, np_op np with
  | SExact d, SExact o => Some (d, o)
  | _, _ => None
  end.
(* NodePattern.op_identifier() *)
Definition np_opid (np : npat) : option (string * string) :=
  if np_id_known np then np_opid_decl np else None.
Definition h_opid (h : hnode) : string * string := (h_dom h, h_op h).
Definition opid_eqb (a b : string * string) : bool := String.eqb (fst a) (fst b) && String.eqb (snd a) (snd b).

(* ------------------------------------------------------------------ constants: math.isclose *)
Definition qmax (a b : Q) : Q := if Qle_bool a b then b else a.
(* abs(a-b) <= max(rel_tol * max(abs(a), abs(b)), abs_tol) *)
Definition isclose (a b rel abs : Q) : bool :=
  Qle_bool (Qabs (a - b)%Q) (qmax (rel * qmax (Qabs a) (Qabs b))%Q abs).

Fixpoint all_close (xs ps : list Q) (rel abs : Q) : bool :=
  match xs, ps with
  | [], [] => true
  | x :: xs', p :: ps' => isclose x p rel abs && all_close xs' ps' rel abs
  | _, _ => false
  end.

(* SimplePatternMatcher._match_constant: a list constant needs numpy_value.shape == (len(list),) -- rank 1 and that
   length -- and element i within tolerance of list[i]; a scalar constant needs numpy_value.ndim == 0 *)
Definition shape_eqb (a b : list nat) : bool := list_eqb Nat.eqb a b.
Definition const_ok (g : hgraph) (c : cpat) (x : vid) : bool :=
  match assoc Nat.eqb x (g_consts g) with
  | None => false                                  (* value.const_value is None *)
  | Some cv =>
      match cval_view cv with
      | None => false
      | Some (sh, ys) =>
          match c with
          | CPScalar q rel abs => match sh, ys with [], [y] => isclose y q rel abs | _, _ => false end
          | CPVec ps rel abs => shape_eqb sh [List.length ps] && all_close ys ps rel abs
          end
      end
  end.
