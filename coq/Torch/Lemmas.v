(* C08 -- list / arithmetic lemmas shared by the torch_lib proofs. *)
From Coq Require Import ZArith List Bool Lia ZifyBool.
Require Import OV.Torch.Onnx OV.Torch.Spec.
Import ListNotations.
Local Open Scope Z_scope.

(* destruct the condition of an innermost `if` of the goal *)
Ltac case_if :=
  match goal with
  | |- context [if ?c then _ else _] =>
    lazymatch c with
    | context [if _ then _ else _] => fail
    | _ => destruct c eqn:?
    end
  end.

Lemma zlen_nonneg : forall A (l : list A), 0 <= zlen l.
Proof. intros; unfold zlen; lia. Qed.
Lemma zlen_app : forall A (a b : list A), zlen (a ++ b) = zlen a + zlen b.
Proof. intros; unfold zlen; rewrite app_length; lia. Qed.
Lemma zlen_cons : forall A (x : A) l, zlen (x :: l) = 1 + zlen l.
Proof. intros; unfold zlen; cbn [length]; lia. Qed.
Lemma zlen_nil : forall A, zlen (@nil A) = 0.
Proof. reflexivity. Qed.

Lemma wrap_dim_norm_axis : forall r d, 0 < r -> wrap_dim r d = norm_axis r d.
Proof. intros r d H. unfold wrap_dim, norm_axis. replace (Z.max r 1) with r by lia. reflexivity. Qed.

Lemma norm_axis_range : forall r d a, norm_axis r d = Some a -> 0 <= a < r /\ (a = d \/ a = d + r) /\ - r <= d < r.
Proof.
  unfold norm_axis; intros r d a H.
  destruct ((- r <=? d) && (d <? r)) eqn:E; [|discriminate].
  destruct (d <? 0) eqn:E2; inversion H; subst; lia.
Qed.

Lemma ceil_div_1 : forall a, ceil_div a 1 = a.
Proof. intro a. unfold ceil_div. rewrite Z.div_1_r. lia. Qed.

Lemma ceil_div_pos : forall a b, 0 < b -> ceil_div a b = (a + b - 1) / b.
Proof.
  intros a b Hb. unfold ceil_div.
  pose proof (Z.div_mod (- a) b ltac:(lia)). pose proof (Z.mod_pos_bound (- a) b Hb).
  apply Z.div_unique with (r := b - 1 - (- a) mod b); [left; lia | nia].
Qed.

(* ---------------------------------------------------------------- take / drop *)
Lemma take_drop : forall A n (l : list A), take n l ++ drop n l = l.
Proof. intros; apply firstn_skipn. Qed.
Lemma take_all : forall A n (l : list A), zlen l <= n -> take n l = l.
Proof. intros A n l H. unfold take. apply firstn_all2. unfold zlen in H. lia. Qed.
Lemma drop_all : forall A n (l : list A), zlen l <= n -> drop n l = [].
Proof. intros A n l H. unfold drop. apply skipn_all2. unfold zlen in H. lia. Qed.
Lemma take_neg : forall A n (l : list A), n <= 0 -> take n l = [].
Proof. intros A n l H. unfold take. replace (Z.to_nat n) with O by lia. reflexivity. Qed.
Lemma drop_neg : forall A n (l : list A), n <= 0 -> drop n l = l.
Proof. intros A n l H. unfold drop. replace (Z.to_nat n) with O by lia. reflexivity. Qed.
Lemma zlen_take : forall A n (l : list A), 0 <= n <= zlen l -> zlen (take n l) = n.
Proof. intros A n l H. unfold zlen, take in *. rewrite firstn_length. lia. Qed.
Lemma zlen_drop : forall A n (l : list A), 0 <= n <= zlen l -> zlen (drop n l) = zlen l - n.
Proof. intros A n l H. unfold zlen, drop in *. rewrite skipn_length. lia. Qed.
Lemma drop_drop : forall A a b (l : list A), 0 <= a -> 0 <= b -> drop a (drop b l) = drop (a + b) l.
Proof.
  intros A a b l Ha Hb. unfold drop.
  replace (Z.to_nat (a + b)) with (Z.to_nat b + Z.to_nat a)%nat by lia.
  generalize (Z.to_nat a) (Z.to_nat b). clear. intros n m. revert l.
  induction m; intro l; [reflexivity|]. destruct l; cbn [skipn plus]; [destruct n; reflexivity|]. apply IHm.
Qed.

Lemma nthZ_app_drop : forall A (l : list A) i x, nthZ l i = Some x -> drop i l = x :: drop (i + 1) l.
Proof.
  intros A l i x. unfold nthZ, drop. destruct (i <? 0) eqn:E; [discriminate|].
  replace (Z.to_nat (i + 1)) with (S (Z.to_nat i)) by lia.
  generalize (Z.to_nat i). clear. intro n. revert l.
  induction n; intros [|y l] H; cbn in *; try discriminate.
  - inversion H; reflexivity.
  - apply IHn; assumption.
Qed.

Lemma nthZ_some : forall A (l : list A) i, 0 <= i < zlen l -> exists x, nthZ l i = Some x.
Proof.
  intros A l i H. unfold nthZ. destruct (i <? 0) eqn:E; [lia|].
  destruct (nth_error l (Z.to_nat i)) eqn:E2; [eauto|].
  apply nth_error_None in E2. unfold zlen in H. lia.
Qed.

(* ---------------------------------------------------------------- strided *)
Lemma strided_step1 : forall A (c : nat) (xs : list A) i,
  0 <= i -> i + Z.of_nat c <= zlen xs -> strided xs i 1 c = firstn c (drop i xs).
Proof.
  induction c; intros xs i Hi Hb; [reflexivity|].
  cbn [strided].
  destruct (nthZ_some A xs i ltac:(lia)) as [x Hx]. rewrite Hx.
  rewrite (nthZ_app_drop _ _ _ _ Hx). cbn [firstn]. f_equal.
  rewrite IHc by lia. reflexivity.
Qed.

Lemma strided_rev_aux : forall A (xs : list A) (k : nat), (k <= length xs)%nat ->
  strided xs (Z.of_nat k - 1) (-1) k = rev (firstn k xs).
Proof.
  intros A xs k. induction k; intro H; [reflexivity|].
  cbn [strided].
  destruct (nthZ_some A xs (Z.of_nat (S k) - 1) ltac:(unfold zlen; lia)) as [x Hx]. rewrite Hx.
  replace (Z.of_nat (S k) - 1 + -1) with (Z.of_nat k - 1) by lia.
  rewrite IHk by lia.
  assert (firstn (S k) xs = firstn k xs ++ [x]) as ->.
  { unfold nthZ in Hx. destruct (Z.of_nat (S k) - 1 <? 0); [discriminate|].
    replace (Z.to_nat (Z.of_nat (S k) - 1)) with k in Hx by lia.
    clear - Hx. revert xs Hx. induction k; intros [|y xs] Hx; cbn in *; try discriminate.
    - inversion Hx; reflexivity.
    - f_equal. apply IHk. assumption. }
  rewrite rev_app_distr. reflexivity.
Qed.

(* ---------------------------------------------------------------- Slice with step 1 *)
Definition sl_lo (n s : Z) : Z := clampZ 0 n (if s <? 0 then s + n else s).

Lemma clampZ_range : forall lo hi v, lo <= hi -> lo <= clampZ lo hi v <= hi.
Proof. intros. unfold clampZ. destruct (v <? lo) eqn:?; [lia|]. destruct (hi <? v) eqn:?; lia. Qed.

Lemma slice_axis_step1 : forall A (xs : list A) s e,
  slice_axis xs s e 1 = Some (take (sl_lo (zlen xs) e - sl_lo (zlen xs) s) (drop (sl_lo (zlen xs) s) xs)).
Proof.
  intros A xs s e. unfold slice_axis, slice_bounds. cbn [Z.eqb Z.ltb Z.compare].
  fold (sl_lo (zlen xs) s). fold (sl_lo (zlen xs) e).
  rewrite ceil_div_1.
  pose proof (clampZ_range 0 (zlen xs) (if s <? 0 then s + zlen xs else s) (zlen_nonneg _ xs)) as Hs.
  pose proof (clampZ_range 0 (zlen xs) (if e <? 0 then e + zlen xs else e) (zlen_nonneg _ xs)) as He.
  fold (sl_lo (zlen xs) s) in Hs. fold (sl_lo (zlen xs) e) in He.
  f_equal. rewrite strided_step1 by lia.
  unfold take. f_equal. lia.
Qed.

(* ---------------------------------------------------------------- products *)
Lemma prodZ_app : forall a b, prodZ (a ++ b) = prodZ a * prodZ b.
Proof.
  induction a as [|x a IH]; intro b.
  - change (prodZ ([] ++ b)) with (prodZ b). change (prodZ []) with 1. lia.
  - change (prodZ ((x :: a) ++ b)) with (x * prodZ (a ++ b)). rewrite IH.
    change (prodZ (x :: a)) with (x * prodZ a). ring.
Qed.
Lemma prodZ_pos : forall l, Forall (fun d => 0 < d) l -> 0 < prodZ l.
Proof. induction 1; [reflexivity|]. change (prodZ (x :: l)) with (x * prodZ l). nia. Qed.
Lemma prodZ_cons : forall a l, prodZ (a :: l) = a * prodZ l.
Proof. reflexivity. Qed.

(* ---------------------------------------------------------------- omap_all *)
Lemma omap_all_ext : forall A B (f g : A -> option B) l, (forall x, In x l -> f x = g x) -> omap_all f l = omap_all g l.
Proof.
  induction l; intro H; [reflexivity|]. cbn. rewrite (H a (or_introl eq_refl)). rewrite IHl; [reflexivity|].
  intros; apply H; right; assumption.
Qed.
Lemma omap_all_length : forall A B (f : A -> option B) l r, omap_all f l = Some r -> length r = length l.
Proof.
  induction l; intros r H; cbn in H.
  - inversion H; reflexivity.
  - destruct (f a); [|discriminate]. destruct (omap_all f l) eqn:E; [|discriminate]. inversion H; subst. cbn. f_equal. apply IHl; reflexivity.
Qed.
Lemma omap_all_weaken : forall A B (f g : A -> option B) l r,
  (forall x y, f x = Some y -> g x = Some y) -> omap_all f l = Some r -> omap_all g l = Some r.
Proof.
  induction l; intros r H E; cbn in *; [assumption|].
  destruct (f a) eqn:Ef; [|discriminate]. destruct (omap_all f l) eqn:El; [|discriminate].
  rewrite (H _ _ Ef). rewrite (IHl l0 H eq_refl). assumption.
Qed.
