(* n-D lift of the pad-into-conv statement of Rules/PadConv.v (C05): a signal over any number of axes, Pad and Conv as ONE
   object over the whole axis list (not axis by axis).
   An axis list may contain the channel axis: a Conv sums over the input channels of its group exactly like over a kernel
   axis with extent C/group, stride 1, dilation 1 and pads (0, 0) (that the Pad being fused has zero pads on batch and
   channel is what `pads_ok` checks); batch index and output channel only select x and w and are parameters here.
   No proofs in this file. *)
From Coq Require Import ZArith List Bool.
Require Import OV.Rules.PadConv.
Import ListNotations.
Local Open Scope Z_scope.

(* extents per axis and a total function of the index vector *)
Record sigN := { lens : list Z; atN : list Z -> Z }.

(* per-axis (begin, end) pads; axes beyond the list are not padded *)
Definition padsN := list (Z * Z).

Fixpoint inside (p : padsN) (ls idx : list Z) : bool :=
  match p, ls, idx with
  | (b, _) :: p', n :: ls', i :: idx' => (b <=? i) && (i <? b + n) && inside p' ls' idx'
  | _, _, _ => true
  end.
Fixpoint unshift (p : padsN) (idx : list Z) : list Z :=
  match p, idx with
  | (b, _) :: p', i :: idx' => (i - b) :: unshift p' idx'
  | _, _ => idx
  end.
Fixpoint plens (p : padsN) (ls : list Z) : list Z :=
  match p, ls with
  | (b, e) :: p', n :: ls' => (n + b + e) :: plens p' ls'
  | _, _ => ls
  end.

(* ONNX Pad, mode constant, value c, on all axes at once *)
Definition padcN (c : Z) (p : padsN) (x : sigN) : sigN :=
  {| lens := plens p (lens x);
     atN := fun idx => if inside p (lens x) idx then atN x (unshift p idx) else c |}.
Definition pad0N := padcN 0.

Fixpoint addp (p q : padsN) : padsN :=
  match p, q with
  | (b1, e1) :: p', (b2, e2) :: q' => (b1 + b2, e1 + e2) :: addp p' q'
  | _, _ => []
  end.
Definition nonnegp (p : padsN) : Prop := Forall (fun be => 0 <= fst be /\ 0 <= snd be) p.

(* sum_{t < k} g t *)
Fixpoint sumn (k : nat) (g : nat -> Z) : Z :=
  match k with O => 0 | S k' => sumn k' g + g k' end.
(* sum over the whole kernel index space ks = [k_1; ..; k_n] of w[t_1..t_n] * f[t_1..t_n] *)
Fixpoint dotN (ks : list nat) (w : list nat -> Z) (f : list Z -> Z) : Z :=
  match ks with
  | [] => w [] * f []
  | k :: ks' => sumn k (fun t => dotN ks' (fun ts => w (t :: ts)) (fun us => f (Z.of_nat t :: us)))
  end.
(* input position read by output position js and kernel offset ts: j_a * s_a + t_a * d_a on every axis *)
Fixpoint posN (js ss ds ts : list Z) : list Z :=
  match js, ss, ds, ts with
  | j :: js', s :: ss', d :: ds', t :: ts' => (j * s + t * d) :: posN js' ss' ds' ts'
  | _, _, _, _ => []
  end.

(* valid (un-padded) n-D convolution at output position js *)
Definition convN_at (w : list nat -> Z) (ks : list nat) (ss ds : list Z) (x : sigN) (js : list Z) : Z :=
  dotN ks w (fun ts => atN x (posN js ss ds ts)).
(* Conv with explicit pads = valid convolution of the zero-padded input (operator document) *)
Definition convN_pads_at w ks ss ds (p : padsN) x js := convN_at w ks ss ds (pad0N p x) js.
Fixpoint out_lens (ls : list Z) (ks : list nat) (ss ds : list Z) : list Z :=
  match ls, ks, ss, ds with
  | n :: ls', k :: ks', s :: ss', d :: ds' => ((n - keff (Z.of_nat k) d) / s + 1) :: out_lens ls' ks' ss' ds'
  | _, _, _, _ => []
  end.
Definition convN_pads_lens (ks : list nat) (ss ds : list Z) (p : padsN) (x : sigN) : list Z :=
  out_lens (lens (pad0N p x)) ks ss ds.

(* ONNX pads attribute [b_1..b_n, e_1..e_n] as per-axis pairs *)
Definition pairs_of (l : list Z) : padsN := let n := Nat.div2 (length l) in combine (firstn n l) (skipn n l).

(* flat views: an n-D convolution element is a dot product of the (row-major) flattened kernel with a patch of input
   elements that does not depend on the weights -- the form over which Rules/ConvAffine.v and Rules/BatchNorm.v state the
   conv-affine and batch-norm fusions *)
Fixpoint flatN {A} (ks : list nat) (g : list nat -> A) : list A :=
  match ks with
  | [] => [g []]
  | k :: ks' => flat_map (fun t => flatN ks' (fun ts => g (t :: ts))) (seq 0 k)
  end.
Fixpoint dotl (ws xs : list Z) : Z :=
  match ws, xs with w :: ws', x :: xs' => w * x + dotl ws' xs' | _, _ => 0 end.
Definition patchN (ks : list nat) (ss ds : list Z) (x : sigN) (js : list Z) : list Z :=
  flatN ks (fun ts => atN x (posN js ss ds (map Z.of_nat ts))).

(* ConvInteger: the zero point is subtracted from the data; the operator's own padding contributes 0 *)
Definition shiftN (zp : Z) (x : sigN) : sigN := {| lens := lens x; atN := fun i => atN x i - zp |}.
Definition convintN_host_at w ks ss ds (p q : padsN) zp x js := convN_at w ks ss ds (pad0N q (shiftN zp (pad0N p x))) js.
Definition convintN_pads_at w ks ss ds (p : padsN) zp x js := convN_at w ks ss ds (pad0N p (shiftN zp x)) js.
