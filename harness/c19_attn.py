"""C19 builders: attention-family instances (direct-oracle only) -- a self-attention block written the way exporters
emit it: projections reshaped/transposed to heads, scaled dot-product attention, optional mask and past key/value."""
from __future__ import annotations

import math

import numpy as np

from harness.c19_build import G


def attention_model(p):
    """q/k/v: [B,S,D] (k, v: [B,Skv,D]); D = H*Dh.
    key_kind: 'T' (key -> BHSd then Transpose 0,1,3,2) | 'BSHd' (key kept BSHd, Transpose 0,2,3,1)
    scale: ('qk', 'Mul'|'Div') | ('q', ...) | None ; mask: None | shape list ; past: Spast or None
    proj: True -> q/k/v are MatMul(+bias Add) projections of one input (Attention fusion shape)."""
    g = G(opset=18)
    dt = p["dtype"]
    B, S, H, Dh = p["B"], p["S"], p["H"], p["Dh"]
    Skv = p.get("Skv", S)
    D = H * Dh
    Bd = p.get("B_decl", B)
    Sd = p.get("S_decl", S)
    if p.get("proj"):
        x = g.inp("input", dt, [Bd, Sd, D], [B, S, D])
        rs = np.random.RandomState(p.get("wseed", 0))
        def proj(nm):
            w = g.const((rs.standard_normal((D, D)) * 0.3), dt, name=f"w_{nm}")
            y = g.op("MatMul", [x, w])
            if p.get("proj_bias"):
                y = g.op("Add", [y, g.const(rs.standard_normal((D,)) * 0.3, dt, name=f"b_{nm}")])
            return y
        if p.get("packed"):
            # one MatMul against the packed weight [D, 3D], sliced on the last axis; biases added to the slices
            W3 = 3 * D + p.get("pad", 0)              # pad: extra projection columns no slice is meant to cover (near misses)
            wq = g.const(rs.standard_normal((D, W3)) * 0.3, dt, name="w_qkv")
            pr = g.op("MatMul", [x, wq], out="projected")
            ax = g.const([2], "int64")
            e3 = p.get("slice_end", W3)
            bounds = p.get("slice_bounds", [(0, D), (D, 2 * D), (2 * D, e3)])

            def sl(nm, lo, hi):
                y = g.op("Slice", [pr, g.const([lo], "int64"), g.const([hi], "int64"), ax], out=f"{nm}_sliced")
                if p.get("proj_bias"):
                    y = g.op("Add", [y, g.const(rs.standard_normal((D,)) * 0.3, dt, name=f"b_{nm}")])
                return y
            q, k, v = (sl(nm, lo, hi) for nm, (lo, hi) in zip("qkv", bounds))
        else:
            q, k, v = proj("q"), proj("k"), proj("v")
        Skv = S
        Skd = Sd
    else:
        Skd = p.get("Skv_decl", Skv)
        q = g.inp("query", dt, [Bd, Sd, D], [B, S, D])
        k = g.inp("key", dt, [Bd, Skd, D], [B, Skv, D])
        v = g.inp("value", dt, [Bd, Skd, D], [B, Skv, D])
    to4 = lambda t, n: g.op("Reshape", [t, g.const([0, 0, H, Dh] if p.get("reshape0", True) else [B, n, H, Dh], "int64")])  # noqa: E731
    q4 = g.op("Transpose", [to4(q, S)], perm=[0, 2, 1, 3])
    v4 = g.op("Transpose", [to4(v, Skv)], perm=[0, 2, 1, 3])
    k4 = to4(k, Skv)
    past = p.get("past")
    if p["key_kind"] == "T" or past is not None:
        k4 = g.op("Transpose", [k4], perm=[0, 2, 1, 3])           # BHSd
        if past is not None:
            pk = g.inp("past_key", dt, [Bd, H, p.get("past_decl", past), Dh], [B, H, past, Dh])
            pv = g.inp("past_value", dt, [Bd, H, p.get("past_decl", past), Dh], [B, H, past, Dh])
            k4 = g.op("Concat", [pk, k4], axis=-2)
            v4 = g.op("Concat", [pv, v4], axis=-2)
        kt = g.op("Transpose", [k4], perm=[0, 1, 3, 2])
    else:
        kt = g.op("Transpose", [k4], perm=[0, 2, 3, 1])           # from BSHd directly
    St = Skv + (past or 0)
    sc = p.get("scale")
    default = 1.0 / math.sqrt(Dh)
    sval = p.get("scale_value", default)
    if sc and sc[0] == "q":
        q4 = g.op(sc[1], [q4, g.const(sval if sc[1] == "Mul" else 1.0 / sval, dt)])
    score = g.op("MatMul", [q4, kt])
    if sc and sc[0] == "qk":
        score = g.op(sc[1], [score, g.const(sval if sc[1] == "Mul" else 1.0 / sval, dt)])
    if p.get("mask") is not None:
        m = g.inp("mask", dt, list(p["mask"]))
        score = g.op("Add", [score, m])
    w = g.op("Softmax", [score], axis=-1)
    o4 = g.op("MatMul", [w, v4])
    o = g.op("Reshape", [g.op("Transpose", [o4], perm=[0, 2, 1, 3]), g.const([0, 0, D], "int64")])
    if p.get("out_proj"):
        rs = np.random.RandomState(7)
        o = g.op("MatMul", [o, g.const(rs.standard_normal((D, D)) * 0.3, dt, name="w_o")])
    g.op("Identity", [o], out="y")
    g.out("y", dt, [Bd, Sd, D])
    if past is not None:
        g.op("Identity", [k4], out="present_key")
        g.op("Identity", [v4], out="present_value")
        g.out("present_key", dt, [Bd, H, None, Dh])
        g.out("present_value", dt, [Bd, H, None, Dh])
    return g, dict(St=St)


def gqa_instance(p):
    """Group-query attention block of the repo's own GQAFusionTest (gqa_test.py: Phi-style export with rotary embedding,
    past key/value, causal mask built from Range/Greater), re-parameterised by (S, past, head_size, num_heads, kv_num_heads).
    Returns (onnx ModelProto with the value_infos the test adds, feeds spec {name: (dtype, shape)})."""
    import unittest

    import onnx
    from onnxscript import FLOAT
    from onnxscript.rewriter.ort_fusions import gqa_test

    t = gqa_test.GQAFusionTest.__new__(gqa_test.GQAFusionTest)
    unittest.TestCase.__init__(t, "test_fusion")
    t.batchsize = 1
    t.seqlen = S = p["S"]
    t.kv_seqlen = S
    t.past_seqlen = P = p["past"]
    t.head_size = Dh = p["Dh"]
    t.num_heads = H = p["H"]
    t.kv_num_heads = Hkv = p["Hkv"]
    t.hidden_size = D = Dh * H
    t.kv_hidden_size = Dkv = Dh * Hkv
    t.num_groups = H // Hkv
    t.total_seqlen = T = S + P
    input_types = (FLOAT["B", "S", D], FLOAT["B", "S", Dkv], FLOAT["B", "S", Dkv], FLOAT["B", Hkv, "P", Dh], FLOAT["B", Hkv, "P", Dh],
                   FLOAT["max_seqlen", Dh // 2], FLOAT["max_seqlen", Dh // 2])
    output_types = (FLOAT["B", "S", D], FLOAT["B", Hkv, "T", Dh], FLOAT["B", Hkv, "T", Dh])
    m = t.source_model_script().to_model_proto(input_types=input_types, output_types=output_types)
    vi = onnx.helper.make_tensor_value_info
    F = onnx.TensorProto.FLOAT
    m.graph.value_info.extend([
        vi("query_BHSDh_rope", F, ["B", H, S, Dh]), vi("key_BHkvSDh_rope", F, ["B", Hkv, S, Dh]),
        vi("query_BSHDh", F, ["B", S, H, Dh]), vi("key_BHSDh", F, ["B", H, T, Dh]), vi("key_BSHkvDh", F, ["B", S, Hkv, Dh]),
        vi("key_transposed", F, ["B", H, Dh, T]), vi("value_BHSDh", F, ["B", H, T, Dh])])
    spec = {"query": ("float32", (1, S, D)), "key": ("float32", (1, S, Dkv)), "value": ("float32", (1, S, Dkv)),
            "past_key": ("float32", (1, Hkv, P, Dh)), "past_value": ("float32", (1, Hkv, P, Dh)),
            "cos": ("float32", (T, Dh // 2)), "sin": ("float32", (T, Dh // 2))}
    return m, spec
