(* C04, session 6: "every domain used has an opset import, and nothing the result still references (function) has been removed" for the
   two table-pruning passes of optimize_ir, over the models of coq/Opt/InlineFn.v. *)
From Coq Require Import List String ZArith Bool.
Require Import OV.Graph.Syntax OV.Graph.Wf OV.Builder.Inline OV.Opt.InlineFn OV.Opt.InlineFnProofs.
Import ListNotations.

(* RemoveUnusedFunctionsPass: a function called from the main graph (at any nesting depth) or from the body of a function that is kept
   is found in the table afterwards exactly as before *)
Theorem C04_remove_unused_functions_keeps_called : forall g ft d o f,
  find_fn ft d o = Some f ->
  (In (d, o) (ops_graph g) \/ exists f', In f' (remove_unused_functions_fn g ft) /\ In (d, o) (ops_nodes (f_body f'))) ->
  find_fn (remove_unused_functions_fn g ft) d o = Some f.
Proof. exact remove_unused_functions_keeps_called. Qed.
Print Assumptions C04_remove_unused_functions_keeps_called.

(* RemoveUnusedOpsetsPass on one serialized container (the model with its main graph, or a function with its body): the verified checker
   imports_ok (every domain used, recursively through nested graphs, is imported; no duplicate import) still holds afterwards;
   `extra` = the domains the pass keeps besides (the domains of the model's functions, for the model's list) *)
Theorem C04_remove_unused_opsets_keeps_used : forall imports g extra,
  imports_ok imports g = true -> imports_ok (remove_unused_opsets imports (domains_graph g ++ extra)) g = true.
Proof. exact remove_unused_opsets_keeps_used. Qed.
Print Assumptions C04_remove_unused_opsets_keeps_used.

(* after InlinePass no node of the main graph (nested graphs included) names a function of the table: dropping the table removes nothing
   that is referenced *)
Theorem C04_inlined_graph_calls_no_function : forall fu ft names_oracle g g',
  inline_model fu ft names_oracle g = Some g' -> no_calls ft g' = true.
Proof. exact inline_model_no_calls. Qed.
Print Assumptions C04_inlined_graph_calls_no_function.
