(* C19 proofs: composition of the fusion pipeline. *)
From Coq Require Import List String Bool.
Require Import OV.Fusion.Pipeline.
Import ListNotations.
Local Open Scope string_scope.

Section Compose.
  Variables (M D : Type) (sem : M -> D) (interp : stage -> M -> M).

  Lemma run_app : forall l1 l2 m, run M interp (l1 ++ l2) m = run M interp l2 (run M interp l1 m).
  Proof. intros. unfold run. apply fold_left_app. Qed.

  (* stage-wise soundness composes, for ANY stage list *)
  Theorem run_preserves : forall l, (forall s, In s l -> forall m, sem (interp s m) = sem m) -> forall m, sem (run M interp l m) = sem m.
  Proof.
    induction l as [|s l IH]; intros H m; simpl; auto.
    unfold run in *. simpl. rewrite IH; [apply H; simpl; auto | intros; apply H; simpl; auto].
  Qed.

  (* whenever the shape predicate holds, soundness of the stages NAMED in the table is enough for the whole pipeline *)
  Theorem pipeline_sound_of_shape : forall pre fx ofo rules, pipeline_ok pre fx ofo rules = true ->
    (forall s, mem (s_name s) known_names = true -> forall m, sem (interp s m) = sem m) ->
    forall m, sem (run M interp (whole_pipeline pre fx ofo) m) = sem m.
  Proof.
    intros pre fx ofo rules OK H m. apply run_preserves. intros s Hs. apply H.
    unfold pipeline_ok in OK. repeat (apply andb_prop in OK; destruct OK as [OK _]).
    rewrite forallb_forall in OK. apply OK. exact Hs.
  Qed.
  (* stages compose in source order: fuse_xformers is the prefix of optimize_for_ort after gemm_to_matmul_add *)
  Theorem run_expand1 : forall n body l m, run M interp (expand1 n body l) m
    = fold_left (fun m s => if is_call n s then run M interp body m else interp s m) l m.
  Proof.
    intros n body l. induction l as [|s l IH]; intro m; simpl; auto.
    unfold expand1 in *. simpl. rewrite run_app. rewrite IH. destruct (is_call n s); reflexivity.
  Qed.
End Compose.
