(* C10 -- the generated obligation over the regenerated schema table, and the corollary for the
   conversion state machine: nodes without an adapter are only re-stamped and stay valid. *)
From Coq Require Import ZArith List Bool String Lia.
Import ListNotations.
Require Import OV.Gen.VersionTables OV.Gen.VersionSchemas OV.Gen.VersionDocSteps OV.Version.Model OV.Version.Adapters OV.Version.Schema
               OV.Version.Std OV.Version.ConvertProofs OV.Version.SchemaProofs OV.Version.SchemaStd.
Local Open Scope Z_scope.

(* ---------------------------------------------------------------- generated obligation (finite: vm_compute) *)
Lemma exceptions_exact : table_exceptions registry_keys schema_table = schema_exceptions.
Proof. vm_compute. reflexivity. Qed.

Lemma table_ok : table_okb registry_keys schema_exceptions schema_table = true.
Proof. vm_compute. reflexivity. Qed.

Lemma table_sorted : table_ascending schema_table = true.
Proof. vm_compute. reflexivity. Qed.

(* every step of the table: adapter registered, or upward compatible, or listed *)
Lemma table_steps : forall op h, In (op, h) schema_table ->
  chainb (fun k => adapted_at registry_keys op k || excepted schema_exceptions op k) h = true.
Proof.
  intros op h H. pose proof table_ok as T. unfold table_okb in T. rewrite forallb_forall in T. exact (T _ H).
Qed.

(* the exception is real: a view valid at 18 is invalid at 19 (and valid again at 23) *)
Lemma quantizelinear_19_refuted :
  valid_at schema_table "QuantizeLinear" 18 ql_int32 = true /\
  valid_at schema_table "QuantizeLinear" 19 ql_int32 = false /\
  valid_at schema_table "QuantizeLinear" 22 ql_int32 = false /\
  valid_at schema_table "QuantizeLinear" 23 ql_int32 = true /\
  adapted_at registry_keys "QuantizeLinear" 18 = false.
Proof. vm_compute. repeat split; reflexivity. Qed.

(* ---------------------------------------------------------------- re-stamped nodes stay valid *)
Lemma std_quiet : forall fx lo op, q_from lo op = true -> forall k n, lo <= k -> std_adapt fx op k n = ANone.
Proof.
  intros fx lo op H k n Hk. unfold std_adapt, adapt_of.
  change (existsb (key_is op k) registry_keys) with (adapted_at registry_keys op k).
  now rewrite (no_adapter_from_adapted registry_keys lo op k H Hk).
Qed.

Lemma q_std_from : forall lo op, q_std op = true -> q_from lo op = true.
Proof.
  intros lo op H. unfold q_std, no_adapter in H. unfold q_from, no_adapter_from. apply negb_true_iff in H. apply negb_true_iff.
  apply not_true_iff_false. intros Hx. apply existsb_exists in Hx as ([[[d o] v] up] & Hin & E).
  apply andb_true_iff in E as [E Eup]. apply andb_true_iff in E as [E _].
  assert (C : existsb (fun key => let '(d, o, _, up) := key in String.eqb d "" && String.eqb o op && up) registry_keys = true).
  { apply existsb_exists. exists (d, o, v, up). split; [exact Hin|]. now rewrite E, Eup. }
  congruence.
Qed.

Theorem restamped_valid : forall n n' info s t,
  strip n' = strip n -> q_from s (n_op n) = true -> clear_of schema_exceptions (n_op n) s t = true -> s <= t ->
  valid_at schema_table (n_op n) s (vnode_of n info) = true ->
  valid_at schema_table (n_op n') t (vnode_of n' info) = true.
Proof.
  intros n n' info s t E Hq Hcl Hst Hv. destruct (vnode_of_strip n n' info E) as [-> ->].
  eapply table_valid_transfer; eauto using table_ok.
  unfold valid_at in Hv. destruct (hist_of schema_table (n_op n)) as [h|]; [|discriminate].
  exists h. split; [reflexivity|].
  destruct (sch_at h s) as [a|] eqn:Ea; [|discriminate].
  destruct (sch_at_mono h s t a Ea Hst) as (b & Eb). congruence.
Qed.

Lemma map_strip_Forall2 : forall l l', map strip l' = map strip l -> Forall2 (fun n n' => strip n' = strip n) l l'.
Proof.
  induction l as [|a l IH]; intros [|b l'] H; try discriminate; constructor.
  - cbn in H. now injection H.
  - apply IH. cbn in H. now injection H.
Qed.

Lemma forallb_at_vergeb : forall s l, forallb (at_version s) l = true -> forallb (vergeb s) l = true.
Proof.
  intros s l H. apply forallb_forall. intros x Hx. rewrite forallb_forall in H. apply at_version_vergeb, H, Hx.
Qed.

Section NativeQuiet.
  Variable fx : flags.
  Variable fuel : nat.

  Lemma conv_funcs_quiet : forall s t fs fs' e l,
    forallb (fun f => forallb (quietb (q_from s)) (f_nodes f)) fs = true ->
    forallb (fun f => forallb (vergeb s) (f_nodes f)) fs = true ->
    conv_funcs (std_adapt fx) fuel t (Some s) fs = (fs', e, l) ->
    Forall2 (fun f f' => map strip (f_nodes f') = map strip (f_nodes f)) fs fs'.
  Proof.
    intros s t. induction fs as [|f fs IH]; intros fs' e l Hq Hv H; cbn in H.
    - inversion H. constructor.
    - cbn [forallb] in Hq, Hv. apply andb_true_iff in Hq as [Hf Hfs]. apply andb_true_iff in Hv as [Hvf Hvfs].
      destruct (proj1 (quiet_main (std_adapt fx) (q_from s) s (std_quiet fx s) t (Some s) (Z.le_refl s) fuel) (f_nodes f) Hf Hvf) as [Hs _].
      destruct (conv (std_adapt fx) t (Some s) fuel (f_nodes f)) as [ns l1|e1 ns l1]; cbn [gout] in Hs.
      + destruct (conv_funcs (std_adapt fx) fuel t (Some s) fs) as [[rest' e2] l2] eqn:Er.
        inversion H; subst. constructor; [exact Hs|]. eapply IH; eauto.
      + inversion H; subst. constructor; [exact Hs|].
        clear. induction fs; constructor; auto.
  Qed.

  (* the "passes the checker against t" half of the property for the native path: a model whose nodes all
     belong to operators without an adapter at any version >= s (so also DFT/GridSample at s >= 20, GroupNormalization
     at s >= 21) is converted by re-stamping only (same nodes up to versions, main graph and functions, recursively
     through subgraphs), and every node valid under the schema of opset s is valid under the schema of opset t *)
  Theorem native_unadapted_valid : forall s t M M' l,
    consistent_at s M = true ->
    forallb (quietb (q_from s)) (m_graph M) = true ->
    forallb (fun f => forallb (quietb (q_from s)) (f_nodes f)) (m_funcs M) = true ->
    convert_native (std_adapt fx) supported_min supported_max fuel M t = MDone M' l ->
    Forall2 (fun n n' => strip n' = strip n) (m_graph M) (m_graph M') /\
    Forall2 (fun f f' => Forall2 (fun n n' => strip n' = strip n) (f_nodes f) (f_nodes f')) (m_funcs M) (m_funcs M') /\
    m_decl M' = Some t /\ t <= supported_max /\
    (s <= t -> forall n n' info, strip n' = strip n -> q_from s (n_op n) = true ->
       clear_of schema_exceptions (n_op n) s t = true ->
       valid_at schema_table (n_op n) s (vnode_of n info) = true ->
       valid_at schema_table (n_op n') t (vnode_of n' info) = true).
  Proof.
    intros s t M M' l Hc Hg Hf H. unfold convert_native in H.
    destruct ((t >? supported_max) || (t <? supported_min)) eqn:Er; [discriminate|].
    apply orb_false_iff in Er as [Er _].
    rewrite (default_version_consistent s M Hc) in H.
    apply consistent_at_inv in Hc as (_ & _ & Hcg & Hcf).
    destruct (conv (std_adapt fx) t (Some s) fuel (m_graph M)) as [g l1|e g l1] eqn:Eg; [|discriminate].
    destruct (conv_funcs (std_adapt fx) fuel t (Some s) (m_funcs M)) as [[fs [e|]] l'] eqn:Ef; [discriminate|].
    inversion H; subst. cbn [m_graph m_funcs m_decl].
    split.
    { apply map_strip_Forall2.
      eapply (conv_quiet_strip (std_adapt fx) (q_from s) s (std_quiet fx s) t (Some s) (Z.le_refl s)); eauto.
      now apply forallb_at_vergeb. }
    split.
    { eapply Forall2_weaken; [|eapply conv_funcs_quiet; eauto]. { intros a b. apply map_strip_Forall2. }
      apply forallb_forall. intros f Hfin. rewrite forallb_forall in Hcf. specialize (Hcf f Hfin).
      unfold func_at in Hcf. apply andb_true_iff in Hcf as [_ Hn]. now apply forallb_at_vergeb. }
    split; [reflexivity|]. split; [lia|].
    intros Hst n n' info. intros. eapply restamped_valid; eauto.
  Qed.
End NativeQuiet.

(* non-vacuity: Cast and If (with a Cast inside) and a function, 18 -> 25 across five schema versions of each *)
Lemma native_unadapted_example : exists M',
  consistent_at 18 ex_quiet_model = true /\
  forallb (quietb (q_from 18)) (m_graph ex_quiet_model) = true /\
  std_native flags_current ex_quiet_model 25 = MDone M' [] /\
  valid_at schema_table "Cast" 18 (vnode_of cast_node cast_info) = true /\
  valid_at schema_table "If" 18 (vnode_of if_node if_info) = true /\
  clear_of schema_exceptions "Cast" 18 25 = true /\
  forallb (fun n' => valid_at schema_table (n_op n') 25 (vnode_of n' (if String.eqb (n_op n') "If" then if_info else cast_info))) (m_graph M') = true.
Proof. eexists. vm_compute. repeat split; reflexivity. Qed.

(* upward_compatb is not trivially true/false on the table: it accepts Cast 13 -> 19 (new optional attribute) and
   rejects DFT 17 -> 20 (attribute removed), GridSample 16 -> 20 (default changed) *)
Definition step_compat (op : string) (i : nat) : option bool :=
  match hist_of schema_table op with
  | Some h => match nth_error h i, nth_error h (S i) with Some a, Some b => Some (upward_compatb a b) | _, _ => None end
  | None => None
  end.
Lemma upward_compat_examples :
  step_compat "Cast" 0 = Some true /\ step_compat "DFT" 0 = Some false /\ step_compat "GridSample" 0 = Some false /\
  step_compat "GroupNormalization" 0 = Some true /\ step_compat "QuantizeLinear" 0 = Some false /\ step_compat "QuantizeLinear" 2 = Some true.
Proof. vm_compute. repeat split; reflexivity. Qed.

Lemma native_function_opset_ignored : forall fx, exists M M' f',
  m_decl M = Some 20 /\ forallb (at_version 20) (m_graph M) = true /\
  forallb (func_at 19) (m_funcs M) = true /\
  std_native fx M 21 = MDone M' [] /\ m_funcs M' = [f'] /\ f_decl f' = Some 21 /\
  valid_at schema_table "DFT" 19 (vnode_of dft_axis1 dft_info) = true /\
  forallb (fun n' => valid_at schema_table (n_op n') 21 (vnode_of n' dft_info)) (f_nodes f') = false /\
  map strip (f_nodes f') = [strip dft_axis1].
Proof. intros [[] []]; exists w_func_opset; eexists; eexists; vm_compute; repeat split; reflexivity. Qed.

(* ---------------------------------------------------------------- documented semantics *)
Lemma doc_behavioural_exact : behavioural_unadapted registry_keys doc_steps = doc_behavioural_exceptions.
Proof. vm_compute. reflexivity. Qed.

(* every step classified behavioural has an adapter or is a listed exception; all the others are widening / neutral
   attribute / editorial *)
Lemma doc_steps_obligation : forall op v c, In (op, v, c) doc_steps ->
  c <> DBehavioural \/ adapted_at registry_keys op (v - 1) = true \/ In (op, v) doc_behavioural_exceptions.
Proof.
  intros op v c H. destruct c; try (left; discriminate). right.
  destruct (adapted_at registry_keys op (v - 1)) eqn:E; [now left|right].
  rewrite <- doc_behavioural_exact. unfold behavioural_unadapted. apply in_flat_map.
  exists (op, v, DBehavioural). split; [exact H|]. cbn [is_behavioural]. rewrite E. now left.
Qed.
