"""C10 -- source-level normal form of the three readers of _version_converter.py before they are translated to
coq/Gen/VersionHelpers.v (harness/c10_helpers.py).

The theorems of Version/HelpersProofs.v are about the GENERATED term; a rewrite of the readers that cannot change what they
compute must therefore produce the same term (or the check raises a `tie-broken:proof` alarm on a harmless refactor).  Every
rewrite below maps a function body to one with the same behaviour for every input (argument given at each rule); whatever
is not recognised is left alone, so the translator stays fail-closed and a rewrite that DOES change the behaviour
(`attr.value or default`, ...) still reaches Coq as a different term.  The shared rewrites of harness/c01_pynorm.py
(inline_single_use, _local_bindings, terminates) are imported, not copied.

  lift_ifexp    `return X if C else Y`  ==  `if C: return X` / `else: return Y`;   `v = X if C else Y`  ==  `if C: v = X` /
                `else: v = Y`  (C is evaluated first, then exactly one of X / Y, then the return / the store: same order)
  inline        `v = E; S` with v bound once and read once, the read being the first thing S evaluates  ==  S[v := E]
                (c01_pynorm.inline_single_use; covers `v = E; return v`)
  nest          `if A: B else: C` followed by REST, where B leaves the function on every path (return / raise) and C does not
                ==  `if A: B else: (C; REST)`: REST runs exactly when the else branch was taken.  Symmetrically when only C
                leaves.  When both leave REST is dead and dropped.  Applied recursively, a chain of guard clauses becomes
                one decision tree whose every `if` with a leaving branch is the last statement of its block.
  polarity      `a not in b` == `not (a in b)` and `a is not b` == `not (a is b)` (language reference 6.10.2 / 6.10.3: defined
                as the negation);  in TEST position only the truth value is used, so `not not T` == `T`, and
                `if not T: X else: Y`  ==  `if T: Y else: X`.
  names         parameters are renamed by POSITION to the canonical names of the Coq argument environments and locals by
                binding position (in the normalised body) to `_l0`, `_l1`, ...; a body that already uses one of the target
                names for something else is refused (no capture).
"""
from __future__ import annotations

import ast
import copy

from harness import c01_pynorm as pn


class Refused(Exception):
    pass


# ----------------------------------------------------------------------------- if-expressions

def lift_ifexp(stmts):
    out = []
    for st in stmts:
        if isinstance(st, ast.Return) and isinstance(st.value, ast.IfExp):
            e = st.value
            out.append(ast.If(test=e.test, body=lift_ifexp([ast.Return(value=e.body)]), orelse=lift_ifexp([ast.Return(value=e.orelse)])))
        elif (isinstance(st, ast.Assign) and len(st.targets) == 1 and isinstance(st.targets[0], ast.Name)
              and isinstance(st.value, ast.IfExp)):
            e = st.value
            mk = lambda v: ast.Assign(targets=[copy.deepcopy(st.targets[0])], value=v)
            out.append(ast.If(test=e.test, body=lift_ifexp([mk(e.body)]), orelse=lift_ifexp([mk(e.orelse)])))
        elif isinstance(st, ast.If):
            out.append(ast.If(test=st.test, body=lift_ifexp(st.body), orelse=lift_ifexp(st.orelse)))
        else:
            out.append(st)
    return out


# ----------------------------------------------------------------------------- decision-tree form

def nest(stmts):
    out = []
    for i, st in enumerate(stmts):
        if isinstance(st, ast.If):
            body, orelse, rest = nest(st.body), nest(st.orelse), list(stmts[i + 1:])
            tb, te = pn.terminates(body), pn.terminates(orelse)
            if tb and te:
                out.append(ast.If(test=st.test, body=body, orelse=orelse))
                return out                                   # REST is dead
            if tb and rest:
                out.append(ast.If(test=st.test, body=body, orelse=nest(orelse + rest)))
                return out
            if te and rest:
                out.append(ast.If(test=st.test, body=nest(body + rest), orelse=orelse))
                return out
            out.append(ast.If(test=st.test, body=body, orelse=orelse))
        else:
            out.append(st)
            if isinstance(st, (ast.Return, ast.Raise)):
                return out                                   # what follows is dead
    return out


class _Negations(ast.NodeTransformer):
    def visit_Compare(self, node):
        self.generic_visit(node)
        if len(node.ops) == 1 and isinstance(node.ops[0], (ast.NotIn, ast.IsNot)):
            op = ast.In() if isinstance(node.ops[0], ast.NotIn) else ast.Is()
            return ast.UnaryOp(op=ast.Not(), operand=ast.Compare(left=node.left, ops=[op], comparators=node.comparators))
        return node


def _strip_not(test):
    """(T', flipped) with truth(test) == truth(T') xor flipped"""
    flipped = False
    while isinstance(test, ast.UnaryOp) and isinstance(test.op, ast.Not):
        test, flipped = test.operand, not flipped
    return test, flipped


def polarity(stmts):
    out = []
    for st in stmts:
        if isinstance(st, ast.If):
            test, flipped = _strip_not(st.test)
            body, orelse = polarity(st.body), polarity(st.orelse)
            if flipped:
                body, orelse = orelse, body
            out.append(ast.If(test=test, body=body or [ast.Pass()], orelse=orelse))
        else:
            out.append(st)
    return out


# ----------------------------------------------------------------------------- the whole normal form

def _only_simple(stmts):
    """the rewrites above are argued for bodies made of assignments, returns, raises, pass and if statements"""
    for st in stmts:
        if isinstance(st, ast.If):
            _only_simple(st.body)
            _only_simple(st.orelse)
        elif not isinstance(st, (ast.Assign, ast.AnnAssign, ast.Return, ast.Raise, ast.Pass, ast.Expr)):
            raise Refused(f"statement {type(st).__name__}")


def normal_form(fn, canon_params):
    """(FunctionDef in normal form, {source name: canonical name}).  canon_params: canonical names of the positional
    parameters (None = keep, used for the node parameter)."""
    fn = ast.parse(ast.unparse(fn)).body[0]                  # fresh tree
    fn.body = pn.strip_doc(fn.body) or [ast.Pass()]
    fn = pn._DropLocalAnnotations().visit(fn)
    _only_simple(fn.body)
    fn = _Negations().visit(fn)
    fn = pn.inline_single_use(fn)
    fn.body = lift_ifexp(fn.body)
    fn = pn.inline_single_use(ast.fix_missing_locations(fn))
    fn.body = polarity(nest(fn.body))
    fn = ast.fix_missing_locations(fn)
    try:
        names = pn._local_bindings(fn)
    except pn.NotNormalisable as e:
        raise Refused(str(e))
    params = [a.arg for a in fn.args.args]
    if names[:len(params)] != params or len(params) != len(canon_params):
        raise Refused("unexpected parameter list")
    mapping = {}
    for p, c in zip(params, canon_params):
        mapping[p] = c if c is not None else p
    for i, loc in enumerate(names[len(params):]):
        mapping[loc] = f"_l{i}"
    targets = set(mapping.values())
    if len(targets) != len(mapping):
        raise Refused("two names with the same canonical name")
    for n in ast.walk(fn):
        if isinstance(n, ast.Name) and n.id not in mapping and n.id in targets:
            raise Refused(f"`{n.id}` is a canonical name used for something else")
    return fn, mapping
