"""Translator  onnxscript/_internal/analysis.py  ->  coq/Gen/Analysis.v   (DESIGN.md 4.1).

Fail-closed: every function of the analysis is either
  * translated compositionally (the per-statement arms of `assigned_vars`, `do_visit` (liveness) and
    `exposed_uses.visit`: `isinstance` chain -> `match` arms, set algebra -> list-set operations,
    the `while curr != prev` fixpoints -> `iterate` with fuel), or
  * verified against a fixed template (normalised `ast.dump` equality): `_used_vars`, `_lhs_vars`,
    `_get_loop_var`, `_compute_constant_if_conditions`, `constant_if_condition`, the memoising `visit`,
    the `visit_block` folds and the driver loop of `do_liveness_analysis`.
Anything else raises Untranslatable(where, why).

Equivalent spellings are accepted (harness/c01_pynorm.py gives the argument for each rewrite): if/elif/else chains whose
branches all return vs the early-return form, `isinstance(x, (A, B))` / `T1 or T2` dispatch tests with a shared arm,
any split on the three values of constant_if_condition(stmt) that tests it with is None / is not None / truth / not /
and / or (partial evaluation per value), `v = E; return v`, renamed parameters (by position) and, inside the
template-verified functions, renamed locals, single-use temporaries and nested vs conjoined ifs.  The order of the arms
of a dispatcher is irrelevant because the recognised tests are pairwise disjoint: isinstance on the distinct,
unrelated classes ast.Assign / AnnAssign / Return / If / For / While / Break / FunctionDef and list; is_print_call and
is_doc_string only hold of ast.Expr statements with a Call resp. a Constant value.

Arms for constructs that Script.Syntax does not have (AnnAssign, FunctionDef, print, docstring) are
recognised and listed as not modelled; an unknown arm is an error.
"""
from __future__ import annotations

import ast
import copy
import os

from harness import c01_pynorm as pynorm


class Untranslatable(Exception):
    pass


def _strip_doc(body):
    if body and isinstance(body[0], ast.Expr) and isinstance(body[0].value, ast.Constant) and isinstance(body[0].value.value, str):
        return body[1:]
    return body


def _norm_dump(node):
    """ast.dump of a function with docstrings and comments removed."""
    node = ast.parse(ast.unparse(node))   # normalise positions
    for n in ast.walk(node):
        if isinstance(n, (ast.FunctionDef, ast.ClassDef)):
            n.body = _strip_doc(n.body) or [ast.Pass()]
    return ast.dump(node)


TEMPLATES = {
    "_get_loop_var": '''
def _get_loop_var(for_stmt: ast.For, formatter: sourceinfo.Formatter) -> str:
    if not isinstance(for_stmt.target, ast.Name):
        raise TypeError(formatter(for_stmt, "For loop target must be a single variable."))
    return for_stmt.target.id
''',
    "_used_vars": '''
def _used_vars(expr: Optional[ast.expr]) -> Set[str]:
    if expr is None:
        return set()
    if isinstance(expr, ast.Name):
        return {expr.id}
    result = set()
    if isinstance(expr, ast.Call):
        # The callee-expression is not visited
        children = expr.args
        for keyword in expr.keywords:
            if isinstance(keyword.value, ast.Name):
                result.add(keyword.value.id)
    else:
        children = ast.iter_child_nodes(expr)  # type: ignore[assignment]
    for c in children:
        result = result | _used_vars(c)
    return result
''',
    "_lhs_vars": [  # either version (the second is the located-error repair)
        '''
def _lhs_vars(lhs: ast.expr) -> Set[str]:
    def get_id(e):
        assert isinstance(e, ast.Name), "Only simple assignments supported."
        return e.id

    if isinstance(lhs, ast.Tuple):
        return {get_id(x) for x in lhs.elts}
    return {get_id(lhs)}
''', '''
def _lhs_vars(lhs: ast.expr) -> Set[str]:
    def get_id(e):
        if not isinstance(e, ast.Name):
            raise ValueError(
                f"ERROR: Only simple assignments supported.\\nat: Line {getattr(e, 'lineno', '?')}"
            )
        return e.id

    if isinstance(lhs, ast.Tuple):
        return {get_id(x) for x in lhs.elts}
    return {get_id(lhs)}
'''],
    # second form: the repaired code also excludes the function's parameters (a parameter shadows a module global of
    # the same name); the harness then removes the parameter names from the globals it hands to the Coq side
    # (c01_gen.coq_globals, decided by probing the real analyzer: c01_run.constant_if_excludes_parameters)
    "_compute_constant_if_conditions": ['''
def _compute_constant_if_conditions(self, fun: ast.FunctionDef, globals: dict[str, Any]) -> None:
    assigned_vars = self.assigned_vars(fun.body)
    for node in ast.walk(fun):
        if isinstance(node, ast.If):
            if isinstance(node.test, ast.Name):
                python_var = node.test.id
                if python_var not in assigned_vars and python_var in globals:
                    # Condition depends on an outer-scope variable.
                    self._constant_if_condition[node] = bool(globals[python_var])
''', '''
def _compute_constant_if_conditions(self, fun: ast.FunctionDef, globals: dict[str, Any]) -> None:
    assigned_vars = self.assigned_vars(fun.body)
    parameters = {arg.arg for arg in fun.args.posonlyargs + fun.args.args + fun.args.kwonlyargs}
    for node in ast.walk(fun):
        if isinstance(node, ast.If):
            if isinstance(node.test, ast.Name):
                python_var = node.test.id
                if python_var not in assigned_vars and python_var not in parameters and python_var in globals:
                    self._constant_if_condition[node] = bool(globals[python_var])
'''],
    "constant_if_condition": '''
def constant_if_condition(self, if_stmt: ast.If) -> Optional[bool]:
    return self._constant_if_condition.get(if_stmt, None)
''',
    "__init__": '''
def __init__(self, fun: ast.FunctionDef, formatter: sourceinfo.Formatter, globals: dict[str, Any] | None = None) -> None:
    self._formatter = formatter
    self._constant_if_condition: dict[ast.If, bool] = {}
    self._live_in: dict[ast.stmt, Set[str]] = {}
    self._live_out: dict[ast.stmt, Set[str]] = {}
    if globals:
        self._compute_constant_if_conditions(fun, globals)
    self.do_liveness_analysis(fun)
''',
    "live_in": '''
def live_in(self, stmt: ast.stmt) -> Set[str] | None:
    return self._live_in.get(stmt)
''',
    "live_out": '''
def live_out(self, stmt: ast.stmt) -> Set[str] | None:
    return self._live_out.get(stmt)
''',
    "liveness.visit": '''
def visit(stmt: ast.stmt, live_out: Set[str]) -> Set[str]:
    self._live_out[stmt] = live_out
    live = do_visit(stmt, live_out)
    self._live_in[stmt] = live
    return live
''',
    "liveness.visit_block": '''
def visit_block(block: Sequence[ast.stmt], live_out: Set[str]) -> Set[str]:
    for s in reversed(block):
        live_out = visit(s, live_out)
    return live_out
''',
    "exposed.visit_block": '''
def visit_block(block: Sequence[ast.stmt], live_out: Set[str]) -> Set[str]:
    for stmt in reversed(block):
        live_out = visit(stmt, live_out)
    return live_out
''',
    "assigned_in_block": '''
def assigned_in_block(block: Sequence[ast.stmt]) -> Set[str]:
    result: set[Any] = set()
    for s in block:
        result = result | self.assigned_vars(s)
    return result
''',
}


def _check_template(name, node, where):
    tmpl = TEMPLATES[name]
    tmpls = tmpl if isinstance(tmpl, list) else [tmpl]
    got = _norm_dump(node)
    cgot = pynorm.alpha_dump(node)
    for t in tmpls:
        tn = ast.parse(t).body[0]
        if got == _norm_dump(tn) or cgot == pynorm.alpha_dump(tn):
            return
    raise Untranslatable(where, f"function `{name}` no longer has the shape the translator knows (line {node.lineno})")


# ----------------------------------------------------------------------------- set expressions

class ArmCtx:
    """How the fields of `stmt` are spelled in Coq inside one match arm."""

    def __init__(self, kind, fields, block_fn, recur_fn, monadic):
        self.kind = kind
        self.fields = fields        # python source of an expression -> coq text
        self.block_fn = block_fn    # python name of the block visitor -> coq function name (applied to a block field [, live])
        self.recur_fn = recur_fn
        self.monadic = monadic      # results are option (liveness) or plain
        self.locals = {}
        self.shared = {}            # survives _fork: 'fixpoint' -> coq text of the loop fixpoint itself


def _src(n):
    return ast.unparse(n)


def tr_set(n, cx: ArmCtx, where):
    """Translate a python set-valued expression to (coq text, is_option)."""
    s = _src(n)
    if s in cx.fields:
        return cx.fields[s], False
    if isinstance(n, ast.Name):
        if n.id in cx.locals:
            return cx.locals[n.id]
        raise Untranslatable(where, f"unknown name `{n.id}` in a set expression (line {n.lineno})")
    if isinstance(n, ast.Call) and isinstance(n.func, ast.Name) and n.func.id == "set" and not n.args and not n.keywords:
        return "[]", False
    if isinstance(n, ast.Set):
        elts = []
        for e in n.elts:
            se = _src(e)
            if se in cx.fields:
                elts.append(cx.fields[se])
            elif isinstance(e, ast.Name) and e.id in cx.locals:
                elts.append(cx.locals[e.id][0])
            else:
                raise Untranslatable(where, f"unknown set element `{se}` (line {n.lineno})")
        return "[" + "; ".join(elts) + "]", False
    if isinstance(n, ast.BinOp) and isinstance(n.op, ast.BitOr):
        return _bin("sunion", n.left, n.right, cx, where)
    if isinstance(n, ast.Call) and isinstance(n.func, ast.Attribute) and n.func.attr in ("difference", "intersection") \
            and len(n.args) == 1 and not n.keywords:
        return _bin({"difference": "sdiff", "intersection": "sinter"}[n.func.attr], n.func.value, n.args[0], cx, where)
    if isinstance(n, ast.Call) and not n.keywords:
        f = _src(n.func)
        if f in cx.block_fn:
            coqf, takes_live, opt = cx.block_fn[f]
            blk = _src(n.args[0])
            if blk not in cx.fields:
                raise Untranslatable(where, f"block visitor applied to `{blk}` (line {n.lineno})")
            if takes_live:
                if len(n.args) != 2:
                    raise Untranslatable(where, f"`{f}` expects (block, live_out) (line {n.lineno})")
                live, lopt = tr_set(n.args[1], cx, where)
                if lopt:
                    return f"(match {live} with Some l_ => {coqf} {cx.fields[blk]} l_ | None => None end)", True
                return f"({coqf} {cx.fields[blk]} {live})", opt
            if len(n.args) != 1:
                raise Untranslatable(where, f"`{f}` expects one block (line {n.lineno})")
            return f"({coqf} {cx.fields[blk]})", opt
    raise Untranslatable(where, f"set expression `{s}` outside the translated fragment (line {n.lineno})")


def _bin(op, a, b, cx, where):
    ta, oa = tr_set(a, cx, where)
    tb, ob = tr_set(b, cx, where)
    if not oa and not ob:
        return f"({op} {ta} {tb})", False
    # lift over option
    ma = ta if oa else f"(Some {ta})"
    mb = tb if ob else f"(Some {tb})"
    return f"(match {ma}, {mb} with Some a_, Some b_ => Some ({op} a_ b_) | _, _ => None end)", True


def tr_arm(stmts, cx: ArmCtx, where):
    """Translate the body of one `if isinstance(...)` arm to a Coq expression (option-valued iff cx.monadic)."""
    stmts = pynorm.flatten(list(stmts))
    if not stmts:
        raise Untranslatable(where, "empty arm")
    # v = E; return v   ==   return E     (v is not read anywhere else: it goes out of scope with the return)
    if (len(stmts) >= 2 and isinstance(stmts[-1], ast.Return) and isinstance(stmts[-1].value, ast.Name)
            and isinstance(stmts[-2], ast.Assign) and len(stmts[-2].targets) == 1
            and isinstance(stmts[-2].targets[0], ast.Name) and stmts[-2].targets[0].id == stmts[-1].value.id
            and stmts[-1].value.id not in cx.fields
            and not any(isinstance(n, ast.Name) and n.id == stmts[-1].value.id for n in ast.walk(stmts[-2].value))):
        stmts = stmts[:-2] + [ast.copy_location(ast.Return(value=stmts[-2].value), stmts[-1])]
    st = stmts[0]
    rest = stmts[1:]

    def ret(text, opt):
        if cx.monadic and not opt:
            return f"(Some {text})"
        if not cx.monadic and opt:
            raise Untranslatable(where, "option value in a total analysis")
        return text

    if isinstance(st, ast.Return):
        if rest:
            raise Untranslatable(where, f"statements after return (line {st.lineno})")
        t, o = tr_set(st.value, cx, where)
        return ret(t, o)
    if isinstance(st, ast.Expr) and isinstance(st.value, ast.Constant) and isinstance(st.value.value, str):
        return tr_arm(rest, cx, where)
    # NAME = self.constant_if_condition(stmt) followed by any split on its three values: partial evaluation per value
    if (isinstance(st, ast.Assign) and len(st.targets) == 1 and isinstance(st.targets[0], ast.Name)
            and _src(st.value) == "self.constant_if_condition(stmt)"):
        name = st.targets[0].id
        if "stmt.test!expr" not in cx.fields:
            raise Untranslatable(where, f"constant_if_condition consulted outside the arm for ast.If (line {st.lineno})")
        arms3 = []
        for v in (None, True, False):
            arm = _peval(rest, name, v, where)
            if any(isinstance(n, ast.Name) and n.id == name for a in arm for n in ast.walk(a)):
                raise Untranslatable(where, f"`{name}` is used other than in a test on its value (line {st.lineno})")
            arms3.append(tr_arm(arm, _fork(cx), where))
        a, b, c = arms3
        return f"(match cic {cx.fields['stmt.test!expr']} with None => {a} | Some true => {b} | Some false => {c} end)"
    # fixpoint:  P = None; C = E0; while C != P: P = C; C = E; return C [| X]      (any two local names P, C)
    if (isinstance(st, ast.Assign) and len(st.targets) == 1 and isinstance(st.targets[0], ast.Name)
            and isinstance(st.value, ast.Constant) and st.value.value is None):
        pn = st.targets[0].id
        if len(rest) != 3:
            raise Untranslatable(where, f"fixpoint loop has an unexpected shape (line {st.lineno})")
        init, loop, fin = rest
        ok = (isinstance(init, ast.Assign) and len(init.targets) == 1 and isinstance(init.targets[0], ast.Name)
              and init.targets[0].id != pn)
        cn = init.targets[0].id if ok else None
        ok = (ok and isinstance(loop, ast.While) and _src(loop.test) in (f"{cn} != {pn}", f"{pn} != {cn}")
              and len(loop.body) == 2 and _src(loop.body[0]) == f"{pn} = {cn}"
              and isinstance(loop.body[1], ast.Assign) and _src(loop.body[1].targets[0]) == cn and not loop.orelse
              and pn not in cx.locals and cn not in cx.locals
              and not any(isinstance(n, ast.Name) and n.id in (pn, cn) for n in ast.walk(init.value)))
        if not ok:
            raise Untranslatable(where, f"fixpoint loop has an unexpected shape (line {st.lineno})")
        if not cx.monadic:
            raise Untranslatable(where, "fixpoint in a total analysis")
        e0, o0 = tr_set(init.value, cx, where)
        cx2 = _fork(cx)
        cx2.locals[pn] = ("prev_", False)
        step, os_ = tr_set(loop.body[1].value, cx2, where)
        step = step if os_ else f"(Some {step})"
        it = f"(iterate fuel (fun prev_ => {step})"
        if o0:
            res = f"(match {e0} with Some c0_ => {it} c0_) | None => None end)"
        else:
            res = f"{it} {e0})"
        cx.shared["fixpoint"] = res
        # what follows the loop: `return C` or `return C | X`
        cx3 = _fork(cx)
        cx3.locals[cn] = ("curr_", False)
        if not isinstance(fin, ast.Return):
            raise Untranslatable(where, f"fixpoint loop must be followed by return (line {fin.lineno})")
        ft, fo = tr_set(fin.value, cx3, where)
        if ft == "curr_":
            return res
        ft = ft if fo else f"(Some {ft})"
        return f"(match {res} with Some curr_ => {ft} | None => None end)"
    if isinstance(st, ast.Assign) and len(st.targets) == 1 and isinstance(st.targets[0], ast.Name):
        name = st.targets[0].id
        t, o = tr_set(st.value, cx, where)
        cx2 = _fork(cx)
        if o:
            cx2.locals[name] = (name + "_", False)
            body = tr_arm(rest, cx2, where)
            if not cx.monadic:
                raise Untranslatable(where, "option value in a total analysis")
            return f"(match {t} with Some {name}_ => {body} | None => None end)"
        cx2.locals[name] = (name + "_", False)
        body = tr_arm(rest, cx2, where)
        if "fixpoint" in cx2.shared and not cx2.shared.get("fixpoint_closed"):
            cx2.shared["fixpoint"] = f"(let {name}_ := {t} in {cx2.shared['fixpoint']})"
        return f"(let {name}_ := {t} in {body})"
    raise Untranslatable(where, f"statement `{_src(st)[:60]}` outside the translated fragment (line {st.lineno})")


def _decide(test, name, v, where):
    """Value of a test on the variable `name` when it holds v (None / True / False); None when the test does not mention it."""
    if isinstance(test, ast.Name) and test.id == name:
        return bool(v)
    if isinstance(test, ast.UnaryOp) and isinstance(test.op, ast.Not):
        d = _decide(test.operand, name, v, where)
        return None if d is None else (not d)
    if (isinstance(test, ast.Compare) and len(test.ops) == 1 and isinstance(test.left, ast.Name) and test.left.id == name
            and isinstance(test.comparators[0], ast.Constant)
            and any(test.comparators[0].value is k_ for k_ in (None, True, False))):
        k = test.comparators[0].value
        op = test.ops[0]
        if isinstance(op, ast.Is):
            return v is k
        if isinstance(op, ast.IsNot):
            return v is not k
    if isinstance(test, ast.BoolOp):
        ds = [_decide(t, name, v, where) for t in test.values]
        if all(d is not None for d in ds):
            return all(ds) if isinstance(test.op, ast.And) else any(ds)
    if any(isinstance(n, ast.Name) and n.id == name for n in ast.walk(test)):
        raise Untranslatable(where, f"test `{_src(test)}` on the constant-condition value is outside the recognised forms (line {test.lineno})")
    return None


def _peval(stmts, name, v, where):
    """The statements executed when `name` holds v: every `if` that tests it is replaced by the branch taken."""
    out = []
    for st in stmts:
        if isinstance(st, ast.If):
            d = _decide(st.test, name, v, where)
            if d is None:
                out.append(ast.copy_location(ast.If(test=st.test, body=_peval(st.body, name, v, where),
                                                    orelse=_peval(st.orelse, name, v, where)), st))
            else:
                out.extend(_peval(st.body if d else st.orelse, name, v, where))
        else:
            out.append(st)
        if pynorm.terminates(out):
            break
    return out


def _fork(cx):
    c = ArmCtx(cx.kind, cx.fields, cx.block_fn, cx.recur_fn, cx.monadic)
    c.locals = dict(cx.locals)
    c.shared = cx.shared
    return c


# ----------------------------------------------------------------------------- arms of a dispatcher

ARM_TESTS = {
    "isinstance(stmt, ast.Assign)": "Assign",
    "isinstance(stmt, ast.AnnAssign)": "AnnAssign",
    "isinstance(stmt, ast.Return)": "Return",
    "isinstance(stmt, ast.If)": "If",
    "isinstance(stmt, ast.For)": "For",
    "isinstance(stmt, ast.While)": "While",
    "isinstance(stmt, list)": "list",
    "isinstance(stmt, ast.Break)": "Break",
    "isinstance(stmt, ast.FunctionDef)": "FunctionDef",
    "ast_utils.is_print_call(stmt)": "print",
    "ast_utils.is_doc_string(stmt)": "docstring",
}
NOT_MODELLED = {"AnnAssign", "FunctionDef", "print", "docstring"}


def split_arms(body, where, allow_prefix=()):
    """body of a dispatcher: [prefix defs...] if-arms... raise.  Returns {kind: arm body}.
    The body is first brought to the early-return chain form; a test `T1 or T2` / isinstance(stmt, (A, B)) gives one
    arm per alternative (sound: every translated arm ends in return on every path, the tests have no effect)."""
    arms = {}
    seen_raise = False
    flat = pynorm.flatten(list(body))
    for idx, st in enumerate(flat):
        if isinstance(st, ast.FunctionDef) and st.name in allow_prefix:
            continue
        if isinstance(st, ast.Expr) and isinstance(st.value, ast.Constant) and isinstance(st.value.value, str):
            continue
        if isinstance(st, ast.If) and not st.orelse:
            if seen_raise:
                raise Untranslatable(where, "arm after the final raise")
            if not pynorm.terminates(st.body):
                raise Untranslatable(where, f"arm `{_src(st.test)}` can fall through (line {st.lineno})")
            for alt in pynorm.disjuncts(st.test):
                t = _src(alt)
                if t not in ARM_TESTS:
                    raise Untranslatable(where, f"unknown dispatch test `{t}` (line {st.lineno})")
                k = ARM_TESTS[t]
                if k in arms:
                    raise Untranslatable(where, f"duplicate arm for {k} (line {st.lineno})")
                arms[k] = st.body
            continue
        if isinstance(st, ast.Raise):
            seen_raise = True
            continue
        if (isinstance(st, ast.Assign) and len(st.targets) == 1 and isinstance(st.targets[0], ast.Name)
                and idx + 1 < len(flat) and isinstance(flat[idx + 1], ast.Raise)):
            continue        # the message of the final raise
        raise Untranslatable(where, f"unexpected statement in dispatcher: `{_src(st)[:60]}` (line {st.lineno})")
    if not seen_raise:
        raise Untranslatable(where, "dispatcher does not end by raising on unsupported statements")
    for k in ("Assign", "Return", "If", "For", "While", "Break"):
        if k not in arms:
            raise Untranslatable(where, f"arm for {k} is missing")
    return arms


def gen_dispatch(arms, mk_ctx, where):
    """Coq match arms for the constructors of Script.Syntax.stmt."""
    out = {}
    # ast.Assign: SAssign (single name) and STuple (tuple target)
    cx = mk_ctx("Assign")
    cx.fields.update({"_lhs_vars(stmt.targets[0])": "[x]", "_used_vars(stmt.value)": "(used_vars e)"})
    out["SAssign x e"] = tr_arm(arms["Assign"], cx, where)
    cx = mk_ctx("Assign")
    cx.fields.update({"_lhs_vars(stmt.targets[0])": "xs", "_used_vars(stmt.value)": "(used_vars e)"})
    out["STuple xs e"] = tr_arm(arms["Assign"], cx, where)
    cx = mk_ctx("Return")
    cx.fields.update({"_used_vars(stmt.value)": "(used_vars_list es)"})
    out["SReturn es"] = tr_arm(arms["Return"], cx, where)
    cx = mk_ctx("If")
    cx.fields.update({"stmt.body": "t", "stmt.orelse": "f", "_used_vars(stmt.test)": "(used_vars c)", "stmt.test!expr": "c"})
    out["SIf c t f"] = tr_arm(arms["If"], cx, where)
    cx = mk_ctx("For")
    cx.fields.update({"stmt.body": "body", "_used_vars(stmt.iter)": "(used_vars b)",
                      "_get_loop_var(stmt, self._formatter)": "i"})
    out["SFor i b body"] = tr_arm(arms["For"], cx, where)
    out["fix:SFor i b body"] = cx.shared.get("fixpoint")
    cx = mk_ctx("While")
    cx.fields.update({"stmt.body": "body", "_used_vars(stmt.test)": "[c]"})
    out["SWhile c body"] = tr_arm(arms["While"], cx, where)
    out["fix:SWhile c body"] = cx.shared.get("fixpoint")
    cx = mk_ctx("Break")
    out["SBreak"] = tr_arm(arms["Break"], cx, where)
    return out


# ----------------------------------------------------------------------------- whole file

def translate(path):
    where = os.path.basename(path)
    tree = ast.parse(open(path).read())
    funcs = {n.name: n for n in tree.body if isinstance(n, ast.FunctionDef)}
    classes = {n.name: n for n in tree.body if isinstance(n, ast.ClassDef)}
    for name in ("_get_loop_var", "_used_vars", "_lhs_vars"):
        if name not in funcs:
            raise Untranslatable(where, f"function `{name}` not found")
        _check_template(name, funcs[name], where)
    if "AstAnalyzer" not in classes:
        raise Untranslatable(where, "class AstAnalyzer not found")
    meths = {n.name: n for n in classes["AstAnalyzer"].body if isinstance(n, ast.FunctionDef)}
    for name in ("__init__", "live_in", "live_out", "_compute_constant_if_conditions", "constant_if_condition"):
        if name not in meths:
            raise Untranslatable(where, f"method `{name}` not found")
        _check_template(name, meths[name], where)
    for name in ("assigned_vars", "do_liveness_analysis", "exposed_uses"):
        if name not in meths:
            raise Untranslatable(where, f"method `{name}` not found")

    notes = []
    # ---- assigned_vars
    def canon_params(fn, names):
        if len(fn.args.args) != len(names) or fn.args.posonlyargs or fn.args.kwonlyargs or fn.args.vararg or fn.args.kwarg:
            raise Untranslatable(where, f"{fn.name}: signature changed (line {fn.lineno})")
        try:
            return pynorm.rename_params(fn, names)
        except pynorm.NotNormalisable as e:
            raise Untranslatable(where, f"{fn.name}: {e} (line {fn.lineno})") from None

    av = canon_params(meths["assigned_vars"], ["self", "stmt"])
    inner = {n.name: n for n in av.body if isinstance(n, ast.FunctionDef)}
    if set(inner) != {"assigned_in_block"}:
        raise Untranslatable(where, "assigned_vars: unexpected local functions")
    _check_template("assigned_in_block", inner["assigned_in_block"], where)
    arms = split_arms(_strip_doc(av.body), where, allow_prefix=("assigned_in_block",))
    if "list" not in arms or _src(arms["list"][0]) != "return assigned_in_block(stmt)":
        raise Untranslatable(where, "assigned_vars: the arm for statement lists changed")

    def mk_assigned(kind):
        return ArmCtx(kind, {}, {"assigned_in_block": ("assigned_block_", False, False)}, "assigned_stmt", False)
    a_arms = gen_dispatch(arms, mk_assigned, where)
    notes.append("assigned_vars arms not modelled: " + ", ".join(sorted(k for k in arms if k in NOT_MODELLED)))

    # ---- liveness
    dl = canon_params(meths["do_liveness_analysis"], ["self", "fun"])
    body = _strip_doc(dl.body)
    inner = {n.name: n for n in body if isinstance(n, ast.FunctionDef)}
    if set(inner) != {"visit", "do_visit"}:
        raise Untranslatable(where, "do_liveness_analysis: unexpected local functions")
    _check_template("liveness.visit", inner["visit"], where)
    driver = [n for n in body if not isinstance(n, ast.FunctionDef)]
    want_driver = "assert isinstance(fun, ast.FunctionDef)\nlive: set[Any] = set()\nfor s in reversed(fun.body):\n    live = visit(s, live)"
    if (_norm_dump(ast.Module(body=driver, type_ignores=[])) != _norm_dump(ast.parse(want_driver))
            and pynorm.alpha_dump_stmts(driver) != pynorm.alpha_dump_stmts(ast.parse(want_driver).body)):
        raise Untranslatable(where, "do_liveness_analysis: driver loop changed")
    dv = canon_params(inner["do_visit"], ["stmt", "live_out"])
    dinner = {n.name: n for n in dv.body if isinstance(n, ast.FunctionDef)}
    if set(dinner) != {"visit_block"}:
        raise Untranslatable(where, "do_visit: unexpected local functions")
    _check_template("liveness.visit_block", dinner["visit_block"], where)
    arms = split_arms(dv.body, where, allow_prefix=("visit_block",))

    def mk_live(kind):
        cx = ArmCtx(kind, {}, {"visit_block": ("live_block_", True, True)}, "live_stmt", True)
        cx.locals["live_out"] = ("live_out", False)
        return cx
    l_arms = gen_dispatch(arms, mk_live, where)
    fix_for = l_arms.get("fix:SFor i b body")
    fix_while = l_arms.get("fix:SWhile c body")
    if not fix_for or not fix_while:
        raise Untranslatable(where, "liveness of loops is no longer a `while curr != prev` fixpoint")
    fix_for = fix_for.replace("live_block_", "live_block")
    fix_while = fix_while.replace("live_block_", "live_block")

    # ---- exposed uses
    eu = canon_params(meths["exposed_uses"], ["self", "stmts"])
    body = _strip_doc(eu.body)
    inner = {n.name: n for n in body if isinstance(n, ast.FunctionDef)}
    if set(inner) != {"visit_block", "visit"}:
        raise Untranslatable(where, "exposed_uses: unexpected local functions")
    _check_template("exposed.visit_block", inner["visit_block"], where)
    rest = [n for n in body if not isinstance(n, ast.FunctionDef)]
    if len(rest) != 1 or _src(rest[0]) != "return visit_block(stmts, set())":
        raise Untranslatable(where, "exposed_uses: final expression changed")
    arms = split_arms(canon_params(inner["visit"], ["stmt", "live_out"]).body, where)

    def mk_exp(kind):
        cx = ArmCtx(kind, {}, {"visit_block": ("exposed_block_", True, False)}, "exposed_stmt", False)
        cx.locals["live_out"] = ("live_out", False)
        return cx
    e_arms = gen_dispatch(arms, mk_exp, where)

    def render(arms_, indent="    "):
        order = ["SAssign x e", "STuple xs e", "SIf c t f", "SFor i b body", "SWhile c body", "SBreak", "SReturn es"]
        return "\n".join(f"{indent}| {k} => {arms_[k]}" for k in order)

    text = f'''(* GENERATED by harness/c01_analysis_py2v.py from onnxscript/_internal/analysis.py -- do not edit.
   assigned_vars, liveness (do_visit) and exposed_uses over OV.Script.Syntax.
   `cic` is AstAnalyzer.constant_if_condition keyed by the test expression; `fuel` bounds the
   `while curr != prev` fixpoints (None = out of fuel).
   {"; ".join(notes)} *)
From Coq Require Import List String Bool.
Require Import OV.Graph.Syntax OV.Script.Syntax OV.Script.Sets.
Import ListNotations.

(* _used_vars: template-verified (names; call arguments and name-valued keywords, not the callee; children otherwise) *)
Fixpoint used_vars (e : expr) : sset :=
  match e with
  | EVar x => [x]
  | ELit _ => []
  | EUn _ a => used_vars a
  | EBin _ a b => sunion (used_vars a) (used_vars b)
  | ECmp _ a b => sunion (used_vars a) (used_vars b)
  | ECall _ args kws =>
      sunion ((fix kw (l : list (string * kwarg)) : sset :=
                 match l with [] => [] | (_, KName x) :: t => sunion [x] (kw t) | _ :: t => kw t end) kws)
             ((fix go (l : list (option expr)) : sset :=
                 match l with [] => [] | Some a :: t => sunion (used_vars a) (go t) | None :: t => go t end) args)
  end.

Fixpoint used_vars_list (es : list expr) : sset :=
  match es with [] => [] | e :: t => sunion (used_vars e) (used_vars_list t) end.

(* _compute_constant_if_conditions / constant_if_condition: template-verified.
   `top_assigned` = assigned_vars(fun.body) computed while no condition is known to be constant. *)
Definition const_cond (top_assigned : sset) (globals : list (string * bool)) (c : expr) : option bool :=
  match c with
  | EVar x => if mem x top_assigned then None
              else (fix look (l : list (string * bool)) : option bool :=
                      match l with [] => None | (k, v) :: t => if String.eqb k x then Some v else look t end) globals
  | _ => None
  end.

Section Analysis.
  Variable cic : expr -> option bool.

  Fixpoint assigned_stmt (s : stmt) : sset :=
    let assigned_block_ := fix blk (l : list stmt) : sset :=
      match l with [] => [] | s0 :: r => sunion (assigned_stmt s0) (blk r) end in
    match s with
{render(a_arms)}
    end.

  Fixpoint assigned_block (l : list stmt) : sset :=
    match l with [] => [] | s0 :: r => sunion (assigned_stmt s0) (assigned_block r) end.

  Fixpoint exposed_stmt (s : stmt) (live_out : sset) : sset :=
    let exposed_block_ := fix blk (l : list stmt) (live : sset) : sset :=
      match l with [] => live | s0 :: r => exposed_stmt s0 (blk r live) end in
    match s with
{render(e_arms)}
    end.

  Fixpoint exposed_block (l : list stmt) (live : sset) : sset :=
    match l with [] => live | s0 :: r => exposed_stmt s0 (exposed_block r live) end.

  Definition exposed_uses (l : list stmt) : sset := exposed_block l [].

  Section Live.
    Variable fuel : nat.

    Fixpoint live_stmt (s : stmt) (live_out : sset) : option sset :=
      let live_block_ := fix blk (l : list stmt) (live : sset) : option sset :=
        match l with
        | [] => Some live
        | s0 :: r => match blk r live with Some l1 => live_stmt s0 l1 | None => None end
        end in
      match s with
{render(l_arms, "      ")}
      end.

    Fixpoint live_block (l : list stmt) (live : sset) : option sset :=
      match l with
      | [] => Some live
      | s0 :: r => match live_block r live with Some l1 => live_stmt s0 l1 | None => None end
      end.

    (* the value of `curr` when a loop's fixpoint iteration stops = live_out of the last body statement *)
    Definition loop_fixpoint (s : stmt) (live_out : sset) : option sset :=
      match s with
      | SFor i b body => {fix_for}
      | SWhile c body => {fix_while}
      | _ => None
      end.
  End Live.
End Analysis.
'''
    return text
