(* C11 -- correspondence helpers: a case carries the inputs and what the real code returned; the
   functions below list the indices of the cases on which a model disagrees.  No proofs here. *)
From Coq Require Import ZArith List Bool.
Import ListNotations.
Require Import OV.Index.NumpySpec OV.Index.OnnxSlice OV.Index.ConverterIdx OV.Index.EagerIdx.
Open Scope Z_scope.

Inductive outcome := OErr | OOk (shape data : list Z).

Fixpoint zlist_eqb (a b : list Z) : bool :=
  match a, b with
  | [], [] => true
  | x :: a', y :: b' => Z.eqb x y && zlist_eqb a' b'
  | _, _ => false
  end.
Definition outcome_eqb (a b : outcome) : bool :=
  match a, b with
  | OErr, OErr => true
  | OOk s1 d1, OOk s2 d2 => zlist_eqb s1 s2 && zlist_eqb d1 d2
  | _, _ => false
  end.

Definition outcome_of (shape : list Z) (r : option view) : outcome :=
  match r with None => OErr | Some v => OOk (view_shape v) (offsets v shape) end.

Definition gidx_eqb (a b : gidx) : bool :=
  match a, b with
  | G0 i, G0 j => Z.eqb i j
  | G1 l, G1 m => zlist_eqb l m
  | _, _ => false
  end.
Definition spec_eqb (x y : spec) : bool :=
  let '(a, b, c, d) := x in let '(a', b', c', d') := y in
  Z.eqb a a' && Z.eqb b b' && Nat.eqb c c' && Z.eqb d d'.
Fixpoint list_eqb {A} (eqb : A -> A -> bool) (a b : list A) : bool :=
  match a, b with
  | [], [] => true
  | x :: a', y :: b' => eqb x y && list_eqb eqb a' b'
  | _, _ => false
  end.
(* the entries of a Slice / the axes of a Squeeze are compared as sets: their order has no meaning in ONNX
   (and none in the model: lookup_spec / existsb), so a reordering in the front end is not a disagreement *)
Definition set_eqb {A} (eqb : A -> A -> bool) (a b : list A) : bool :=
  Nat.eqb (length a) (length b) && forallb (fun x => existsb (eqb x) b) a && forallb (fun y => existsb (fun x => eqb x y) a) b.
Definition op_eqb (a b : op) : bool :=
  match a, b with
  | OIdentity, OIdentity => true
  | OSlice s, OSlice t => set_eqb spec_eqb s t
  | OSqueeze s, OSqueeze t => set_eqb Nat.eqb s t
  | OGather a i, OGather b j => Nat.eqb a b && gidx_eqb i j
  | _, _ => false
  end.
Definition oops_eqb (a b : option (list op)) : bool :=
  match a, b with
  | None, None => true
  | Some x, Some y => list_eqb op_eqb x y
  | _, _ => false
  end.

Fixpoint is_prefix {A} (eqb : A -> A -> bool) (a b : list A) : bool :=
  match a, b with
  | [], _ => true
  | x :: a', y :: b' => eqb x y && is_prefix eqb a' b'
  | _, _ => false
  end.

Definition not_squeeze (o : op) : bool := match o with OSqueeze _ => false | _ => true end.

Record case := mkcase {
  c_shape : list Z;
  c_idx : list comp;
  c_np : option outcome;            (* what NumPy returned; None = not compared *)
  c_graph : option outcome;         (* the converted graph on onnxruntime; None = not compared *)
  c_eager : option outcome;         (* eager evaluation *)
  c_skel : option (option (list op));  (* ops the converter emitted (inner None = conversion refused) *)
  c_eskel : option (list op)        (* Slice/Gather/Identity calls eager mode made (numpy.squeeze is no op) *)
}.

Definition chk {A} (o : option A) (f : A -> bool) : bool := match o with None => true | Some x => f x end.

Definition np_agrees (c : case) : bool :=
  chk (c_np c) (fun o => negb (np_modelled (c_idx c)) || outcome_eqb o (outcome_of (c_shape c) (np_index (c_shape c) (c_idx c)))).
Definition graph_agrees (fx : bool) (c : case) : bool :=
  chk (c_graph c) (fun o => outcome_eqb o (outcome_of (c_shape c) (run_conv fx (c_shape c) (c_idx c)))).
Definition eager_agrees (fx : bool) (c : case) : bool :=
  chk (c_eager c) (fun o => outcome_eqb o (outcome_of (c_shape c) (run_eager fx (c_shape c) (c_idx c)))).
Definition skel_agrees (fx : bool) (c : case) : bool :=
  chk (c_skel c) (fun s => oops_eqb s (conv_ops fx (c_idx c))).
(* eager: the recorded calls are the model's ops without Squeeze; when eager evaluation raised, a prefix *)
Definition eskel_agrees (fx : bool) (c : case) : bool :=
  chk (c_eskel c) (fun s =>
    match eager_ops fx (c_shape c) (c_idx c) with
    | None => match s with [] => true | _ => false end
    | Some ops =>
        let ops' := filter not_squeeze ops in
        match c_eager c with
        | Some (OOk _ _) => list_eqb op_eqb s ops'
        | _ => is_prefix op_eqb s ops'
        end
    end).

Fixpoint failing (f : case -> bool) (i : nat) (cs : list case) : list nat :=
  match cs with [] => [] | c :: t => (if f c then [] else [i]) ++ failing f (S i) t end.
