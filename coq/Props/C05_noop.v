(* C05, family no-op (_no_op.py: mul_by_1, add_0, sub_0, div_by_1 and commuted forms): statements only. *)
From Coq Require Import ZArith List Bool.
Require Import OV.Rules.BShape OV.Rules.NoOp OV.Rules.NoOpProofs.
Import ListNotations.
Open Scope Z_scope.

(* with an exact constant test (rel_tol = abs_tol = 0, the proposed fix) all six forms are identities on exact numbers *)
Theorem C05_noop_exact_sound : forall o r c x,
  0 < snd c -> 0 < snd x -> check_exact o r c = true -> req (lhs o c x) x.
Proof. exact noop_exact_sound. Qed.
Print Assumptions C05_noop_exact_sound.

(* the shipped isclose test is exact on integer constants: the rules are sound on integer tensors (x/1 truncating) *)
Theorem C05_noop_int_sound : forall o r c x, check o r (of_int c) = true -> lhs_int o c x = x.
Proof. exact noop_int_sound. Qed.
Print Assumptions C05_noop_int_sound.

(* on float constants it is not: for each of the six forms a constant only approximately equal to 0 / 1 is accepted
   and the result changes (finding C05:noop:approximately-equal-constant; replayed on the real code by the harness) *)
Theorem C05_noop_isclose_refuted : forall o, exists c x,
  0 < snd c /\ 0 < snd x /\ check o 0 c = true /\ ~ req (lhs o c x) x.
Proof. exact noop_isclose_refuted_all. Qed.
Print Assumptions C05_noop_isclose_refuted.

(* a 0-d constant never changes the broadcast result shape (either operand position) *)
Theorem C05_noop_shape_sound : forall xs, bcast xs [] = Some xs /\ bcast [] xs = Some xs.
Proof. exact noop_shape_sound. Qed.
Print Assumptions C05_noop_shape_sound.
