(* C17 -- model of the generator (opgen/onnx_opset_builder.py): what OpsetsBuilder._make_function emits for
   one OpSchema and which schemas get a method in which class.  No proofs in this file.

   _make_function_input_args : one positional parameter per schema input, in order; the name is the input's
       name, with a trailing "_" when an attribute has the same name (_make_input_arg_name); Optional -> `= None`;
       Variadic -> *name and every parameter emitted before it loses its default;
   _make_function_attr_args  : attributes sorted by name (the translator sorts s_attrs the same way), each a
       keyword-only parameter; required -> no default, otherwise the schema default (None when there is none);
   body                      : schema = get_schema(name, since_version, domain); op = Op(self, name, schema);
                               return op( *self._prepare_inputs(schema, <inputs, the variadic one starred>), <attr = attr>)
                               and plain op(<attr = attr>) when the schema has no input. *)
From Coq Require Import List String ZArith Bool.
Import ListNotations.
Require Import OV.Registry.OpsetMethod.
Local Open Scope string_scope.
Local Open Scope list_scope.

Definition emit_input (s : schema) (i : string * ikind) : param :=
  mkP (input_param_name s (fst i))
      (match snd i with
       | IReq => PReq
       | IOpt => if has_variadic s then PReq else POpt
       | IVar => PVar
       end) DNone.

Definition emit_attr (a : attr) : param :=
  mkP (a_name a) (if a_required a then PKwReq else PKw) (if a_required a then DNone else a_dflt a).

Definition emit_inputs (s : schema) : list param := map (emit_input s) (s_inputs s).
Definition emit_attrs (s : schema) : list param := map emit_attr (s_attrs s).

Definition emit_method (s : schema) : method :=
  mkM (s_name s) (emit_inputs s ++ emit_attrs s) (s_name s) (s_since s) (s_domain s) (s_name s)
      (match emit_inputs s with [] => None | ins => Some (prepare_of ins) end)
      (forwards_of (emit_attrs s)).

(* What the emitted Python needs of a schema for the model above to be what Python reads back:
   - the parameter names (inputs after the renaming, then attributes) are pairwise distinct and none is
     `self`, `schema` or `op` (the names the method body uses);
   - a variadic input is the last input (a parameter written after *args would be keyword-only in Python). *)
Fixpoint variadic_last (l : list (string * ikind)) : bool :=
  match l with
  | [] => true
  | i :: t => match t with [] => true | _ => negb (is_ivar i) && variadic_last t end
  end.

Definition emit_names (s : schema) : list string :=
  map (fun i => input_param_name s (fst i)) (s_inputs s) ++ map a_name (s_attrs s).

Definition schema_wfb (s : schema) : bool :=
  nodupb (emit_names s) &&
  negb (memb "self" (emit_names s)) && negb (memb "schema" (emit_names s)) && negb (memb "op" (emit_names s)) &&
  variadic_last (s_inputs s).

(* Which schemas get a method in the class (domain, version): those whose since_version is the class's
   version and which the generator does not skip.  `skip` = s_deprecated is the generator as read
   (`if schema.deprecated: continue`), no_exemption the repaired one, exempt_in l the deprecated schemas of
   the listed operators only (the same list as the exemptions of the registry test). *)
Definition emitted_here (skip : schema -> bool) (dom : string) (ver : Z) (s : schema) : bool :=
  String.eqb (s_domain s) dom && Z.eqb (s_since s) ver && negb (skip s).

Definition emit_methods (skip : schema -> bool) (reg : list schema) (dom : string) (ver : Z) : list method :=
  map emit_method (filter (emitted_here skip dom ver) reg).

(* boolean equality of method records (for comparing the model's output with what the real generator wrote) *)
Definition pkind_eqb (a b : pkind) : bool :=
  match a, b with PReq, PReq | POpt, POpt | PVar, PVar | PKwReq, PKwReq | PKw, PKw => true | _, _ => false end.
Definition param_eqb (a b : param) : bool :=
  String.eqb (p_name a) (p_name b) && pkind_eqb (p_kind a) (p_kind b) && dflt_eqb (p_dflt a) (p_dflt b).
Definition sb_eqb (a b : string * bool) : bool := String.eqb (fst a) (fst b) && Bool.eqb (snd a) (snd b).
Definition ss_eqb (a b : string * string) : bool := String.eqb (fst a) (fst b) && String.eqb (snd a) (snd b).
Definition method_eqb (a b : method) : bool :=
  String.eqb (m_name a) (m_name b) && list_eqb param_eqb (m_params a) (m_params b) &&
  String.eqb (m_op a) (m_op b) && Z.eqb (m_since a) (m_since b) && String.eqb (m_domain a) (m_domain b) &&
  String.eqb (m_opname a) (m_opname b) &&
  match m_prepare a, m_prepare b with
  | Some x, Some y => list_eqb sb_eqb x y
  | None, None => true
  | _, _ => false
  end &&
  list_eqb ss_eqb (m_forwards a) (m_forwards b).

(* the methods of every class are exactly what the model generator emits from the registry *)
Definition class_emitted (skip : schema -> bool) (reg : list schema) (c : cls) : bool :=
  list_eqb method_eqb (c_methods c) (emit_methods skip reg (c_domain c) (c_version c)).
Definition classes_emitted (skip : schema -> bool) (reg : list schema) (cs : list cls) : bool :=
  forallb (class_emitted skip reg) cs.

(* report: names of the classes whose methods differ from the model generator's output, and per class the
   method names on either side without an equal partner *)
Definition emitted_diff (skip : schema -> bool) (reg : list schema) (cs : list cls) : list (string * list string) :=
  List.concat (map (fun c =>
    let want := emit_methods skip reg (c_domain c) (c_version c) in
    if list_eqb method_eqb (c_methods c) want then [] else
    [(c_name c,
      map m_name (filter (fun m => negb (existsb (method_eqb m) want)) (c_methods c)) ++
      map m_name (filter (fun m => negb (existsb (fun m' => method_eqb m' m) (c_methods c))) want))]) cs).
