(* A concrete instance of the S3 theorem's hypotheses (non-vacuity): an if/else, then a `for` loop over a tensor
   bound carrying two variables (both read and written in the body, one of them from a value captured from outside
   the loop), the bound being used again after the loop; evaluated with the toy kernel semantics of
   TranslateExamples.v for trip counts 3 and 0. *)
From Coq Require Import List String ZArith Bool.
Require Import OV.Graph.Syntax OV.Graph.Sem OV.Script.Syntax OV.Script.Sets OV.Gen.Analysis OV.Gen.ScriptTables
               OV.Script.Translate OV.Script.PySem OV.Script.TranslateProofs OV.Script.TranslateExamples
               OV.Script.TranslateIfProofs OV.Script.TranslateIfExamples OV.Script.TranslateForDefs OV.Script.TranslateForProofs.
Import ListNotations.
Local Open Scope string_scope.

Definition exfor_f : func :=
  {| f_name := "h"; f_tparams := ["x"; "y"; "n"; "c"]; f_aparams := [];
     f_body := [SAssign "s" (EBin "Add" (EVar "x") (EVar "y"));
                SAssign "t" (EVar "x");
                SIf (EVar "c")
                    [SAssign "w" (EBin "Mult" (EVar "x") (EVar "y"))]
                    [SAssign "w" (EVar "y")];
                SFor "i" (EVar "n")
                     [SAssign "s" (EBin "Add" (EVar "s") (EVar "i"));
                      SAssign "t" (EBin "Add" (EBin "Mult" (EVar "s") (EVar "w")) (EVar "t"))];
                SAssign "r" (EBin "Add" (EVar "s") (EVar "t"));
                SAssign "q" (EBin "Add" (EVar "r") (EVar "n"));
                SReturn [EVar "q"; EVar "w"]] |}.

Definition exfor_of_bool (b : bool) : Z := if b then 1%Z else 0%Z.
Definition exfor_script (xs : list Z) : option (list Z) :=
  eval_script Z toy_sem exif_truth exif_trip Z.of_nat 10 [] 4 exfor_f xs.
Definition exfor_graph (g : graph) (xs : list Z) : option (list Z) :=
  eval_graph Z toy_sem exif_truth exif_trip Z.of_nat exfor_of_bool 10 13 [] g xs.
Definition count_op (op : string) (ns : list node) : nat := List.length (filter (fun n => String.eqb (n_op n) op) ns).

Lemma exfor_hyps :
  (forall b, exif_truth (exfor_of_bool b) = Some b) /\
  exists g pre es,
    f_body exfor_f = (pre ++ [SReturn es])%list /\ s3_pre [] (fun _ => None) 5 pre [SReturn es] [] = true /\
    forallb expr_ok es = true /\ f_aparams exfor_f = [] /\ NoDup (f_tparams exfor_f) /\
    translate false [] (fun _ => None) 5 [] exfor_f = Some g /\
    count_op "Loop" (g_nodes g) = 1 /\ count_op "If" (g_nodes g) = 1 /\
    exfor_script [2%Z; 3%Z; 3%Z; 1%Z] = Some [127%Z; 6%Z] /\ exfor_graph g [2%Z; 3%Z; 3%Z; 1%Z] = Some [127%Z; 6%Z] /\
    exfor_script [2%Z; 3%Z; 0%Z; 1%Z] = Some [7%Z; 6%Z] /\ exfor_graph g [2%Z; 3%Z; 0%Z; 1%Z] = Some [7%Z; 6%Z] /\
    exfor_script [2%Z; 3%Z; 3%Z; 0%Z] = Some [70%Z; 3%Z] /\ exfor_graph g [2%Z; 3%Z; 3%Z; 0%Z] = Some [70%Z; 3%Z].
Proof.
  split; [intros [|]; reflexivity|].
  eexists. exists (removelast (f_body exfor_f)), [EVar "q"; EVar "w"].
  split; [reflexivity|]. split; [vm_compute; reflexivity|]. split; [reflexivity|]. split; [reflexivity|].
  split; [repeat constructor; cbn; intuition discriminate|].
  split; [vm_compute; reflexivity|].
  repeat split; vm_compute; reflexivity.
Qed.
