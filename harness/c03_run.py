"""Execution / comparison helpers shared by C03 and C04: runtimes, entry points, option tuples,
output comparison, exception classification."""
from __future__ import annotations

import base64
import traceback

import numpy as np
import onnx


# ----------------------------------------------------------------------------------- runtimes

def ort_session(model_proto):
    import onnxruntime as ort
    so = ort.SessionOptions()
    so.graph_optimization_level = ort.GraphOptimizationLevel.ORT_DISABLE_ALL
    so.log_severity_level = 4
    so.intra_op_num_threads = 1
    so.inter_op_num_threads = 1
    return ort.InferenceSession(model_proto.SerializeToString(), so, providers=["CPUExecutionProvider"])


def run_ort(model_proto, feeds_list):
    """-> ('ok', [outputs per feed]) | ('err', message)"""
    try:
        sess = ort_session(model_proto)
        res = []
        for fd in feeds_list:
            res.append(sess.run(None, {k: (v.astype(object) if v.dtype.kind in "US" else v) for k, v in fd.items()}))
        return "ok", res
    except Exception as e:  # runtime rejected the model / the input
        return "err", f"{type(e).__name__}: {str(e)[:300]}"


def run_ref(model_proto, feeds_list):
    import onnx.reference
    try:
        sess = onnx.reference.ReferenceEvaluator(model_proto)
        return "ok", [sess.run(None, fd) for fd in feeds_list]
    except Exception as e:
        return "err", f"{type(e).__name__}: {str(e)[:300]}"


RUNTIMES = (("ort", run_ort), ("ref", run_ref))


# ----------------------------------------------------------------------------------- comparison

def _as_array(x):
    if isinstance(x, (list, tuple)):     # sequence output
        return None
    return np.asarray(x)


def compare_outputs(want, got, exact_flags=None, loose=False):
    """None when equal in the sense of the property, else a short description of the first difference.
    ints / bools / strings: bit-equal; floats: round-off tolerance (tight when the output is flagged exact),
    NaN and infinities must sit at the same positions with the same sign."""
    if len(want) != len(got):
        return f"number of outputs {len(want)} -> {len(got)}"
    for k, (a, b) in enumerate(zip(want, got)):
        if isinstance(a, (list, tuple)) or isinstance(b, (list, tuple)):
            if not (isinstance(a, (list, tuple)) and isinstance(b, (list, tuple))):
                return f"output {k}: sequence vs tensor"
            d = compare_outputs(list(a), list(b), None, loose)
            if d:
                return f"output {k} (sequence): {d}"
            continue
        a, b = np.asarray(a), np.asarray(b)
        if a.dtype != b.dtype:
            return f"output {k}: dtype {a.dtype} -> {b.dtype}"
        if a.shape != b.shape:
            return f"output {k}: shape {a.shape} -> {b.shape}"
        if a.dtype.kind in "iub":
            if not np.array_equal(a, b):
                return f"output {k}: integer/bool values differ"
        elif a.dtype.kind in "OUS":
            if not np.array_equal(a.astype(str), b.astype(str)):
                return f"output {k}: string values differ"
        else:
            af, bf = a.astype(np.float64), b.astype(np.float64)
            if not np.array_equal(np.isnan(af), np.isnan(bf)):
                return f"output {k}: NaN positions differ"
            if not np.array_equal(np.where(np.isinf(af), np.sign(af), 0), np.where(np.isinf(bf), np.sign(bf), 0)):
                return f"output {k}: infinities differ"
            fin = np.isfinite(af)
            exact = bool(exact_flags[k]) if exact_flags is not None and k < len(exact_flags) else False
            if a.dtype == np.float16:
                rtol, atol = 2e-2, 2e-2
            elif exact and not loose:
                rtol, atol = 1e-6, 1e-6
            else:
                rtol, atol = (1e-3, 1e-4) if a.dtype == np.float32 else (1e-6, 1e-8)
                if loose:
                    rtol, atol = 1e-2, 1e-3
            if not np.allclose(af[fin], bf[fin], rtol=rtol, atol=atol):
                i = int(np.argmax(np.abs(af[fin] - bf[fin])))
                return f"output {k}: float values differ (max |d|={np.max(np.abs(af[fin]-bf[fin])):.3g} at {i}: {af[fin][i]!r} vs {bf[fin][i]!r})"
    return None


# ----------------------------------------------------------------------------------- entry points / options

SIZE_LIMITS_IN = (0, 4, 8192)
SIZE_LIMITS_OUT = (0, 4, 512 * 512)


def option_tuples(rng, n, exhaustive=False):
    import itertools
    allt = list(itertools.product((1, 2, 3), (True, False), (True, False), (True, False), SIZE_LIMITS_IN, SIZE_LIMITS_OUT))
    if exhaustive:
        return allt
    res = [(2, True, True, True, 8192, 512 * 512)]
    while len(res) < n:
        res.append(rng.choice(allt))
    return res


def opt_kwargs(t):
    it, shp, inl, stop, lin, lout = t
    return dict(num_iterations=it, onnx_shape_inference=shp, inline=inl, stop_if_no_change=stop, input_size_limit=lin, output_size_limit=lout)


def apply_entry(entry, model_proto, opts=None, as_ir=False):
    """Run one optimizer entry point on a copy of the model; returns the resulting ModelProto.
    entry: optimize | optimize_ir | fold_constants | remove_unused_nodes | rewrite"""
    import onnx_ir as ir
    from onnxscript import optimizer, rewriter
    m = onnx.ModelProto()
    m.CopyFrom(model_proto)
    kw = opt_kwargs(opts) if opts is not None else {}
    if entry == "optimize":
        if as_ir:
            mi = ir.serde.deserialize_model(m)
            r = optimizer.optimize(mi, **kw)
            return ir.serde.serialize_model(r)
        return optimizer.optimize(m, **kw)
    if entry == "optimize_ir":
        mi = ir.serde.deserialize_model(m)
        optimizer.optimize_ir(mi, **kw)
        return ir.serde.serialize_model(mi)
    if entry == "fold_constants":
        fk = {}
        if opts is not None:
            fk = dict(onnx_shape_inference=kw["onnx_shape_inference"], input_size_limit=kw["input_size_limit"], output_size_limit=kw["output_size_limit"])
        if as_ir:
            mi = ir.serde.deserialize_model(m)
            optimizer.fold_constants(mi, **fk)
            return ir.serde.serialize_model(mi)
        optimizer.fold_constants(m, **fk)
        return m
    if entry == "remove_unused_nodes":
        if as_ir:
            mi = ir.serde.deserialize_model(m)
            optimizer.remove_unused_nodes(mi)
            return ir.serde.serialize_model(mi)
        optimizer.remove_unused_nodes(m)
        return m
    if entry == "rewrite":
        if as_ir:
            mi = ir.serde.deserialize_model(m)
            r = rewriter.rewrite(mi)
            return ir.serde.serialize_model(r)
        return rewriter.rewrite(m)
    raise ValueError(entry)


ENTRIES = ("optimize", "optimize_ir", "fold_constants", "remove_unused_nodes", "rewrite")


def root_cause(e):
    """Innermost exception of the __cause__/__context__ chain and the (file, function) where it was raised
    inside /repo or onnx_ir (for the violation key)."""
    seen = set()
    cur = e
    while True:
        nxt = cur.__cause__ or (cur.__context__ if not cur.__suppress_context__ else None)
        if nxt is None or id(nxt) in seen:
            break
        seen.add(id(cur))
        cur = nxt
    site = "?"
    tb = traceback.extract_tb(cur.__traceback__)
    for fr in reversed(tb):
        fn = fr.filename
        if "onnxscript" in fn or "onnx_ir" in fn:
            site = f"{fn.split('/')[-1]}:{fr.name}"
            break
    else:
        if tb:
            site = f"{tb[-1].filename.split('/')[-1]}:{tb[-1].name}"
    return type(cur).__name__, site, str(cur)[:200]


def model_b64(m):
    return base64.b64encode(m.SerializeToString()).decode()


def feeds_json(feeds):
    return [{k: {"dtype": str(v.dtype), "shape": list(v.shape), "data": v.reshape(-1).tolist()} for k, v in fd.items()} for fd in feeds]


def signature(m):
    """names, order and declared types of the graph inputs / outputs."""
    def one(vi):
        return (vi.name, vi.type.SerializeToString(deterministic=True))
    return [one(i) for i in m.graph.input], [one(o) for o in m.graph.output]


def signature_diff(a, b):
    (ai, ao), (bi, bo) = signature(a), signature(b)
    if [n for n, _ in ai] != [n for n, _ in bi]:
        return "inputs", f"input names/order {[n for n, _ in ai]} -> {[n for n, _ in bi]}"
    if [n for n, _ in ao] != [n for n, _ in bo]:
        return "outputs", f"output names/order {[n for n, _ in ao]} -> {[n for n, _ in bo]}"
    for (n, t1), (_, t2) in zip(ai, bi):
        if t1 != t2 and not _type_refines(a, b, n, True):
            return "input-type", f"declared type of input {n} changed"
    for (n, t1), (_, t2) in zip(ao, bo):
        if t1 != t2 and not _type_refines(a, b, n, False):
            return "output-type", f"declared type of output {n} changed"
    return None


def _type_refines(a, b, name, is_input):
    """Declared type comparison: element type and rank must be kept; a declared dimension value must not change.
    A symbolic/unknown dimension may be refined (to a value or, when unknown, to a name); an input dimension name must
    not be replaced by another name."""
    va = next(v for v in (a.graph.input if is_input else a.graph.output) if v.name == name)
    vb = next(v for v in (b.graph.input if is_input else b.graph.output) if v.name == name)
    ta, tb = va.type, vb.type
    if ta.WhichOneof("value") != tb.WhichOneof("value"):
        return False
    if ta.WhichOneof("value") != "tensor_type":
        return ta == tb
    if ta.tensor_type.elem_type != tb.tensor_type.elem_type:
        return False
    if is_input and ta.tensor_type.HasField("shape") != tb.tensor_type.HasField("shape"):
        return False
    if not ta.tensor_type.HasField("shape"):
        return True
    if not tb.tensor_type.HasField("shape"):
        return False
    da, db = ta.tensor_type.shape.dim, tb.tensor_type.shape.dim
    if len(da) != len(db):
        return False
    for x, y in zip(da, db):
        if x.HasField("dim_value") and not (y.HasField("dim_value") and y.dim_value == x.dim_value):
            return False
        if is_input:
            # a symbolic input dimension may be refined to the value that shape inference derives from the model's own
            # constraints (feeds violating it fail in the original too: observed by the differential oracle), but it must
            # not be renamed
            if x.HasField("dim_param") and y.HasField("dim_param") and y.dim_param != x.dim_param:
                return False
    return True
