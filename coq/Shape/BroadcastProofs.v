(* C09 -- soundness of the (repaired) strategies of _check_expand_removable for every binding of the
   symbolic dims, refutation of the shipped ones, and the index view of broadcasting. *)
From Coq Require Import String ZArith List Bool Lia ZifyBool.

Require Import OV.Shape.SymDim OV.Shape.SymDimProofs OV.Shape.Broadcast.
Import ListNotations.
Open Scope Z_scope.

(* ---- one dimension ------------------------------------------------------------------------ *)
Ltac bd_crush :=
  unfold bd in *;
  repeat match goal with
         | |- context[if ?c then _ else _] => destruct c eqn:?
         | H : context[if ?c then _ else _] |- _ => destruct c eqn:?
         end; try congruence; try (f_equal; lia); try lia.

Lemma bd_diag a : bd a a = Some a.
Proof. bd_crush. Qed.
Lemma bd_1_l b : bd 1 b = Some b.
Proof. bd_crush. Qed.
Lemma bd_1_r a : bd a 1 = Some a.
Proof. bd_crush. Qed.
Lemma bd_comm a b : bd a b = bd b a.
Proof. bd_crush. Qed.
(* Expand can only keep a dim or grow a 1 *)
Lemma bd_expands a b c : bd a b = Some c -> a = c \/ a = 1.
Proof. intro H. bd_crush; inversion H; lia. Qed.

Lemma is_int_denotes : forall d z rho n, is_int d z = true -> denotes rho d n -> n = z.
Proof. intros [k|s|] z rho n H D; simpl in *; try discriminate. lia. Qed.

(* per-dimension content of strategy 1 *)
Lemma s1_dim : forall ed xd yd rho a b,
  (ed =? 1) || is_int xd ed || is_int yd ed = true ->
  denotes rho xd a -> denotes rho yd b ->
  obind (bd a ed) (fun t => bd t b) = bd a b.
Proof.
  intros ed xd yd rho a b H Dx Dy.
  assert (K : ed = 1 \/ a = ed \/ b = ed).
  { apply orb_true_iff in H as [H|H]; [apply orb_true_iff in H as [H|H]|].
    - left; lia.
    - right; left. eapply is_int_denotes; eauto.
    - right; right. eapply is_int_denotes; eauto. }
  clear - K. unfold obind, bd.
  repeat (match goal with |- context[if ?c then _ else _] => destruct c eqn:? end; cbv beta iota);
    try reflexivity; try (f_equal; lia); try lia.
Qed.

(* ---- reversed shapes ---------------------------------------------------------------------- *)
Lemma rb_nil_r l : rb l [] = Some l.
Proof. destruct l; reflexivity. Qed.

Lemma rb_diag l : rb l l = Some l.
Proof. induction l; simpl; [reflexivity|]. rewrite bd_diag, IHl. reflexivity. Qed.

Lemma rb_length : forall l m r, rb l m = Some r -> length r = Nat.max (length l) (length m).
Proof.
  induction l as [|a l IH]; intros [|b m] r H; simpl in *.
  - inversion H; reflexivity.
  - inversion H; reflexivity.
  - inversion H; reflexivity.
  - destruct (bd a b); [|discriminate]. destruct (rb l m) eqn:E; [|discriminate].
    inversion H; subst. simpl. f_equal. auto.
Qed.

Lemma denotes_one rho : denotes rho (DInt 1) 1.
Proof. reflexivity. Qed.

(* strategy 1, reversed lists. The conclusion is an equality of options: the rewritten model also
   rejects exactly the shapes the pattern rejects. *)
Lemma s1_rev_sound : forall e x y,
  s1_rev e x y = true -> (length e <= Nat.max (length x) (length y))%nat ->
  forall rho cx cy, shape_denotes rho x cx -> shape_denotes rho y cy ->
  obind (rb cx e) (fun t => rb t cy) = rb cx cy.
Proof.
  induction e as [|ed e IH]; intros x y H Hr rho cx cy Hx Hy.
  - rewrite rb_nil_r. reflexivity.
  - simpl in H. apply andb_true_iff in H as [Hd Hs].
    inversion Hx as [|xd a x' cx' Dx Hx']; subst; inversion Hy as [|yd b y' cy' Dy Hy']; subst; simpl in *.
    + lia.
    + (* x exhausted: x_d is the padding 1 *)
      pose proof (s1_dim ed (DInt 1) yd rho 1 b Hd (denotes_one rho) Dy) as P.
      rewrite !bd_1_l in P. simpl in P. rewrite P.
      assert (Q : obind (rb [] e) (fun t => rb t cy') = rb [] cy').
      { apply (IH [] y' Hs) with (rho := rho); simpl; try lia; auto; try constructor. }
      simpl in Q. rewrite Q. reflexivity.
    + (* y exhausted: y_d is the padding 1 *)
      pose proof (s1_dim ed xd (DInt 1) rho a 1 Hd Dx (denotes_one rho)) as P.
      rewrite bd_1_r in P.
      assert (Q : obind (rb cx' e) (fun t => rb t []) = rb cx' []).
      { apply (IH x' [] Hs) with (rho := rho); simpl; try lia; auto; try constructor. }
      rewrite rb_nil_r in Q.
      destruct (bd a ed) as [d|] eqn:E; simpl in P; [|discriminate].
      rewrite bd_1_r in P. inversion P; subst.
      destruct (rb cx' e) as [r|] eqn:E2; simpl in Q; [|discriminate].
      rewrite rb_nil_r in Q. inversion Q; subst. reflexivity.
    + pose proof (s1_dim ed xd yd rho a b Hd Dx Dy) as P.
      assert (Q : obind (rb cx' e) (fun t => rb t cy') = rb cx' cy').
      { apply (IH x' y' Hs) with (rho := rho); auto. lia. }
      destruct (bd a ed) as [d|] eqn:E; simpl in P.
      * destruct (rb cx' e) as [r|] eqn:E2; simpl in Q; simpl.
        -- rewrite P, Q. reflexivity.
        -- rewrite <- P, <- Q. destruct (bd d b); reflexivity.
      * rewrite <- P. reflexivity.
Qed.

(* per-dimension content of strategy 2 with same_dim *)
Lemma s2_dim : forall ed xd yd rho a b c,
  is_int ed 1 || same_dim xd ed || same_dim yd ed = true ->
  denotes rho xd a -> denotes rho yd b -> denotes rho ed c ->
  (a = c \/ a = 1) ->
  bd c b = bd a b.
Proof.
  intros ed xd yd rho a b c H Dx Dy De Hex.
  apply orb_true_iff in H as [H|H]; [apply orb_true_iff in H as [H|H]|].
  - apply (is_int_denotes _ _ rho c) in H; auto. subst. destruct Hex; subst; reflexivity.
  - pose proof (same_dim_sound _ _ H rho a c Dx De). subst. reflexivity.
  - pose proof (same_dim_sound _ _ H rho b c Dy De). subst.
    destruct Hex; subst; [reflexivity|]. rewrite bd_diag, bd_1_l. reflexivity.
Qed.

(* strategy 2, reversed lists: e is the annotation of the Expand output, whose runtime shape ce is
   the broadcast of cx with SOME target t (the target is not known to the rule). *)
Lemma s2_rev_sound : forall e x y,
  s2_rev same_dim e x y = true -> (length e <= Nat.max (length x) (length y))%nat ->
  forall rho cx cy ce t, shape_denotes rho x cx -> shape_denotes rho y cy -> shape_denotes rho e ce ->
  rb cx t = Some ce ->
  rb ce cy = rb cx cy.
Proof.
  induction e as [|ed e IH]; intros x y H Hr rho cx cy ce t Hx Hy He Hrb.
  - inversion He; subst. destruct cx as [|a cx]; [reflexivity|].
    destruct t; simpl in Hrb; [discriminate|].
    destruct (bd a z); [|discriminate]. destruct (rb cx t); discriminate.
  - simpl in H. apply andb_true_iff in H as [Hd Hs].
    inversion He as [|ed' c e' ce' De He']; subst.
    inversion Hx as [|xd a x' cx' Dx Hx']; subst.
    + (* x exhausted *)
      simpl in Hrb. inversion Hrb; subst. simpl.
      inversion Hy as [|yd b y' cy' Dy Hy']; subst; simpl in *; [lia|].
      assert (P : bd c b = bd 1 b).
      { eapply (s2_dim ed (DInt 1) yd rho 1 b c); eauto; try apply denotes_one.
        (* a = 1 *) }
      rewrite bd_1_l in P. rewrite P.
      assert (Q : rb ce' cy' = rb [] cy').
      { apply (IH [] y' Hs) with (rho := rho) (t := ce'); simpl; auto; try lia; try constructor. }
      simpl in Q. rewrite Q. reflexivity.
    + destruct t as [|tb t'].
      * (* empty target: Expand is the identity *)
        rewrite rb_nil_r in Hrb. inversion Hrb; subst. reflexivity.
      * simpl in Hrb. destruct (bd a tb) as [d|] eqn:E; [|discriminate].
        destruct (rb cx' t') as [r|] eqn:E2; [|discriminate]. inversion Hrb; subst.
        pose proof (bd_expands _ _ _ E) as Hex.
        inversion Hy as [|yd b y' cy' Dy Hy']; subst; simpl in *.
        -- (* y exhausted *)
           assert (P : bd c 1 = bd a 1).
           { eapply (s2_dim ed xd (DInt 1) rho a 1 c); eauto; try apply denotes_one. }
           rewrite !bd_1_r in P. inversion P; subst.
           assert (Q : rb ce' [] = rb cx' []).
           { apply (IH x' [] Hs) with (rho := rho) (t := t'); simpl; auto; try lia; try constructor. }
           rewrite !rb_nil_r in Q. inversion Q; subst. reflexivity.
        -- assert (P : bd c b = bd a b) by (eapply (s2_dim ed xd yd rho a b c); eauto).
           assert (Q : rb ce' cy' = rb cx' cy').
           { apply (IH x' y' Hs) with (rho := rho) (t := t'); auto. lia. }
           rewrite P, Q. reflexivity.
Qed.

(* ---- strategy 3 --------------------------------------------------------------------------- *)
Lemma sym_bd_sound : forall a b d, sym_bd a b = Some d -> is_unk d = false ->
  forall rho ca cb, denotes rho a ca -> denotes rho b cb ->
  exists cd, bd ca cb = Some cd /\ denotes rho d cd.
Proof.
  unfold sym_bd. intros a b d H Hk rho ca cb Da Db.
  destruct (is_int a 1) eqn:E1.
  - inversion H; subst. apply (is_int_denotes _ _ rho ca) in E1; auto. subst.
    exists cb. rewrite bd_1_l. auto.
  - destruct (is_int b 1) eqn:E2.
    + inversion H; subst. apply (is_int_denotes _ _ rho cb) in E2; auto. subst.
      exists ca. rewrite bd_1_r. auto.
    + destruct (dim_ir_eqb a b) eqn:E3; [|discriminate]. inversion H; subst.
      pose proof (dim_ir_eqb_sound_known _ _ E3 Hk rho ca cb Da Db). subst.
      exists cb. rewrite bd_diag. auto.
Qed.

Definition all_known (c : list dim) : bool := forallb (fun d => negb (is_unk d)) c.

Lemma sym_rb_sound : forall x y c, sym_rb x y = Some c -> all_known c = true ->
  forall rho cx cy, shape_denotes rho x cx -> shape_denotes rho y cy ->
  exists cc, rb cx cy = Some cc /\ shape_denotes rho c cc.
Proof.
  induction x as [|a x IH]; intros y c H Hk rho cx cy Hx Hy.
  - simpl in H. inversion H; subst. inversion Hx; subst. exists cy. split; [reflexivity|assumption].
  - destruct y as [|b y].
    + simpl in H. inversion H; subst. inversion Hy; subst. exists cx. rewrite rb_nil_r. auto.
    + simpl in H. destruct (sym_bd a b) as [d|] eqn:E; [|discriminate].
      destruct (sym_rb x y) as [r|] eqn:E2; [|discriminate]. inversion H; subst.
      simpl in Hk. apply andb_true_iff in Hk as [Hk1 Hk2]. apply negb_true_iff in Hk1.
      inversion Hx; subst. inversion Hy; subst.
      destruct (sym_bd_sound _ _ _ E Hk1 rho _ _ H2 H3) as [cd [B D]].
      destruct (IH y r E2 Hk2 rho _ _ H4 H6) as [cr [B2 D2]].
      exists (cd :: cr). simpl. rewrite B, B2. split; [reflexivity|constructor; auto].
Qed.

Lemma forallb2_same_dim : forall c o, forallb2 same_dim c o = true ->
  all_known c = true /\
  forall rho cc co, shape_denotes rho c cc -> shape_denotes rho o co -> cc = co.
Proof.
  induction c as [|d c IH]; intros [|p o] H; simpl in *; try discriminate.
  - split; auto. intros. inversion H0; inversion H1; reflexivity.
  - apply andb_true_iff in H as [H1 H2]. destruct (IH _ H2) as [K S].
    destruct (same_dim_known _ _ H1) as [Kd _]. split.
    + rewrite Kd. simpl. exact K.
    + intros rho cc co Hc Ho. inversion Hc; subst. inversion Ho; subst. f_equal.
      * eapply same_dim_sound; eauto.
      * eapply S; eauto.
Qed.

(* ---- top level (shapes in their natural order) -------------------------------------------- *)
Lemma bcast_some_rev : forall x y r, bcast x y = Some r -> rb (rev x) (rev y) = Some (rev r).
Proof.
  unfold bcast. intros x y r H. destruct (rb (rev x) (rev y)) as [q|]; simpl in H; [|discriminate].
  inversion H; subst. rewrite rev_involutive. reflexivity.
Qed.

Theorem s1_fixed_sound : forall e x y, s1_fixed e x y = true ->
  forall rho cx cy, shape_denotes rho x cx -> shape_denotes rho y cy ->
  pattern_shape cx e cy = rewritten_shape cx cy.
Proof.
  unfold s1_fixed, s1_old, rank_ok, pattern_shape, rewritten_shape, bcast.
  intros e x y H rho cx cy Hx Hy. apply andb_true_iff in H as [Hr Hs].
  apply Nat.leb_le in Hr.
  pose proof (s1_rev_sound (rev e) (rev x) (rev y) Hs) as P.
  rewrite !rev_length in P. specialize (P Hr rho (rev cx) (rev cy) (shape_denotes_rev _ _ _ Hx) (shape_denotes_rev _ _ _ Hy)).
  rewrite <- P. destruct (rb (rev cx) (rev e)) as [t|]; simpl; [|reflexivity].
  rewrite rev_involutive. reflexivity.
Qed.

Theorem s2_fixed_sound : forall e x y, s2_fixed e x y = true ->
  forall rho cx cy ce t, shape_denotes rho x cx -> shape_denotes rho y cy -> shape_denotes rho e ce ->
  bcast cx t = Some ce ->
  pattern_shape cx t cy = rewritten_shape cx cy.
Proof.
  unfold s2_fixed, rank_ok, pattern_shape, rewritten_shape.
  intros e x y H rho cx cy ce t Hx Hy He Hb. apply andb_true_iff in H as [Hr Hs].
  apply Nat.leb_le in Hr. rewrite Hb. simpl. unfold bcast. f_equal.
  apply bcast_some_rev in Hb.
  pose proof (s2_rev_sound (rev e) (rev x) (rev y) Hs) as P.
  rewrite !rev_length in P.
  exact (P Hr rho (rev cx) (rev cy) (rev ce) (rev t) (shape_denotes_rev _ _ _ Hx) (shape_denotes_rev _ _ _ Hy)
           (shape_denotes_rev _ _ _ He) Hb).
Qed.

(* strategy 3: if the annotation o of the binary op's output is truthful (co is the runtime output
   shape of the original model), BinaryOp(x, y) has exactly that shape. *)
Theorem s3_fixed_sound : forall x y o, s3_fixed x y o = true ->
  forall rho cx cy co, shape_denotes rho x cx -> shape_denotes rho y cy -> shape_denotes rho o co ->
  rewritten_shape cx cy = Some co.
Proof.
  unfold s3_fixed, s3_gen, rewritten_shape, bcast. intros x y o H rho cx cy co Hx Hy Ho.
  destruct (sym_rb (rev x) (rev y)) as [c|] eqn:E; [|discriminate].
  apply andb_true_iff in H as [_ H]. destruct (forallb2_same_dim _ _ H) as [K S].
  destruct (sym_rb_sound _ _ _ E K rho _ _ (shape_denotes_rev _ _ _ Hx) (shape_denotes_rev _ _ _ Hy)) as [cc [B D]].
  rewrite B. simpl. f_equal.
  rewrite (S rho cc (rev co) D (shape_denotes_rev _ _ _ Ho)). apply rev_involutive.
Qed.

(* what the rule may rely on, depending on which strategy it uses *)
Definition truthful_avail (rho : valuation) (a : avail) (cx t cy : list Z) : Prop :=
  match a with
  | AConst e => t = e
  | AExpandOut e => exists ce, bcast cx t = Some ce /\ shape_denotes rho e ce
  | ABinOut o => exists co, pattern_shape cx t cy = Some co /\ shape_denotes rho o co
  | ANone => True
  end.

Theorem removable_fixed_sound : forall a x y, removable_fixed a x y = true ->
  forall rho cx cy t, shape_denotes rho x cx -> shape_denotes rho y cy -> truthful_avail rho a cx t cy ->
  rewritten_shape cx cy = pattern_shape cx t cy.
Proof.
  intros [e|e|o|] x y H rho cx cy t Hx Hy T; simpl in *.
  - subst. symmetry. eapply s1_fixed_sound; eauto.
  - destruct T as [ce [B D]]. symmetry. eapply s2_fixed_sound; eauto.
  - destruct T as [co [P D]]. rewrite P. eapply s3_fixed_sound; eauto.
  - discriminate.
Qed.

(* ---- the shipped checks are refuted -------------------------------------------------------- *)
Ltac sd := repeat constructor; simpl; lia.

(* F5: x:[3], target [1,3], y:[3]: the pattern yields [1,3], the rewritten model [3] *)
Lemma s1_old_refuted : exists e x y rho cx cy,
  s1_old e x y = true /\ shape_denotes rho x cx /\ shape_denotes rho y cy /\
  pattern_shape cx e cy <> None /\ pattern_shape cx e cy <> rewritten_shape cx cy.
Proof.
  exists [1; 3], [DInt 3], [DInt 3], (fun _ => O), [3], [3].
  split; [reflexivity|]. split; [sd|]. split; [sd|]. split; vm_compute; discriminate.
Qed.

(* same rank defect through the Expand output annotation [1, N] *)
Lemma s2_old_rank_refuted : exists e x y rho cx cy ce t,
  s2_old e x y = true /\ shape_denotes rho x cx /\ shape_denotes rho y cy /\ shape_denotes rho e ce /\
  bcast cx t = Some ce /\ pattern_shape cx t cy <> None /\ pattern_shape cx t cy <> rewritten_shape cx cy.
Proof.
  exists [DInt 1; DSym "N"%string], [DSym "N"%string], [DSym "N"%string], (fun _ => 2%nat), [2], [2], [1; 2], [1; 2].
  split; [reflexivity|]. split; [sd|]. split; [sd|]. split; [sd|]. split; [reflexivity|].
  split; vm_compute; discriminate.
Qed.

(* F6: two unknown dims compare equal: x:[?] (runtime 1), Expand output annotated [?] (runtime 5), y:[1] *)
Lemma s2_old_unknown_refuted : exists e x y rho cx cy ce t,
  s2_old e x y = true /\ rank_ok (length e) (length x) (length y) = true /\
  shape_denotes rho x cx /\ shape_denotes rho y cy /\ shape_denotes rho e ce /\
  bcast cx t = Some ce /\ pattern_shape cx t cy <> None /\ pattern_shape cx t cy <> rewritten_shape cx cy.
Proof.
  exists [DUnk], [DUnk], [DInt 1], (fun _ => O), [1], [1], [5], [5].
  split; [reflexivity|]. split; [reflexivity|]. split; [sd|]. split; [sd|]. split; [sd|]. split; [reflexivity|].
  split; vm_compute; discriminate.
Qed.

Lemma s3_old_refuted : exists x y o rho cx cy t co,
  s3_old x y o = true /\ shape_denotes rho x cx /\ shape_denotes rho y cy /\ shape_denotes rho o co /\
  pattern_shape cx t cy = Some co /\ rewritten_shape cx cy <> Some co.
Proof.
  exists [DUnk], [DInt 1], [DUnk], (fun _ => O), [1], [1], [5], [5].
  split; [reflexivity|]. split; [sd|]. split; [sd|]. split; [sd|]. split; [reflexivity|].
  vm_compute; discriminate.
Qed.

(* the hypotheses of the soundness theorems are satisfiable on non-trivial instances *)
Example s1_fixed_example :
  s1_fixed [4; 3; 1] [DSym "N"%string; DInt 1] [DInt 4; DInt 3; DSym "M"%string] = true
  /\ pattern_shape [3; 1] [4; 3; 1] [4; 3; 7] = Some [4; 3; 7].
Proof. split; reflexivity. Qed.
Example s2_fixed_example :
  s2_fixed [DSym "N"%string; DInt 1] [DSym "N"%string; DInt 1] [DInt 1; DSym "B"%string] = true
  /\ pattern_shape [0; 1] [0; 1] [1; 7] = Some [0; 7].
Proof. split; reflexivity. Qed.
Example s3_fixed_example :
  s3_fixed [DSym "N"%string; DInt 1] [DInt 1; DSym "B"%string] [DSym "N"%string; DSym "B"%string] = true
  /\ pattern_shape [2; 1] [2; 1] [1; 3] = Some [2; 3].
Proof. split; reflexivity. Qed.

(* ---- values: broadcasting is index replication ------------------------------------------- *)
Lemma proj_idem : forall s I, proj s (proj s I) = proj s I.
Proof.
  induction s as [|d s IH]; intros [|i I]; simpl; try reflexivity.
  rewrite IH. destruct (d =? 1); reflexivity.
Qed.

Lemma proj_expand : forall cx t ce, rb cx t = Some ce -> forall I, proj cx (proj ce I) = proj cx I.
Proof.
  induction cx as [|a cx IH]; intros t ce H I; [reflexivity|].
  destruct t as [|b t].
  - rewrite rb_nil_r in H. inversion H; subst. apply proj_idem.
  - simpl in H. destruct (bd a b) as [d|] eqn:E; [|discriminate].
    destruct (rb cx t) as [r|] eqn:E2; [|discriminate]. inversion H; subst.
    destruct I as [|i I]; [reflexivity|]. simpl. rewrite (IH _ _ E2).
    f_equal. destruct (bd_expands _ _ _ E) as [->| ->].
    + destruct (d =? 1); reflexivity.
    + reflexivity.
Qed.

(* Element at every output index: BinaryOp(Expand(x, t), y) reads the same elements of x and y as
   BinaryOp(x, y).  Together with equality of the output shapes (same index domain) the two
   tensors are equal. *)
Theorem expand_binop_values : forall cx t ce, rb cx t = Some ce ->
  forall (V : Type) (op : V -> V -> V) fx fy cy I,
  binop_at V op (expand_at V fx cx) fy ce cy I = binop_at V op fx fy cx cy I.
Proof.
  intros. unfold binop_at, expand_at. rewrite (proj_expand _ _ _ H). reflexivity.
Qed.
