(* C05, UnsqueezeUnsqueeze (_basic_rules.py): statements only. *)
From Coq Require Import ZArith List Arith Bool.
Require Import OV.Rules.Unsqueeze OV.Rules.UnsqueezeProofs.
Import ListNotations.

(* Unsqueeze(Unsqueeze(x,[v1]),[v2]) = Unsqueeze(x, [v1,v2] if v1 < v2 else [v2,v1+1]) for every shape (all ranks, dims 0/1
   included) and all non-negative axes that are valid for the two original nodes; `unsq` is the specification-level shape
   function of Unsqueeze-13 (ones exactly at the listed output positions), flat data unchanged *)
Theorem C05_unsqueeze_unsqueeze : forall t v1 v2,
  host_ok (fst t) v1 v2 -> unsqueeze [v2] (unsqueeze [v1] t) = unsqueeze (merged v1 v2) t.
Proof. exact unsqueeze_unsqueeze_sound. Qed.
Print Assumptions C05_unsqueeze_unsqueeze.
