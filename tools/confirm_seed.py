#!/venv/bin/python
"""confirm_seed.py <src_dir> <dest_id> [--fast]
src_dir holds patch.diff, demo.py, meta.json from a mutation sub-agent. Confirms in a scratch worktree:
demo passes on HEAD, patch applies, demo fails with patch, full baseline suite still passes with patch
(unless --fast: only records demo results).  Writes /verif/seeded/<dest_id>/ (patch.diff, demo.py, meta.json)."""
import json, os, shutil, subprocess, sys, time

src, dest = sys.argv[1], sys.argv[2]
fast = "--fast" in sys.argv
related = "--related" in sys.argv   # run only the test modules related to the touched files (same directory + modules naming the touched module)
wt = f"/var/tmp/osv/wt-{dest}"
env = dict(os.environ, PYTHONPATH=wt, PYTHONHASHSEED="0", OMP_NUM_THREADS="2", TQDM_DISABLE="1")
subprocess.run(["git", "-C", "/repo", "worktree", "remove", "--force", wt], capture_output=True)
subprocess.run(["git", "-C", "/repo", "worktree", "add", "--detach", wt, "HEAD"], check=True, capture_output=True)
res = {}
try:
    def demo():
        p = subprocess.run(["/venv/bin/python", os.path.join(src, "demo.py")], env=env, cwd=wt, capture_output=True, text=True, timeout=1800)
        return p.returncode, (p.stdout + p.stderr)[-600:]
    rc0, out0 = demo()
    res["demo_on_head"] = {"rc": rc0, "tail": out0}
    a = subprocess.run(["git", "-C", wt, "apply", os.path.join(src, "patch.diff")], capture_output=True, text=True)
    if a.returncode != 0:
        a = subprocess.run(["git", "-C", wt, "apply", "--3way", os.path.join(src, "patch.diff")], capture_output=True, text=True)
    res["patch_applies"] = a.returncode == 0
    if a.returncode != 0:
        res["apply_err"] = a.stderr[-500:]
    rc1, out1 = demo()
    res["demo_with_patch"] = {"rc": rc1, "tail": out1}
    if related:
        import re, glob
        t0 = time.time()
        touched = re.findall(r"^\+\+\+ b/(\S+)", open(os.path.join(src, "patch.diff")).read(), re.M)
        tests = set()
        alltests = [f for f in subprocess.run(["git", "-C", wt, "ls-files", "*_test.py", "*test_*.py"], capture_output=True, text=True).stdout.split() if f.endswith(".py")]
        for f in touched:
            d0 = os.path.dirname(f); mod = os.path.basename(f)[:-3]
            for t in alltests:
                if os.path.dirname(t) == d0:
                    tests.add(t)
                else:
                    try:
                        txt = open(os.path.join(wt, t)).read()
                    except Exception:
                        continue
                    if re.search(r"\b" + re.escape(mod.lstrip("_")) + r"\b", txt) and (mod.lstrip("_") not in ("core", "nn", "values", "common", "__init__") or "torch_lib" in t):
                        tests.add(t)
        heavy = [t for t in tests if "torch_lib" in t and "ops_test" in t and not any("torch_lib" in f for f in touched)]
        tests = sorted(tests - set(heavy))
        def run_tests(tree, what):
            r = subprocess.run(["/venv/bin/python", "-m", "pytest", "-q", "-p", "no:cacheprovider", "--timeout=900", "-n", "4", "-rfE", "--color=no"] + what,
                               cwd=tree, env=dict(env, PYTHONPATH=tree), capture_output=True, text=True)
            bad = sorted(set(re.findall(r"^(?:FAILED|ERROR) (\S+)", r.stdout, re.M)))
            return r, bad
        r, bad = run_tests(wt, tests)
        tail = (r.stdout or "").strip().splitlines()[-1:]
        ok = r.returncode == 0
        also_on_head = []
        if not ok and bad:
            # tests that fail in this sandbox on the unmodified tree too (git-lfs pointer files, backend loader) do not count
            base = f"/var/tmp/osv/wt-{dest}-base"
            subprocess.run(["git", "-C", "/repo", "worktree", "remove", "--force", base], capture_output=True)
            subprocess.run(["git", "-C", "/repo", "worktree", "add", "--detach", base, "HEAD"], check=True, capture_output=True)
            try:
                files = sorted(set(b.split("::")[0] for b in bad))
                r0, bad0 = run_tests(base, files)
                also_on_head = [b for b in bad if b in bad0]
                ok = set(bad) <= set(bad0)
            finally:
                subprocess.run(["git", "-C", "/repo", "worktree", "remove", "--force", base], capture_output=True)
                shutil.rmtree(base, ignore_errors=True)
        res["related_tests_with_patch"] = {"ok": ok, "n_files": len(tests), "files": tests[:40], "summary": tail, "failing_with_patch": bad[:30],
                                           "failing_on_head_too": also_on_head[:30], "wall_s": round(time.time() - t0)}
        if not ok:
            res["related_tests_with_patch"]["fail_tail"] = r.stdout[-1500:]
    elif not fast:
        t0 = time.time()
        xml = f"/var/tmp/osv/{dest}.xml"
        subprocess.run(["/venv/bin/python", "-m", "pytest", "-q", "-p", "no:cacheprovider", "--timeout=900",
                        "--continue-on-collection-errors", "-n", "6", f"--junitxml={xml}"], cwd=wt, env=env, capture_output=True)
        c = subprocess.run(["/venv/bin/python", "/verif/tools/baseline_cmp.py", xml], capture_output=True, text=True)
        ok = c.returncode == 0
        rerun = []
        if not ok:
            # tests missing from the pass set are re-run once on their own (the machine is shared and heavily loaded)
            import re
            miss = re.findall(r"MISSING (\S+)", c.stdout)
            still = []
            for m in miss[:25]:
                cls, name = m.split("::")
                parts = cls.split(".")
                node = None
                for i in range(len(parts), 0, -1):
                    f = os.path.join(wt, *parts[:i]) + ".py"
                    if os.path.exists(f):
                        node = os.path.relpath(f, wt) + "".join("::" + q for q in parts[i:]) + "::" + name
                        break
                if node is None:
                    still.append(m); continue
                r = subprocess.run(["/venv/bin/python", "-m", "pytest", "-q", "-p", "no:cacheprovider", "--timeout=1800", node], cwd=wt, env=env, capture_output=True, text=True)
                rerun.append({"test": node, "rc": r.returncode})
                if r.returncode != 0:
                    still.append(m)
            ok = not still and len(miss) <= 25
        res["baseline_with_patch"] = {"ok": ok, "out": c.stdout[-1500:], "reran_alone": rerun, "wall_s": round(time.time() - t0)}
        os.remove(xml) if os.path.exists(xml) else None
    res["confirmed"] = bool(rc0 == 0 and res["patch_applies"] and rc1 != 0 and (res["related_tests_with_patch"]["ok"] if related else (fast or res["baseline_with_patch"]["ok"])))
finally:
    subprocess.run(["git", "-C", "/repo", "worktree", "remove", "--force", wt], capture_output=True)
    shutil.rmtree(wt, ignore_errors=True)
d = f"/verif/seeded/{dest}"
os.makedirs(d, exist_ok=True)
for f in ("patch.diff", "demo.py"):
    shutil.copy(os.path.join(src, f), os.path.join(d, f))
meta = json.load(open(os.path.join(src, "meta.json"))) if os.path.exists(os.path.join(src, "meta.json")) else {}
old = json.load(open(os.path.join(d, "meta.json"))) if os.path.exists(os.path.join(d, "meta.json")) else {}
meta.update({k: v for k, v in old.items() if k in ("detected_by", "check_result")})
meta["confirmation"] = res
json.dump(meta, open(os.path.join(d, "meta.json"), "w"), indent=1)
print(dest, "confirmed" if res.get("confirmed") else "NOT CONFIRMED", json.dumps({k: (v if not isinstance(v, dict) else {kk: vv for kk, vv in v.items() if kk != 'tail'}) for k, v in res.items()}))
