(* C06 -- satisfiability examples for the theorems on the committed-choice meaning, several output nodes, features
   and exact bindings. *)
From Coq Require Import List ZArith String Bool QArith.
Require Import OV.Match.Pattern OV.Match.Matcher OV.Match.Spec OV.Match.SoundProofs OV.Match.CompleteProofs
  OV.Match.Committed OV.Match.CommittedProofs OV.Match.MultiProofs OV.Match.FeatureProofs OV.Match.Witness
  OV.Match.WitnessProofs.
Import ListNotations.
Close Scope Q_scope.
Local Open Scope string_scope.

(* the committed meaning on the three OrValue situations: first alternative, second alternative, and the committed
   first alternative whose binding conflicts later (no match although an unordered instance exists) *)
Lemma committed_example :
  (exists m, crun true true p_or g_one_relu 2 true = Ok m /\ m_nodes m = [2; 1; 0]) /\
  (exists m, crun true true p_or g_or_second 3 true = Ok m /\ m_nodes m = [3; 2; 1; 0] /\
             run flags_fixed p_or g_or_second 3 true = Ok m) /\
  crun true true p_choice g_choice 2 false = Fail /\ instanceb g_choice p_choice [2] s_choice = true.
Proof.
  split; [|split; [|split]].
  - eexists. split; vm_compute; reflexivity.
  - eexists. split; [|split]; vm_compute; reflexivity.
  - vm_compute; reflexivity.
  - vm_compute; reflexivity.
Qed.

Lemma multi_full_example :
  or_free p_two_roots = true /\ topo p_two_roots = true /\ attr_fix flags_fixed = true /\
  outs_reachable_multi p_two_roots /\ 0 < List.length (g_nodes g_two_roots) /\
  Forall (fun n => own_node g_two_roots n = true) [2] /\
  instanceb g_two_roots p_two_roots [0; 2] s_two_roots = true /\
  In [0; 2] (candidates flags_fixed p_two_roots g_two_roots 0) /\
  exists m, run flags_fixed p_two_roots g_two_roots 0 false = Ok m /\ m_nodes m = [0; 2].
Proof.
  repeat split; try (vm_compute; reflexivity).
  - exact p_two_roots_reachable.
  - simpl; auto.
  - repeat constructor.
  - vm_compute. right; left; reflexivity.
  - eexists. split; vm_compute; reflexivity.
Qed.

(* one node with a constant attribute, an optional attribute variable (absent: None), no other attributes, a
   constant within tolerance and an omitted optional input *)
Lemma feature_example :
  exists m, run flags_fixed p_feat g_feat 0 true = Ok m /\
    m_b m = [("hi", BNone); ("x", BVal 0); ("m", BNone)] /\ m_nb m = [(0, 0)] /\ m_outs m = [BVal 2].
Proof. eexists. repeat split; vm_compute; reflexivity. Qed.

Lemma bindings_exact_example :
  exists m, run flags_fixed p_plain g_plain 2 false = Ok m /\
    m_b m = [("x", BVal 0)] /\ m_nb m = [(0, 0); (1, 1); (2, 2)] /\
    instanceb g_plain p_plain [2] s_plain = true.
Proof. eexists. repeat split; vm_compute; reflexivity. Qed.

(* the attribute repair.  As read (every other repair in place) a scalar constant attribute pattern against a list-valued
   attribute makes the matcher raise: on the node itself, and -- with several output nodes -- on an earlier candidate
   tuple, so that an instance on a later tuple is not matched; with the repair: no match / the instance is matched *)
Lemma attr_scalar_vs_list_witness :
  run flags_attr_as_read p_attr_scalar g_attr_list 0 false = Err /\
  run flags_fixed p_attr_scalar g_attr_list 0 false = Fail /\
  or_free p_two_roots_attr = true /\ topo p_two_roots_attr = true /\
  instanceb g_two_roots_attr p_two_roots_attr [0; 2] s_two_roots_attr = true /\
  In [0; 2] (candidates flags_attr_as_read p_two_roots_attr g_two_roots_attr 0) /\
  attrs_typed (gp_nodes p_two_roots_attr) g_two_roots_attr = false /\
  run flags_attr_as_read p_two_roots_attr g_two_roots_attr 0 false = Err /\
  exists m, run flags_fixed p_two_roots_attr g_two_roots_attr 0 false = Ok m /\ m_nodes m = [0; 2].
Proof.
  repeat split; try (vm_compute; reflexivity).
  - vm_compute. right; left; reflexivity.
  - eexists. split; vm_compute; reflexivity.
Qed.
