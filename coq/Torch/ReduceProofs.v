(* C08 (third group) -- reductions: all / any, argmax / argmin, prod, logsumexp, var / std.  The composition each aten_* function
   emits equals PyTorch's semantics on the stated domain, for every rank / extent / dim; `_refuted` lemmas give witnesses
   where the faithful model differs. *)
From Coq Require Import ZArith List Bool Lia ZifyBool QArith Qabs.
Require Import OV.Torch.Onnx OV.Torch.Onnx2 OV.Torch.Onnx3 OV.Torch.Spec OV.Torch.Spec2 OV.Torch.Spec3
               OV.Torch.Aten OV.Torch.Aten2 OV.Torch.Aten3 OV.Torch.Lemmas OV.Torch.ShapeProofs.
Import ListNotations.
Local Open Scope Z_scope.

(* ------------------------------------------------------------------ all / any along one fiber *)
Definition bit (v : Z) : Z := cast_b2i (cast_bool v).

Lemma bit_cases : forall v, (truthy v = true /\ bit v = 1) \/ (truthy v = false /\ bit v = 0).
Proof. intro v. unfold bit, truthy, cast_bool, cast_b2i. destruct (v =? 0); cbn; [right | left]; split; reflexivity. Qed.

Lemma min_inv : forall l, let m := reduce_min_i64 (map bit l) in 0 <= m /\ (m = 0 <-> forallb truthy l = false).
Proof.
  induction l as [|x t IH]; cbn -[INT64_MAX].
  - unfold INT64_MAX. split; [lia | split; [lia | discriminate]].
  - destruct IH as [H0 H1]. fold (reduce_min_i64 (map bit t)) in *. destruct (bit_cases x) as [[Ht Hb] | [Ht Hb]]; rewrite Ht, Hb; cbn [andb].
    + split; [lia|]. rewrite <- H1. lia.
    + split; [lia|]. split; [reflexivity | lia].
Qed.

Lemma all_fiber_correct : forall l, aten_all_fiber l = torch_all_fiber l.
Proof.
  intro l. change (aten_all_fiber l) with (negb (reduce_min_i64 (map bit l) =? 0)). unfold torch_all_fiber. destruct (min_inv l) as [H0 H1].
  destruct (forallb truthy l); destruct (reduce_min_i64 (map bit l) =? 0) eqn:E; try reflexivity.
  - apply Z.eqb_eq in E. apply H1 in E. discriminate.
  - apply Z.eqb_neq in E. exfalso. apply E. apply H1. reflexivity.
Qed.

Lemma max_inv : forall l, let m := reduce_max_i64 (map bit l) in
  (m = INT64_MIN \/ m = 0 \/ m = 1) /\ (m = 1 <-> existsb truthy l = true) /\ (l <> [] -> 0 <= m).
Proof.
  induction l as [|x t IH]; cbn -[INT64_MIN].
  - unfold INT64_MIN. split; [left; reflexivity|]. split; [split; [lia | discriminate] | intro H; exfalso; apply H; reflexivity].
  - destruct IH as [H0 [H1 H2]]. fold (reduce_max_i64 (map bit t)) in *. unfold INT64_MIN in *.
    destruct (bit_cases x) as [[Ht Hb] | [Ht Hb]]; rewrite Ht, Hb; cbn [orb].
    + split; [right; right; lia|]. split; [split; [reflexivity | lia] | lia].
    + split; [lia|]. split; [rewrite <- H1; lia | lia].
Qed.

Lemma any_fiber_correct : forall l, l <> [] -> aten_any_fiber l = torch_any_fiber l.
Proof.
  intros l Hl. change (aten_any_fiber l) with (negb (reduce_max_i64 (map bit l) =? 0)). unfold torch_any_fiber. destruct (max_inv l) as [H0 [H1 H2]].
  specialize (H2 Hl). unfold INT64_MIN in H0.
  destruct (existsb truthy l); destruct (reduce_max_i64 (map bit l) =? 0) eqn:E; try reflexivity.
  - apply Z.eqb_eq in E. assert (reduce_max_i64 (map bit l) = 1) by (apply H1; reflexivity). lia.
  - apply Z.eqb_neq in E. assert (reduce_max_i64 (map bit l) = 1) as H by lia. apply H1 in H. discriminate.
Qed.

Lemma any_fiber_empty_refuted : exists l, torch_any_fiber l = false /\ aten_any_fiber l = true.
Proof. exists []. split; reflexivity. Qed.

Lemma any_fiber_fixed_correct : forall l, aten_any_fiber_fixed l = torch_any_fiber l.
Proof.
  intro l. change (aten_any_fiber_fixed l) with (0 <? reduce_max_i64 (map bit l)). unfold torch_any_fiber. destruct (max_inv l) as [H0 [H1 _]]. unfold INT64_MIN in H0.
  destruct (existsb truthy l).
  - assert (reduce_max_i64 (map bit l) = 1) as -> by (apply H1; reflexivity). reflexivity.
  - destruct (0 <? reduce_max_i64 (map bit l)) eqn:E; [|reflexivity].
    assert (reduce_max_i64 (map bit l) = 1) as H by lia. apply H1 in H. discriminate.
Qed.

(* ------------------------------------------------------------------ all.dim / any.dim: shape *)
Lemma wrap1 : forall r d a, 0 < r -> wrap_dim r d = Some a -> norm_axis r d = Some a.
Proof. intros r d a Hr H. rewrite <- wrap_dim_norm_axis by assumption. exact H. Qed.

Lemma allany_dim_shape_correct : forall s dim keepdim out,
  0 < zlen s -> torch_allany_shape s (Some [dim]) keepdim = Some out -> aten_allany_dim_shape s dim keepdim = Some out.
Proof.
  intros s dim kd out Hr. unfold torch_allany_shape, aten_allany_dim_shape, reduce_shape. cbn [omap_all].
  destruct (wrap_dim (zlen s) dim) as [a|] eqn:Ea; [|discriminate]. rewrite (wrap1 _ _ _ Hr Ea). cbn. intro H; exact H.
Qed.

(* ------------------------------------------------------------------ all.dims / any.dims *)
Lemma rd_len : forall s i A, zlen (reduce_dims s i A true) = zlen s.
Proof.
  induction s as [|d t IH]; intros i A; [reflexivity|]. cbn [reduce_dims]. destruct (has i A); rewrite !zlen_cons, IH; reflexivity.
Qed.

Lemma has_app : forall v A B, has v (A ++ B) = has v A || has v B.
Proof. intros. unfold has. apply existsb_app. Qed.

Lemma rd_compose : forall s i A B, reduce_dims (reduce_dims s i A true) i B true = reduce_dims s i (A ++ B) true.
Proof.
  induction s as [|d t IH]; intros i A B; [reflexivity|]. cbn [reduce_dims]. rewrite has_app.
  destruct (has i A) eqn:EA; cbn [reduce_dims orb].
  - destruct (has i B); rewrite IH; reflexivity.
  - destruct (has i B); rewrite IH; reflexivity.
Qed.

Lemma rd_nil : forall s i k, reduce_dims s i [] k = s.
Proof. induction s as [|d t IH]; intros; [reflexivity|]. cbn. rewrite IH. reflexivity. Qed.

Lemma nthZ_cons_pos : forall A (x : A) l j, 0 < j -> nthZ (x :: l) j = nthZ l (j - 1).
Proof.
  intros A x l j Hj. unfold nthZ. replace (j <? 0) with false by lia. replace (j - 1 <? 0) with false by lia.
  replace (Z.to_nat j) with (S (Z.to_nat (j - 1))) by lia. reflexivity.
Qed.

Lemma rd_nth1 : forall s i A j, has (i + j) A = true -> 0 <= j < zlen s -> nthZ (reduce_dims s i A true) j = Some 1.
Proof.
  induction s as [|d t IH]; intros i A j Hh Hj.
  - rewrite zlen_nil in Hj. lia.
  - rewrite zlen_cons in Hj. cbn [reduce_dims]. destruct (Z.eq_dec j 0) as [-> | Hn].
    + rewrite Z.add_0_r in Hh. rewrite Hh. reflexivity.
    + destruct (has i A); rewrite nthZ_cons_pos by lia; apply IH; try lia; replace (i + 1 + (j - 1)) with (i + j) by lia; assumption.
Qed.

Lemma rm_rd : forall s i A, remove_at (reduce_dims s i A true) i A = reduce_dims s i A false.
Proof.
  induction s as [|d t IH]; intros i A; [reflexivity|]. cbn [reduce_dims]. destruct (has i A) eqn:E; cbn [remove_at]; rewrite E, IH; reflexivity.
Qed.

Definition nrm (r a : Z) : Z := if a <? 0 then a + r else a.

Lemma fold_keep : forall ds s r, zlen s = r -> 0 < r -> (forall d, In d ds -> - r <= d < r) ->
  allany_fold s ds = Some (reduce_dims s 0 (map (nrm r) ds) true).
Proof.
  induction ds as [|d t IH]; intros s r Hs Hr Hin.
  - cbn. rewrite rd_nil. reflexivity.
  - cbn [allany_fold map]. unfold aten_allany_dim_shape, reduce_shape. cbn [omap_all]. rewrite Hs.
    assert (Hd : - r <= d < r) by (apply Hin; left; reflexivity).
    unfold norm_axis at 1. replace ((- r <=? d) && (d <? r)) with true by lia. cbn [obind]. fold (nrm r d).
    rewrite (IH (reduce_dims s 0 [nrm r d] true) r); [| rewrite rd_len; assumption | assumption | intros; apply Hin; right; assumption].
    rewrite rd_compose. reflexivity.
Qed.

Lemma omap_norm_all : forall r ds, (forall d, In d ds -> - r <= d < r) -> omap_all (norm_axis r) ds = Some (map (nrm r) ds).
Proof.
  intros r ds H. apply omap_all_map. intros x Hx. specialize (H x Hx). unfold norm_axis, nrm.
  replace ((- r <=? x) && (x <? r)) with true by lia. reflexivity.
Qed.

Lemma wrap_all_range : forall r ds p, 0 < r -> omap_all (wrap_dim r) ds = Some p ->
  p = map (nrm r) ds /\ (forall d, In d ds -> - r <= d < r).
Proof.
  intros r ds. induction ds as [|d t IH]; intros p Hr H; cbn in H.
  - inversion H. split; [reflexivity | intros d []].
  - destruct (wrap_dim r d) as [a|] eqn:Ea; [|discriminate]. destruct (omap_all (wrap_dim r) t) as [q|] eqn:Eq; [|discriminate].
    inversion H; subst; clear H. destruct (IH q Hr eq_refl) as [-> Hin].
    pose proof (wrap1 _ _ _ Hr Ea) as Hn. pose proof (norm_axis_range _ _ _ Hn) as [_ [_ Hrng]].
    destruct (wrap_dim_val _ _ _ Hr Ea) as [-> _]. split; [reflexivity|].
    intros x [<- | Hx]; [assumption | apply Hin; assumption].
Qed.

Lemma allany_dims_shape_correct : forall s ds keepdim out,
  0 < zlen s -> ds <> [] -> torch_allany_shape s (Some ds) keepdim = Some out -> aten_allany_dims_shape s (Some ds) keepdim = Some out.
Proof.
  intros s ds kd out Hr Hne. unfold torch_allany_shape, aten_allany_dims_shape.
  destruct ds as [|d0 t]; [congruence|]. set (ds := d0 :: t) in *.
  destruct (omap_all (wrap_dim (zlen s)) ds) as [p|] eqn:Ep; [|discriminate]. cbn [obind].
  destruct (wrap_all_range _ _ _ Hr Ep) as [-> Hin]. destruct (nodupZ (map (nrm (zlen s)) ds)); [|discriminate].
  intro H; inversion H; subst out; clear H.
  rewrite (fold_keep ds s (zlen s) eq_refl Hr Hin). cbn [obind]. destruct kd; [reflexivity|].
  unfold squeeze_axes. rewrite rd_len. rewrite (omap_norm_all _ _ Hin). cbn [obind].
  assert (forallb (fun a => match nthZ (reduce_dims s 0 (map (nrm (zlen s)) ds) true) a with Some 1 => true | _ => false end)
                  (map (nrm (zlen s)) ds) = true) as ->.
  { apply forallb_forall. intros a Ha. rewrite rd_nth1; [reflexivity | apply has_In; assumption |].
    apply in_map_iff in Ha. destruct Ha as [d [<- Hd]]. specialize (Hin d Hd). unfold nrm. destruct (d <? 0) eqn:E; lia. }
  rewrite rm_rd. reflexivity.
Qed.

Lemma allany_nodim_shape_correct : forall s keepdim out,
  torch_allany_shape s None keepdim = Some out -> aten_allany_dims_shape s None keepdim = Some out.
Proof.
  intros s kd out. unfold torch_allany_shape, aten_allany_dims_shape, aten_allany_nodim_shape, reduce_shape.
  destruct s as [|d t]; [cbn; intro H; exact H|].
  replace (zlen (d :: t) =? 0) with false by (rewrite zlen_cons; pose proof (zlen_nonneg _ t); lia). intro H; exact H.
Qed.

Lemma allany_dims_empty_list_refuted : exists s keepdim out,
  torch_allany_shape s (Some []) keepdim = Some out /\ aten_allany_dims_shape s (Some []) keepdim <> Some out.
Proof. exists [2; 3], false, [2; 3]. split; [reflexivity | vm_compute; discriminate]. Qed.

Lemma allany_dims_rank0_refuted : exists dims keepdim out,
  torch_allany_shape [] (Some dims) keepdim = Some out /\ aten_allany_dims_shape [] (Some dims) keepdim = None.
Proof. exists [0], false, []. split; reflexivity. Qed.

(* ------------------------------------------------------------------ argmax / argmin *)
Lemma reshape_flat : forall s, reshape_shape s [-1] false = Some [prodZ s].
Proof.
  intro s. unfold reshape_shape. cbn [existsb orb andb count_of filter length Z.eqb Z.ltb Z.compare Nat.ltb Nat.leb resolve_zeros tl has map prodZ fold_right negb].
  cbn. rewrite Z.mod_1_r. cbn. rewrite Z.div_1_r. reflexivity.
Qed.

Lemma argmax_dim_correct : forall s d keepdim out,
  torch_argmax_shape s (Some d) keepdim = Some out -> aten_argmax_shape s (Some d) keepdim = Some out.
Proof.
  intros s d kd out. unfold torch_argmax_shape, aten_argmax_shape.
  destruct (wrap_dim (zlen s) d) as [a|] eqn:Ea; [|discriminate]. cbn [obind].
  destruct s as [|x t].
  - cbn [zlen length Z.of_nat Z.eqb]. intro H; inversion H; subst out; clear H. rewrite reshape_flat. cbn [obind prodZ fold_right].
    unfold wrap_dim in Ea. cbn in Ea. destruct ((-1 <=? d) && (d <? 1)) eqn:E; [|discriminate].
    assert (d = -1 \/ d = 0) as [-> | ->] by lia; destruct kd; reflexivity.
  - assert (Hr : 0 < zlen (x :: t)) by (rewrite zlen_cons; pose proof (zlen_nonneg _ t); lia).
    replace (zlen (x :: t) =? 0) with false by lia. cbn [obind]. unfold argmax_shape. rewrite (wrap1 _ _ _ Hr Ea). cbn [obind].
    destruct (nthZ (x :: t) a) as [n|]; [|discriminate]. destruct (n =? 0); [discriminate|]. intro H; exact H.
Qed.

Lemma argmax_nodim_partial : forall s keepdim out,
  (keepdim = false \/ (length s <= 1)%nat) ->
  torch_argmax_shape s None keepdim = Some out -> aten_argmax_shape s None keepdim = Some out.
Proof.
  intros s kd out Hk. unfold torch_argmax_shape, aten_argmax_shape. destruct (prodZ s =? 0) eqn:Ep; [discriminate|].
  intro H; inversion H; subst out; clear H. rewrite reshape_flat. cbn [obind]. unfold argmax_shape. cbn [zlen length Z.of_nat].
  cbn [norm_axis]. unfold norm_axis. cbn. rewrite Ep.
  destruct Hk as [-> | Hl].
  - cbn. destruct (zlen s =? 0); reflexivity.
  - destruct s as [|x [|y t]]; [| |cbn in Hl; lia]; destruct kd; reflexivity.
Qed.

Lemma argmax_nodim_keepdim_refuted : exists s out,
  torch_argmax_shape s None true = Some out /\ aten_argmax_shape s None true <> Some out.
Proof. exists [2; 3], [1; 1]. split; [reflexivity | vm_compute; discriminate]. Qed.

(* ------------------------------------------------------------------ prod.dim_int / prod *)
Lemma prod_dim_shape_correct : forall s dim keepdim out,
  0 < zlen s -> torch_reduce1_shape s dim keepdim = Some out -> aten_prod_dim_shape s dim keepdim = Some out.
Proof.
  intros s dim kd out Hr. unfold torch_reduce1_shape, aten_prod_dim_shape, reduce_shape. cbn [omap_all].
  destruct (wrap_dim (zlen s) dim) as [a|] eqn:Ea; [|discriminate]. rewrite (wrap1 _ _ _ Hr Ea). cbn. intro H; exact H.
Qed.

Lemma prod_dim_rank0_refuted : exists dim keepdim out,
  torch_reduce1_shape [] dim keepdim = Some out /\ aten_prod_dim_shape [] dim keepdim = None.
Proof. exists 0, false, []. split; reflexivity. Qed.

Lemma prod_dim_dtype_correct : forall t dtype,
  (dtype <> None \/ is_integral t = false) -> (dtype <> Some 9) ->
  aten_prod_dim_dtype t dtype = Some (torch_prod_dtype t dtype).
Proof.
  intros t dtype H H9. unfold aten_prod_dim_dtype, torch_prod_dtype. destruct dtype as [d|].
  - destruct (d =? 9) eqn:E; [apply Z.eqb_eq in E; congruence | reflexivity].
  - destruct H as [H | H]; [congruence|]. rewrite H. destruct (t =? 9) eqn:E; [|reflexivity].
    apply Z.eqb_eq in E. subst t. discriminate.
Qed.

Lemma prod_dim_dtype_int32_refuted : exists t, aten_prod_dim_dtype t None <> Some (torch_prod_dtype t None).
Proof. exists 6. vm_compute. discriminate. Qed.

Lemma prod_dtype_correct : forall t dtype, t <> 9 -> dtype <> Some 9 -> aten_prod_dtype t dtype = Some (torch_prod_dtype t dtype).
Proof.
  intros t dtype Ht H9. unfold aten_prod_dtype, torch_prod_dtype. destruct dtype as [d|].
  - destruct (d =? 9) eqn:E; [apply Z.eqb_eq in E; congruence | reflexivity].
  - unfold is_integer_ir, is_integral, has. cbn [existsb].
    destruct (t =? 2) eqn:E2; destruct (t =? 3) eqn:E3; destruct (t =? 4) eqn:E4; destruct (t =? 5) eqn:E5; destruct (t =? 6) eqn:E6;
    destruct (t =? 7) eqn:E7; destruct (t =? 12) eqn:E12; destruct (t =? 13) eqn:E13; destruct (t =? 9) eqn:E9; cbn; try reflexivity; try lia.
    all: rewrite E9; reflexivity.
Qed.

Lemma prod_bool_refuted : aten_prod_dtype 9 None = None /\ torch_prod_dtype 9 None = 7.
Proof. split; reflexivity. Qed.

(* ------------------------------------------------------------------ logsumexp *)
Lemma logsumexp_shape_correct : forall s dims keepdim out,
  torch_logsumexp_shape s dims keepdim = Some out -> aten_logsumexp_shape s dims keepdim = Some out.
Proof.
  intros s dims kd out. unfold torch_logsumexp_shape, aten_logsumexp_shape. destruct dims as [|d t].
  - destruct s; [cbn; intro H; exact H | ]. replace (zlen (z :: s) =? 0) with false by (rewrite zlen_cons; pose proof (zlen_nonneg _ s); lia). discriminate.
  - destruct s as [|x s'].
    + intro H. apply reduce_rank0 in H. subst. reflexivity.
    + assert (Hr : 0 < zlen (x :: s')) by (rewrite zlen_cons; pose proof (zlen_nonneg _ s'); lia).
      replace (zlen (x :: s') =? 0) with false by lia. apply reduce_shape_correct. assumption.
Qed.

(* ------------------------------------------------------------------ var / std *)
Lemma var_shape_correct : forall s dims keepdim out,
  0 < zlen s -> torch_reduce_shape s dims keepdim = Some out -> aten_var_shape s dims keepdim = Some out.
Proof.
  intros s dims kd out Hr H. unfold aten_var_shape. destruct dims as [ds|].
  - pose proof (reduce_shape_correct _ _ _ _ Hr H) as H1. rewrite H1.
    assert (exists o, reduce_shape s (Some ds) true = Some o) as [o ->]; [|reflexivity].
    unfold reduce_shape in *. destruct ds as [|d t]; [eexists; reflexivity|].
    destruct (omap_all (norm_axis (zlen s)) (d :: t)); [eexists; reflexivity | discriminate].
  - apply reduce_shape_correct; assumption.
Qed.

Lemma omap_chain : forall A B C (f : A -> option B) (g : B -> option C) (h : A -> option C) l p v,
  omap_all f l = Some p -> omap_all g p = Some v -> (forall x y, In x l -> f x = Some y -> g y = h x) -> omap_all h l = Some v.
Proof.
  induction l as [|a t IH]; intros p v Hf Hg Hh; cbn in Hf.
  - inversion Hf; subst. cbn in Hg. exact Hg.
  - destruct (f a) as [b|] eqn:Ea; [|discriminate]. destruct (omap_all f t) as [q|] eqn:Eq; [|discriminate].
    inversion Hf; subst; clear Hf. cbn in Hg. destruct (g b) as [c|] eqn:Eb; [|discriminate].
    destruct (omap_all g q) as [w|] eqn:Ew; [|discriminate]. inversion Hg; subst; clear Hg.
    cbn. rewrite <- (Hh a b (or_introl eq_refl) Ea), Eb. rewrite (IH q w eq_refl Ew); [reflexivity|].
    intros x y Hx. apply Hh. right; assumption.
Qed.

Lemma var_count_correct : forall s ds n,
  0 < zlen s -> ds <> [] -> torch_var_count s (Some ds) = Some n -> aten_var_count s (Some ds) = Some n.
Proof.
  intros s ds n Hr Hne. unfold torch_var_count, aten_var_count, gather_axis. destruct ds as [|d0 t]; [congruence|].
  destruct (omap_all (wrap_dim (zlen s)) (d0 :: t)) as [p|] eqn:Ep; [|discriminate]. cbn [obind]. destruct (nodupZ p); [|discriminate].
  destruct (omap_all (fun a => if zlen s =? 0 then Some 1 else nthZ s a) p) as [v|] eqn:Ev; [|discriminate]. cbn [option_map].
  intro H; inversion H; subst n; clear H.
  rewrite (omap_chain _ _ _ _ _ (gather1 s) _ _ _ Ep Ev); [reflexivity|].
  intros x y _ Hx. replace (zlen s =? 0) with false by lia.
  pose proof (wrap1 _ _ _ Hr Hx) as Hn. pose proof (norm_axis_range _ _ _ Hn) as [_ [_ Hrng]].
  destruct (wrap_dim_val _ _ _ Hr Hx) as [-> _]. unfold gather1. replace ((- zlen s <=? x) && (x <? zlen s)) with true by lia. reflexivity.
Qed.

Lemma var_count_nodim_correct : forall s, aten_var_count s None = torch_var_count s None.
Proof. reflexivity. Qed.

Lemma var_count_empty_list_refuted : exists s n, torch_var_count s (Some []) = Some n /\ aten_var_count s (Some []) <> Some n.
Proof. exists [2; 3], 6. split; [reflexivity | vm_compute; discriminate]. Qed.

Definition fval_eq (a b : fval) : Prop :=
  match a, b with
  | Fin x, Fin y => (x == y)%Q
  | Inf x, Inf y => x = y
  | NaN, NaN => True
  | _, _ => False
  end.

Lemma qzero_eq : forall a b : Q, (a == b)%Q -> qzero a = qzero b.
Proof.
  intros [an ad] [bn bd]. unfold Qeq, qzero. cbn. intro H.
  destruct (Z.eqb_spec an 0), (Z.eqb_spec bn 0); try reflexivity; nia.
Qed.
Lemma qneg_eq : forall a b : Q, (a == b)%Q -> qneg a = qneg b.
Proof.
  intros [an ad] [bn bd]. unfold Qeq, qneg. cbn. intro H.
  destruct (Z.ltb_spec an 0), (Z.ltb_spec bn 0); try reflexivity; nia.
Qed.

Lemma fdiv_eq : forall a a' b : Q, (a == a')%Q -> fval_eq (fdiv a b) (fdiv a' b).
Proof.
  intros a a' b H. unfold fdiv. destruct (qzero b).
  - rewrite (qzero_eq _ _ H). destruct (qzero a'); [exact I|]. cbn. apply qneg_eq. assumption.
  - cbn. rewrite H. reflexivity.
Qed.

Lemma qnum_nonneg : forall x : Q, (0 <= x)%Q -> 0 <= Qnum x.
Proof. intros [n d]. unfold Qle. cbn. lia. Qed.

(* 0 < N and 0 <= correction <= N: the adjusted mean of squares equals PyTorch's quotient, inf / nan at correction = N included *)
Lemma var_val_correct : forall ssd n c,
  0 < n -> (0 <= c)%Q -> (c <= inject_Z n)%Q -> fval_eq (aten_var_val ssd n n c) (torch_var_val ssd n c).
Proof.
  intros ssd n c Hn Hc0 Hc. unfold aten_var_val, torch_var_val. replace (n =? 0) with false by lia.
  assert (Hnz : ~ (inject_Z n == 0)%Q) by (unfold Qeq; cbn; lia).
  assert (Hd : qneg (inject_Z n - c) = false).
  { unfold qneg. assert (0 <= inject_Z n - c)%Q as H by (apply (Qplus_le_l _ _ c); ring_simplify; assumption).
    apply qnum_nonneg in H. lia. }
  unfold qmax0. rewrite Hd. destruct (qpos c) eqn:Ep.
  - apply fdiv_eq. field. assumption.
  - assert (c == 0)%Q as Hz.
    { destruct c as [cn cd]. unfold qpos in Ep. unfold Qle in Hc0. cbn in *. unfold Qeq. cbn. lia. }
    unfold fdiv. assert (qzero (inject_Z n - c) = false) as ->.
    { rewrite (qzero_eq _ (inject_Z n)) by (rewrite Hz; ring). unfold qzero. cbn. lia. }
    cbn. rewrite Hz. field. assumption.
Qed.

Lemma var_correction_exceeds_count_refuted : exists ssd n c,
  0 < n /\ (0 <= c)%Q /\ torch_var_val ssd n c = Inf false /\ exists q, aten_var_val ssd n n c = Fin q /\ (q < 0)%Q.
Proof. exists 1%Q, 1, 2%Q. split; [lia|]. split; [discriminate|]. split; [reflexivity|]. eexists. split; [reflexivity|]. reflexivity. Qed.

Lemma var_negative_correction_refuted : exists ssd n c,
  0 < n /\ ~ fval_eq (aten_var_val ssd n n c) (torch_var_val ssd n c).
Proof. exists 6%Q, 2, (-1)%Q. split; [lia|]. vm_compute. discriminate. Qed.

(* the repaired adjustment (proposed_fixes/C08_var_count_and_clamp.diff): every correction >= 0 and every dim list *)
Lemma var_val_fixed_correct : forall ssd n c,
  0 < n -> (0 <= c)%Q -> fval_eq (aten_var_val_fixed ssd n n c) (torch_var_val ssd n c).
Proof.
  intros ssd n c Hn Hc0. unfold aten_var_val_fixed, torch_var_val. replace (n =? 0) with false by lia.
  assert (Hnz : ~ (inject_Z n == 0)%Q) by (unfold Qeq; cbn; lia).
  destruct (qpos c) eqn:Ep.
  - apply fdiv_eq. field. assumption.
  - assert (c == 0)%Q as Hz.
    { destruct c as [cn cd]. unfold qpos in Ep. unfold Qle in Hc0. cbn in *. unfold Qeq. cbn. lia. }
    assert (qneg (inject_Z n - c) = false) as Hd.
    { rewrite (qneg_eq _ (inject_Z n)) by (rewrite Hz; ring). unfold qneg. cbn. lia. }
    unfold qmax0. rewrite Hd. unfold fdiv. assert (qzero (inject_Z n - c) = false) as ->.
    { rewrite (qzero_eq _ (inject_Z n)) by (rewrite Hz; ring). unfold qzero. cbn. lia. }
    cbn. rewrite Hz. field. assumption.
Qed.

Lemma var_count_fixed_correct : forall s dims n,
  0 < zlen s -> torch_var_count s dims = Some n -> aten_var_count_fixed s dims = Some n.
Proof.
  intros s dims n Hr H. destruct dims as [[|d t]|]; try exact H.
  unfold aten_var_count_fixed. apply (var_count_correct s (d :: t) n Hr); [discriminate | exact H].
Qed.

(* ================================================================== repaired variants (proposed_fixes/ready) *)
Lemma allany_dims_shape_fixed_correct : forall s dims keepdim out,
  torch_allany_shape s dims keepdim = Some out -> aten_allany_dims_shape_fixed s dims keepdim = Some out.
Proof.
  intros s dims kd out H. unfold aten_allany_dims_shape_fixed. destruct dims as [ds|].
  - destruct ds as [|d t].
    + cbn [zlen length Z.of_nat Z.eqb orb]. unfold torch_allany_shape in H. cbn in H. rewrite rd_nil in H. exact H.
    + replace (zlen (d :: t) =? 0) with false by (rewrite zlen_cons; pose proof (zlen_nonneg _ t); lia). cbn [orb].
      destruct s as [|x s'].
      * cbn [zlen length Z.of_nat Z.eqb]. unfold torch_allany_shape in H.
        destruct (omap_all (wrap_dim (zlen [])) (d :: t)); [|discriminate]. cbn [obind] in H. destruct (nodupZ l); [|discriminate].
        cbn in H. exact H.
      * assert (Hr : 0 < zlen (x :: s')) by (rewrite zlen_cons; pose proof (zlen_nonneg _ s'); lia).
        replace (zlen (x :: s') =? 0) with false by lia. apply allany_dims_shape_correct; [assumption | discriminate | assumption].
  - apply (allany_nodim_shape_correct s kd out H).
Qed.

Lemma argmax_nodim_value : forall s keepdim, prodZ s <> 0 ->
  aten_argmax_shape s None keepdim = Some (if zlen s =? 0 then [] else if keepdim then [1] else []).
Proof.
  intros s kd Hp. unfold aten_argmax_shape. rewrite reshape_flat. cbn [obind]. unfold argmax_shape. cbn [zlen length Z.of_nat].
  unfold norm_axis. cbn. replace (prodZ s =? 0) with false by lia. destruct (zlen s =? 0); destruct kd; reflexivity.
Qed.

Lemma exb_ones : forall n, existsb (fun t => t <? -1) (repeat 1 n) = false.
Proof. induction n; [reflexivity | cbn; assumption]. Qed.
Lemma cnt_ones : forall n, count_of (-1) (repeat 1 n) = 0%nat.
Proof. induction n; [reflexivity | unfold count_of in *; cbn; assumption]. Qed.
Lemma rz_ones : forall n ins, resolve_zeros ins (repeat 1 n) = Some (repeat 1 n).
Proof. induction n; intro ins; [reflexivity|]. cbn. rewrite IHn. reflexivity. Qed.
Lemma has_ones : forall n, has (-1) (repeat 1 n) = false.
Proof. induction n; [reflexivity | unfold has in *; cbn; assumption]. Qed.
Lemma prod_ones : forall n, prodZ (repeat 1 n) = 1.
Proof. induction n; [reflexivity|]. cbn [repeat]. rewrite prodZ_cons, IHn. reflexivity. Qed.
Lemma reshape_ones : forall n, reshape_shape [1] (repeat 1 n) false = Some (repeat 1 n).
Proof.
  intro n. unfold reshape_shape. rewrite exb_ones, cnt_ones. cbn [Nat.ltb Nat.leb andb]. rewrite rz_ones, has_ones, prod_ones. reflexivity.
Qed.

Lemma argmax_fixed_correct : forall s dim keepdim out,
  torch_argmax_shape s dim keepdim = Some out -> aten_argmax_shape_fixed s dim keepdim = Some out.
Proof.
  intros s dim kd out H. unfold aten_argmax_shape_fixed. destruct dim as [d|]; [apply argmax_dim_correct; assumption|].
  unfold torch_argmax_shape in H. destruct (prodZ s =? 0) eqn:Ep; [discriminate|]. inversion H; subst out; clear H.
  rewrite argmax_nodim_value by lia. cbn [obind]. destruct s as [|x [|y t]].
  - destruct kd; reflexivity.
  - destruct kd; reflexivity.
  - assert (1 <? zlen (x :: y :: t) = true) as E by (rewrite !zlen_cons; pose proof (zlen_nonneg _ t); lia).
    replace (zlen (x :: y :: t) =? 0) with false by lia. rewrite E. destruct kd; cbn [andb]; [apply reshape_ones | reflexivity].
Qed.

Lemma prod_dtype_fixed_correct : forall t dtype, dtype <> Some 9 -> aten_prod_dtype_fixed t dtype = Some (torch_prod_dtype t dtype).
Proof.
  intros t dtype H9. unfold aten_prod_dtype_fixed, torch_prod_dtype. destruct dtype as [d|].
  - destruct (d =? 9) eqn:E; [apply Z.eqb_eq in E; congruence | reflexivity].
  - destruct (is_integral t) eqn:Ei; [reflexivity|]. destruct (t =? 9) eqn:E; [|reflexivity].
    apply Z.eqb_eq in E. subst t. discriminate.
Qed.

Lemma prod_dim_shape_fixed_correct : forall s dim keepdim out,
  torch_reduce1_shape s dim keepdim = Some out -> aten_prod_dim_shape_fixed s dim keepdim = Some out.
Proof.
  intros s dim kd out H. unfold aten_prod_dim_shape_fixed. destruct s as [|x s'].
  - cbn [zlen length Z.of_nat Z.eqb]. unfold torch_reduce1_shape in H. destruct (wrap_dim (zlen []) dim); [|discriminate]. cbn in H. exact H.
  - assert (Hr : 0 < zlen (x :: s')) by (rewrite zlen_cons; pose proof (zlen_nonneg _ s'); lia).
    replace (zlen (x :: s') =? 0) with false by lia. apply prod_dim_shape_correct; assumption.
Qed.

(* ------------------------------------------------------------------ prims_var (registered) *)
Lemma prims_dims_norm : forall r dims, forallb (fun d => (0 <=? d) && (d <? r)) dims = true -> omap_all (norm_axis r) dims = Some dims.
Proof.
  intros r dims H. rewrite <- (map_id dims) at 2. apply omap_all_map. intros x Hx.
  rewrite forallb_forall in H. specialize (H x Hx). unfold norm_axis. replace ((- r <=? x) && (x <? r)) with true by lia.
  replace (x <? 0) with false by lia. reflexivity.
Qed.

Lemma prims_var_shape_correct : forall s dims out, torch_prims_var_shape s dims = Some out -> prims_var_shape s dims = Some out.
Proof.
  intros s dims out. unfold torch_prims_var_shape, prims_var_shape, prims_dims_ok.
  destruct (forallb (fun d => (0 <=? d) && (d <? zlen s)) dims) eqn:Ef; [|discriminate]. cbn [andb].
  destruct (nodupZ dims); [|discriminate]. intro H; inversion H; subst out; clear H.
  destruct dims as [|d t]; [reflexivity|]. unfold pv_dims, reduce_shape. rewrite (prims_dims_norm _ _ Ef). reflexivity.
Qed.

Lemma prims_var_count_partial : forall cf s dims n,
  dims <> [] -> torch_prims_var_count s dims = Some n -> prims_var_count cf s dims = Some n.
Proof.
  intros cf s dims n Hne. unfold torch_prims_var_count, prims_var_count, prims_dims_ok, gather_axis.
  destruct (forallb (fun d => (0 <=? d) && (d <? zlen s)) dims) eqn:Ef; [|discriminate]. cbn [andb].
  destruct (nodupZ dims); [|discriminate]. destruct dims as [|d t]; [congruence|].
  rewrite (omap_all_ext _ _ (gather1 s) (nthZ s)); [intro H; exact H|].
  intros x Hx. rewrite forallb_forall in Ef. specialize (Ef x Hx). unfold gather1.
  replace ((- zlen s <=? x) && (x <? zlen s)) with true by lia. replace (x <? 0) with false by lia. reflexivity.
Qed.

Lemma prims_var_count_empty_dims_refuted : exists s n, torch_prims_var_count s [] = Some n /\ prims_var_count false s [] = None.
Proof. exists [], 1. split; reflexivity. Qed.

Lemma prims_var_count_fixed_correct : forall s dims n, torch_prims_var_count s dims = Some n -> prims_var_count true s dims = Some n.
Proof.
  intros s dims n H. destruct dims as [|d t].
  - unfold torch_prims_var_count in H. cbn in H. exact H.
  - apply prims_var_count_partial; [discriminate | exact H].
Qed.

(* 0 < N, correction <= N (negative corrections included): the adjusted mean of squares equals PyTorch's quotient *)
Lemma prims_var_val_partial : forall ssd n c,
  0 < n -> (c <= inject_Z n)%Q -> fval_eq (prims_var_val false ssd n n c) (torch_var_val ssd n c).
Proof.
  intros ssd n c Hn Hc. unfold prims_var_val, torch_var_val. replace (n =? 0) with false by lia.
  assert (Hnz : ~ (inject_Z n == 0)%Q) by (unfold Qeq; cbn; lia).
  assert (Hd : qneg (inject_Z n - c) = false).
  { unfold qneg. assert (0 <= inject_Z n - c)%Q as H by (apply (Qplus_le_l _ _ c); ring_simplify; assumption).
    apply qnum_nonneg in H. lia. }
  unfold qmax0. rewrite Hd. destruct (qzero c) eqn:Ez.
  - assert (c == 0)%Q as Hz by (destruct c as [cn cd]; unfold qzero in Ez; cbn in Ez; unfold Qeq; cbn; lia).
    unfold fdiv. assert (qzero (inject_Z n - c) = false) as ->.
    { rewrite (qzero_eq _ (inject_Z n)) by (rewrite Hz; ring). unfold qzero. cbn. lia. }
    cbn. rewrite Hz. field. assumption.
  - apply fdiv_eq. field. assumption.
Qed.

Lemma prims_var_correction_exceeds_count_refuted : exists ssd n c,
  0 < n /\ torch_var_val ssd n c = Inf false /\ exists q, prims_var_val false ssd n n c = Fin q /\ (q < 0)%Q.
Proof. exists 1%Q, 1, 2%Q. split; [lia|]. split; [reflexivity|]. eexists. split; reflexivity. Qed.

Lemma prims_var_val_fixed_correct : forall ssd n c, 0 < n -> fval_eq (prims_var_val true ssd n n c) (torch_var_val ssd n c).
Proof.
  intros ssd n c Hn. unfold prims_var_val, torch_var_val. replace (n =? 0) with false by lia.
  assert (Hnz : ~ (inject_Z n == 0)%Q) by (unfold Qeq; cbn; lia).
  destruct (qzero c) eqn:Ez.
  - assert (c == 0)%Q as Hz by (destruct c as [cn cd]; unfold qzero in Ez; cbn in Ez; unfold Qeq; cbn; lia).
    assert (qneg (inject_Z n - c) = false) as Hd.
    { rewrite (qneg_eq _ (inject_Z n)) by (rewrite Hz; ring). unfold qneg. cbn. lia. }
    unfold qmax0. rewrite Hd. unfold fdiv. assert (qzero (inject_Z n - c) = false) as ->.
    { rewrite (qzero_eq _ (inject_Z n)) by (rewrite Hz; ring). unfold qzero. cbn. lia. }
    cbn. rewrite Hz. field. assumption.
  - apply fdiv_eq. field. assumption.
Qed.
