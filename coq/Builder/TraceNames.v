(* Model B/C of C18: which names a build takes from the caller and which it generates.

   With the counter shared by the builder tree (repo fix 3390211: _node_count counts the nodes of all graphs
   of the tree) every generated name -- default output names of any call at any nesting depth, outputs of
   the CastLike nodes -- is made from a counter value that is used once.  Everything else the build defines
   is chosen by the caller: graph inputs, subgraph inputs, explicit _outputs names, declared output names of
   subgraph bodies (applied by build_graph to the returned values), names of values added by call_inline,
   names of the promoted constants.  `user_names` lists them in creation order as a function of the trace
   alone; `user_okb` is the decidable side condition under which all defined names are pairwise distinct
   (TraceNamesProofs.names_unique_across_subgraphs_fixed).  No proofs in this file. *)
From Coq Require Import String Ascii List Bool Arith.
Require Import OV.Graph.Syntax OV.Builder.Strings OV.Builder.Naming OV.Builder.Trace OV.Builder.TraceCF.
Import ListNotations.
Local Open Scope string_scope.

Section Names.
  Variable rn : list (nat * string).

  (* the names `fresh_many` gives to values created from id `nid` on: the declared name, else the given one *)
  Fixpoint ren (nid : nat) (gens : list string) : list string :=
    match gens with
    | [] => []
    | g :: r => (match assoc_last nid rn with Some d => d | None => g end) :: ren (S nid) r
    end.

  (* the declared names among n values created from id nid on *)
  Fixpoint decls (nid n : nat) : list string :=
    match n with
    | O => []
    | S k => (match assoc_last nid rn with Some d => [d] | None => [] end ++ decls (S nid) k)%list
    end.

  (* the given names that are kept *)
  Fixpoint kept (nid : nat) (gens : list string) : list string :=
    match gens with
    | [] => []
    | g :: r => (match assoc_last nid rn with Some _ => [] | None => [g] end ++ kept (S nid) r)%list
    end.

  Fixpoint unames_call (c : call) (nid : nat) {struct c} : list string :=
    match c with
    | COp st _ _ _ _ subs outs =>
      ((fix go (l : list (string * sub)) (nid : nat) {struct l} : list string :=
          match l with
          | [] => []
          | (_, sb) :: r => (unames_sub sb nid ++ go r (nid + nvals_sub sb))%list
          end) subs nid ++
       match outs with
       | ONamed ns => ren (nid + nvals_subs subs) (explicit_names st ns)
       | ODefault n => decls (nid + nvals_subs subs) n
       end)%list
    | CRaw _ _ nv => ren nid nv
    end
  with unames_sub (sb : sub) (nid : nat) {struct sb} : list string :=
    match sb with
    | Sub ins body _ _ =>
      (ren nid ins ++
       (fix go (l : list call) (nid : nat) {struct l} : list string :=
          match l with
          | [] => []
          | c :: r => (unames_call c nid ++ go r (nid + nvals_call c))%list
          end) body (nid + List.length ins))%list
    end.

  Fixpoint unames_subs (l : list (string * sub)) (nid : nat) : list string :=
    match l with
    | [] => []
    | (_, sb) :: r => (unames_sub sb nid ++ unames_subs r (nid + nvals_sub sb))%list
    end.
  Fixpoint unames_calls (l : list call) (nid : nat) : list string :=
    match l with
    | [] => []
    | c :: r => (unames_call c nid ++ unames_calls r (nid + nvals_call c))%list
    end.
End Names.

(* calls whose generated names are made from operator / function names of letters only (every ONNX operator;
   a hypothesis on function names: the counter cannot be read back from "v_f_3_0" if "f_3" may be a name) *)
Fixpoint plain_call (c : call) : bool :=
  match c with
  | COp _ _ op _ _ subs outs =>
    match outs with ODefault _ => plain_op op | ONamed _ => true end &&
    (fix go (l : list (string * sub)) : bool := match l with [] => true | (_, sb) :: r => plain_sub sb && go r end) subs
  | CRaw _ _ _ => true
  end
with plain_sub (sb : sub) : bool :=
  match sb with
  | Sub _ body _ _ => (fix go (l : list call) : bool := match l with [] => true | c :: r => plain_call c && go r end) body
  end.
Fixpoint plain_subs (l : list (string * sub)) : bool :=
  match l with [] => true | (_, sb) :: r => plain_sub sb && plain_subs r end.
Definition plain_trace (tr : list call) : bool := forallb plain_call tr.

(* a name that cannot be a generated one: generated names start with "v_" and end with "_<digits>" *)
Definition starts_v (x : string) : bool :=
  match x with String "v"%char (String "_"%char _) => true | _ => false end.
Definition not_genb (x : string) : bool :=
  negb (starts_v x) ||
  match split_last "_"%char x with
  | Some (_, b) => negb (nonempty b && all_chars is_digit b)
  | None => true
  end.

(* the names the caller chose, in creation order, and the side condition on them *)
Definition user_names (ins : list string) (tr : list call) (sf : bst) : list string :=
  (ins ++ unames_calls (renames_calls tr) tr (List.length ins) ++ map (fun e => fst (snd e)) (b_cache sf))%list.
Definition user_okb (ins : list string) (tr : list call) : bool :=
  let u := user_names ins tr (fst (build_state bcfg_fixed ins tr)) in
  nodup_strb u && forallb not_genb u.

(* the hypotheses of the control-flow theorem for the shared counter, without a check of the built names *)
Definition cf_hyps_fixedb (ins : list string) (tr : list call) : bool :=
  cf_trace tr && plain_trace tr && user_okb ins tr &&
  lits_okb (b_cache (fst (build_state bcfg_fixed ins tr))) (lits_calls tr).
