(* C06 -- soundness of the matcher model: whatever `run` reports (with the three repairs in place) is an
   instance in the sense of Spec.v, its node list is the image of sigma, its outputs are sigma(outputs),
   and with the removability check the matched nodes are removable. *)
From Coq Require Import List ZArith String Bool Arith Lia.
Require Import OV.Match.Pattern OV.Match.Matcher OV.Match.Spec.
Import ListNotations.

(* ------------------------------------------------------------------ generic lemmas *)
Lemma rbind_ok : forall A B (r : res A) (f : A -> res B) b,
  rbind r f = Ok b -> exists a, r = Ok a /\ f a = Ok b.
Proof. intros A B [a| | |s] f b H; simpl in H; try discriminate. eauto. Qed.

Lemma of_opt_ok : forall A (o : option A) a, of_opt o = Ok a -> o = Some a.
Proof. intros A [x|] a H; simpl in H; congruence. Qed.

Lemma nat_eqb_refl' : forall n, Nat.eqb n n = true. Proof. intro; apply Nat.eqb_refl. Qed.

Lemma list_eqb_refl : forall A (eqb : A -> A -> bool), (forall a, eqb a a = true) -> forall l, list_eqb eqb l l = true.
Proof. induction l; simpl; auto. rewrite H, IHl; auto. Qed.

Lemma attrval_eqb_refl : forall a, attrval_eqb a a = true.
Proof.
  destruct a; simpl.
  - apply Z.eqb_refl.
  - apply String.eqb_refl.
  - apply list_eqb_refl. apply Z.eqb_refl.
Qed.

Lemma bval_eqb_refl : forall b, bval_eqb b b = true.
Proof.
  destruct b; simpl; auto.
  - apply Nat.eqb_refl.
  - rewrite String.eqb_refl, attrval_eqb_refl; auto.
  - apply Z.eqb_refl.
Qed.

Lemma ovid_eqb_refl : forall v, ovid_eqb v v = true.
Proof. destruct v; simpl; auto. apply Nat.eqb_refl. Qed.

Lemma vkey_eqb_refl : forall k, vkey_eqb k k = true.
Proof. destruct k; simpl; rewrite ?Nat.eqb_refl; auto. Qed.

Lemma list_eqb_eq : forall A (eqb : A -> A -> bool), (forall a b, eqb a b = true -> a = b) ->
  forall l l', list_eqb eqb l l' = true -> l = l'.
Proof.
  induction l; destruct l'; simpl; intros; try discriminate; auto.
  apply andb_true_iff in H0 as [H1 H2]. f_equal; auto.
Qed.

Lemma attrval_eqb_eq : forall a b, attrval_eqb a b = true -> a = b.
Proof.
  destruct a, b; simpl; intros; try discriminate.
  - apply Z.eqb_eq in H; congruence.
  - apply String.eqb_eq in H; congruence.
  - f_equal. eapply list_eqb_eq; eauto. intros; apply Z.eqb_eq; auto.
Qed.

Lemma bval_eqb_eq : forall a b, bval_eqb a b = true -> a = b.
Proof.
  destruct a, b; simpl; intros; try discriminate; auto.
  - apply Nat.eqb_eq in H; congruence.
  - apply andb_true_iff in H as [H1 H2]. apply String.eqb_eq in H1. apply attrval_eqb_eq in H2. congruence.
  - apply Z.eqb_eq in H; congruence.
Qed.

Lemma ovid_eqb_eq : forall a b, ovid_eqb a b = true -> a = b.
Proof. destruct a, b; simpl; intros; try discriminate; auto. apply Nat.eqb_eq in H; congruence. Qed.

Lemma vkey_eqb_eq : forall a b, vkey_eqb a b = true -> a = b.
Proof.
  destruct a, b; simpl; intros; try discriminate.
  - apply andb_true_iff in H as [H1 H2]. apply Nat.eqb_eq in H1, H2. congruence.
  - apply Nat.eqb_eq in H; congruence.
Qed.

(* induction principle for value patterns (alternatives nested in a list) *)
Lemma vpat_ind2 (P : vpat -> Prop) :
  P PAny -> (forall x b, P (PVar x b)) -> (forall k c, P (PConst k c)) -> (forall p i, P (POut p i)) ->
  (forall k name tagv alts, Forall (fun ta => P (snd ta)) alts -> P (POr k name tagv alts)) ->
  (forall k name tagv alts, P (PDisp k name tagv alts)) ->
  forall v, P v.
Proof.
  intros HA HV HC HO HOr HD.
  fix IH 1. intros [ | x b | k c | p i | k name tagv alts | k name tagv alts ].
  - exact HA.
  - apply HV.
  - apply HC.
  - apply HO.
  - apply HOr. induction alts as [| [tag a] t IHt]; constructor.
    + simpl. apply IH.
    + exact IHt.
  - apply HD.
Qed.

(* ------------------------------------------------------------------ sigma of a state, extension *)
Definition sig_of (st : stack) : sigma := mkSig (all_nb st) (all_b st) (all_vb st).

Definition ext (s s' : sigma) : Prop :=
  (forall x b, assoc String.eqb x (s_v s) = Some b -> assoc String.eqb x (s_v s') = Some b) /\
  (forall k v, assoc vkey_eqb k (s_k s) = Some v -> assoc vkey_eqb k (s_k s') = Some v) /\
  (forall p n, assoc Nat.eqb p (s_n s) = Some n -> assoc Nat.eqb p (s_n s') = Some n).

Lemma ext_refl : forall s, ext s s.
Proof. intro s; repeat split; auto. Qed.

Lemma ext_trans : forall a b c, ext a b -> ext b c -> ext a c.
Proof. intros a b c (A1 & A2 & A3) (B1 & B2 & B3); repeat split; auto. Qed.

Section Mono.
Variable g : hgraph.
Variable tbl : list npat.
Variables s s' : sigma.
Hypothesis E : ext s s'.

Lemma var_is_mono : forall x b, var_is s x b = true -> var_is s' x b = true.
Proof.
  unfold var_is; intros x b H. destruct (assoc String.eqb x (s_v s)) eqn:A; try discriminate.
  destruct E as (E1 & _). rewrite (E1 _ _ A); auto.
Qed.

Lemma key_is_mono : forall k v, key_is s k v = true -> key_is s' k v = true.
Proof.
  unfold key_is; intros k v H. destruct (assoc vkey_eqb k (s_k s)) eqn:A; try discriminate.
  destruct E as (_ & E2 & _). rewrite (E2 _ _ A); auto.
Qed.

Lemma node_is_mono : forall p n, node_is s p n = true -> node_is s' p n = true.
Proof.
  unfold node_is; intros p n H. destruct (assoc Nat.eqb p (s_n s)) eqn:A; try discriminate.
  destruct E as (_ & _ & E3). rewrite (E3 _ _ A); auto.
Qed.

Lemma value_is_mono : forall name k v, value_is s name k v = true -> value_is s' name k v = true.
Proof. intros [x|] k v; simpl; [apply var_is_mono | apply key_is_mono]. Qed.

Lemma tag_is_mono : forall tagv tag, tag_is s tagv tag = true -> tag_is s' tagv tag = true.
Proof. intros [x|] tag; simpl; auto. apply var_is_mono. Qed.

Lemma out_of_mono : forall p i v, out_of g s p i v = true -> out_of g s' p i v = true.
Proof.
  unfold out_of; intros p i [x|] H; auto. destruct (producer g x) as [[n idx]|]; auto.
  apply andb_true_iff in H as [H1 H2]. rewrite H1, (node_is_mono _ _ H2); auto.
Qed.

Lemma vlocal_mono : forall pv v, vlocal g s pv v = true -> vlocal g s' pv v = true.
Proof.
  induction pv using vpat_ind2; intros v0 Hv; simpl in *;
    apply andb_true_iff in Hv as [Hb Hv]; rewrite Hb; simpl; auto.
  - apply andb_true_iff in Hv as [H1 H2]. rewrite (var_is_mono _ _ H1), H2; auto.
  - apply andb_true_iff in Hv as [H1 H2]. rewrite (key_is_mono _ _ H1), H2; auto.
  - apply out_of_mono; auto.
  - apply andb_true_iff in Hv as [H1 H2]. rewrite (value_is_mono _ _ _ H1). simpl. clear Hb H1.
    induction alts as [| [tag a] t IHt]; simpl in *; auto.
    inversion H as [| ? ? Ha Ht]; subst. apply orb_true_iff in H2 as [H2|H2].
    + apply andb_true_iff in H2 as [H2 H3]. simpl in Ha. rewrite (Ha _ H2), (tag_is_mono _ _ H3); auto.
    + rewrite (IHt Ht H2). apply orb_true_r.
  - apply andb_true_iff in Hv as [H1 H2]. rewrite (value_is_mono _ _ _ H1). simpl.
    apply existsb_exists in H2 as (ta & Hin & H2). apply existsb_exists. exists ta; split; auto.
    apply andb_true_iff in H2 as [H2 H3]. rewrite (out_of_mono _ _ _ H2), (tag_is_mono _ _ H3); auto.
Qed.

Lemma attr_local_mono : forall h na, attr_local s h na = true -> attr_local s' h na = true.
Proof.
  unfold attr_local; intros h [name ap]; simpl.
  destruct (assoc String.eqb name (h_attrs h)); destruct ap as [c | [y|] none_ok]; auto.
  - apply var_is_mono.
  - intro H. apply andb_true_iff in H as [H1 H2]. rewrite H1, (var_is_mono _ _ H2); auto.
Qed.

Lemma inputs_local_mono : forall pins ins, inputs_local g s pins ins = true -> inputs_local g s' pins ins = true.
Proof.
  induction pins as [| pp ptl IH]; intros ins H; simpl in *; auto.
  apply andb_true_iff in H as [H1 H2]. rewrite (IH _ H2), andb_true_r.
  destruct pp; auto. apply vlocal_mono; auto.
Qed.

Lemma outputs_local_mono : forall p names outs i, outputs_local s p names outs i = true -> outputs_local s' p names outs i = true.
Proof.
  induction names as [| nm t IH]; intros outs i H; simpl in *; auto.
  destruct outs; try discriminate. apply andb_true_iff in H as [H1 H2].
  rewrite (value_is_mono _ _ _ H1), (IH _ _ H2); auto.
Qed.

Lemma nlocal_mono : forall p np h, nlocal g s p np h = true -> nlocal g s' p np h = true.
Proof.
  unfold nlocal; intros p np h H.
  repeat (apply andb_true_iff in H as [H ?]).
  repeat (apply andb_true_iff; split); auto.
  - apply forallb_forall. intros na Hin. apply attr_local_mono. eapply forallb_forall in H4; eauto.
  - apply inputs_local_mono; auto.
  - apply outputs_local_mono; auto.
Qed.

Lemma node_ok_mono : forall pn, node_ok g tbl s pn = true -> node_ok g tbl s' pn = true.
Proof.
  unfold node_ok; intros pn H. destruct (nth_error tbl (fst pn)); try discriminate.
  destruct (nth_error (g_nodes g) (snd pn)); try discriminate. apply nlocal_mono; auto.
Qed.
End Mono.

(* ------------------------------------------------------------------ the invariant *)
(* every bound pattern node that is not pending is locally satisfied;
   the flattened node list is the image of the flattened node bindings *)
Definition all_nodes (st : stack) : list nid := List.concat (map pnodes (all_partials st)).

Definition bound_ok (g : hgraph) (tbl : list npat) (pend : list pid) (s : sigma) : Prop :=
  forall p n, assoc Nat.eqb p (s_n s) = Some n -> In p pend \/ node_ok g tbl s (p, n) = true.

Definition good (g : hgraph) (tbl : list npat) (pend : list pid) (st : stack) : Prop :=
  bound_ok g tbl pend (sig_of st) /\ all_nodes st = map snd (all_nb st).

(* a step: the state is extended, stays good, and the part of the stack below the top is untouched *)
Definition step (g : hgraph) (tbl : list npat) (pend : list pid) (st st' : stack) : Prop :=
  ext (sig_of st) (sig_of st') /\ (good g tbl pend st -> good g tbl pend st') /\ below st' = below st.

Lemma step_refl : forall g tbl pend st, step g tbl pend st st.
Proof. intros. split; [apply ext_refl | split; auto]. Qed.

Lemma step_trans : forall g tbl pend a b c, step g tbl pend a b -> step g tbl pend b c -> step g tbl pend a c.
Proof.
  intros g tbl pend a b c (E1 & G1 & B1) (E2 & G2 & B2). split; [|split].
  - eapply ext_trans; eauto.
  - auto.
  - congruence.
Qed.

(* steps that do not touch the node bindings *)
Lemma step_same_nodes : forall g tbl pend st st',
  ext (sig_of st) (sig_of st') -> all_nb st' = all_nb st -> all_nodes st' = all_nodes st -> below st' = below st ->
  step g tbl pend st st'.
Proof.
  intros g tbl pend st st' E N M B. split; [|split]; auto.
  intros [H1 H2]. split.
  - intros p n A. simpl in A. rewrite N in A. destruct (H1 p n A) as [|K]; auto.
    right. eapply node_ok_mono; eauto.
  - rewrite N, M; auto.
Qed.

(* ------------------------------------------------------------------ bind *)
Lemma assoc_cons_other : forall K V (eqb : K -> K -> bool) (k k' : K) (v : V) l,
  eqb k k' = false -> assoc eqb k ((k', v) :: l) = assoc eqb k l.
Proof. intros; simpl; rewrite H; auto. Qed.

Lemma all_b_on_top : forall st x b,
  all_b (on_top (fun p => mkP ((x, b) :: pb p) (pvb p) (pnb p) (pnodes p)) st) = (x, b) :: all_b st.
Proof. intros [t bl] x b; reflexivity. Qed.

Lemma bind_spec : forall g tbl pend x b st st', bind x b st = Some st' ->
  step g tbl pend st st' /\ var_is (sig_of st') x b = true.
Proof.
  unfold bind, lookup_b; intros g tbl pend x b st st' H.
  destruct (assoc String.eqb x (all_b st)) as [b'|] eqn:A.
  - destruct (bval_eqb b' b) eqn:Eb; inversion H; subst. split; [apply step_refl|].
    unfold var_is, sig_of; cbn [s_v]. rewrite A; auto.
  - inversion H; subst; clear H. destruct st as [t bl]. split.
    + apply step_same_nodes; try reflexivity.
      unfold ext, sig_of; cbn [s_v s_k s_n]. split; [|split]; auto.
      intros y c Hy. rewrite all_b_on_top. cbn [assoc].
      destruct (String.eqb y x) eqn:Exy; auto. apply String.eqb_eq in Exy; subst. congruence.
    + unfold var_is, sig_of; cbn [s_v]. rewrite all_b_on_top. cbn [assoc]. rewrite String.eqb_refl. apply bval_eqb_refl.
Qed.

Lemma all_vb_on_top : forall st k v,
  all_vb (on_top (fun p => mkP (pb p) ((k, v) :: pvb p) (pnb p) (pnodes p)) st) = (k, v) :: all_vb st.
Proof. intros [t bl] k v; reflexivity. Qed.

Lemma bind_key_spec : forall g tbl pend k v st st', bind_key k v st = Some st' ->
  step g tbl pend st st' /\ key_is (sig_of st') k v = true.
Proof.
  unfold bind_key, lookup_vb; intros g tbl pend k v st st' H.
  destruct (assoc vkey_eqb k (all_vb st)) as [v'|] eqn:A.
  - destruct (ovid_eqb v' v) eqn:Eb; inversion H; subst. split; [apply step_refl|].
    unfold key_is, sig_of; cbn [s_k]. rewrite A; auto.
  - inversion H; subst; clear H. destruct st as [t bl]. split.
    + apply step_same_nodes; try reflexivity.
      unfold ext, sig_of; cbn [s_v s_k s_n]. split; [|split]; auto.
      intros y c Hy. rewrite all_vb_on_top. cbn [assoc].
      destruct (vkey_eqb y k) eqn:Exy; auto. apply vkey_eqb_eq in Exy; subst. congruence.
    + unfold key_is, sig_of; cbn [s_k]. rewrite all_vb_on_top. cbn [assoc]. rewrite vkey_eqb_refl. apply ovid_eqb_refl.
Qed.

Lemma bind_value_spec : forall g tbl pend name k v st st', bind_value name k v st = Some st' ->
  step g tbl pend st st' /\ value_is (sig_of st') name k v = true.
Proof.
  intros g tbl pend [x|] k v st st' H; simpl in *.
  - eapply bind_spec; eauto.
  - eapply bind_key_spec; eauto.
Qed.

Lemma bind_tag_spec : forall g tbl pend tagv tag st st', bind_tag tagv tag st = Ok st' ->
  step g tbl pend st st' /\ tag_is (sig_of st') tagv tag = true.
Proof.
  intros g tbl pend [x|] tag st st' H; simpl in *.
  - destruct (bind x (BTag tag) st) eqn:B; inversion H; subst. eapply bind_spec; eauto.
  - inversion H; subst. split; auto. apply step_refl.
Qed.

(* ------------------------------------------------------------------ push / merge *)
Lemma sig_of_push : forall st, sig_of (push st) = sig_of st.
Proof. intros [t bl]; reflexivity. Qed.

Lemma all_nodes_push : forall st, all_nodes (push st) = all_nodes st.
Proof. intros [t bl]; reflexivity. Qed.

Lemma merge_spec : forall fl st q rest, keep_vb fl = true -> keep_nb fl = true -> below st = q :: rest ->
  exists st', merge fl st = Ok st' /\ sig_of st' = sig_of st /\ all_nodes st' = all_nodes st /\ below st' = rest.
Proof.
  intros fl [c bl] q rest Hv Hn Hb; simpl in Hb; subst. unfold merge; simpl. rewrite Hv, Hn.
  eexists; split; [reflexivity|]. unfold sig_of, all_nb, all_b, all_vb, all_nodes, all_partials; simpl.
  rewrite <- !app_assoc. auto.
Qed.

(* ------------------------------------------------------------------ node-local part *)
Lemma match_attrs_spec : forall fl g tbl pend h pats st st', match_attrs fl pats h st = Ok st' ->
  step g tbl pend st st' /\ forallb (attr_local (sig_of st') h) pats = true.
Proof.
  intros fl g tbl pend h. induction pats as [| [name ap] t IH]; intros st st' H; simpl in *.
  - inversion H; subst. split; auto. apply step_refl.
  - unfold attr_local at 1; simpl.
    destruct (assoc String.eqb name (h_attrs h)) as [a|] eqn:A; destruct ap as [c | x none_ok].
    + unfold attr_const_eval in H.
      destruct (attr_const_matches c a) as [[|]|] eqn:M; [| | destruct (attr_fix fl)]; try discriminate.
      destruct (IH _ _ H) as [S1 F1]. split; auto.
    + apply rbind_ok in H as (st1 & B & H). destruct (IH _ _ H) as [S1 F1].
      destruct x as [y|]; simpl in B.
      * apply of_opt_ok in B. destruct (bind_spec g tbl pend _ _ _ _ B) as [S0 V0]. split.
        -- eapply step_trans; eauto.
        -- rewrite F1, andb_true_r. eapply var_is_mono; eauto. apply S1.
      * inversion B; subst. split; auto.
    + discriminate.
    + destruct none_ok; try discriminate.
      apply rbind_ok in H as (st1 & B & H). destruct (IH _ _ H) as [S1 F1].
      destruct x as [y|]; simpl in B.
      * apply of_opt_ok in B. destruct (bind_spec g tbl pend _ _ _ _ B) as [S0 V0]. split.
        -- eapply step_trans; eauto.
        -- rewrite F1, andb_true_r. simpl. eapply var_is_mono; eauto. apply S1.
      * inversion B; subst. split; auto.
Qed.

Lemma node_local_spec : forall fl g tbl pend np h st st', node_local fl np h st = Ok st' ->
  step g tbl pend st st' /\
  spat_matches (np_op np) (h_op h) = true /\ spat_matches (np_dom np) (h_dom h) = true /\
  forallb (attr_local (sig_of st') h) (np_attrs np) = true /\
  (np_other_attrs np || no_other_attrs np h) = true.
Proof.
  unfold node_local; intros fl g tbl pend np h st st' H.
  destruct (spat_matches (np_op np) (h_op h)); simpl in H; try discriminate.
  destruct (spat_matches (np_dom np) (h_dom h)); simpl in H; try discriminate.
  apply rbind_ok in H as (st1 & M & H).
  destruct (np_other_attrs np || no_other_attrs np h) eqn:O; inversion H; subst.
  destruct (match_attrs_spec fl g tbl pend _ _ _ _ M) as [S F]. auto.
Qed.

(* ------------------------------------------------------------------ outputs *)
Lemma bind_outputs_spec : forall fl g tbl pend p names outs i st st', out_fail fl = true ->
  bind_outputs fl p names outs i st = Ok st' ->
  step g tbl pend st st' /\ outputs_local (sig_of st') p names outs i = true.
Proof.
  induction names as [| nm t IH]; intros outs i st st' Hf H; simpl in *.
  - inversion H; subst. split; auto. apply step_refl.
  - destruct outs as [| o outs']. { rewrite Hf in H; discriminate. }
    apply rbind_ok in H as (st1 & B & H). apply of_opt_ok in B.
    destruct (bind_value_spec g tbl pend _ _ _ _ _ B) as [S0 V0].
    destruct (IH _ _ _ _ Hf H) as [S1 O1]. split.
    + eapply step_trans; eauto.
    + rewrite O1, andb_true_r. eapply value_is_mono; eauto. apply S1.
Qed.

(* ------------------------------------------------------------------ values *)
Section Values.
Variable fl : flags.
Variable g : hgraph.
Variable tbl : list npat.
Hypothesis Hvb : keep_vb fl = true.
Hypothesis Hnb : keep_nb fl = true.

(* what is required of the recursive call to _match_node *)
Definition rec_spec (rec : pid -> nid -> stack -> res stack) : Prop :=
  forall p n st st' pend, rec p n st = Ok st' ->
    step g tbl pend st st' /\ node_is (sig_of st') p n = true.

Lemma dispatch_in : forall alts id tag q i, dispatch tbl alts id = Some (tag, (q, i)) -> In (tag, (q, i)) alts.
Proof.
  induction alts as [| [tg [q' i']] t IH]; intros id tag q i H; simpl in *; try discriminate.
  destruct (nth_error tbl q') as [np|].
  - destruct (np_opid_decl np) as [id'|].
    + destruct (opid_eqb id id'); [inversion H; subst; auto | right; eauto].
    + right; eauto.
  - right; eauto.
Qed.

Lemma match_node_output_spec : forall rec, rec_spec rec ->
  forall p i v st st' pend, match_node_output g rec p i v st = Ok st' ->
    step g tbl pend st st' /\ out_of g (sig_of st') p i v = true.
Proof.
  unfold match_node_output; intros rec R p i [x|] st st' pend H; try discriminate.
  unfold out_of. destruct (producer g x) as [[n idx]|]; try discriminate.
  destruct (Nat.eqb idx i); try discriminate.
  destruct (R _ _ _ _ pend H) as [S N]. rewrite N; auto.
Qed.

Lemma match_value_spec : forall rec, rec_spec rec ->
  forall pv v st st' pend, match_value fl g tbl rec pv v st = Ok st' ->
    step g tbl pend st st' /\ vlocal g (sig_of st') pv v = true.
Proof.
  intros rec R. induction pv using vpat_ind2; intros v0 st st' pend Hm; simpl in Hm;
    destruct (boundary_blocks g _ v0) eqn:BB; try discriminate; simpl; rewrite BB; simpl.
  - inversion Hm; subst. split; auto. apply step_refl.
  - apply rbind_ok in Hm as (st1 & B & Hm). apply of_opt_ok in B.
    destruct (bind_spec g tbl pend _ _ _ _ B) as [S V].
    destruct v0; [|destruct b; try discriminate]; inversion Hm; subst; rewrite V; auto.
  - apply rbind_ok in Hm as (st1 & B & Hm). apply of_opt_ok in B.
    destruct (bind_key_spec g tbl pend _ _ _ _ B) as [S V].
    destruct v0 as [x|]; try discriminate. destruct (const_ok g c x); inversion Hm; subst. rewrite V; auto.
  - apply rbind_ok in Hm as (st1 & B & Hm). apply of_opt_ok in B.
    destruct (bind_value_spec g tbl pend _ _ _ _ _ B) as [S V].
    destruct (match_node_output_spec rec R _ _ _ _ _ pend Hm) as [S' O]. split; auto.
    eapply step_trans; eauto.
  - (* BacktrackingOr *)
    apply rbind_ok in Hm as (st1 & B & Hm). apply of_opt_ok in B.
    destruct (bind_value_spec g tbl pend _ _ _ _ _ B) as [S V].
    assert (K : step g tbl pend st1 st' /\
                (fix any (l : list (Z * vpat)) : bool :=
                   match l with
                   | [] => false
                   | (tag, alt) :: t => vlocal g (sig_of st') alt v0 && tag_is (sig_of st') tagv tag || any t
                   end) alts = true).
    { clear B V S BB. induction alts as [| [tag a] t IHt]; try discriminate.
      inversion H as [| ? ? Ha Ht]; subst. simpl in Ha.
      destruct (match_value fl g tbl rec a v0 (push st1)) as [st2| | |s2] eqn:M.
      - clear IHt. apply rbind_ok in Hm as (st3 & T & Hm).
        destruct (Ha _ _ _ pend M) as [(E2 & G2 & B2) V2].
        destruct (bind_tag_spec g tbl pend _ _ _ _ T) as [(E3 & G3 & B3) V3].
        assert (B3' : below st3 = top st1 :: below st1) by (rewrite B3, B2; destruct st1; reflexivity).
        destruct (merge_spec fl st3 _ _ Hvb Hnb B3') as (st4 & M4 & Sg & Nd & Bl).
        rewrite M4 in Hm; inversion Hm; subst st4. split.
        + split; [|split].
          * rewrite Sg. rewrite sig_of_push in E2. eapply ext_trans; eauto.
          * intros [Gb Gn]. assert (G1 : good g tbl pend (push st1)).
            { split. rewrite sig_of_push; auto. rewrite all_nodes_push. destruct st1; auto. }
            destruct (G3 (G2 G1)) as [Gb3 Gn3]. split.
            -- rewrite Sg; auto.
            -- rewrite Nd. replace (all_nb st') with (s_n (sig_of st')) by reflexivity. rewrite Sg. auto.
          * auto.
        + rewrite Sg. rewrite V3. rewrite (vlocal_mono g _ _ E3 _ _ V2). auto.
      - destruct (IHt Ht Hm) as [S' A']. split; auto. rewrite A'. apply orb_true_r.
      - discriminate.
      - destruct (IHt Ht Hm) as [S' A']. split; auto. rewrite A'. apply orb_true_r. }
    destruct K as [S' A]. split.
    + eapply step_trans; eauto.
    + rewrite A, andb_true_r. eapply value_is_mono; eauto. apply S'.
  - (* OpIdDispatchOr *)
    apply rbind_ok in Hm as (st1 & B & Hm). apply of_opt_ok in B.
    destruct (bind_value_spec g tbl pend _ _ _ _ _ B) as [S V].
    destruct v0 as [x|]; try discriminate.
    destruct (producer g x) as [[n idx]|] eqn:P; try discriminate.
    destruct (nth_error (g_nodes g) n) as [h|]; try discriminate.
    destruct (dispatch tbl alts (h_opid h)) as [[tag [q i]]|] eqn:D; try discriminate.
    apply rbind_ok in Hm as (st2 & B2 & Hm). apply of_opt_ok in B2.
    destruct (bind_value_spec g tbl pend _ _ _ _ _ B2) as [S2 V2].
    apply rbind_ok in Hm as (st3 & M & Hm).
    destruct (match_node_output_spec rec R _ _ _ _ _ pend M) as [S3 O3].
    destruct (bind_tag_spec g tbl pend _ _ _ _ Hm) as [S4 T4]. split.
    + eapply step_trans; eauto. eapply step_trans; eauto. eapply step_trans; eauto.
    + apply andb_true_iff; split.
      * eapply value_is_mono; [|eauto]. eapply ext_trans; [apply S2|]. eapply ext_trans; [apply S3| apply S4].
      * apply existsb_exists. exists (tag, (q, i)). split. { eapply dispatch_in; eauto. }
        cbn [fst snd]. rewrite T4, andb_true_r. eapply out_of_mono; eauto. apply S4.
Qed.

Lemma match_inputs_spec : forall rec, rec_spec rec ->
  forall pins ins st st' pend, match_inputs fl g tbl rec pins ins st = Ok st' ->
    step g tbl pend st st' /\ inputs_local g (sig_of st') pins ins = true.
Proof.
  intros rec R. induction pins as [| pp ptl IH]; intros ins st st' pend H; simpl in H.
  - inversion H; subst. split; auto. apply step_refl.
  - simpl. destruct pp as [pv|].
    + apply rbind_ok in H as (st1 & M & H).
      destruct (match_value_spec rec R _ _ _ _ pend M) as [S V].
      destruct (IH _ _ _ pend H) as [S' I]. split.
      * eapply step_trans; eauto.
      * rewrite I, andb_true_r. eapply vlocal_mono; eauto. apply S'.
    + destruct ins as [| [a|] atl]; try discriminate.
      * destruct (IH _ _ _ pend H) as [S' I]. split; auto.
      * destruct (IH _ _ _ pend H) as [S' I]. split; auto.
Qed.

End Values.

(* ------------------------------------------------------------------ _match_node *)
Section Node.
Variable fl : flags.
Variable g : hgraph.
Variable tbl : list npat.
Hypothesis Hvb : keep_vb fl = true.
Hypothesis Hnb : keep_nb fl = true.
Hypothesis Hof : out_fail fl = true.

Lemma all_nb_bind_node : forall p n st, all_nb (bind_node p n st) = (p, n) :: all_nb st.
Proof. intros p n [t bl]; reflexivity. Qed.
Lemma all_nodes_bind_node : forall p n st, all_nodes (bind_node p n st) = n :: all_nodes st.
Proof. intros p n [t bl]; reflexivity. Qed.
Lemma all_b_bind_node : forall p n st, all_b (bind_node p n st) = all_b st.
Proof. intros p n [t bl]; reflexivity. Qed.
Lemma all_vb_bind_node : forall p n st, all_vb (bind_node p n st) = all_vb st.
Proof. intros p n [t bl]; reflexivity. Qed.

Lemma bind_node_ext : forall p n st, lookup_nb p st = None -> ext (sig_of st) (sig_of (bind_node p n st)).
Proof.
  intros p n st L. unfold ext, sig_of; cbn [s_v s_k s_n].
  rewrite all_b_bind_node, all_vb_bind_node, all_nb_bind_node. split; [|split]; auto.
  intros q m A. cbn [assoc]. destruct (Nat.eqb q p) eqn:E; auto.
  apply Nat.eqb_eq in E; subst. unfold lookup_nb in L. congruence.
Qed.

Lemma bind_node_good : forall pend p n st, lookup_nb p st = None ->
  good g tbl pend st -> good g tbl (p :: pend) (bind_node p n st).
Proof.
  intros pend p n st L [Gb Gn]. split.
  - intros q m A. unfold sig_of in A; cbn [s_n] in A. rewrite all_nb_bind_node in A. cbn [assoc] in A.
    destruct (Nat.eqb q p) eqn:E.
    + apply Nat.eqb_eq in E; subst. left; left; auto.
    + destruct (Gb q m A) as [I|K]; [left; right; auto|right].
      eapply node_ok_mono; eauto. apply bind_node_ext; auto.
  - rewrite all_nodes_bind_node, all_nb_bind_node, Gn. reflexivity.
Qed.

Lemma match_node_sound : forall fuel, rec_spec g tbl (match_node fl g tbl fuel).
Proof.
  induction fuel as [| f IH]; intros p n st st' pend H; simpl in H; try discriminate.
  destruct (lookup_nb p st) as [m|] eqn:L.
  - destruct (Nat.eqb m n) eqn:E; inversion H; subst. split; [apply step_refl|].
    unfold node_is, sig_of; cbn [s_n]. unfold lookup_nb in L. rewrite L; auto.
  - destruct (nth_error tbl p) as [np|] eqn:Tp; try discriminate.
    destruct (nth_error (g_nodes g) n) as [h|] eqn:Gn; try discriminate.
    apply rbind_ok in H as (st1 & NL & H).
    destruct (node_local_spec fl g tbl pend _ _ _ _ NL) as ((E1 & G1 & B1) & Hop & Hdom & Hat & Hoa).
    destruct ((List.length (np_ins np) <? List.length (h_ins h)) && negb (np_other_ins np)) eqn:Cnt; try discriminate.
    apply rbind_ok in H as (st3 & MI & H).
    assert (L1 : lookup_nb p st1 = None).
    { unfold lookup_nb in *. destruct (assoc Nat.eqb p (all_nb st1)) eqn:A; auto.
      (* node_local does not touch node bindings *)
      exfalso. clear - NL L A.
      assert (forall pats st st', match_attrs fl pats h st = Ok st' -> all_nb st' = all_nb st).
      { induction pats as [| [nm ap] t IHt]; intros s0 s1 Hm; simpl in Hm; [inversion Hm; auto|].
        assert (Bn : forall x b s2, bind x b s0 = Some s2 -> all_nb s2 = all_nb s0).
        { unfold bind; intros x b s2 Hb. destruct (lookup_b x s0); [destruct (bval_eqb b0 b); inversion Hb; auto|].
          inversion Hb; subst. destruct s0; reflexivity. }
        destruct (assoc String.eqb nm (h_attrs h)); destruct ap as [c | [y|] none_ok]; simpl in Hm;
          try discriminate.
        - unfold attr_const_eval in Hm. destruct (attr_const_matches c a) as [[|]|]; [| | destruct (attr_fix fl)]; try discriminate. eauto.
        - destruct (bind y (BAttr nm a) s0) eqn:Hb; simpl in Hm; try discriminate.
          rewrite (IHt _ _ Hm). eauto.
        - eauto.
        - destruct none_ok; try discriminate. destruct (bind y BNone s0) eqn:Hb; simpl in Hm; try discriminate.
          rewrite (IHt _ _ Hm). eauto.
        - destruct none_ok; try discriminate. simpl in Hm. eauto. }
      unfold node_local in NL.
      destruct (negb (spat_matches (np_op np) (h_op h))); try discriminate.
      destruct (negb (spat_matches (np_dom np) (h_dom h))); try discriminate.
      apply rbind_ok in NL as (s1 & M & NL).
      destruct (np_other_attrs np || no_other_attrs np h); inversion NL; subst.
      rewrite (H _ _ _ M) in A. congruence. }
    destruct (match_inputs_spec fl g tbl Hvb Hnb _ IH _ _ _ _ (p :: pend) MI) as ((E3 & G3 & B3) & IL).
    destruct (bind_outputs_spec fl g tbl (p :: pend) _ _ _ _ _ _ Hof H) as ((E4 & G4 & B4) & OL).
    assert (E2 := bind_node_ext p n st1 L1).
    assert (Efin : ext (sig_of st1) (sig_of st')).
    { eapply ext_trans; [apply E2|]. eapply ext_trans; eauto. }
    assert (NI : node_is (sig_of st') p n = true).
    { eapply node_is_mono; [eapply ext_trans; [apply E3 | apply E4]|].
      unfold node_is, sig_of; cbn [s_n]. rewrite all_nb_bind_node. cbn [assoc]. rewrite Nat.eqb_refl. apply Nat.eqb_refl. }
    split; auto. split; [|split].
    + eapply ext_trans; eauto.
    + intro G0. destruct (G4 (G3 (bind_node_good pend p n st1 L1 (G1 G0)))) as [Gb Gnn]. split; auto.
      intros q m A. destruct (Gb q m A) as [[Iq|Iq]|K]; auto. subst q. right.
      unfold node_is in NI. rewrite A in NI. apply Nat.eqb_eq in NI; subst m.
      unfold node_ok; cbn [fst snd]. rewrite Tp, Gn. unfold nlocal.
      rewrite Hop, Hdom, Hoa, OL. cbn [andb].
      rewrite (inputs_local_mono g _ _ E4 _ _ IL).
      assert (Cnt' : ((List.length (h_ins h) <=? List.length (np_ins np)) || np_other_ins np) = true).
      { destruct (np_other_ins np); [apply orb_true_r|]. rewrite andb_true_r in Cnt. rewrite orb_false_r.
        apply Nat.leb_le. apply Nat.ltb_ge in Cnt. auto. }
      rewrite Cnt'. rewrite !andb_true_r.
      apply forallb_forall. intros na Hin. eapply attr_local_mono; [apply Efin|].
      eapply forallb_forall in Hat; eauto.
    + rewrite B4, B3. rewrite <- B1. destruct st1; reflexivity.
Qed.

End Node.

(* ------------------------------------------------------------------ removability *)
Lemma memb_in_nat : forall x l, memb Nat.eqb x l = true <-> In x l.
Proof.
  unfold memb; intros x l; split; intro H.
  - apply existsb_exists in H as (y & Hin & E). apply Nat.eqb_eq in E; subst; auto.
  - apply existsb_exists. exists x; split; auto. apply Nat.eqb_refl.
Qed.

Lemma memb_in_bval : forall x l, memb bval_eqb x l = true <-> In x l.
Proof.
  unfold memb; intros x l; split; intro H.
  - apply existsb_exists in H as (y & Hin & E). apply bval_eqb_eq in E; subst; auto.
  - apply existsb_exists. exists x; split; auto. apply bval_eqb_refl.
Qed.

Lemma consumers_from_in : forall x ns n0 c hc,
  nth_error ns c = Some hc -> In (Some x) (h_ins hc) -> In (n0 + c) (consumers_from x ns n0).
Proof.
  induction ns as [| h t IH]; intros n0 c hc Hn Hi; destruct c; simpl in *; try discriminate.
  - inversion Hn; subst. apply in_or_app; left.
    assert (U : uses_value x hc = true).
    { unfold uses_value. apply existsb_exists. exists (Some x); split; auto. simpl. apply Nat.eqb_refl. }
    rewrite U. rewrite Nat.add_0_r. left; auto.
  - apply in_or_app; right. replace (n0 + S c) with (S n0 + c) by lia. eapply IH; eauto.
Qed.

Lemma valid_to_replace_removable : forall g matched outs,
  valid_to_replace g matched outs = true -> removable g matched outs.
Proof.
  unfold valid_to_replace, removable; intros g matched outs H n h v Hn Hh Hv Hno.
  eapply forallb_forall in H; eauto. rewrite Hh in H.
  eapply forallb_forall in H; eauto. apply orb_true_iff in H as [H|H].
  - apply memb_in_bval in H. contradiction.
  - apply andb_true_iff in H as [H1 H2]. split.
    + intro Hin. unfold is_graph_output in H1. apply memb_in_nat in Hin. rewrite Hin in H1; discriminate.
    + intros c hc Hc Hi. apply memb_in_nat. eapply forallb_forall in H2; eauto.
      unfold consumers. change c with (0 + c). eapply consumers_from_in; eauto.
Qed.

(* ------------------------------------------------------------------ top level *)
Section Top.
Variable fl : flags.
Variable g : hgraph.
Variable p : gpat.
Hypothesis Hrep : repaired fl = true.

Lemma rep_flags : keep_vb fl = true /\ keep_nb fl = true /\ out_fail fl = true.
Proof.
  unfold repaired in Hrep. apply andb_true_iff in Hrep as [H1 H3]. apply andb_true_iff in H1 as [H1 H2]. auto.
Qed.

Lemma match_roots_spec : forall roots cand st st', List.length roots = List.length cand ->
  match_roots fl g p roots cand st = Ok st' ->
  step g (gp_nodes p) [] st st' /\ roots_are (sig_of st') roots cand = true.
Proof.
  destruct rep_flags as (Hvb & Hnb & Hof).
  induction roots as [| r rt IH]; intros [| c ct] st st' Hl H; try (simpl in Hl; discriminate).
  - simpl in H. inversion H; subst. split; auto. apply step_refl.
  - change (match_roots fl g p (r :: rt) (c :: ct) st)
      with (rbind (match_node fl g (gp_nodes p) (fuel_for p) r c st) (fun st1 => match_roots fl g p rt ct st1)) in H.
    simpl in Hl. cbn [roots_are].
    apply rbind_ok in H as (st1 & M & H).
    destruct (match_node_sound fl g (gp_nodes p) Hvb Hnb Hof _ _ _ _ _ [] M) as [S N].
    destruct (IH ct _ _ ltac:(lia) H) as [S' R]. split.
    + eapply step_trans; eauto.
    + rewrite R, andb_true_r. eapply node_is_mono; eauto. apply S'.
Qed.

Lemma fill_inputs_ext : forall names b x v,
  assoc String.eqb x b = Some v -> assoc String.eqb x (fill_inputs names b) = Some v.
Proof.
  induction names as [| y t IH]; intros b x v A; simpl; auto.
  destruct (assoc String.eqb y b) eqn:Ay; auto.
  apply IH. simpl. destruct (String.eqb x y) eqn:E; auto. apply String.eqb_eq in E; subst; congruence.
Qed.

Lemma output_values_spec : forall tbl st names outs bs,
  below st = [] -> output_values tbl st outs = Some bs ->
  spec_outputs tbl (mkSig (pnb (top st)) (fill_inputs names (pb (top st))) (pvb (top st))) outs = Some bs.
Proof.
  intros tbl st names. induction outs as [| pv t IH]; intros bs Hb H; simpl in *; auto.
  destruct (output_value tbl st pv) as [b|] eqn:O; try discriminate.
  destruct (output_values tbl st t) as [bs'|] eqn:Os; try discriminate. inversion H; subst.
  rewrite (IH _ Hb eq_refl).
  assert (spec_output tbl (mkSig (pnb (top st)) (fill_inputs names (pb (top st))) (pvb (top st))) pv = Some b).
  { destruct pv; simpl in *; try discriminate.
    - apply fill_inputs_ext; auto.
    - auto.
    - destruct (out_name tbl p0 i); auto. apply fill_inputs_ext; auto.
    - destruct name; auto. apply fill_inputs_ext; auto.
    - destruct name; auto. apply fill_inputs_ext; auto. }
  rewrite H0. auto.
Qed.

Lemma sig_of_flat : forall st, below st = [] ->
  sig_of st = mkSig (pnb (top st)) (pb (top st)) (pvb (top st)).
Proof.
  intros [t bl] H; simpl in H; subst. unfold sig_of, all_nb, all_b, all_vb, all_partials; simpl.
  rewrite !app_nil_r. reflexivity.
Qed.

Lemma nodes_ok_of_bound : forall tbl s, bound_ok g tbl [] s -> nodes_ok g tbl s = true.
Proof.
  unfold nodes_ok; intros tbl s B. apply forallb_forall. intros [q n] Hin.
  cbn [fst snd]. destruct (node_is s q n) eqn:N; [|reflexivity]. cbn [implb].
  unfold node_is in N. destruct (assoc Nat.eqb q (s_n s)) as [m|] eqn:A; try discriminate.
  apply Nat.eqb_eq in N; subst. destruct (B _ _ A) as [[]|K]; auto.
Qed.

Theorem try_candidate_sound : forall rm cand m,
  List.length cand = List.length (output_nodes p) ->
  try_candidate fl g p rm cand = Ok m ->
  instanceb g p cand (sigma_of m) = true /\
  m_nodes m = rev (image (sigma_of m)) /\
  spec_outputs (gp_nodes p) (sigma_of m) (gp_outs p) = Some (m_outs m) /\
  (rm = true -> removable g (m_nodes m) (m_outs m)).
Proof.
  intros rm cand m Hl H. unfold try_candidate in H.
  destruct rep_flags as (Hvb & Hnb & Hof).
  destruct (match_roots fl g p (output_nodes p) cand init_stack) as [st| | |s] eqn:M; try discriminate.
  2: { rewrite Hof in H; discriminate. }
  destruct (match_roots_spec _ _ _ _ (eq_sym Hl) M) as ((E & G & B) & R).
  unfold finish in H. rewrite B in H. simpl in H.
  destruct (output_values (gp_nodes p) st (gp_outs p)) as [outs|] eqn:O; try discriminate.
  destruct (rm && negb (valid_to_replace g (rev (pnodes (top st))) outs)) eqn:V; inversion H; subst; clear H.
  assert (G0 : good g (gp_nodes p) [] init_stack).
  { split; [intros q n A; discriminate | reflexivity]. }
  destruct (G G0) as [Gb Gn].
  assert (Ex : ext (sig_of st) (mkSig (pnb (top st)) (fill_inputs (gp_inputs p) (pb (top st))) (pvb (top st)))).
  { rewrite (sig_of_flat st B). unfold ext; cbn [s_v s_k s_n]. split; [|split]; auto.
    intros; apply fill_inputs_ext; auto. }
  unfold sigma_of; cbn [m_nb m_b m_vb m_nodes m_outs].
  split; [|split; [|split]].
  - unfold instanceb. apply andb_true_iff; split.
    + clear - R Ex. revert R. generalize (output_nodes p) cand.
      induction l as [| r rt IH]; intros [| c ct] R; simpl in *; auto; try discriminate.
      apply andb_true_iff in R as [R1 R2]. rewrite (node_is_mono _ _ Ex _ _ R1), (IH _ R2); auto.
    + apply nodes_ok_of_bound. intros q n A. cbn [s_n] in A.
      assert (A' : assoc Nat.eqb q (s_n (sig_of st)) = Some n) by (rewrite (sig_of_flat st B); auto).
      destruct (Gb _ _ A') as [[]|K]. right. eapply node_ok_mono; eauto.
  - unfold image; cbn [s_n]. f_equal.
    unfold all_nodes, all_nb, all_partials in Gn. rewrite B in Gn. simpl in Gn. rewrite !app_nil_r in Gn. auto.
  - apply output_values_spec; auto.
  - intro; subst rm. simpl in V. apply negb_false_iff in V. apply valid_to_replace_removable; auto.
Qed.

Lemma product_length : forall ls c, In c (product ls) -> List.length c = List.length ls.
Proof.
  induction ls as [| l t IH]; intros c H; simpl in *.
  - destruct H as [H|[]]; subst; auto.
  - apply in_flat_map in H as (x & Hx & H). apply in_map_iff in H as (c' & E & H); subst. simpl. f_equal; auto.
Qed.

Lemma first_ok_in : forall rm cands m, first_ok fl g p rm cands = Ok m ->
  exists c, In c cands /\ try_candidate fl g p rm c = Ok m.
Proof.
  induction cands as [| c t IH]; intros m H; simpl in H; try discriminate.
  destruct (try_candidate fl g p rm c) as [m'| | |s] eqn:T; try discriminate.
  - inversion H; subst. exists c; split; auto. left; auto.
  - destruct (IH _ H) as (c' & I & T'). exists c'; split; auto. right; auto.
Qed.

Lemma candidate_lists_length : forall ns ids used, List.length (candidate_lists fl ns g ids used) = List.length ids.
Proof. induction ids as [| [i|] t IH]; intros used; simpl; auto. Qed.

Lemma product_head : forall (r : nid) ls c, In c (product ([r] :: ls)) -> hd_error c = Some r.
Proof.
  intros r ls c H. simpl in H. rewrite app_nil_r in H. apply in_map_iff in H as (c' & E & _). subst; auto.
Qed.

(* the main soundness theorem *)
Theorem run_sound : forall root rm m,
  run fl p g root rm = Ok m ->
  exists cand, hd_error cand = Some root /\
    instanceb g p cand (sigma_of m) = true /\
    m_nodes m = rev (image (sigma_of m)) /\
    spec_outputs (gp_nodes p) (sigma_of m) (gp_outs p) = Some (m_outs m) /\
    (rm = true -> removable g (m_nodes m) (m_outs m)).
Proof.
  intros root rm m H. unfold run in H.
  destruct (output_nodes p) as [| r [| r2 others]] eqn:On; try discriminate.
  - exists [root]. split; auto. apply try_candidate_sound; auto. rewrite On; auto.
  - apply first_ok_in in H as (c & I & T). exists c. split.
    + eapply product_head; eauto.
    + apply try_candidate_sound; auto. rewrite (product_length _ _ I), On.
      cbn [List.length]. rewrite candidate_lists_length, map_length. reflexivity.
Qed.

End Top.
