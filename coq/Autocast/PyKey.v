(* C12 -- cache keys with Python's ==/hash semantics on ALL numbers: bool vs int (True == 1), int vs float (1 == 1.0),
   0.0 vs -0.0, NaN (equal to nothing, found in a dict only as the same OBJECT), +-inf, ints beyond 2^53 / 2^63.

   Anchors:  onnxscript/_internal/builder.py      GraphBuilder._get_or_create_constant: key (value | tuple(value), dtype, _float_signs(value))
             onnxscript/_internal/tape_builder.py _constant_name: f"const_{value}_{suffix}" (the initializer's name)
             onnxscript/_internal/converter.py    _translate_subscript_expr.const_1d: `cached_int_consts` keyed by the python value alone
             onnxscript/_internal/autocast.py     cast_pyvalue_to_os_tensor: no cache
   A separate value type (the literal type of Autocast.v has no NaN / inf and is shared with C18).  No proofs here. *)
From Coq Require Import ZArith NArith List Bool.
Require Import OV.Autocast.Autocast.
Import ListNotations.

(* FFin neg m e = (-1)^neg * m / 2^e in lowest terms (float.as_integer_ratio); FNan carries the identity of the float OBJECT *)
Inductive pyfloat := FFin (neg : bool) (m e : N) | FInf (neg : bool) | FNan (neg : bool) (obj : nat).
Inductive pyval := PInt (z : Z) | PBool (b : bool) | PFloat (f : pyfloat).

Definition pkind (v : pyval) : pykind := match v with PInt _ => KInt | PBool _ => KBool | PFloat _ => KFloat end.

Definition pyfloat_eqb (a b : pyfloat) : bool :=
  match a, b with
  | FFin n1 m1 e1, FFin n2 m2 e2 => Bool.eqb n1 n2 && (m1 =? m2)%N && (e1 =? e2)%N
  | FInf n1, FInf n2 => Bool.eqb n1 n2
  | FNan n1 i, FNan n2 j => Bool.eqb n1 n2 && Nat.eqb i j
  | _, _ => false
  end.

(* Python ==.  int/bool against int/bool: the integers; int/bool against a finite float: the exact rationals; two finite
   floats: the same float up to the sign of zero (floats are in lowest terms); inf: by sign; NaN: never *)
Definition int_of (v : pyval) : option Z := match v with PInt z => Some z | PBool b => Some (b2z b) | PFloat _ => None end.
Definition pv_eq (a b : pyval) : bool :=
  match a, b with
  | PFloat (FFin n1 m1 e1), PFloat (FFin n2 m2 e2) =>
      (* 0.0 == -0.0; a zero is (0, 1) = FFin _ 0 0, so the exponents of two zeros agree *)
      ((m1 =? 0)%N && (m2 =? 0)%N && (e1 =? e2)%N) || (Bool.eqb n1 n2 && (m1 =? m2)%N && (e1 =? e2)%N)
  | PFloat (FInf n1), PFloat (FInf n2) => Bool.eqb n1 n2
  | PFloat (FFin n m e), o | o, PFloat (FFin n m e) =>
      match int_of o with
      | Some z => ((if n then - Z.of_N m else Z.of_N m) =? z * 2 ^ Z.of_N e)%Z
      | None => false
      end
  | PFloat _, _ | _, PFloat _ => false
  | _, _ => match int_of a, int_of b with Some x, Some y => (x =? y)%Z | _, _ => false end
  end.
(* `a is b`: needed for NaN only (everything else that is one object is also ==) *)
Definition pv_is (a b : pyval) : bool :=
  match a, b with PFloat (FNan n1 i), PFloat (FNan n2 j) => Bool.eqb n1 n2 && Nat.eqb i j | _, _ => false end.
(* how dict lookup and tuple comparison compare two elements: identity first, then == *)
Definition pv_match (a b : pyval) : bool := pv_is a b || pv_eq a b.

(* builder._float_signs: math.copysign(1.0, value) < 0.0 for a float, None otherwise *)
Definition psign (v : pyval) : option bool :=
  match v with
  | PFloat (FFin n _ _) | PFloat (FInf n) | PFloat (FNan n _) => Some n
  | _ => None
  end.
Definition opt_bool_eqb (a b : option bool) : bool :=
  match a, b with Some x, Some y => Bool.eqb x y | None, None => true | _, _ => false end.

Inductive pylit := PS (v : pyval) | PL (hd : pyval) (tl : list pyval).
Definition pelems (l : pylit) : list pyval := match l with PS v => [v] | PL h t => h :: t end.
Definition phead (l : pylit) : pyval := match l with PS v => v | PL h _ => h end.
Definition p_is_list (l : pylit) : bool := match l with PS _ => false | PL _ _ => true end.
(* the cached path of _get_or_create_constant: scalars; flat lists with all(isinstance(v, type(value[0]))) *)
Definition pcached (l : pylit) : bool :=
  match l with PS _ => true | PL h t => forallb (fun v => isinstance_kind (pkind v) (pkind h)) t end.
(* `if dtype is None: dtype = _PYTHON_TYPE_TO_DTYPE.get(type(value))` -- {int: INT64, float: FLOAT}; bool stays None *)
Definition presolve (l : pylit) (d : option dtype) : option dtype :=
  match d with
  | Some x => Some x
  | None => match pkind (phead l) with KInt => Some INT64 | KFloat => Some FLOAT | KBool => None end
  end.

(* the builder's key: (value | tuple(value), resolved dtype, _float_signs(value)); a number never equals a tuple *)
Record pkey := mkK { k_list : bool; k_vals : list pyval; k_dtype : option dtype; k_signs : list (option bool) }.
Definition pkey_of (l : pylit) (d : option dtype) : pkey :=
  mkK (p_is_list l) (pelems l) (presolve l d) (map psign (pelems l)).
Definition pkey_match (a b : pkey) : bool :=
  Bool.eqb (k_list a) (k_list b) && list_eqb pv_match (k_vals a) (k_vals b)
  && opt_dtype_eqb (k_dtype a) (k_dtype b) && list_eqb opt_bool_eqb (k_signs a) (k_signs b).

(* the one identification the key makes between different python values: a bool and the int it equals (at an explicit
   dtype, or inside an int list) *)
Definition pnorm (v : pyval) : pyval := match v with PBool b => PInt (b2z b) | _ => v end.
Definition pnorm_lit (l : pylit) : pylit := match l with PS v => PS (pnorm v) | PL h t => PL (pnorm h) (map pnorm t) end.

(* ---- a creation function on these values: np.asarray(value).astype(dtype) (variant w, see Autocast.np_cast_scalar_v) ---- *)
Inductive xvalue := XV (v : value) | XInf (neg : bool) | XNan | XUndef | XErr (e : error).
Definition to_scalar (v : pyval) : option scalar :=
  match v with
  | PInt z => Some (SInt z) | PBool b => Some (SBool b) | PFloat (FFin n m e) => Some (SFloat n m e) | _ => None
  end.
Definition py_cast (w : bool) (v : pyval) (d : dtype) : xvalue :=
  match to_scalar v with
  | Some s => match np_cast_scalar_v w s d with OK x => XV x | Err e => XErr e end
  | None => match dclass_of d, v with
            | CFloat, PFloat (FInf n) => XInf n
            | CFloat, _ => XNan
            | CBool, _ => XV (VB true)            (* bool(nan) = bool(inf) = True *)
            | _, _ => XUndef                      (* NaN / inf to an integer type: implementation-defined *)
            end
  end.
Definition py_mk (w : bool) (l : pylit) (r : option dtype) : dtype * bool * list xvalue :=
  let d := match r with Some d => d | None => default_of_kind (pkind (phead l)) end in
  (d, p_is_list l, map (fun v => py_cast w v d) (pelems l)).

(* ---- the cache, generic in the tensor type and the creation function ---- *)
Section Cache.
  Variable T : Type.
  Variable mk : pylit -> option dtype -> T.       (* the tensor a request denotes on its own *)

  Definition pcache := list (pkey * T).
  Fixpoint pfind (c : pcache) (k : pkey) : option T :=
    match c with [] => None | (k', t) :: r => if pkey_match k k' then Some t else pfind r k end.
  (* requests outside the cached path get a fresh initializer of their own and never enter the cache *)
  Definition pget (c : pcache) (l : pylit) (d : option dtype) : pcache * T :=
    if pcached l then
      let k := pkey_of l d in
      match pfind c k with
      | Some t => (c, t)
      | None => let t := mk l (presolve l d) in ((c ++ [(k, t)])%list, t)
      end
    else (c, mk l d).
  Fixpoint prun (c : pcache) (h : list (pylit * option dtype)) : pcache :=
    match h with [] => c | (l, d) :: t => prun (fst (pget c l d)) t end.
End Cache.

(* ---- a value-only key (converter: cached_int_consts[value]) ---- *)
Section ValueKey.
  Variable T : Type.
  Variable mk : pyval -> T.
  Definition vcache := list (pyval * T).
  Fixpoint vfind (c : vcache) (v : pyval) : option T :=
    match c with [] => None | (v', t) :: r => if pv_match v v' then Some t else vfind r v end.
  Definition vget (c : vcache) (v : pyval) : vcache * T :=
    match vfind c v with Some t => (c, t) | None => let t := mk v in ((c ++ [(v, t)])%list, t) end.
  Fixpoint vrun (c : vcache) (h : list pyval) : vcache :=
    match h with [] => c | v :: t => vrun (fst (vget c v)) t end.
End ValueKey.
(* const_1d(value) = self._emit_const([value]): ir.tensor([value]) -- BOOL [b] for a bool, INT64 [z] for an int *)
Definition sub_tensor (v : pyval) : dtype * pyval :=
  match v with PBool _ => (BOOL, v) | PInt _ => (INT64, v) | PFloat _ => (FLOAT, v) end.
(* repaired (proposed_fixes/C12_subscript_constant_cache_bool_key.diff): value = int(value) first *)
Definition sub_tensor_int (v : pyval) : dtype * pyval := (INT64, pnorm v).
Definition is_pint (v : pyval) : bool := match v with PInt _ => true | _ => false end.
Definition is_intlike (v : pyval) : bool := match v with PFloat _ => false | _ => true end.

(* ---- initializer names: _constant_name(value, suffix) = f"const_{value}_{suffix}" for scalars ---- *)
Definition repr_eq (a b : pyval) : bool :=
  match a, b with
  | PInt x, PInt y => (x =? y)%Z
  | PBool x, PBool y => Bool.eqb x y
  | PFloat (FNan _ _), PFloat (FNan _ _) => true          (* str(nan) = str(-nan) = "nan", whatever the object *)
  | PFloat f, PFloat g => pyfloat_eqb f g
  | _, _ => false
  end.
Definition is_nan (v : pyval) : bool := match v with PFloat (FNan _ _) => true | _ => false end.
Definition name_eq (a : pyval) (ra : option dtype) (b : pyval) (rb : option dtype) : bool :=
  repr_eq a b && opt_dtype_eqb ra rb.

(* ---- correspondence: which earlier request's initializer each request of a history returns (None = it raised) ---- *)
(* np.asarray(value): a python int outside [-2^63, 2^64) becomes an object array; astype to an INTEGER type then raises
   OverflowError (to a float type or bool it converts) *)
Definition creatable (r : option dtype) (v : pyval) : bool :=
  match v, r with
  | PInt z, Some d => match dclass_of d with
                      | CInt _ _ => (- 2 ^ 63 <=? z)%Z && (z <? 2 ^ 64)%Z
                      | _ => true
                      end
  | _, _ => true
  end.
(* collide = true: the code as read (a taken name is refused); false: proposed_fixes/C12_builder_nan_constant_key.diff
   (a scalar constant whose name is taken gets a numbered name) -- probed on the real code on every run *)
Fixpoint ptrace (collide : bool) (keys : list (pkey * nat)) (names : list (pyval * option dtype)) (i : nat)
         (h : list (pylit * option dtype)) : list (option nat) :=
  match h with
  | [] => []
  | (l, d) :: t =>
      if pcached l then
        let k := pkey_of l d in
        match find (fun ko => pkey_match k (fst ko)) keys with
        | Some ko => Some (snd ko) :: ptrace collide keys names (S i) t
        | None =>
            if negb (forallb (creatable (presolve l d)) (pelems l)) then None :: ptrace collide keys names (S i) t
            else match l with
                 | PS v =>
                     (* register_initializer refuses a name that is already registered for another value *)
                     if collide && existsb (fun n => name_eq v (presolve l d) (fst n) (snd n)) names
                     then None :: ptrace collide keys names (S i) t
                     else Some i :: ptrace collide (keys ++ [(k, i)])%list (names ++ [(v, presolve l d)])%list (S i) t
                 | PL _ _ => Some i :: ptrace collide (keys ++ [(k, i)])%list names (S i) t
                 end
        end
      else (if forallb (creatable d) (pelems l) then Some i else None) :: ptrace collide keys names (S i) t
  end.
(* the value-only key of the converter's subscript constants *)
Fixpoint vtrace (keys : list (pyval * nat)) (i : nat) (h : list pyval) : list nat :=
  match h with
  | [] => []
  | v :: t => match find (fun ko => pv_match v (fst ko)) keys with
              | Some ko => snd ko :: vtrace keys (S i) t
              | None => i :: vtrace (keys ++ [(v, i)])%list (S i) t
              end
  end.
