(* eager = plain-Python reading (C01, the eager half of the property as a theorem).

   eager_eq_script: for every program of the class Script/EagerClass.v (if / for / while / break nested to any depth, any
   kernels), every call on which the reading of Script/PySemAttrs.v (attribute parameters included) is defined returns
   the same values eagerly (Script/Eager.v).  Kernel laws (hypotheses): the autocast specification
     L0  a Python value promoted without a target dtype is the tensor its Constant denotes,
     L1  a Python value promoted to the dtype of y is CastLike(Constant(value), y),
     LA  the tensor an attribute parameter is promoted to is the tensor of its Python value,
   and the kernel resolves reference attributes by the call's attribute values. *)
From Coq Require Import List String ZArith Bool Lia.
Require Import OV.Graph.Syntax OV.Graph.Sem OV.Graph.WfProofs OV.Script.Syntax OV.Script.Sets OV.Gen.Analysis OV.Gen.ScriptTables OV.Script.Translate
               OV.Script.PySem OV.Script.TranslateProofs OV.Script.AnalysisProofs OV.Script.Eager OV.Script.PySemAttrs OV.Script.EagerClass.
Import ListNotations.
Local Open Scope string_scope.
Local Open Scope list_scope.

Section EagerProofs.
  Variable V : Type.
  Variable sem : string -> string -> list (string * attrv) -> list (option V) -> option (list V).
  Variable truth : V -> option bool.
  Variable trip : V -> option nat.
  Variable of_nat : nat -> V.
  Variable while_limit : nat.
  Variable globals : list (string * lit).
  Variable dyn_cast : lit -> option V -> option V.
  Variable fun_cast : lit -> option V.
  Variable is_float : V -> bool.
  Variable avals : list (string * lit).
  Variable S D A : list string.

  Hypothesis sem_resolves : forall d o attrs args, sem d o (map (resolve1 avals) attrs) args = sem d o attrs args.
  Hypothesis L0 : forall l c, const_val V sem l = Some c -> dyn_cast l None = Some c.
  Hypothesis L1 : forall l c y r, const_val V sem l = Some c ->
    sem1 V sem "" "CastLike" [] [Some c; Some y] = Some r -> dyn_cast l (Some y) = Some r.
  Hypothesis globals_S : globals_in S globals = true.
  Hypothesis A_vals : forall a, In a A -> exists l, lookup_assoc a avals = Some l.

  Notation eval := (eval V).
  Notation eenv := (eenv V).
  Notation pval := (pval V).
  Notation penv := (penv V).
  Notation ET := (ET V).
  Notation EP := (EP V).
  Notation eval_e := (eval_e V sem truth globals dyn_cast fun_cast is_float).
  Notation eval_expr := (eval_expr V sem globals).
  Notation epromoted := (epromoted V dyn_cast).
  Notation epromote_args := (epromote_args V dyn_cast).
  Notation eop1 := (eop1 V sem dyn_cast).
  Notation eexec_block := (eexec_block V sem truth trip while_limit globals dyn_cast fun_cast is_float).
  Notation exec_block := (exec_block V sem truth trip of_nat while_limit globals).

  (* ---------------------------------------------------------------- the simulation relation *)

  Definition Rv (ev : eval) (pv : pval) : Prop :=
    match ev, pv with
    | Eager.ET _ v, PT _ v' => v = v'
    | Eager.EP _ l, PS _ l' c => l = l' /\ const_val V sem l = Some c
    | _, _ => False
    end.

  Definition Ro {X Y} (R : X -> Y -> Prop) (a : option X) (b : option Y) : Prop :=
    match a, b with
    | None, None => True
    | Some x, Some y => R x y
    | _, _ => False
    end.

  Definition Inv (ee : eenv) (pe : penv) : Prop :=
    (forall x, ~ In x D -> Ro Rv (elookup V ee x) (plookup V pe x)) /\
    (forall x l, elookup V ee x = Some (EP l) -> In x S) /\
    (forall a l, In a A -> lookup_assoc a avals = Some l -> elookup V ee a = Some (EP l)).

  Lemma Rv_scalar : forall ev pv, Rv ev pv -> escalar V ev = is_scalar V pv.
  Proof. intros [v|l] [v'|l' c] H; cbn in *; try contradiction; reflexivity. Qed.

  Lemma Rv_tensor : forall ev pv, Rv ev pv -> escalar V ev = false -> ev = ET (tensor_of V pv).
  Proof. intros [v|l] [v'|l' c] H E; cbn in *; try contradiction; try discriminate. subst. reflexivity. Qed.

  (* ---------------------------------------------------------------- dynamic_cast_inputs against the static plan *)

  Lemma flags_sim : forall eargs pargs, Forall2 (Ro Rv) eargs pargs ->
    map (option_map (escalar V)) eargs = map (option_map (is_scalar V)) pargs.
  Proof.
    induction 1 as [|ea pa et pt H _ IH]; [reflexivity|]. cbn. rewrite IH. f_equal.
    destruct ea, pa; cbn in *; try contradiction; [|reflexivity]. f_equal. apply Rv_scalar. exact H.
  Qed.

  Lemma nth_sim : forall eall pall j, Forall2 (Ro Rv) eall pall -> Ro Rv (nth j eall None) (nth j pall None).
  Proof.
    intros eall pall j H. revert j. induction H as [|ea pa et pt H _ IH]; intros [|j]; cbn; auto.
  Qed.

  Fixpoint planok (plan : list (option nat)) (pargs : list (option pval)) : Prop :=
    match plan, pargs with
    | p :: pt, a :: at' => (p <> None -> match a with Some pv => is_scalar V pv = true | None => True end) /\ planok pt at'
    | _, _ => True
    end.

  Lemma promote_sim : forall eall pall, Forall2 (Ro Rv) eall pall ->
    forall eargs pargs, Forall2 (Ro Rv) eargs pargs -> forall plan r, planok plan pargs ->
    promote_args V sem pargs plan pall = Some r -> epromote_args eargs plan eall = Some r.
  Proof.
    intros eall pall Hall. induction 1 as [|ea pa et pt H _ IH]; intros plan r Hp Hs.
    - destruct plan; cbn in Hs; inversion Hs; reflexivity.
    - destruct plan as [|p plan'].
      + cbn [promote_args] in Hs. destruct (promote_args V sem pt [] pall) as [t'|] eqn:Et; [|discriminate].
        inversion Hs; subst. cbn [Eager.epromote_args tl]. rewrite (IH [] t' I Et).
        destruct ea as [[v|l]|], pa as [[v'|l' c]|]; cbn in H; try contradiction; cbn.
        * subst. reflexivity.
        * destruct H as [-> Hc]. rewrite (L0 _ _ Hc). reflexivity.
        * reflexivity.
      + cbn [promote_args] in Hs. destruct (promote_args V sem pt plan' pall) as [t'|] eqn:Et; [|discriminate].
        destruct Hp as [Hp1 Hp2]. cbn [Eager.epromote_args tl]. rewrite (IH plan' t' Hp2 Et).
        destruct ea as [[v|l]|], pa as [[v'|l' c]|]; cbn in H; try contradiction.
        * subst. destruct p as [j|].
          -- specialize (Hp1 ltac:(discriminate)). cbn in Hp1. discriminate.
          -- inversion Hs; subst. reflexivity.
        * destruct H as [-> Hc]. destruct p as [j|].
          -- pose proof (nth_sim eall pall j Hall) as Hn. cbn [cast_arg target_of].
             destruct (nth j eall None) as [[y|ly]|], (nth j pall None) as [[y'|ly' cy]|]; cbn in Hn; try contradiction.
             ++ subst. cbn [tensor_of] in Hs.
                destruct (sem1 V sem "" "CastLike" [] [Some c; Some y']) as [rr|] eqn:Ec; [|discriminate].
                inversion Hs; subst. rewrite (L1 _ _ _ _ Hc Ec). reflexivity.
             ++ destruct Hn as [-> Hcy]. cbn [tensor_of] in Hs.
                destruct (sem1 V sem "" "CastLike" [] [Some c; Some cy]) as [rr|] eqn:Ec; [|discriminate].
                inversion Hs; subst. rewrite (L0 _ _ Hcy). cbn. rewrite (L1 _ _ _ _ Hc Ec). reflexivity.
             ++ inversion Hs; subst. cbn. rewrite (L0 _ _ Hc). reflexivity.
          -- inversion Hs; subst. cbn. rewrite (L0 _ _ Hc). reflexivity.
        * inversion Hs; subst. reflexivity.
  Qed.

  Lemma plan_casts_ok : forall tvs bnd flags i pargs, flags = map (option_map (is_scalar V)) pargs ->
    planok (plan_casts tvs bnd i flags) pargs.
  Proof.
    intros tvs bnd flags. induction flags as [|fl t IH]; intros i pargs E; destruct pargs as [|a at']; try discriminate; cbn; auto.
    cbn in E. inversion E; subst. split; [|apply IH; reflexivity].
    intros Hn. destruct a as [pv|]; [|exact I]. cbn in Hn. destruct (is_scalar V pv); [reflexivity|].
    exfalso. apply Hn. reflexivity.
  Qed.

  Lemma promoted_sim : forall op eargs pargs r, Forall2 (Ro Rv) eargs pargs ->
    promoted V sem op pargs = Some r -> epromoted op eargs = Some r.
  Proof.
    intros op eargs pargs r H Hs. unfold promoted in Hs. unfold Eager.epromoted.
    rewrite (flags_sim _ _ H). destruct (lookup_assoc op op_typevars) as [tvs|].
    - destruct (cast_plan tvs (map (option_map (is_scalar V)) pargs)) as [plan|] eqn:Ep; [|discriminate].
      eapply promote_sim; try eassumption.
      unfold cast_plan in Ep. destruct (plan_bindings tvs 0 (map (option_map (is_scalar V)) pargs) []); [|discriminate].
      inversion Ep; subst. apply plan_casts_ok. reflexivity.
    - eapply promote_sim with (plan := []); try eassumption; [destruct pargs; exact I|].
      inversion Hs; subst. clear. generalize pargs at 2 as all. induction pargs as [|a t IH]; intros all; [reflexivity|].
      cbn [promote_args]. rewrite IH. reflexivity.
  Qed.

  (* ---------------------------------------------------------------- expressions *)

  Lemma wbind_some : forall X Y (m : W V X) (f : X -> W V Y) a l1 b l2,
    m = Some (a, l1) -> f a = Some (b, l2) -> wbind V m f = Some (b, l1 ++ l2).
  Proof. intros X Y m f a l1 b l2 -> H. cbn. rewrite H. reflexivity. Qed.

  Lemma sem1_inv : forall d o at' args r, sem1 V sem d o at' args = Some r -> sem d o at' args = Some [r].
  Proof.
    intros d o at' args r H. unfold sem1 in H. destruct (sem d o at' args) as [[|x [|]]|]; try discriminate.
    inversion H; subst. reflexivity.
  Qed.

  Lemma eop1_sim : forall o at' eargs pargs args r, Forall2 (Ro Rv) eargs pargs ->
    promoted V sem o pargs = Some args -> sem1 V sem "" o at' args = Some r ->
    exists lg, eop1 o at' eargs = Some (ET r, lg).
  Proof.
    intros o at' eargs pargs args r H Hp Hs. unfold Eager.eop1, eop. rewrite (promoted_sim _ _ _ _ H Hp).
    unfold ecall. rewrite (sem1_inv _ _ _ _ _ Hs). eexists. reflexivity.
  Qed.

  Lemma unary_promoted : forall o v, unary_ok o = true -> epromoted o [Some (ET v)] = Some [Some v].
  Proof.
    intros o v H. unfold unary_ok in H. unfold Eager.epromoted. destruct (lookup_assoc o op_typevars) as [tvs|]; [|reflexivity].
    cbn. unfold cast_plan. cbn. destruct (typevar_at tvs 0) as [tv|]; [|discriminate]. reflexivity.
  Qed.

  Lemma eop1_unary : forall o v r, unary_ok o = true -> sem1 V sem "" o [] [Some v] = Some r ->
    exists lg, eop1 o [] [Some (ET v)] = Some (ET r, lg).
  Proof.
    intros o v r H Hs. unfold Eager.eop1, eop. rewrite (unary_promoted _ _ H). unfold ecall.
    rewrite (sem1_inv _ _ _ _ _ Hs). eexists. reflexivity.
  Qed.

  (* a Python value on the reading's side comes from an expression the class knows may be one *)
  Lemma script_scalar : forall e ee pe l c, Inv ee pe -> expr_eok S D A e = true ->
    eval_expr pe e = Some (PS V l c) -> may_scalar S e = true.
  Proof.
    intros e ee pe l c (I1 & I2 & I3) Hok H. destruct e as [x|l0|op a|op a b|op a b|f args kws]; cbn [may_scalar]; [| reflexivity | | | |];
      cbn [PySem.eval_expr] in H.
    - cbn [expr_eok] in Hok. apply negb_true_iff in Hok. apply mem_false_not_In in Hok. specialize (I1 x Hok).
      destruct (plookup V pe x) as [pv|] eqn:Ep.
      + inversion H; subst. destruct (elookup V ee x) as [[v|l1]|] eqn:Ee; cbn in I1; try contradiction.
        destruct I1 as [-> _]. apply mem_In. eapply I2. exact Ee.
      + destruct (lookup_assoc x globals) as [l1|] eqn:Eg; [|discriminate].
        unfold globals_in in globals_S. rewrite forallb_forall in globals_S.
        apply (globals_S (x, l1)). apply lookup_assoc_in. exact Eg.
    - repeat match goal with H : match ?x with _ => _ end = Some _ |- _ => destruct x; try discriminate end.
      destruct (sem1 V sem "" s [] [Some v]); discriminate.
    - repeat match goal with H : match ?x with _ => _ end = Some _ |- _ => destruct x; try discriminate end.
      match goal with H : option_map _ ?x = _ |- _ => destruct x; discriminate end.
    - repeat match goal with H : match ?x with _ => _ end = Some _ |- _ => destruct x; try discriminate end;
      match goal with H : option_map _ ?x = _ |- _ => destruct x; discriminate end.
    - repeat match goal with H : match ?x with _ => _ end = Some _ |- _ => destruct x; try discriminate end;
      match goal with H : option_map _ ?x = _ |- _ => destruct x; discriminate end.
  Qed.

  Definition esim (e : expr) : Prop :=
    forall ee pe pv, Inv ee pe -> expr_eok S D A e = true -> eval_expr pe e = Some pv ->
    exists ev lg, eval_e ee e = Some (ev, lg) /\ Rv ev pv.

  Definition eargs_of (ee : eenv) : list (option expr) -> W V (list (option eval)) :=
    fix go (l : list (option expr)) : W V (list (option eval)) :=
      match l with
      | [] => wret V []
      | None :: t => wbind V (go t) (fun vs => wret V (None :: vs))
      | Some a :: t => wbind V (eval_e ee a) (fun v => wbind V (go t) (fun vs => wret V (Some v :: vs)))
      end.

  Definition pargs_of (pe : penv) : list (option expr) -> option (list (option pval)) :=
    fix go (l : list (option expr)) : option (list (option pval)) :=
      match l with
      | [] => Some []
      | None :: t => option_map (cons None) (go t)
      | Some a :: t => match eval_expr pe a, go t with
                       | Some v, Some vs => Some (Some v :: vs)
                       | _, _ => None
                       end
      end.

  Definition args_eok (f : callee) : list (option expr) -> bool :=
    fix go (l : list (option expr)) : bool :=
      match l with
      | [] => true
      | None :: t => go t
      | Some a :: t => expr_eok S D A a && (match f with COp _ => true | CFun _ => negb (may_scalar S a) end) && go t
      end.

  Definition all_tensors (f : callee) (evals : list (option eval)) : Prop :=
    match f with COp _ => True | CFun _ => Forall (fun o => match o with Some ev => escalar V ev = false | None => True end) evals end.

  Lemma args_sim : forall f ee pe args, Inv ee pe ->
    Forall (fun o => match o with Some a => esim a | None => True end) args ->
    args_eok f args = true -> forall vals, pargs_of pe args = Some vals ->
    exists evals lg, eargs_of ee args = Some (evals, lg) /\ Forall2 (Ro Rv) evals vals /\ all_tensors f evals.
  Proof.
    intros f ee pe args HI HF. induction HF as [|o t Ho _ IH]; intros Hok vals Hv.
    - cbn in Hv. inversion Hv; subst. exists [], []. split; [reflexivity|]. split; [constructor|]. destruct f; cbn; auto.
    - destruct o as [a|].
      + cbn [args_eok] in Hok. apply andb_true_iff in Hok. destruct Hok as [Hok Hok3]. apply andb_true_iff in Hok. destruct Hok as [Hok1 Hok2].
        cbn [pargs_of] in Hv. destruct (eval_expr pe a) as [pv|] eqn:Ea; [|discriminate].
        fold (pargs_of pe) in Hv. destruct (pargs_of pe t) as [vs|] eqn:Et; [|discriminate]. inversion Hv; subst.
        destruct (Ho ee pe pv HI Hok1 Ea) as (ev & lg1 & He & R).
        destruct (IH Hok3 vs eq_refl) as (evs & lg2 & Hes & F & T).
        exists (Some ev :: evs), (lg1 ++ (lg2 ++ [])). split; [|split].
        * cbn [eargs_of]. fold (eargs_of ee). eapply wbind_some; [exact He|]. eapply wbind_some; [exact Hes | reflexivity].
        * constructor; [exact R | exact F].
        * destruct f; cbn in *; [exact I|]. constructor; [|exact T].
          destruct ev as [v|l]; [reflexivity|]. destruct pv as [v'|l' c]; cbn in R; [contradiction|].
          destruct R as [-> _]. apply negb_true_iff in Hok2. rewrite (script_scalar _ _ _ _ _ HI Hok1 Ea) in Hok2. discriminate.
      + cbn [args_eok] in Hok. cbn [pargs_of] in Hv. fold (pargs_of pe) in Hv. destruct (pargs_of pe t) as [vs|] eqn:Et; [|discriminate].
        inversion Hv; subst. destruct (IH Hok vs eq_refl) as (evs & lg2 & Hes & F & T).
        exists (None :: evs), (lg2 ++ []). split; [|split].
        * cbn [eargs_of]. fold (eargs_of ee). eapply wbind_some; [exact Hes | reflexivity].
        * constructor; [exact I | exact F].
        * destruct f; cbn in *; [exact I|]. constructor; [exact I | exact T].
  Qed.

  Lemma resolve_kwattr : forall k l, resolve1 avals (k, lit_kwattr l) = (k, lit_kwattr l).
  Proof. intros k [z|b|b|zs]; reflexivity. Qed.

  Lemma ekws_sim : forall ee pe kws, Inv ee pe -> kws_ok A kws = true ->
    exists attrs, ekws V ee kws = Some attrs /\ map (resolve1 avals) (map kw_attr kws) = map (resolve1 avals) attrs.
  Proof.
    intros ee pe kws (I1 & I2 & I3) H. induction kws as [|[k [a|x]] t IH]; cbn in H.
    - exists []. split; reflexivity.
    - destruct (IH H) as (at' & E1 & E2). exists ((k, a) :: at'). split; [cbn; rewrite E1; reflexivity|]. cbn. rewrite E2. reflexivity.
    - apply andb_true_iff in H. destruct H as [Hx H]. destruct (IH H) as (at' & E1 & E2).
      apply mem_In in Hx. destruct (A_vals x Hx) as (l & El). pose proof (I3 x l Hx El) as Ee.
      exists ((k, lit_kwattr l) :: at'). split; [cbn; rewrite Ee, E1; reflexivity|].
      cbn [map kw_attr]. rewrite E2. f_equal. rewrite resolve_kwattr. unfold resolve1. cbn. rewrite El. reflexivity.
  Qed.

  Lemma sem_attrs_eq : forall d o a1 a2 args, map (resolve1 avals) a1 = map (resolve1 avals) a2 -> sem d o a1 args = sem d o a2 args.
  Proof. intros d o a1 a2 args E. rewrite <- (sem_resolves d o a1), <- (sem_resolves d o a2), E. reflexivity. Qed.

  Lemma adapt_tensors : forall evals vals, Forall2 (Ro Rv) evals vals ->
    Forall (fun o => match o with Some ev => escalar V ev = false | None => True end) evals ->
    adapt_args V fun_cast evals = Some (map (option_map (tensor_of V)) vals).
  Proof.
    induction 1 as [|ea pa et pt H _ IH]; intros HF; [reflexivity|]. inversion HF; subst.
    cbn [adapt_args map]. rewrite (IH H3). destruct ea as [ev|], pa as [pv|]; cbn in H; try contradiction; [|reflexivity].
    rewrite (Rv_tensor _ _ H H2). reflexivity.
  Qed.

  Lemma callee_sim : forall ee pe f kws evals vals, Inv ee pe -> kws_ok A kws = true ->
    Forall2 (Ro Rv) evals vals -> all_tensors f evals -> forall rs,
    match f with
    | COp name => match promoted V sem name vals with Some args' => sem "" name (map kw_attr kws) args' | None => None end
    | CFun name => sem "this" name (map kw_attr kws) (map (option_map (tensor_of V)) vals)
    end = Some rs ->
    exists lg, ecallee V sem dyn_cast fun_cast ee f kws evals = Some (rs, lg).
  Proof.
    intros ee pe f kws evals vals HI Hk HF HT rs Hs. unfold ecallee.
    destruct (ekws_sim ee pe kws HI Hk) as (at' & E1 & E2). rewrite E1. destruct f as [name|name].
    - destruct (promoted V sem name vals) as [args'|] eqn:Ep; [|discriminate].
      unfold eop. rewrite (promoted_sim _ _ _ _ HF Ep). unfold ecall.
      rewrite <- (sem_attrs_eq "" name _ _ args' E2), Hs. eexists. reflexivity.
    - cbn in HT. rewrite (adapt_tensors _ _ HF HT). unfold ecall.
      rewrite <- (sem_attrs_eq "this" name _ _ _ E2), Hs. eexists. reflexivity.
  Qed.

  Theorem expr_sim : forall e, esim e.
  Proof.
    apply expr_ind'; unfold esim.
    - (* EVar *)
      intros x ee pe pv (I1 & I2 & I3) Hok H. cbn [expr_eok] in Hok. apply negb_true_iff in Hok. apply mem_false_not_In in Hok.
      specialize (I1 x Hok). cbn [PySem.eval_expr] in H. cbn [Eager.eval_e].
      destruct (plookup V pe x) as [pv0|], (elookup V ee x) as [ev0|]; cbn in I1; try contradiction.
      + inversion H; subst. exists ev0, []. split; [reflexivity | exact I1].
      + destruct (lookup_assoc x globals) as [l|]; [|discriminate]. destruct (const_val V sem l) as [c|] eqn:Ec; [|discriminate].
        inversion H; subst. exists (EP l), []. split; [reflexivity | split; [reflexivity | exact Ec]].
    - (* ELit *)
      intros l ee pe pv _ _ H. cbn [PySem.eval_expr] in H. destruct (const_val V sem l) as [c|] eqn:Ec; [|discriminate].
      inversion H; subst. exists (EP l), []. split; [reflexivity | split; [reflexivity | exact Ec]].
    - (* EUn *)
      intros op a IH ee pe pv HI Hok H. cbn [expr_eok] in Hok. apply andb_true_iff in Hok. destruct Hok as [Hok Hoka].
      apply andb_true_iff in Hok. destruct Hok as [Hop Hneg]. apply String.eqb_eq in Hop. subst op.
      cbn [PySem.eval_expr] in H. unfold neg_ok in Hneg.
      destruct (lookup_assoc "USub" primop_map) as [o|]; [|discriminate].
      destruct (lookup_assoc "USub" py_dunder) as [m|] eqn:Em; [|discriminate].
      destruct (lookup_assoc m tensor_methods) as [[o' sw| |]|] eqn:Et; try discriminate.
      apply andb_true_iff in Hneg. destruct Hneg as [Ho Hu]. apply String.eqb_eq in Ho. subst o'.
      destruct (eval_expr pe a) as [[v|l c]|] eqn:Ea; try discriminate.
      destruct (sem1 V sem "" o [] [Some v]) as [r|] eqn:Es; [|discriminate]. inversion H; subst.
      destruct (IH ee pe _ HI Hoka Ea) as (ev & lg & He & R). destruct ev as [v'|l']; cbn in R; [|contradiction]. subst v'.
      destruct (eop1_unary o v r Hu Es) as (lg2 & E2).
      exists (ET r), (lg ++ lg2). split; [|reflexivity].
      cbn [Eager.eval_e]. eapply wbind_some; [exact He|]. cbv beta iota. change (String.eqb "USub" "Not") with false. cbv iota. rewrite Em. unfold emethod_named. rewrite Et.
      unfold emethod. destruct sw; exact E2.
    - (* EBin *)
      intros op a b IHa IHb ee pe pv HI Hok H. cbn [expr_eok] in Hok.
      apply andb_true_iff in Hok. destruct Hok as [Hok Hrefl]. apply andb_true_iff in Hok. destruct Hok as [Hok Hfwd].
      apply andb_true_iff in Hok. destruct Hok as [Hoka Hokb].
      unfold bin_fwd_ok in Hfwd. apply andb_true_iff in Hfwd. destruct Hfwd as [Hmod Hfwd]. apply negb_true_iff in Hmod.
      cbn [PySem.eval_expr] in H.
      destruct (lookup_assoc op primop_map) as [o|] eqn:Eo; [|discriminate].
      destruct (lookup_assoc op py_dunder) as [m|] eqn:Em; [|discriminate].
      destruct (eval_expr pe a) as [va|] eqn:Ea; [|discriminate]. destruct (eval_expr pe b) as [vb|] eqn:Eb; [|discriminate].
      destruct (is_scalar V va && is_scalar V vb) eqn:Ess; [discriminate|].
      unfold binop_attrs in H. rewrite Hmod in H.
      destruct (promoted V sem o [Some va; Some vb]) as [args|] eqn:Ep; [|discriminate].
      destruct (sem1 V sem "" o [] args) as [r|] eqn:Es; [|discriminate]. inversion H; subst.
      destruct (IHa ee pe _ HI Hoka Ea) as (ea & lga & Hea & Ra). destruct (IHb ee pe _ HI Hokb Eb) as (eb & lgb & Heb & Rb).
      assert (F : Forall2 (Ro Rv) [Some ea; Some eb] [Some va; Some vb]) by (repeat constructor; assumption).
      destruct (eop1_sim o [] _ _ _ _ F Ep Es) as (lg3 & E3).
      exists (ET r), (lga ++ (lgb ++ lg3)). split; [|reflexivity].
      cbn [Eager.eval_e]. eapply wbind_some; [exact Hea|]. eapply wbind_some; [exact Heb|].
      unfold ebinary. rewrite Em. destruct ea as [xa|la].
      + unfold emethod_named. destruct (lookup_assoc m tensor_methods) as [[o' [|]| |]|]; try discriminate.
        apply String.eqb_eq in Hfwd. subst o'. exact E3.
      + destruct eb as [xb|lb].
        * destruct va as [?|la' ca]; cbn in Ra; [contradiction|]. destruct Ra as [-> _].
          rewrite (script_scalar _ _ _ _ _ HI Hoka Ea) in Hrefl. cbn in Hrefl. unfold bin_refl_ok in Hrefl. rewrite Eo, Em in Hrefl.
          destruct (lookup_assoc m py_reflected) as [rm|]; [|discriminate]. unfold emethod_named.
          destruct (lookup_assoc rm tensor_methods) as [[o' [|]| |]|]; try discriminate.
          apply String.eqb_eq in Hrefl. subst o'. exact E3.
        * rewrite <- (Rv_scalar _ _ Ra), <- (Rv_scalar _ _ Rb) in Ess. discriminate.
    - (* ECmp *)
      intros op a b IHa IHb ee pe pv HI Hok H. cbn [expr_eok] in Hok.
      apply andb_true_iff in Hok. destruct Hok as [Hok Hns]. apply andb_true_iff in Hok. destruct Hok as [Hok Hfwd].
      apply andb_true_iff in Hok. destruct Hok as [Hoka Hokb]. apply negb_true_iff in Hns.
      unfold cmp_fwd_ok in Hfwd. cbn [PySem.eval_expr] in H.
      destruct (lookup_assoc op primop_map) as [o|] eqn:Eo; [|discriminate].
      destruct (lookup_assoc op py_dunder) as [m|] eqn:Em; [|discriminate].
      destruct (eval_expr pe a) as [va|] eqn:Ea; [|discriminate]. destruct (eval_expr pe b) as [vb|] eqn:Eb; [|discriminate].
      destruct (is_scalar V va && is_scalar V vb) eqn:Ess; [discriminate|].
      destruct (IHa ee pe _ HI Hoka Ea) as (ea & lga & Hea & Ra). destruct (IHb ee pe _ HI Hokb Eb) as (eb & lgb & Heb & Rb).
      assert (F : Forall2 (Ro Rv) [Some ea; Some eb] [Some va; Some vb]) by (repeat constructor; assumption).
      destruct ea as [xa|la].
      2:{ destruct va as [?|la' ca]; cbn in Ra; [contradiction|]. rewrite (script_scalar _ _ _ _ _ HI Hoka Ea) in Hns. discriminate. }
      destruct (lookup_assoc m tensor_methods) as [[o' [|]| |]|] eqn:Et; try discriminate.
      + apply andb_true_iff in Hfwd. destruct Hfwd as [Ho Hne]. apply String.eqb_eq in Ho. subst o'. apply negb_true_iff in Hne.
        rewrite Hne in H. destruct (promoted V sem o [Some va; Some vb]) as [args|] eqn:Ep; [|discriminate].
        destruct (sem1 V sem "" o [] args) as [r|] eqn:Es; [|discriminate]. inversion H; subst.
        destruct (eop1_sim o [] _ _ _ _ F Ep Es) as (lg3 & E3).
        exists (ET r), (lga ++ (lgb ++ lg3)). split; [|reflexivity].
        cbn [Eager.eval_e]. eapply wbind_some; [exact Hea|]. eapply wbind_some; [exact Heb|].
        unfold ebinary. rewrite Em. unfold emethod_named. rewrite Et. exact E3.
      + apply andb_true_iff in Hfwd. destruct Hfwd as [Ho Hu]. rewrite Ho in H.
        destruct (promoted V sem "Equal" [Some va; Some vb]) as [args|] eqn:Ep; [|discriminate].
        destruct (sem1 V sem "" "Equal" [] args) as [t|] eqn:Es; [|discriminate].
        destruct (sem1 V sem "" "Not" [] [Some t]) as [r|] eqn:Es2; [|discriminate]. inversion H; subst.
        destruct (eop1_sim "Equal" [] _ _ _ _ F Ep Es) as (lg3 & E3).
        destruct (eop1_unary "Not" t r Hu Es2) as (lg4 & E4).
        exists (ET r), (lga ++ (lgb ++ (lg3 ++ lg4))). split; [|reflexivity].
        cbn [Eager.eval_e]. eapply wbind_some; [exact Hea|]. eapply wbind_some; [exact Heb|].
        unfold ebinary. rewrite Em. unfold emethod_named. rewrite Et. unfold emethod.
        eapply wbind_some; [exact E3 | exact E4].
    - (* ECall *)
      intros f args kws HF ee pe pv HI Hok H. cbn [expr_eok] in Hok. apply andb_true_iff in Hok. destruct Hok as [Hargs Hk].
      change (args_eok f args = true) in Hargs.
      change (eval_expr pe (ECall f args kws)) with
        (match pargs_of pe args with
         | None => None
         | Some vals =>
           match f with
           | COp name => match promoted V sem name vals with
                         | Some args' => option_map (PT V) (sem1 V sem "" name (map kw_attr kws) args')
                         | None => None
                         end
           | CFun name => option_map (PT V) (sem1 V sem "this" name (map kw_attr kws) (map (option_map (tensor_of V)) vals))
           end
         end) in H.
      destruct (pargs_of pe args) as [vals|] eqn:Ev; [|discriminate].
      destruct (args_sim f ee pe args HI HF Hargs vals Ev) as (evals & lg1 & Hes & F & T).
      assert (exists r, pv = PT V r /\
                match f with
                | COp name => match promoted V sem name vals with Some args' => sem "" name (map kw_attr kws) args' | None => None end
                | CFun name => sem "this" name (map kw_attr kws) (map (option_map (tensor_of V)) vals)
                end = Some [r]) as (r & -> & Hs).
      { destruct f as [name|name].
        - destruct (promoted V sem name vals) as [args'|]; [|discriminate].
          destruct (sem1 V sem "" name (map kw_attr kws) args') as [r|] eqn:Es; [|discriminate]. inversion H; subst.
          exists r. split; [reflexivity | apply sem1_inv; exact Es].
        - destruct (sem1 V sem "this" name (map kw_attr kws) (map (option_map (tensor_of V)) vals)) as [r|] eqn:Es; [|discriminate].
          inversion H; subst. exists r. split; [reflexivity | apply sem1_inv; exact Es]. }
      destruct (callee_sim ee pe f kws evals vals HI Hk F T [r] Hs) as (lg2 & E2).
      exists (ET r), (lg1 ++ lg2). split; [|reflexivity].
      change (eval_e ee (ECall f args kws)) with
        (wbind V (eargs_of ee args)
               (fun vals => match ecallee V sem dyn_cast fun_cast ee f kws vals with
                            | Some ([v], lg) => Some (ET v, lg)
                            | _ => None
                            end)).
      eapply wbind_some; [exact Hes|]. rewrite E2. reflexivity.
  Qed.

  (* ---------------------------------------------------------------- statements *)

  Notation for_iter := (for_iter V sem truth trip of_nat while_limit globals).
  Notation while_iter := (while_iter V sem truth trip of_nat while_limit globals).
  Notation exec_stmt1 := (exec_stmt1 V sem truth trip of_nat while_limit globals).
  Notation eexec_stmt := (eexec_stmt V sem truth trip while_limit globals dyn_cast fun_cast is_float).
  Notation eexec_list := (eexec_list V sem truth trip while_limit globals dyn_cast fun_cast is_float).
  Notation efor_iter := (efor_iter V).
  Notation ewhile_iter := (ewhile_iter V truth).

  Definition Rout (eo : eoutcome V) (o : outcome V) : Prop :=
    match eo, o with
    | ENormal _ ee, ONormal _ pe => Inv ee pe
    | EBreak _ ee, OBreak _ pe => Inv ee pe
    | EReturn _ vs, OReturn _ vs' => vs = vs'
    | _, _ => False
    end.

  Definition bsim (fu : nat) : Prop :=
    forall ss ee pe o, Inv ee pe -> block_eok S D A ss = true -> exec_block fu ss pe = Some o ->
    exists eo lg, eexec_block fu ss ee = Some (eo, lg) /\ Rout eo o.

  Lemma truth_sim : forall ev pv b, Rv ev pv -> ptruth V truth pv = Some b -> exists lg, etruth V truth ev = Some (b, lg).
  Proof.
    intros [v|l] [v'|l' c] b R H; cbn in R; try contradiction.
    - subst. cbn in *. rewrite H. eexists. reflexivity.
    - destruct R as [-> _]. destruct l' as [z|bits|b0|zs]; cbn in H; try discriminate; inversion H; subst; eexists; reflexivity.
  Qed.

  Lemma trip_sim : forall ev pv n, Rv ev pv -> ptrip V trip pv = Some n -> exists lg, etrip V trip ev = Some (n, lg).
  Proof.
    intros [v|l] [v'|l' c] n R H; cbn in R; try contradiction.
    - subst. cbn in *. rewrite H. eexists. reflexivity.
    - destruct R as [-> _]. destruct l' as [z|bits|b0|zs]; cbn in H; try discriminate; inversion H; subst; eexists; reflexivity.
  Qed.

  Lemma target_ok_spec : forall x, target_ok D A x = true -> ~ In x D /\ ~ In x A.
  Proof.
    intros x H. unfold target_ok in H. apply andb_true_iff in H. destruct H as [H1 H2].
    apply negb_true_iff in H1, H2. split; apply mem_false_not_In; assumption.
  Qed.

  Lemma inv_bind : forall ee pe x ev pv, Inv ee pe -> (~ In x D -> Rv ev pv) -> ~ In x A ->
    (forall l, ev = EP l -> In x S) -> Inv ((x, ev) :: ee) ((x, pv) :: pe).
  Proof.
    intros ee pe x ev pv (I1 & I2 & I3) R HA HS. split; [|split].
    - intros y Hy. cbn. destruct (String.eqb y x) eqn:E; [|apply I1; exact Hy].
      apply String.eqb_eq in E. subst y. cbn. apply R. exact Hy.
    - intros y l H. cbn in H. destruct (String.eqb y x) eqn:E; [|eapply I2; exact H].
      apply String.eqb_eq in E. subst y. inversion H; subst. eapply HS. reflexivity.
    - intros a l Ha Hl. cbn. destruct (String.eqb a x) eqn:E; [|apply I3; assumption].
      apply String.eqb_eq in E. subst a. contradiction.
  Qed.

  Lemma bind_sim : forall xs vs ee pe pe', Inv ee pe -> forallb (target_ok D A) xs = true ->
    pbind V xs vs pe = Some pe' -> exists ee', ebind V xs vs ee = Some ee' /\ Inv ee' pe'.
  Proof.
    induction xs as [|x t IH]; intros [|v vt] ee pe pe' HI Hok H; cbn in H; try discriminate.
    - inversion H; subst. exists ee. split; [reflexivity | exact HI].
    - cbn in Hok. apply andb_true_iff in Hok. destruct Hok as [Hx Ht]. destruct (target_ok_spec _ Hx) as [_ HxA].
      cbn [ebind]. eapply IH; [|exact Ht | exact H].
      apply inv_bind; [exact HI | intros _; reflexivity | exact HxA | intros l E; discriminate E].
  Qed.

  Lemma all_esim : forall args : list (option expr), Forall (fun o => match o with Some a => esim a | None => True end) args.
  Proof. induction args as [|[a|] t IHa]; constructor; auto. apply expr_sim. Qed.

  Lemma multi_sim : forall e ee pe vs, Inv ee pe -> expr_eok S D A e = true ->
    eval_call_multi V sem globals pe e = Some vs ->
    exists lg, eval_multi V sem truth globals dyn_cast fun_cast is_float ee e = Some (vs, lg).
  Proof.
    intros e ee pe vs HI Hok H. destruct e as [x|l0|op a|op a b|op a b|f args kws]; try (cbn [eval_call_multi] in H; discriminate).
    cbn [expr_eok] in Hok. apply andb_true_iff in Hok. destruct Hok as [Hargs Hk]. change (args_eok f args = true) in Hargs.
    change (eval_call_multi V sem globals pe (ECall f args kws)) with
      (match pargs_of pe args with
       | None => None
       | Some vals =>
         match f with
         | COp name => match promoted V sem name vals with
                       | Some args' => sem "" name (map kw_attr kws) args'
                       | None => None
                       end
         | CFun name => sem "this" name (map kw_attr kws) (map (option_map (tensor_of V)) vals)
         end
       end) in H.
    destruct (pargs_of pe args) as [vals|] eqn:Ev; [|discriminate].
    pose proof (all_esim args) as HF.
    destruct (args_sim f ee pe args HI HF Hargs vals Ev) as (evals & lg1 & Hes & F & T).
    destruct (callee_sim ee pe f kws evals vals HI Hk F T vs H) as (lg2 & E2).
    exists (lg1 ++ lg2).
    change (eval_multi V sem truth globals dyn_cast fun_cast is_float ee (ECall f args kws)) with
      (wbind V (eargs_of ee args) (fun vals => ecallee V sem dyn_cast fun_cast ee f kws vals)).
    eapply wbind_some; [exact Hes | exact E2].
  Qed.

  Definition prets_of (pe : penv) : list expr -> option (list V) :=
    fix go (l : list expr) : option (list V) :=
      match l with
      | [] => Some []
      | e :: t => match eval_expr pe e, go t with
                  | Some v, Some vs => Some (tensor_of V v :: vs)
                  | _, _ => None
                  end
      end.

  Lemma rets_sim : forall es ee pe vs, Inv ee pe ->
    forallb (fun e => expr_eok S D A e && negb (may_scalar S e)) es = true -> prets_of pe es = Some vs ->
    exists lg, eval_rets V sem truth globals dyn_cast fun_cast is_float ee es = Some (vs, lg).
  Proof.
    induction es as [|e t IH]; intros ee pe vs HI Hok H.
    - cbn in H. inversion H; subst. exists []. reflexivity.
    - cbn [forallb] in Hok. apply andb_true_iff in Hok. destruct Hok as [He Ht]. apply andb_true_iff in He. destruct He as [He1 He2].
      cbn [prets_of] in H. fold (prets_of pe) in H. destruct (eval_expr pe e) as [pv|] eqn:Ee; [|discriminate].
      destruct (prets_of pe t) as [vt|] eqn:Et; [|discriminate]. inversion H; subst.
      destruct (expr_sim e ee pe pv HI He1 Ee) as (ev & lg1 & Hev & R). destruct (IH ee pe vt HI Ht Et) as (lg2 & E2).
      destruct ev as [v|l].
      + destruct pv as [v'|]; cbn in R; [|contradiction]. subst. exists (lg1 ++ (lg2 ++ [])). cbn [eval_rets].
        eapply wbind_some; [exact Hev|]. eapply wbind_some; [exact E2 | reflexivity].
      + destruct pv as [|l' c]; cbn in R; [contradiction|]. apply negb_true_iff in He2.
        rewrite (script_scalar _ _ _ _ _ HI He1 Ee) in He2. discriminate.
  Qed.

  Lemma for_sim : forall fu i body, bsim fu -> block_eok S D A body = true -> In i D -> In i S -> ~ In i A ->
    forall k j ee pe o, Inv ee pe -> for_iter fu i body k j pe = Some o ->
    exists eo lg, efor_iter (eexec_block fu) i body k j ee = Some (eo, lg) /\ Rout eo o.
  Proof.
    intros fu i body Hb Hok HiD HiS HiA. induction k as [|k IH]; intros j ee pe o HI H; cbn [AnalysisProofs.for_iter] in H.
    - inversion H; subst. exists (ENormal V ee), []. split; [reflexivity | exact HI].
    - destruct (exec_block fu body ((i, PT V (of_nat j)) :: pe)) as [o1|] eqn:E1; [|discriminate].
      assert (HI1 : Inv ((i, EP (LInt (Z.of_nat j))) :: ee) ((i, PT V (of_nat j)) :: pe)).
      { apply inv_bind; [exact HI | intros Hn; contradiction | exact HiA | intros l _; exact HiS]. }
      destruct (Hb body _ _ o1 HI1 Hok E1) as (eo1 & lg1 & He1 & R1).
      destruct o1 as [pe1|pe1|vs], eo1 as [ee1|ee1|evs]; cbn in R1; try contradiction.
      + destruct (IH (Datatypes.S j) ee1 pe1 o R1 H) as (eo & lg2 & He2 & R2). exists eo, (lg1 ++ lg2). split; [|exact R2].
        cbn [Eager.efor_iter]. eapply wbind_some; [exact He1 | exact He2].
      + inversion H; subst. exists (ENormal V ee1), (lg1 ++ []). split; [|exact R1].
        cbn [Eager.efor_iter]. eapply wbind_some; [exact He1 | reflexivity].
      + inversion H; subst. exists (EReturn V vs), (lg1 ++ []). split; [|reflexivity].
        cbn [Eager.efor_iter]. eapply wbind_some; [exact He1 | reflexivity].
  Qed.

  Lemma while_sim : forall fu c body, bsim fu -> block_eok S D A body = true -> ~ In c D ->
    forall k ee pe o, Inv ee pe -> while_iter fu c body k pe = Some o ->
    exists eo lg, ewhile_iter (eexec_block fu) c body k ee = Some (eo, lg) /\ Rout eo o.
  Proof.
    intros fu c body Hb Hok HcD. induction k as [|k IH]; intros ee pe o HI H; cbn [AnalysisProofs.while_iter] in H;
      pose proof (proj1 HI c HcD) as Rc;
      destruct (plookup V pe c) as [vc|]; try discriminate; destruct (elookup V ee c) as [evc|] eqn:Ec; cbn in Rc; try contradiction;
      destruct (ptruth V truth vc) as [[|]|] eqn:Et; try discriminate; destruct (truth_sim _ _ _ Rc Et) as (lgt & Etr).
    - inversion H; subst. exists (ENormal V ee), (lgt ++ []). split; [|exact HI].
      cbn [Eager.ewhile_iter]. rewrite Ec. eapply wbind_some; [exact Etr | reflexivity].
    - destruct (exec_block fu body pe) as [o1|] eqn:E1; [|discriminate].
      destruct (Hb body _ _ o1 HI Hok E1) as (eo1 & lg1 & He1 & R1).
      destruct o1 as [pe1|pe1|vs], eo1 as [ee1|ee1|evs]; cbn in R1; try contradiction.
      + destruct (IH ee1 pe1 o R1 H) as (eo & lg2 & He2 & R2). exists eo, (lgt ++ (lg1 ++ lg2)). split; [|exact R2].
        cbn [Eager.ewhile_iter]. rewrite Ec. eapply wbind_some; [exact Etr|]. cbv beta iota. eapply wbind_some; [exact He1 | exact He2].
      + inversion H; subst. exists (ENormal V ee1), (lgt ++ (lg1 ++ [])). split; [|exact R1].
        cbn [Eager.ewhile_iter]. rewrite Ec. eapply wbind_some; [exact Etr|]. cbv beta iota. eapply wbind_some; [exact He1 | reflexivity].
      + inversion H; subst. exists (EReturn V vs), (lgt ++ (lg1 ++ [])). split; [|reflexivity].
        cbn [Eager.ewhile_iter]. rewrite Ec. eapply wbind_some; [exact Etr|]. cbv beta iota. eapply wbind_some; [exact He1 | reflexivity].
    - inversion H; subst. exists (ENormal V ee), (lgt ++ []). split; [|exact HI].
      cbn [Eager.ewhile_iter]. rewrite Ec. eapply wbind_some; [exact Etr | reflexivity].
  Qed.

  Lemma stmt_sim : forall fu, bsim fu -> forall s ee pe o, Inv ee pe -> stmt_eok S D A s = true ->
    exec_stmt1 fu s pe = Some o -> exists eo lg, eexec_stmt (eexec_block fu) s ee = Some (eo, lg) /\ Rout eo o.
  Proof.
    intros fu Hb s ee pe o HI Hok H. destruct s as [x e|xs e|c t f|i b body|c body| |es]; cbn [AnalysisProofs.exec_stmt1] in H.
    - cbn [stmt_eok] in Hok. apply andb_true_iff in Hok. destruct Hok as [Hok HS]. apply andb_true_iff in Hok. destruct Hok as [He Hx].
      destruct (target_ok_spec _ Hx) as [HxD HxA].
      destruct (eval_expr pe e) as [pv|] eqn:Ee; [|discriminate]. inversion H; subst.
      destruct (expr_sim e ee pe pv HI He Ee) as (ev & lg & Hev & R).
      exists (ENormal V ((x, ev) :: ee)), (lg ++ []). split; [cbn [Eager.eexec_stmt]; eapply wbind_some; [exact Hev | reflexivity]|].
      cbn. apply inv_bind; [exact HI | intros _; exact R | exact HxA|].
      intros l El. subst ev. destruct pv as [|l' c]; cbn in R; [contradiction|].
      rewrite (script_scalar _ _ _ _ _ HI He Ee) in HS. cbn in HS. apply mem_In. exact HS.
    - cbn [stmt_eok] in Hok. apply andb_true_iff in Hok. destruct Hok as [He Hxs].
      destruct (eval_call_multi V sem globals pe e) as [vs|] eqn:Ee; [|discriminate].
      destruct (pbind V xs vs pe) as [pe'|] eqn:Eb; [|discriminate]. inversion H; subst.
      destruct (multi_sim e ee pe vs HI He Ee) as (lg & Hm). destruct (bind_sim xs vs ee pe pe' HI Hxs Eb) as (ee' & Heb & HI').
      exists (ENormal V ee'), (lg ++ []). split; [|exact HI'].
      cbn [Eager.eexec_stmt]. eapply wbind_some; [exact Hm|]. rewrite Heb. reflexivity.
    - cbn [stmt_eok] in Hok. apply andb_true_iff in Hok. destruct Hok as [Hok Hf]. apply andb_true_iff in Hok. destruct Hok as [Hc Ht].
      change (block_eok S D A t = true) in Ht. change (block_eok S D A f = true) in Hf.
      destruct (eval_expr pe c) as [vc|] eqn:Ec; [|discriminate]. destruct (ptruth V truth vc) as [[|]|] eqn:Et; try discriminate.
      + destruct (expr_sim c ee pe vc HI Hc Ec) as (ev & lg1 & Hev & R). destruct (truth_sim _ _ _ R Et) as (lg2 & Etr).
        destruct (Hb t ee pe o HI Ht H) as (eo & lg3 & He3 & R3). exists eo, (lg1 ++ (lg2 ++ lg3)). split; [|exact R3].
        cbn [Eager.eexec_stmt]. eapply wbind_some; [exact Hev|]. eapply wbind_some; [exact Etr | exact He3].
      + destruct (expr_sim c ee pe vc HI Hc Ec) as (ev & lg1 & Hev & R). destruct (truth_sim _ _ _ R Et) as (lg2 & Etr).
        destruct (Hb f ee pe o HI Hf H) as (eo & lg3 & He3 & R3). exists eo, (lg1 ++ (lg2 ++ lg3)). split; [|exact R3].
        cbn [Eager.eexec_stmt]. eapply wbind_some; [exact Hev|]. eapply wbind_some; [exact Etr | exact He3].
    - cbn [stmt_eok] in Hok. apply andb_true_iff in Hok. destruct Hok as [Hok Hbody]. apply andb_true_iff in Hok. destruct Hok as [Hok HiA].
      apply andb_true_iff in Hok. destruct Hok as [Hok HiS]. apply andb_true_iff in Hok. destruct Hok as [Hbd HiD].
      change (block_eok S D A body = true) in Hbody. apply mem_In in HiD, HiS. apply negb_true_iff in HiA. apply mem_false_not_In in HiA.
      destruct (eval_expr pe b) as [vb|] eqn:Eb; [|discriminate]. destruct (ptrip V trip vb) as [n|] eqn:Et; [|discriminate].
      destruct (expr_sim b ee pe vb HI Hbd Eb) as (ev & lg1 & Hev & R). destruct (trip_sim _ _ _ R Et) as (lg2 & Etr).
      destruct (for_sim fu i body Hb Hbody HiD HiS HiA n 0 ee pe o HI H) as (eo & lg3 & He3 & R3).
      exists eo, (lg1 ++ (lg2 ++ lg3)). split; [|exact R3].
      cbn [Eager.eexec_stmt]. eapply wbind_some; [exact Hev|]. eapply wbind_some; [exact Etr | exact He3].
    - cbn [stmt_eok] in Hok. apply andb_true_iff in Hok. destruct Hok as [HcD Hbody]. change (block_eok S D A body = true) in Hbody.
      apply negb_true_iff in HcD. apply mem_false_not_In in HcD.
      exact (while_sim fu c body Hb Hbody HcD while_limit ee pe o HI H).
    - inversion H; subst. exists (EBreak V ee), []. split; [reflexivity | exact HI].
    - cbn [stmt_eok] in Hok. fold (prets_of pe) in H. destruct (prets_of pe es) as [vs|] eqn:Er; [|discriminate]. inversion H; subst.
      destruct (rets_sim es ee pe vs HI Hok Er) as (lg & E). exists (EReturn V vs), (lg ++ []). split; [|reflexivity].
      cbn [Eager.eexec_stmt]. eapply wbind_some; [exact E | reflexivity].
  Qed.

  Theorem block_sim : forall fuel, bsim fuel.
  Proof.
    induction fuel as [|fu IH]; intros ss ee pe o HI Hok H; [discriminate|].
    revert ee pe o HI H. induction ss as [|s rest IHs]; intros ee pe o HI H.
    - cbn in H. inversion H; subst. exists (ENormal V ee), []. split; [reflexivity | exact HI].
    - cbn [block_eok forallb] in Hok. apply andb_true_iff in Hok. destruct Hok as [Hs Hrest].
      rewrite exec_block_cons in H. destruct (exec_stmt1 fu s pe) as [o1|] eqn:E1; [|discriminate].
      destruct (stmt_sim fu IH s ee pe o1 HI Hs E1) as (eo1 & lg1 & He1 & R1).
      change (eexec_block (Datatypes.S fu) (s :: rest) ee) with
        (wbind V (eexec_stmt (eexec_block fu) s ee)
               (fun o => match o with
                         | ENormal _ env' => eexec_block (Datatypes.S fu) rest env'
                         | o' => wret V o'
                         end)).
      destruct o1 as [pe1|pe1|vs], eo1 as [ee1|ee1|evs]; cbn in R1; try contradiction.
      + destruct (IHs Hrest ee1 pe1 o R1 H) as (eo & lg2 & He2 & R2). exists eo, (lg1 ++ lg2). split; [|exact R2].
        eapply wbind_some; [exact He1 | exact He2].
      + inversion H; subst. exists (EBreak V ee1), (lg1 ++ []). split; [|exact R1]. eapply wbind_some; [exact He1 | reflexivity].
      + inversion H; subst. exists (EReturn V vs), (lg1 ++ []). split; [|reflexivity]. eapply wbind_some; [exact He1 | reflexivity].
  Qed.

  (* ---------------------------------------------------------------- a whole call *)

  Hypothesis LA : forall a k l c, lookup_assoc a avals = Some l -> kind_ok k l = true ->
    attr_tensor V sem a k = Some c -> const_val V sem l = Some c.

  Definition J (Q : string -> Prop) (ee : eenv) (pe : penv) : Prop :=
    (forall x, Ro Rv (elookup V ee x) (plookup V pe x)) /\
    (forall x l, elookup V ee x = Some (EP l) -> Q x /\ lookup_assoc x avals = Some l) /\
    (forall a, Q a -> exists l, elookup V ee a = Some (EP l)).

  Lemma J_equiv : forall (Q Q' : string -> Prop) ee pe, (forall x, Q x <-> Q' x) -> J Q ee pe -> J Q' ee pe.
  Proof.
    intros Q Q' ee pe E (J1 & J2 & J3). split; [exact J1 | split].
    - intros x l H. destruct (J2 x l H) as [Hq Hl]. split; [apply E; exact Hq | exact Hl].
    - intros a Ha. apply J3. apply E. exact Ha.
  Qed.

  Lemma init_tensors : forall (Q : string -> Prop) xs vs ee pe pe',
    (forall y, Ro Rv (elookup V ee y) (plookup V pe y)) ->
    (forall y l, elookup V ee y = Some (EP l) -> Q y /\ lookup_assoc y avals = Some l) ->
    pbind V xs vs pe = Some pe' ->
    exists ee', ebind V xs vs ee = Some ee' /\ (forall x, Ro Rv (elookup V ee' x) (plookup V pe' x)) /\
               (forall x l, elookup V ee' x = Some (EP l) -> Q x /\ lookup_assoc x avals = Some l).
  Proof.
    intros Q. induction xs as [|x0 t0 IH0]; intros [|v0 vt0] ee0 pe0 pe' G1 G2 H; cbn in H; try discriminate.
    - inversion H; subst. exists ee0. split; [reflexivity | split; assumption].
    - cbn [ebind]. eapply IH0; [| |exact H].
      + intros y. cbn. destruct (String.eqb y x0); [reflexivity | apply G1].
      + intros y l Hy. cbn in Hy. destruct (String.eqb y x0); [discriminate | eapply G2; exact Hy].
  Qed.

  Lemma init_attrs : forall aps ee pe pe' (Q : string -> Prop), J Q ee pe -> bind_attrs V sem aps avals pe = Some pe' ->
    exists ee', ebind_attrs V aps avals ee = Some ee' /\ J (fun x => Q x \/ In x (map (fun a => fst (fst a)) aps)) ee' pe'.
  Proof.
    induction aps as [|[[a k] d] t IH]; intros ee pe pe' Q HJ H.
    - cbn in H. inversion H; subst. exists ee. split; [reflexivity|]. eapply J_equiv; [|exact HJ]. intros x. cbn. tauto.
    - cbn [bind_attrs] in H. destruct (lookup_assoc a avals) as [l|] eqn:El; [|discriminate].
      destruct (attr_tensor V sem a k) as [c|] eqn:Ec; [|discriminate]. destruct (kind_ok k l) eqn:Ek; [|discriminate].
      cbn [ebind_attrs]. rewrite El.
      assert (HJ' : J (fun x => Q x \/ x = a) ((a, EP l) :: ee) ((a, PS V l c) :: pe)).
      { destruct HJ as (J1 & J2 & J3). split; [|split].
        - intros x. cbn. destruct (String.eqb x a); [|apply J1]. cbn. split; [reflexivity | eapply LA; eassumption].
        - intros x l0 Hx. cbn in Hx. destruct (String.eqb x a) eqn:E.
          + apply String.eqb_eq in E. subst x. inversion Hx; subst. split; [right; reflexivity | exact El].
          + destruct (J2 x l0 Hx) as [Hq Hl]. split; [left; exact Hq | exact Hl].
        - intros a0 Hq0. cbn. destruct (String.eqb a0 a) eqn:E; [eexists; reflexivity|].
          destruct Hq0 as [Hq|Hq]; [apply J3; exact Hq|]. subst. rewrite String.eqb_refl in E. discriminate. }
      destruct (IH _ _ pe' _ HJ' H) as (ee' & He & HJ''). exists ee'. split; [exact He|].
      eapply J_equiv; [|exact HJ'']. intros x. cbn. split; [intros [[H1|H1]|H1] | intros [H1|[H1|H1]]]; subst; auto.
  Qed.

  Theorem eager_eq_script : forall fuel f xs vs,
    attr_names f = A -> (forall a, In a A -> In a S) -> block_eok S D A (f_body f) = true ->
    eval_script_attrs V sem truth trip of_nat while_limit globals fuel f xs avals = Some vs ->
    eval_eager V sem truth trip while_limit globals dyn_cast fun_cast is_float fuel f xs avals = Some vs.
  Proof.
    intros fuel f xs vs HA HAS Hok H. unfold eval_script_attrs in H. unfold eval_eager, eval_eager_log.
    destruct (pbind V (f_tparams f) xs []) as [pe0|] eqn:E0; [|discriminate].
    destruct (bind_attrs V sem (f_aparams f) avals pe0) as [pe1|] eqn:E1; [|discriminate].
    destruct (exec_block fuel (f_body f) pe1) as [[?|?|rs]|] eqn:E2; try discriminate. inversion H; subst rs.
    assert (J0 : J (fun _ => False) [] []).
    { split; [intros x; exact I | split; [intros x l Hx; discriminate | intros a []]]. }
    destruct (init_tensors (fun _ => False) _ _ [] [] _ (proj1 J0) (proj1 (proj2 J0)) E0) as (ee0 & He0 & T1 & T2). rewrite He0.
    assert (J1 : J (fun _ => False) ee0 pe0).
    { split; [exact T1 | split; [exact T2 | intros a []]]. }
    destruct (init_attrs _ _ _ _ _ J1 E1) as (ee1 & He1 & (K1 & K2 & K3)). rewrite He1.
    assert (HI : Inv ee1 pe1).
    { split; [intros x _; apply K1 | split].
      - intros x l Hx. destruct (K2 x l Hx) as [[[]|Hq] _]. apply HAS. rewrite <- HA. exact Hq.
      - intros a l Ha Hl. rewrite <- HA in Ha. destruct (K3 a (or_intror Ha)) as (l' & Hl'). destruct (K2 a l' Hl') as [_ Hl2].
        rewrite Hl in Hl2. inversion Hl2; subst. exact Hl'. }
    destruct (block_sim fuel (f_body f) ee1 pe1 _ HI Hok E2) as (eo & lg & He & R).
    rewrite He. destruct eo as [?|?|evs]; cbn in R; try contradiction. subst. reflexivity.
  Qed.
End EagerProofs.

(* the kernel that resolves reference attributes by the attribute values of the call satisfies sem_resolves, for every kernel *)
Lemma resolve1_idem : forall avals kv, resolve1 avals (resolve1 avals kv) = resolve1 avals kv.
Proof.
  intros avals [k v]. destruct v; try reflexivity.
  assert (E : resolve1 avals (k, ARef name) =
              match lookup_assoc name avals with Some l => (k, lit_kwattr l) | None => (k, ARef name) end) by reflexivity.
  rewrite E. destruct (lookup_assoc name avals) as [l|] eqn:El.
  - destruct l; reflexivity.
  - unfold resolve1. cbn [snd fst]. rewrite El. reflexivity.
Qed.

Lemma sem_res_resolves : forall (V : Type) avals (sem0 : string -> string -> list (string * attrv) -> list (option V) -> option (list V))
  d o attrs args, sem_res avals sem0 d o (map (resolve1 avals) attrs) args = sem_res avals sem0 d o attrs args.
Proof.
  intros. unfold sem_res. f_equal. rewrite map_map. apply map_ext. intros kv. apply resolve1_idem.
Qed.

(* with no attribute parameters the extended reading is the reading of Script/PySem.v *)
Lemma eval_script_attrs_nil : forall (V : Type) sem truth trip of_nat while_limit globals fuel f (xs : list V) avals,
  f_aparams f = [] ->
  eval_script_attrs V sem truth trip of_nat while_limit globals fuel f xs avals
  = eval_script V sem truth trip of_nat while_limit globals fuel f xs.
Proof.
  intros. unfold eval_script_attrs, eval_script. rewrite H. destruct (pbind V (f_tparams f) xs []); reflexivity.
Qed.
